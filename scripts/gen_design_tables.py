#!/usr/bin/env python3
# Regenerates the generated blocks of DESIGN.md (rule inventory from the evidence files of the last run; seeded /
# benign tables from the meta.json files) between the <!-- BEGIN/END GENERATED name --> markers.
import json, glob, re, os
V = '/verif'
def inventory():
    out = []
    for f in sorted(glob.glob(V + '/evidence/C*.json')):
        e = json.load(open(f)); c = e['coverage']
        rules = c['rule'].split('Rules: ', 1)[1].split(' || ')
        out.append(f"**{e['property_id']}** — {c['obligations']} obligations on the current tree, {c.get('known_findings', 0)} known findings\n")
        for r in rules:
            m = re.match(r'(\S+) \((\d+) instances, min (\d+)\): (.*)', r, re.S)
            out.append(f"* `{m.group(1)}` ({m.group(2)} sites; floor {m.group(3)}): {m.group(4)}")
        out.append('')
    return '\n'.join(out)
def seeds():
    rows = ['| id | what the change does | needs, to manifest | caught by (properties) | rules that fire |', '|---|---|---|---|---|']
    for d in sorted(os.listdir(V + '/seeded')):
        mp = f'{V}/seeded/{d}/meta.json'
        if not os.path.exists(mp): continue
        m = json.load(open(mp))
        t = re.sub(r'^C\d+-B?\d:?\s*', '', m['title']).replace('|', '/')
        n = m.get('needs_to_manifest', '').replace('|', '/')
        if len(n) > 160: n = n[:157] + '…'
        if len(t) > 150: t = t[:147] + '…'
        rows.append(f"| {m['id']} | {t} | {n} | {', '.join(m['detected_by_properties'])} | {', '.join(m['detected_by_rules'])} |")
    return '\n'.join(rows)
def benign():
    rows = ['| id | edit | alarms |', '|---|---|---|']
    for d in sorted(os.listdir(V + '/benign')):
        mp = f'{V}/benign/{d}/meta.json'
        if not os.path.exists(mp): continue
        m = json.load(open(mp))
        t = re.sub(r'^C\d+-G\d:?\s*', '', m['title']).replace('|', '/')
        if len(t) > 170: t = t[:167] + '…'
        rows.append(f"| {m['id']} | {t} | {', '.join(m['observed_alarms']) or 'none'} |")
    return '\n'.join(rows)
gen = {'inventory': inventory, 'seeds': seeds, 'benign': benign}
s = open(V + '/DESIGN.md').read()
for name, fn in gen.items():
    a, b = f'<!-- BEGIN GENERATED {name} -->', f'<!-- END GENERATED {name} -->'
    if a in s and b in s:
        i, j = s.index(a) + len(a), s.index(b)
        s = s[:i] + '\n' + fn() + '\n' + s[j:]
open(V + '/DESIGN.md', 'w').write(s)
