#!/bin/bash
# usage: trymut.sh <file-relative-to-repo> <python-replace-old> <python-replace-new> <props>
# applies one textual mutation to /repo, checks it still compiles, runs the checks, reverts.
set -u
F=$1; OLD=$2; NEW=$3; PROPS=${4:-all}
cd /repo
if [ -n "$(git status --porcelain)" ]; then echo "repo dirty"; exit 2; fi
python3 - "$F" "$OLD" "$NEW" <<'PY' || { git reset -q --hard HEAD; exit 2; }
import sys
f,old,new=sys.argv[1:4]
s=open(f).read()
if s.count(old)<1: print("MUTATION-TARGET-NOT-FOUND"); sys.exit(1)
open(f,'w').write(s.replace(old,new,1))
PY
CGO_ENABLED=0 go vet -mod=mod ./$(dirname $F) >/dev/null 2>/tmp/mut.err
if grep -E "^(\./)?(cmd|lib|keymasterd|eventmon|proto)/[^ ]*\.go:[0-9]+:[0-9]+: " /tmp/mut.err | grep -qv "fmt.Sprintf format\|possible misuse\|call has arguments\|unkeyed fields\|composite literal\|should have signature\|self-assignment\|unreachable code\|result of .* call not used\|Printf format\|Debugf format\|Errorf format\|wrong type\|arg list\|lock by value\|copies lock"; then echo "MUTANT-DOES-NOT-COMPILE"; grep -E "\.go:[0-9]+" /tmp/mut.err | head -3; git reset -q --hard HEAD; exit 2; fi
mkdir -p /tmp/kmseed-verif; cp /verif/known_findings.json /tmp/kmseed-verif/
/verif/bin/kmcheck -prop "$PROPS" -verif /tmp/kmseed-verif 2>&1 | grep -E "^(FAIL|PASS)" | cut -c1-260 | head -${MAXLINES:-10}
git reset -q --hard HEAD
