#!/bin/bash
# usage: tryw.sh [-v] <dir-with-patch.diff>... : applies each patch in a scratch worktree of /repo (/tmp/tryw, kept
# between calls, reset before each patch), runs all checks against it and prints the alarms; -v prints the failed
# obligations too. /repo itself is not touched.
V=0; [ "$1" = "-v" ] && { V=1; shift; }
W=/tmp/tryw; VV=/tmp/tryw-v
[ -d $W/.git ] || [ -f $W/.git ] || git -C /repo worktree add -q --detach $W HEAD || exit 2
mkdir -p $VV; cp /verif/known_findings.json $VV/
for d in "$@"; do
  id=$(basename $d)
  ( cd $W && git reset -q --hard $(git -C /repo rev-parse HEAD) && git clean -fdq . && git apply $d/patch.diff ) || { echo "$id APPLY-FAILED"; continue; }
  /verif/bin/kmcheck -prop ${PROP:-all} -repo $W -verif $VV > $VV/out-$id.txt 2>&1
  hits=$(grep -oE "^VIOLATION property=C[0-9]+" $VV/out-$id.txt | sort -u | sed 's/VIOLATION property=//' | paste -sd, )
  rules=$(grep -oE "^(FAIL |.*ANCHOR-LOST rule=)R-C[0-9]+-[0-9]+" $VV/out-$id.txt | grep -oE "R-C[0-9]+-[0-9]+" | sort -u | paste -sd, )
  echo "$id alarms=${hits:-NONE} rules=${rules:-none}"
  [ $V = 1 ] && grep -E "^FAIL|^NOTE recorded" -A3 $VV/out-$id.txt | grep -v "^VIOLATION\|^--"
done
( cd $W && git reset -q --hard && git clean -fdq . )
