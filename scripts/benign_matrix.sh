#!/bin/bash
# Applies every behaviour-preserving edit under /verif/benign to /repo in turn, runs all checks and restores the
# tree. No check may raise an alarm; exits 1 and prints the id if one does.
SRCROOT=${1:-/verif/benign}
cd /repo
[ -n "$(git status --porcelain)" ] && { echo "repo dirty"; exit 2; }
mkdir -p /tmp/kmseed-verif; cp /verif/known_findings.json /tmp/kmseed-verif/
BAD=0
for d in $(ls $SRCROOT | grep -E "^C[0-9]+-G[0-9]+$"); do
  if ! git apply $SRCROOT/$d/patch.diff 2>/dev/null; then echo "$d APPLY-FAILED"; git reset -q --hard HEAD; continue; fi
  /verif/bin/kmcheck -prop all -verif /tmp/kmseed-verif > /tmp/kmseed-verif/out.txt 2>&1
  hits=$(grep -oE "^VIOLATION property=C[0-9]+" /tmp/kmseed-verif/out.txt | sort -u | sed 's/VIOLATION property=//' | paste -sd, )
  rules=$(grep -oE "^(FAIL |.*ANCHOR-LOST rule=)R-C[0-9]+-[0-9]+" /tmp/kmseed-verif/out.txt | grep -oE "R-C[0-9]+-[0-9]+" | sort -u | paste -sd, )
  echo "$d alarms=${hits:-NONE} rules=${rules:-none}"
  [ -n "$hits" ] && BAD=1
  git reset -q --hard HEAD; git clean -fdq -- . 2>/dev/null
done
exit $BAD
