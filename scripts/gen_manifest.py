#!/usr/bin/env python3
"""Generates /verif/MANIFEST.json from the table below (one entry per claimed property)."""
import json, sys
CLAIMED = {
 # id: (technique, level text, level_note, design_ref)
 "C01": ("guard-fact dataflow (must-pass-through) over go/ssa with wrapper summaries; decision-structure classification of the level flag",
         "Structural necessary conditions decided for all CFG paths of the current source: every user-certificate signing call is dominated by sealed gate, successful checkAuth, sufficient-level flag, target==authenticated user and POST; each assignment of the level flag is controlled by exactly one listed-method test paired with the same-named credential bit; inside checkAuth each credential bit / success return is dominated by its verifier. Not a proof of the request matrix.",
         "Trusts go/types+go/ssa (x/tools v0.50.0), go-jose signature verification, crypto/tls chain verification. Decides code shape on every path; does not execute or enumerate requests.", "DESIGN.md §3 C01"),
 "C06": ("route table extraction from main.main SSA + reachability + guard-fact dataflow per (route, protected sink); reviewed mask table; CSRF / deny-list / CA-separation dominance rules",
         "For every service-mux route extracted at check time and every protected sink reachable from it, the credential fact required by the route's kind dominates the sink on all paths; admission masks equal a reviewed reference; every success return of checkAuth is preceded by the CSRF test; keymaster-signed chains pass the deny list and the role-CA separation. Structural, all paths, current source.",
         "Sink table and route-kind table are part of the trusted base (keyed by resolved objects, one reason each); new routes default to the strictest kind. Trusts crypto/tls and net/http.", "DESIGN.md §3 C06"),
 "C02": ("field-store provenance of certificate templates reaching signing calls, value identity between validated and certified key, closure analysis of the extension mapper, signer/CA pairing by value identity",
         "The SSH and X.509 templates that reach a signing call carry exactly the user parameter, the parsed submitted key, end-entity flags and (SSH) a fresh map of five standard extensions plus copies of the caller's; at the call sites the user argument is the authenticated name and the certified key is the very value read from the request and strength-checked; the extension mapper substitutes only USERNAME; signer and CA certificate are a pair. Structural provenance, all stores, current source.",
         "Trusts x/crypto/ssh and crypto/x509 encoders. Certificate bytes are not inspected.", "DESIGN.md §3 C02"),
 "C03": ("symbolic bound dataflow: comparison facts on CFG edges + transitive <= prover (constants and SSA values, no concrete values); provenance of validity-field stores; lower-bound obligation at unsigned conversions",
         "At the three issuing calls of the certificate handler the duration is proven <= 24 h, <= time.Until(authInfo.IssuedAt+24 h) and >= 0 on every path; in every issuing library function the validity fields are now / now+D with D exactly the bounded parameter or a constant within the cap (45 d automation, 24 h cloud role); every duration-to-unsigned conversion is dominated by duration >= 0.",
         "Trusts time package semantics (Until, Add) and go/ssa. Bounds are symbolic, for all inputs; the clock is not modelled.", "DESIGN.md §3 C03"),
 "C04": ("who-may-call rules for verification APIs, producer/consumer agreement on kind discriminators (struct tags and constants), dominance of honour points by kind / issuer / audience / not-before / expiry tests",
         "For each of the five JWTClaims consumers: verification cannot be skipped, only published keys and their asymmetric algorithms are accepted, every honour point is dominated by the kind test (whose (json key, constant) pair no other producer emits), by issuer/audience/nbf tests where required, and by a comparison of the signed expiry with the clock. All paths, current source.",
         "Trusts go-jose for signatures and algorithm enforcement. Honour points are success returns, minting calls, identity lookups and response bodies after verification.", "DESIGN.md §3 C04"),
 "C05": ("upgrade-site analysis: level-operand shape, verifier-success dominance with role/provenance of the user operand, subject binding of the re-signed cookie, consumption of one-time values",
         "Every site that raises or creates a session level: the level operand is the authenticated level OR constant bits; each added bit is dominated on all paths by its verifier's success edge applied to the authenticated user (or a record bound to that user); the re-signed cookie's subject is compared with that user; one-time values are consumed before the upgrade and expired ones refused. Structural, all paths, current source; not an enumeration of histories.",
         "Trusts the verifier libraries (u2f, webauthn, otp, vip, okta) and go-jose. Verifier table keyed by factor bit is part of the checker.", "DESIGN.md §3 C05"),
 "C09": ("who-may-write table for the signer fields, must-lockset analysis of unsealCA, dominance of decrypt/load/ready-send by their preconditions, per-route sealed-gate dominance of primitive signing calls, structural check of the key-publication loop",
         "Signer family written only by reviewed writers with Signer stored last; unsealCA holds the mutex from entry to every return, tests already-unsealed before decrypting, loads only after successful decryption, signals readiness only after a successful load of a sealed server; injection requires a verified client chain; every primitive signing call reachable from a service route is dominated by the sealed gate; readiness 200 only when unsealed; publication of public keys follows every load. All paths, current source.",
         "Trusts sync.Mutex, go/ssa. Interleavings are covered only through lock discipline and single-store structure, not enumerated.", "DESIGN.md §3 C09"),
 "C10": ("value identity between strength-checked and certified key on each issuing path; threshold extraction from the strength function's comparison facts; status-constant check on refusal edges; panic-construct scan of decoder functions with length/nil guard recognition and a reviewed table",
         "Each of the six issuing paths certifies the key value that passed ValidatePublicKeyStrength on a dominating edge; the strength function's accepting returns are dominated by comparisons at least as strict as RSA>=2048/e>=65537, curve>224 bits, Ed25519; weak-key exits carry 4xx constants; every index/slice/assertion/panic/PEM dereference in the decoder functions is dominated by a recognised guard or listed in a reviewed table keyed by function and expression.",
         "Does not cover panics inside third-party parsers (crypto/x509, x/crypto/ssh, go-jose, encoding/asn1): that part of the property (fuzzing) is outside static reach and stated as not decided.", "DESIGN.md §3 C10"),
 "C11": ("return-case analysis of the IP verifier, role/provenance of refreshed identity and netblocks, structural encoder/decoder agreement (bit length, byte count, mask, family constant), bounded-copy obligations",
         "The verifier accepts only on Contains(peer) with the peer parsed from the TCP address; the IP-certificate credential is granted only on helper success and never doubles as an ordinary certificate; refresh copies identity and netblocks from the authenticated certificate; encoder and decoder agree structurally and the decoder's copy is bounded.",
         "The numerical iff over all prefixes/addresses (a value round trip) is not decided; net.IPNet.Contains/CIDRMask/asn1 are trusted.", "DESIGN.md §3 C11"),
 "C13": ("return-case dominance in the redirect validator, classification of the verdict's true-sources, shape check of the shared host predicate, sibling agreement, redirect-target provenance",
         "Every possibly-true return of the validator is dominated by parse ok, https, empty query and no '..'; its verdict is true only from configured domain/pattern matches combined as the configuration demands; the shared host predicate accepts only equality or a dot-bounded suffix; the three sibling sites use that predicate on Hostname(); the handler redirects only to the validated string on the true edge.",
         "net/url semantics (user-info, ports, encodings) are trusted; operator-configured regular expressions are not analysed.", "DESIGN.md §3 C13"),
 "C14": ("guard-fact dominance of the backend dispatcher by the limiter, return-case analysis of the limiter, clamp recognition at the limiter's construction, must-lockset analysis of the TOTP spacing section, discarded-result and write-back rules for the lock-out record",
         "Every password backend lookup is dominated by a consumed limiter token (Allow() true) and the excess is answered 429; the limiter is built once from clamped configuration; the TOTP validator reads/tests/updates the last-check time in one uninterrupted critical section with a constant >= 2 s and tests spacing and lock-out before any secret use; lock-out bookkeeping is stored, not discarded.",
         "The quantitative rate (x/time/rate) and timing are trusted / not decided; sync.Mutex provides exclusion.", "DESIGN.md §3 C14"),
 "C15": ("type-structure check of the gob-encoded profile, receiver-provenance and ordering analysis of the synchronisation transaction, constant-SQL inspection (DML through Query, table names), guard-fact dominance of every profile save by 'not from cache', send-dominance in the storage readers",
         "All module structs reachable from the stored profile have only exported fields; the cache synchronisation is exactly one destination transaction through which every statement runs, with deferred rollback and Commit last; no DML is issued through Query/QueryRow; every inserted table is emptied in the same transaction first; every save of a loaded profile is dominated by fromCache == false; storage readers answer only after a successful Prepare so that an unreachable primary falls back to the cache.",
         "SQL engine atomicity, crash points and byte-identical round trips are not decided; database/sql and encoding/gob are trusted.", "DESIGN.md §3 C15"),
 "C16": ("must-lockset analysis (with caller entry locksets) against a frozen guard table; happens-before shaped signer rule (writes locked, admin reads locked, service listener after the ready receive); uninterrupted-critical-section rule for check-then-consume; load-modify-save detection for profiles",
         "Every access to a guarded map holds its mutex outside single-threaded initialisation; the signer family is written under the state mutex or at start-up and read under it by the unsealing handlers, and the service listener starts only after the ready receive; challenge lookup+consume, the TOTP gate and the unsealing transition are single critical sections; every profile load-modify-save is detected - none is serialised today, recorded as 14 known findings (one per site) so that a new unserialised site is still reported.",
         "Schedules are not enumerated and the race detector is not run; sync.Mutex semantics and the channel happens-before rule are trusted. Lock-free reads of the published keys from the admin log filter are reported as an observation, not an obligation.", "DESIGN.md §3 C16"),
 "C17": ("provenance classification of every redirect target (constants, constant prefixes, filter output, filter-only field, tabled off-origin), store rule for the pending federated destination, dominance of the filter's accepting return by its four character tests",
         "Every http.Redirect / Location store in keymasterd has an on-origin constant (prefix) target, destination-filter output, or is one of three tabled by-design off-origin redirects; the pending federated destination only ever stores filter output; the filter returns the client's value only on paths dominated by: leading '/', no leading '//', no backslash in the path part, no control character.",
         "Browser URL resolution is trusted to follow the stated character rules; http.Redirect's path cleaning is accounted for by the no-backslash test. A parser-based (opaque) filter would be reported as a violation rather than analysed.", "DESIGN.md §3 C17"),
 "C18": ("taint/provenance analysis of every conversion to an html/template trusted-markup type (sanitiser and alphabet-safe tables, parameters followed into all callers), template-engine and writer check of every Execute call, classification of every direct response-body write",
         "Every operand converted to template.HTML & co. is built only from constants, HTML-escaped values and alphabet-safe encodings (url.URL.String() is not a sanitiser); every page is rendered by html/template; text/template never writes to a response; every direct body write is http.Error, follows a non-HTML content type, is a constant / numeric-prefixed line, or server-produced key material.",
         "html/template's contextual escaping and the browser's tokenizer are trusted; the sanitiser table is part of the checker.", "DESIGN.md §3 C18"),
 "C19": ("type-directed taint over the client packages (private-key types and private-marshal results vs request/HTTP/multipart/header/logger/connection sinks), forward-flow check of marshalled private keys to WriteFile(0600), public-only provenance of submitted key text, dominance rules of the agent upsert, client/server agreement of key types via regexp/syntax",
         "In the client packages no private-key-typed value or marshalled private key reaches a network or log sink; marshalled private keys reach only 0600 file writes (and are never chmod-ed wider); submitted key text derives only from signer.Public(); the agent upsert removes same-comment certificates of any key type before adding; every key type the client generates is in the server's key-type alternation and meets its strength constants.",
         "The client is type-checked with CGO_ENABLED=0 (only third-party flynn/u2f/u2fhid fails); bytes on the wire and the OS agent are not observed.", "DESIGN.md §3 C19"),
 "C20": ("dominance and value-identity rules tying each signing call to its publication and to every hand-out, reference enumeration of event publications, select/loop-exit analysis of the notifier fan-out, link-orientation agreement and retention-constant agreement in the event recorder",
         "Every request-serving signing call is followed on its success path by a publication of the certificate's canonical bytes that dominates every response write / return of it; login, authentication and service-provider publications match the reference list; the notifier sends only in non-blocking selects, leaves the subscriber loop only at its end and buffers subscriber channels; the history loader links first-saved-as-newest with both links (agreeing with the newest-first saver) and uses the same retention constant as the expiry.",
         "Delivery to a particular subscriber, goroutine ordering and file-system atomicity are not decided.", "DESIGN.md §3 C20"),
 "C12": ("dominance of the token-minting calls by the conjunction of code/client/expiry/redirect/type facts, decision-structure classification of the client-authentication flag, shape check of the PKCE verifier, store-provenance of token fields",
         "Both minting calls of the token endpoint are dominated on all paths by the verified code, client authentication, client==code.sub, strict expiry, equal redirect_uri and the code type; the authentication flag is true only from PKCE (secret-less client) or a non-empty secret; the PKCE verifier compares against the challenge decrypted from the same code; token/code/userinfo fields have the stated provenance (field-store analysis).",
         "Trusts go-jose and JSON encoding. Field provenance is judged per store into the token structs in the current source.", "DESIGN.md §3 C12"),
 "C07": ("value-identity and CFG-reachability rules in the LDAP authenticator, guard-fact dominance for refresh/evict and cache acceptance, provenance of the normalised user name, sibling agreement of the password backends",
         "On the answered edge the directory's boolean is returned unmodified after the refresh/evict helper, and the cache lookup is CFG-unreachable from that edge; refresh uses the 96 h constant and evicts only a matching hash; the cache accepts only a verified, unexpired record of the same user whose hash matches; both entry points normalise the name and mint the session for that value; every backend returns true only from its verifier's success edge.",
         "Trusts argon2/bcrypt, go-jose and the LDAP library. Outage/tamper histories are not enumerated; the rules are necessary structural conditions on every path.", "DESIGN.md §3 C07"),
 "C08": ("per-accessor operand binding (own user / equality / admin fact) by guard-fact dataflow followed through parameters into callers; structural check of admin predicates and cache",
         "Every profile/user-store accessor reachable from a service route has its user operand bound to the authenticated user, compared equal to it, or guarded by the administrator fact of its operation class, on every path; IsAdminUserAndU2F, IsAdminUser, the admin cache and automation-certificate minting have the required shape.",
         "Trusts go/types+go/ssa; directory content is out of scope. Operation classes (read / write / user administration) are a reviewed table keyed by handler.", "DESIGN.md §3 C08"),
}
NA_REASON = "not claimed"
def main():
    props=[json.loads(l)["id"] for l in open("/verif/properties.jsonl")]
    checks=[]
    for pid in props:
        if pid not in CLAIMED: continue
        tech, text, note, ref = CLAIMED[pid]
        checks.append({
          "property_id": pid,
          "quick_cmd": f"./bin/kmcheck -prop {pid} -tier quick",
          "thorough_cmd": f"./bin/kmcheck -prop {pid} -tier thorough",
          "evidence_file": f"/verif/evidence/{pid}.json",
          "replay_cmd_template": "./bin/kmcheck -explain {path}",
          "engine": "kmcheck",
          "level_claimed": {"category": "other", "text": text, "design_ref": ref},
          "level_note": note,
          "technique": "static analysis: " + tech,
        })
    m={
     "version": 1,
     "setup_cmd": "cd /verif/checker && env PATH=/opt/veriftools/go1.26.8/bin:$PATH GOTOOLCHAIN=local GOFLAGS=-mod=vendor GOPROXY=off GOSUMDB=off GOWORK=off go build -o /verif/bin/kmcheck ./cmd/kmcheck",
     "hooks": {"guard": "verif", "enable": "none needed: every check is a static analysis of /repo's source; no hook or instrumentation was added to the repository", "baseline_off_cmd": "/verif/scripts/baseline.sh", "source_commits": [], "add_only": True},
     "engines": [{"name": "kmcheck", "path": "/verif/checker", "serves_properties": sorted(CLAIMED), "kind_free_text": "repository-specific static analyser over go/packages + go/ssa (x/tools v0.50.0, vendored): route table, DNF guard-fact dataflow with wrapper summaries, role/provenance analysis, lockset and agreement rules"}],
     "checks": checks,
     "notes": "All checks are static analyses (technique family fixed by the brief); each rewrites its evidence file and exits 1 with VIOLATION lines on an unlisted failed obligation, a vanished anchor, a load/type error or a rule whose instance count falls below the hand-confirmed minimum. Genuine defects found were repaired by `fix:` commits in /repo and are recorded as status=fixed in /verif/known_findings.json.",
     "not_applicable": [{"property_id": p, "reason": NA_REASON} for p in props if p not in CLAIMED],
    }
    json.dump(m, open("/verif/MANIFEST.json","w"), indent=1)
    try:
        import jsonschema
        jsonschema.validate(m, json.load(open("/root/.vp/MANIFEST.schema.json")))
        print("MANIFEST valid;", len(checks), "checks,", len(m["not_applicable"]), "not applicable")
    except ImportError:
        print("written (jsonschema not available in this interpreter)")
main()
