#!/bin/bash
# usage: verify_seed.sh <seed-id> : confirms a seeded change in a scratch worktree (outside /repo and /verif):
# it applies, compiles, keeps the 143 baseline tests passing, its demonstration FAILS with it and PASSES without it.
set -u
ID=$1
SRC=${SEED_ROOT:-/verif/seeded}/$ID
PATCH=$SRC/patch.diff; [ -f $SRC/patch.rebased.diff ] && PATCH=$SRC/patch.rebased.diff
DEMO=$(ls $SRC | grep -E "demo.*\.go$" | head -1)
TGT=""; [ -f $SRC/meta.json ] && TGT=$(python3 -c "import json;print(json.load(open('$SRC/meta.json'))['demo_target'])")
[ -z "$TGT" ] && TGT=$(grep -ohE "(cmd/keymasterd|lib/[a-z/_0-9]+|keymasterd/[a-z]+|eventmon/[a-z]+)/[A-Za-z0-9_]*_test\.go" $SRC/notes.md 2>/dev/null | head -1)
WT=/tmp/seedchk-$ID
git -C /repo worktree remove --force $WT 2>/dev/null; rm -rf $WT
git -C /repo worktree add -q --detach $WT HEAD || exit 2
cd $WT
res() { echo "RESULT $ID $*"; }
if ! git apply $PATCH 2>/tmp/seedchk-$ID.err; then res "apply=FAIL"; git -C /repo worktree remove --force $WT; exit 1; fi
if ! go build -mod=mod -o /dev/null ./cmd/keymasterd 2>/tmp/seedchk-$ID.err; then res "apply=ok build=FAIL"; git -C /repo worktree remove --force $WT; exit 1; fi
# tests listen on fixed ports: run them in a private network namespace so parallel verifications do not collide
NS="unshare -n sh -c"
$NS "ip link set lo up; KM_REPO=$WT /verif/scripts/baseline.sh" > /tmp/seedchk-$ID.base 2>&1; BASE=$?
if [ $BASE -ne 0 ]; then sleep 2; $NS "ip link set lo up; KM_REPO=$WT /verif/scripts/baseline.sh" > /tmp/seedchk-$ID.base 2>&1; BASE=$?; fi
TESTS=$(grep -ohE "^func (Test[A-Za-z0-9_]+)" $SRC/$DEMO | awk '{print $2}' | paste -sd'|')
DIR=$(dirname $TGT)
cp $SRC/$DEMO $WT/$TGT
# a demonstration in the client package needs cgo off and the stub overlay delivered with the seed
EXTRA=""; PRE="TMPDIR=$WT/.tmp"; mkdir -p $WT/.tmp
if [ -f $SRC/overlay.json ]; then EXTRA="-overlay=$SRC/overlay.json"; PRE="CGO_ENABLED=0 TMPDIR=$WT/.tmp"; fi
# a demonstration of a data race needs the race detector (meta.json "demo_race": true, or the notes say so)
if grep -qs -- "-count=1 -race" $SRC/notes.md || grep -qs '"demo_race": true' $SRC/meta.json; then EXTRA="$EXTRA -race"; fi
run_demo() { for i in 1 2 3; do $NS "ip link set lo up; $PRE go test -mod=mod -vet=off -count=1 $EXTRA -run '^($TESTS)\$' ./$DIR" > /tmp/seedchk-$ID.demo 2>&1; rc=$?; if grep -q "dependency_monitor_test.go:34\|address already in use" /tmp/seedchk-$ID.demo; then sleep 3; continue; fi; return $rc; done; return $rc; }
run_demo; WITH=$?
cp /tmp/seedchk-$ID.demo /tmp/seedchk-$ID.demo.with
git apply -R $PATCH
run_demo; WITHOUT=$?
res "apply=ok build=ok baseline_rc=$BASE demo_with_change_rc=$WITH demo_without_change_rc=$WITHOUT tests=$TESTS target=$TGT"
cd /; git -C /repo worktree remove --force $WT; rm -rf /tmp/keymasterd* 2>/dev/null
[ $BASE -eq 0 ] && [ $WITH -ne 0 ] && [ $WITHOUT -eq 0 ]
