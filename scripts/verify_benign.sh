#!/bin/bash
# usage: verify_benign.sh <id> : a benign edit under /verif/benign applies, builds and keeps the 143 baseline tests passing
# (scratch worktree under /tmp, removed afterwards; tests run in a private network namespace).
set -u
ID=$1
SRC=${BENIGN_ROOT:-/verif/benign}/$ID
WT=/tmp/benignchk-$ID
git -C /repo worktree remove --force $WT 2>/dev/null; rm -rf $WT
git -C /repo worktree add -q --detach $WT HEAD || exit 2
cd $WT
res() { echo "RESULT $ID $*"; }
if ! git apply $SRC/patch.diff 2>/tmp/benignchk-$ID.err; then res "apply=FAIL"; cd /; git -C /repo worktree remove --force $WT; exit 1; fi
if ! go build -mod=mod -o /dev/null ./cmd/keymasterd ./eventmon/... ./keymasterd/... 2>/tmp/benignchk-$ID.err; then res "apply=ok build=FAIL"; cd /; git -C /repo worktree remove --force $WT; exit 1; fi
CGO_ENABLED=0 go vet -mod=mod ./cmd/keymaster ./lib/client/... > /tmp/benignchk-$ID.vet 2>&1
CLIENT=ok; grep -q "Cloud-Foundations/keymaster/.*: " /tmp/benignchk-$ID.vet && grep -v "flynn\|# " /tmp/benignchk-$ID.vet | grep -q "\.go:[0-9]*:[0-9]*: " && CLIENT=typeerror
NS="unshare -n sh -c"
BASE=1
for i in 1 2 3; do TMPDIR=$WT/.tmp; mkdir -p $TMPDIR; $NS "ip link set lo up; TMPDIR=$TMPDIR KM_REPO=$WT /verif/scripts/baseline.sh" > /tmp/benignchk-$ID.base 2>&1; BASE=$?; [ $BASE -eq 0 ] && break; sleep 2; done
res "apply=ok build=ok client=$CLIENT baseline_rc=$BASE"
cd /; git -C /repo worktree remove --force $WT; rm -rf $WT
[ $BASE -eq 0 ]
