#!/bin/bash
# Runs the repository's pinned test suite (guard OFF: no build tags) and compares with BASELINE.json's stable_pass list.
# Exit 0 iff every stable_pass test passed.
set -u
cd ${KM_REPO:-/repo}
OUT=$(mktemp)
go test -mod=mod -json -vet=off -count=1 -timeout 25m ./... > "$OUT" 2>/dev/null
python3 - "$OUT" <<'PY'
import json,sys
base=json.load(open('/root/.vp/BASELINE.json'))
want=set(base['stable_pass'])
res={}
for l in open(sys.argv[1]):
    try: e=json.loads(l)
    except Exception: continue
    if e.get('Test') and e.get('Action') in('pass','fail','skip'):
        res[e['Package']+'::'+e['Test']]=e['Action']
missing=[t for t in sorted(want) if res.get(t)!='pass']
print("baseline: %d/%d stable tests pass"%(len(want)-len(missing),len(want)))
for t in missing: print("  NOT PASSING:",t,res.get(t))
sys.exit(1 if missing else 0)
PY
rc=$?
rm -f "$OUT"; rm -rf /tmp/keymasterd* 2>/dev/null
exit $rc
