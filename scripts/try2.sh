#!/bin/bash
# usage: try2.sh <dir-with-patch.diff>... : applies each patch to /repo, runs all checks, prints alarming properties and rules, restores /repo
cd /repo
[ -n "$(git status --porcelain)" ] && { echo "repo dirty"; exit 2; }
mkdir -p /tmp/kmseed-verif; cp /verif/known_findings.json /tmp/kmseed-verif/
for d in "$@"; do
  id=$(basename $d)
  if ! git apply $d/patch.diff 2>/dev/null; then echo "$id APPLY-FAILED"; git reset -q --hard HEAD; continue; fi
  /verif/bin/kmcheck -prop all -verif /tmp/kmseed-verif > /tmp/kmseed-verif/out-$id.txt 2>&1
  hits=$(grep -oE "^VIOLATION property=C[0-9]+" /tmp/kmseed-verif/out-$id.txt | sort -u | sed 's/VIOLATION property=//' | paste -sd, )
  rules=$(grep -oE "^(FAIL |.*ANCHOR-LOST rule=)R-C[0-9]+-[0-9]+" /tmp/kmseed-verif/out-$id.txt | grep -oE "R-C[0-9]+-[0-9]+" | sort -u | paste -sd, )
  echo "$id alarms=${hits:-NONE} rules=${rules:-none}"
  git reset -q --hard HEAD; git clean -fdq -- . 2>/dev/null
done
