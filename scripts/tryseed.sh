#!/bin/bash
# usage: tryseed.sh <patch.diff> [props]  — applies a seeded change to /repo, runs the checks, reverts.
set -u
P=$1; PROPS=${2:-all}
cd /repo
if [ -n "$(git status --porcelain)" ]; then echo "repo dirty"; exit 2; fi
git apply "$P" || { echo "APPLY-FAILED $P"; git reset -q --hard HEAD; exit 2; }
mkdir -p /tmp/kmseed-verif; cp /verif/known_findings.json /tmp/kmseed-verif/
/verif/bin/kmcheck -prop "$PROPS" -verif /tmp/kmseed-verif 2>&1 | grep -E "^(FAIL|VIOLATION|     (required|found))" | cut -c1-400 | head -${MAXLINES:-16}
git reset -q --hard HEAD; git clean -fdq -- . 2>/dev/null
mkdir -p /tmp/kmseed-verif
