#!/bin/bash
# Re-records the identity tables of the named module functions (name, receiver, signature, static callees) and of the
# fields of the named struct types (name, type) that the
# rename recovery of the checker compares the current tree with. Run it only on a tree whose anchors were reviewed:
# the table says "these are the functions the rules were written against".
set -e
cd /verif
./bin/kmcheck -dump pinned > /tmp/pinned_funcs.$$.json
./bin/kmcheck -dump pinnedfields > /tmp/pinned_fields.$$.json
./bin/kmcheck -dump pinnedtypes > /tmp/pinned_types.$$.json
./bin/kmcheck -dump pinnedglobals > /tmp/pinned_globals.$$.json
./bin/kmcheck -dump pinnedconfigkeys > /tmp/pinned_configkeys.$$.json
mv /tmp/pinned_configkeys.$$.json checker/internal/km/pinned_configkeys.json
mv /tmp/pinned_globals.$$.json checker/internal/km/pinned_globals.json
mv /tmp/pinned_types.$$.json checker/internal/km/pinned_types.json
mv /tmp/pinned_funcs.$$.json checker/internal/km/pinned_funcs.json
mv /tmp/pinned_fields.$$.json checker/internal/km/pinned_fields.json
./scripts/build.sh
./bin/kmcheck -dump renames
