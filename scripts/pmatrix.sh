#!/bin/bash
# usage: pmatrix.sh <dir-with-patch-dirs> [jobs]
# Parallel version of seed_matrix.sh / benign_matrix.sh: every <dir>/<id>/patch.diff is applied in one of a few
# scratch worktrees of /repo (under /tmp, removed afterwards), all checks run against that worktree, and one line
# per id is printed: "<id> alarms=<properties|NONE> rules=<rules|none>". /repo itself is not touched.
ROOT=${1:-/verif/seeded}
JOBS=${2:-8}
WORK=/tmp/pmx.$$
mkdir -p $WORK
trap 'for i in $(seq 1 $JOBS); do git -C /repo worktree remove --force $WORK/w$i 2>/dev/null; done; rm -rf $WORK; git -C /repo worktree prune' EXIT
for i in $(seq 1 $JOBS); do
  git -C /repo worktree add -q --detach $WORK/w$i HEAD || exit 2
  mkdir -p $WORK/v$i; cp /verif/known_findings.json $WORK/v$i/
done
ls $ROOT | grep -E "^C[0-9]+-[BG]?[0-9]+$" > $WORK/ids
one() {
  id=$1; slot=$2; W=$WORK/w$slot; V=$WORK/v$slot
  cd $W || return
  if ! git apply $ROOT/$id/patch.diff 2>/dev/null; then echo "$id APPLY-FAILED"; git reset -q --hard HEAD; return; fi
  /verif/bin/kmcheck -prop ${PROP:-all} -repo $W -verif $V > $V/out-$id.txt 2>&1
  hits=$(grep -oE "^VIOLATION property=C[0-9]+" $V/out-$id.txt | sort -u | sed 's/VIOLATION property=//' | paste -sd, )
  rules=$(grep -oE "^(FAIL |.*ANCHOR-LOST rule=)R-C[0-9]+-[0-9]+" $V/out-$id.txt | grep -oE "R-C[0-9]+-[0-9]+" | sort -u | paste -sd, )
  echo "$id alarms=${hits:-NONE} rules=${rules:-none}"
  git reset -q --hard HEAD; git clean -fdq -- . 2>/dev/null
}
export -f one; export ROOT WORK
# static slot assignment: id number k goes to slot (k mod JOBS)+1, slots run their lists sequentially
for i in $(seq 1 $JOBS); do
  ( n=0; while read id; do n=$((n+1)); if [ $(( (n-1) % JOBS + 1 )) -eq $i ]; then one $id $i; fi; done < $WORK/ids ) &
done
wait
