#!/bin/bash
# usage: fixcommit.sh <message-file>   — removes triage tests, runs baseline, commits /repo
set -e
cd /repo
rm -f cmd/keymasterd/zz_*_test.go lib/*/zz_*_test.go eventmon/*/zz_*_test.go keymasterd/*/zz_*_test.go lib/*/*/zz_*_test.go
/verif/scripts/baseline.sh
git add -A
git commit -q -F "$1"
git log --oneline | head -1
