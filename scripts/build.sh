#!/bin/bash
cd /verif/checker && env PATH=/opt/veriftools/go1.26.8/bin:$PATH GOTOOLCHAIN=local GOFLAGS=-mod=vendor GOPROXY=off GOSUMDB=off GOWORK=off go build -o /verif/bin/kmcheck ./cmd/kmcheck
