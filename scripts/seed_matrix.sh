#!/bin/bash
# Runs every seeded change (under /verif/seeded or /tmp/seed/out) against all checks and prints which properties alarm.
SRCROOT=${1:-/verif/seeded}
cd /repo
[ -n "$(git status --porcelain)" ] && { echo "repo dirty"; exit 2; }
mkdir -p /tmp/kmseed-verif; cp /verif/known_findings.json /tmp/kmseed-verif/
MISS=0
for d in $(ls $SRCROOT | grep -E "^C[0-9]+-[0-9]+$"); do
  P=$SRCROOT/$d/patch.diff; [ -f $SRCROOT/$d/patch.rebased.diff ] && P=$SRCROOT/$d/patch.rebased.diff
  if ! git apply $P 2>/dev/null; then echo "$d APPLY-FAILED"; git reset -q --hard HEAD; continue; fi
  /verif/bin/kmcheck -prop all -verif /tmp/kmseed-verif > /tmp/kmseed-verif/out.txt 2>&1
  hits=$(grep -oE "^VIOLATION property=C[0-9]+" /tmp/kmseed-verif/out.txt | sort -u | sed 's/VIOLATION property=//' | paste -sd, )
  rules=$(grep -oE "^(FAIL |.*ANCHOR-LOST rule=)R-C[0-9]+-[0-9]+" /tmp/kmseed-verif/out.txt | grep -oE "R-C[0-9]+-[0-9]+" | sort -u | paste -sd, )
  echo "$d detected_by=${hits:-NONE} rules=${rules:-none}"
  case ",$hits," in *",${d%%-*},"*) ;; *) echo "  MISSED-BY-OWN-PROPERTY $d"; MISS=1;; esac
  git reset -q --hard HEAD; git clean -fdq -- . 2>/dev/null
done
exit $MISS
