#!/bin/bash
# Runs every seeded change (under /verif/seeded or /tmp/seed/out) against all checks and prints which properties alarm.
SRCROOT=${1:-/verif/seeded}
cd /repo
[ -n "$(git status --porcelain)" ] && { echo "repo dirty"; exit 2; }
mkdir -p /tmp/kmseed-verif; cp /verif/known_findings.json /tmp/kmseed-verif/
for d in $(ls $SRCROOT | grep -E "^C[0-9]+-[0-9]+$"); do
  P=$SRCROOT/$d/patch.diff; [ -f $SRCROOT/$d/patch.rebased.diff ] && P=$SRCROOT/$d/patch.rebased.diff
  if ! git apply $P 2>/dev/null; then echo "$d APPLY-FAILED"; git reset -q --hard HEAD; continue; fi
  hits=$(/verif/bin/kmcheck -prop all -verif /tmp/kmseed-verif 2>&1 | grep -oE "^VIOLATION property=C[0-9]+" | sort -u | sed 's/VIOLATION property=//' | paste -sd, )
  echo "$d detected_by=${hits:-NONE}"
  git reset -q --hard HEAD; git clean -fdq -- . 2>/dev/null
done
