// kmcheck decides the keymaster properties C01..C20 by static analysis of /repo's current source.
package main

import (
	"encoding/json"
	"flag"
	"fmt"
	"os"
	"runtime/debug"
	"runtime/pprof"
	"strconv"
	"strings"

	"kmcheck/internal/km"
	_ "kmcheck/internal/rules"
)

func main() {
	prop := flag.String("prop", "", "property id (C01..C20) or 'all'")
	tier := flag.String("tier", "quick", "quick|thorough")
	repo := flag.String("repo", "/repo", "repository root")
	verif := flag.String("verif", "/verif", "verification directory (evidence, known findings)")
	explain := flag.String("explain", "", "print a replay file")
	dump := flag.String("dump", "", "debug: routes|funcs|states:<pkgrel>:<func>")
	cpuprof := flag.String("cpuprofile", "", "write cpu profile")
	flag.Parse()
	if *cpuprof != "" {
		f, _ := os.Create(*cpuprof)
		pprof.StartCPUProfile(f)
		defer pprof.StopCPUProfile()
	}
	if *explain != "" {
		b, err := os.ReadFile(*explain)
		if err != nil {
			fmt.Println(err)
			os.Exit(2)
		}
		var m map[string]any
		json.Unmarshal(b, &m)
		for _, k := range []string{"property", "kind", "rule", "text", "func", "construct", "pos", "required", "found", "detail", "key"} {
			if v, ok := m[k]; ok {
				fmt.Printf("%-10s %v\n", k+":", v)
			}
		}
		return
	}
	if t := os.Getenv("VERIF_TIER"); t != "" && !isFlagSet("tier") {
		*tier = t
	}
	seed := 0
	if s := os.Getenv("VERIF_SEED"); s != "" {
		seed, _ = strconv.Atoi(s)
	}
	if *dump != "" {
		p, err := km.Load(*repo, nil)
		if err != nil {
			fmt.Println(err)
			os.Exit(2)
		}
		km.Dump(p, *dump)
		return
	}
	var props []string
	if *prop == "all" {
		props = km.Props()
	} else {
		props = strings.Split(*prop, ",")
	}
	if len(props) == 0 || props[0] == "" {
		fmt.Println("usage: kmcheck -prop Cnn [-tier quick|thorough]")
		os.Exit(2)
	}
	p, lerr := km.Load(*repo, nil)
	exit := 0
	for _, id := range props {
		f, ok := km.Registry[id]
		if !ok {
			fmt.Printf("unknown property %s\n", id)
			os.Exit(2)
		}
		r := km.NewReport(id, *tier, *verif, seed)
		if lerr != nil {
			r.Fatal = append(r.Fatal, "LOAD-FAILED: "+lerr.Error())
			if r.Finish() != 0 {
				exit = 1
			}
			continue
		}
		c, err := km.NewCtx(p, r, *tier)
		if err != nil {
			r.Fatal = append(r.Fatal, err.Error())
		} else {
			func() {
				defer func() {
					if rec := recover(); rec != nil {
						r.Fatal = append(r.Fatal, fmt.Sprintf("CHECKER-PANIC: %v", rec))
						if os.Getenv("KMCHECK_TRACE") != "" {
							debug.PrintStack()
						}
					}
				}()
				f(c)
			}()
			r.Extra["packages"] = len(p.Pkgs)
			r.Extra["functions_loaded"] = len(p.AllFuncs)
			r.Extra["routes"] = len(c.Routes)
			r.Extra["load_s"] = p.LoadSecs
			r.Extra["functions_dataflow_analysed"] = c.F.Analysed
			r.Extra["dnf_overflows"] = c.F.Overflow
			if len(km.RenameNotes) > 0 {
				r.Extra["renamed_functions_recovered"] = km.RenameNotes
				for _, n := range km.RenameNotes {
					fmt.Println("NOTE resolved against the recorded tree (reported under the recorded name):", n)
				}
			}
		}
		if r.Finish() != 0 {
			exit = 1
		}
	}
	pprof.StopCPUProfile()
	os.Exit(exit)
}

func isFlagSet(name string) bool {
	set := false
	flag.Visit(func(f *flag.Flag) {
		if f.Name == name {
			set = true
		}
	})
	return set
}
