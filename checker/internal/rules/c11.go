package rules

import (
	"go/token"
	"strings"

	"kmcheck/internal/km"

	"golang.org/x/tools/go/ssa"
)

func init() { km.Register("C11", checkC11) }

func checkC11(c *km.Ctx) {
	r := c.R
	s := km.NewSem(c)
	r.Explain = "Static analysis of /repo: the IP verifier returns true only on the Contains(peer) edge with the peer parsed from its remoteAddr parameter, and false/err otherwise; the helper passes the TCP peer address and the verified leaf; checkAuth grants the IP-certificate bit only on that helper's success and never admits such a certificate as an ordinary one (CA separation); the refresh path copies identity and netblocks from the authenticated certificate only; encoder and decoder of the address extension agree structurally (bit length = prefix ones, ceil(bits/8) unmodified bytes, /32 mask, same family constant); the decoder's copy is bounded. Decides structure; the numerical iff over all prefixes is not computed."
	r.NotDecided = []string{"the numerical iff for every prefix length and boundary address (value round trip)", "ASN.1 parsing inside encoding/asn1"}
	r.Assume = []string{"go/types + go/ssa model the source faithfully", "net.IPNet.Contains, net.CIDRMask and encoding/asn1 behave as documented"}

	r.Rule("R-C11-1", "VerifyIPRestrictedX509CertIP returns true only from decoded.Contains(peer) with the peer parsed from the remoteAddr parameter; no extension or a decode error yields false; the helper passes r.RemoteAddr and the verified leaf", 2)
	r.Rule("R-C11-2", "checkAuth grants the IP-certificate credential only on the helper's success; chains anchored at the role-requesting CA are never admitted as ordinary certificates", 5)
	r.Rule("R-C11-3", "refresh: identity = authenticated name, netblocks = those extracted from the authenticated certificate; nothing request-supplied flows into either; only an IP-certificate credential is accepted", 2)
	r.Rule("R-C11-4", "encoder and decoder agree: BitLength = ones of a 32-bit mask; ceil(BitLength/8) leading bytes copied unmodified; mask = CIDRMask(BitLength, 32); same family constant on both sides", 4)
	r.Rule("R-C11-5", "the decoder's copy is bounded by BitLength <= 32 and by the length of the encoded bytes", 1)

	// ---------- R-C11-1
	if fn := c.MustFunc("R-C11-1", "lib/certgen", "VerifyIPRestrictedX509CertIP"); fn != nil {
		n := 0
		for _, rc := range s.RetCases(fn) {
			v := km.Unwrap(rc.Results[0])
			if km.ValStr(v) != "true" {
				if _, isC := v.(*ssa.Const); !isC {
					n++
					r.Add("R-C11-1", km.FuncName(fn), "computed verdict", posOf(c, rc.Ret), "verdicts are constants chosen by the membership test", km.ValStr(v), false)
				}
				continue
			}
			n++
			ok := rc.State.All(func(k km.Conj) bool {
				for _, f := range k.List() {
					cl, isC := f.X.(*ssa.Call)
					if f.Op != token.ILLEGAL || !f.Pol || !isC || km.CalleeFull(cl.Common()) != "(*net.IPNet).Contains" {
						continue
					}
					a := km.CallArgs(cl.Common())
					// receiver: the decoded netblock; argument: ParseIP(SplitHostPort(remoteAddr)#0)
					pc, isP := km.Unwrap(a[1]).(*ssa.Call)
					if !isP || km.CalleeFull(pc.Common()) != "net.ParseIP" {
						continue
					}
					hc, hi := callRes(km.Unwrap(pc.Common().Args[0]))
					if hc == nil || hi != 0 || km.CalleeFull(hc.Common()) != "net.SplitHostPort" || km.Unwrap(hc.Common().Args[0]) != ssa.Value(km.ParamAt(fn, 1)) {
						continue
					}
					// receiver derives from decodeIPV4AddressChoice
					if derivesFromCall(a[0], certgenPkg+".decodeIPV4AddressChoice", 0) {
						return true
					}
				}
				return false
			})
			r.Add("R-C11-1", km.FuncName(fn), "accepting return", posOf(c, rc.Ret), "decodeIPV4AddressChoice(block).Contains(ParseIP(host of remoteAddr)) is true", clipS(rc.State.String(), 300), ok)
		}
		if n == 0 {
			r.AnchorLost("R-C11-1", "accepting return of VerifyIPRestrictedX509CertIP")
		}
		// family comparison uses the shared constant
		for _, ci := range km.CallsIn(fn) {
			if km.CalleeFull(ci.Common()) == "bytes.Equal" {
				a := ci.Common().Args
				ok := (mentionsField(a[0], "AddressFamily") && isGlobalLoad(a[1], "ipV4FamilyEncoding")) || (mentionsField(a[1], "AddressFamily") && isGlobalLoad(a[0], "ipV4FamilyEncoding"))
				r.Add("R-C11-4", km.FuncName(fn), "family constant (verifier)", posOf(c, ci), "bytes.Equal(entry.AddressFamily, ipV4FamilyEncoding)", km.ValStr(a[0])+" vs "+km.ValStr(a[1]), ok)
			}
		}
	}
	checkIPRestrictedHelper(c, s, "R-C11-1")

	// ---------- R-C11-2
	if ca := c.MustFunc("R-C11-2", "cmd/keymasterd", "(*RuntimeState).checkAuth"); ca != nil {
		checkAuthBits(c, s, ca, "R-C11-2")
	}
	checkKeymasterSigned(c, s, "R-C11-2")

	// ---------- R-C11-3
	checkExtractRequiresExtension(c, s, "R-C11-3")
	if fn := c.MustFunc("R-C11-3", "cmd/keymasterd", "(*RuntimeState).parseRefreshRoleCertGenParams"); fn != nil {
		typ := KMD + ".roleRequestingCertGenParams"
		for _, st := range storesByField(fn, typ)["Role"] {
			r.Add("R-C11-3", km.FuncName(fn), "refreshed identity", posOf(c, st), "the authenticated certificate's name (authInfo.Username)", km.ValStr(st.Val), s.Is(st.Val, km.RoleAuthUser))
		}
		nb := storesByField(fn, typ)["RequestorNetblocks"]
		if len(nb) == 0 {
			r.AnchorLost("R-C11-3", "RequestorNetblocks store in parseRefreshRoleCertGenParams")
		}
		for _, st := range nb {
			ec, idx := callRes(km.Unwrap(st.Val))
			ok := ec != nil && idx == 0 && km.CalleeFull(ec.Common()) == certgenPkg+".ExtractIPNetsFromIPRestrictedX509" && isVerifiedLeaf(km.Unwrap(ec.Common().Args[0]))
			if ok {
				ok = c.F.At(st).All(func(k km.Conj) bool { return s.Holds(k, primErrNilCall("extract ok", ec, 1)) })
			}
			r.Add("R-C11-3", km.FuncName(fn), "refreshed netblocks", posOf(c, st), "ExtractIPNetsFromIPRestrictedX509(r.TLS.VerifiedChains[0][0]) without error - the certificate checkAuth verified", clipS(km.ValStr(st.Val), 160), ok)
		}
	}
	if fn := c.MustFunc("R-C11-3", "cmd/keymasterd", "(*RuntimeState).refreshRoleRequestingCertGenHandler"); fn != nil {
		consts := authTypeConsts(c)
		for _, ci := range km.CallsIn(fn) {
			switch km.CalleeFull(ci.Common()) {
			case RS + "checkAuth":
				got := maskExpr(c, km.CallArgs(ci.Common())[3], consts)
				r.Add("R-C11-3", km.FuncName(fn), "refresh admission mask", posOf(c, ci), "AuthTypeIPCertificate only", got, got == "AuthTypeIPCertificate")
			case RS + "withParamsGenerateRoleRequestingCert":
				st := c.F.At(ci)
				pc, idx := callRes(km.Unwrap(km.CallArgs(ci.Common())[1]))
				ok := pc != nil && idx == 0 && km.CalleeFull(pc.Common()) == RS+"parseRefreshRoleCertGenParams"
				if ok {
					ok = st.All(func(k km.Conj) bool {
						return s.Holds(k, s.PrimAuthed()) && s.Holds(k, s.PrimUnsealed()) && s.Holds(k, primErrNilCall("user ok", pc, 1)) && s.Holds(k, primErrNilCall("ok", pc, 2))
					})
				}
				r.Add("R-C11-3", km.FuncName(fn), "re-issue", posOf(c, ci), "Unsealed ∧ Authed ∧ parameters from parseRefreshRoleCertGenParams without error", sprintf("%v", ok), ok)
			}
		}
	}
	if fn := c.MustFunc("R-C11-4", "lib/certgen", "ExtractIPNetsFromIPRestrictedX509"); fn != nil {
		for _, ci := range km.CallsIn(fn) {
			if km.CalleeFull(ci.Common()) == "bytes.Equal" {
				a := ci.Common().Args
				ok := (mentionsField(a[0], "AddressFamily") && isGlobalLoad(a[1], "ipV4FamilyEncoding")) || (mentionsField(a[1], "AddressFamily") && isGlobalLoad(a[0], "ipV4FamilyEncoding"))
				r.Add("R-C11-4", km.FuncName(fn), "family constant (extractor)", posOf(c, ci), "bytes.Equal(entry.AddressFamily, ipV4FamilyEncoding)", km.ValStr(a[0])+" vs "+km.ValStr(a[1]), ok)
			}
		}
		// every returned netblock comes from the decoder
		nApp := 0
		for _, ci := range km.CallsIn(fn) {
			if b, ok := ci.Common().Value.(*ssa.Builtin); ok && b.Name() == "append" {
				nApp++
				el := appendedSingle(ci.(*ssa.Call))
				ok2 := el != nil && derivesFromCall(el, certgenPkg+".decodeIPV4AddressChoice", 0)
				r.Add("R-C11-4", km.FuncName(fn), "extracted netblock", posOf(c, ci), "each element is decodeIPV4AddressChoice(entry)", sprintf("%v", ok2), ok2)
			}
		}
		if nApp == 0 {
			r.AnchorLost("R-C11-4", "append of decoded netblocks in ExtractIPNetsFromIPRestrictedX509")
		}
	}

	checkIPCodec(c, s, "R-C11-4")
	checkIPv4Decoder(c, s, "R-C11-5")
	_ = strings.Contains
}

// controllingFactsAll: controlling facts of b, walking through loop headers with two predecessors by following
// the immediate dominator chain (each step contributes the edge facts when the step is a single If edge).
func controllingFactsAll(c *km.Ctx, b *ssa.BasicBlock) []km.Fact {
	var out []km.Fact
	for b != nil {
		d := b.Idom()
		if d == nil {
			break
		}
		if iff, ok := d.Instrs[len(d.Instrs)-1].(*ssa.If); ok && d.Succs[0] != d.Succs[1] {
			if d.Succs[0] == b {
				out = append(out, c.F.CondFacts(iff.Cond, true)...)
			} else if d.Succs[1] == b {
				out = append(out, c.F.CondFacts(iff.Cond, false)...)
			}
		}
		b = d
	}
	return out
}

func isGlobalLoad(v ssa.Value, name string) bool {
	u, ok := km.Unwrap(v).(*ssa.UnOp)
	if !ok || u.Op != token.MUL {
		return false
	}
	g, ok := u.X.(*ssa.Global)
	return ok && g.Name() == name
}

// derivesFromCall: v is (a load / field / address of) result #idx of a call to callee, possibly through a local cell.
func derivesFromCall(v ssa.Value, callee string, idx int) bool {
	return derivesFromCallD(v, callee, idx, 0)
}

func derivesFromCallD(v ssa.Value, callee string, idx int, depth int) bool {
	if depth > 8 || v == nil {
		return false
	}
	v = km.Unwrap(v)
	if cl, i := callRes(v); cl != nil {
		return i == idx && km.CalleeFull(cl.Common()) == callee
	}
	switch x := v.(type) {
	case *ssa.UnOp:
		return derivesFromCallD(x.X, callee, idx, depth+1)
	case *ssa.FieldAddr:
		return derivesFromCallD(x.X, callee, idx, depth+1)
	case *ssa.Field:
		return derivesFromCallD(x.X, callee, idx, depth+1)
	case *ssa.Alloc:
		n := 0
		for _, ref := range *x.Referrers() {
			if st, ok := ref.(*ssa.Store); ok && st.Addr == ssa.Value(x) {
				if !derivesFromCallD(st.Val, callee, idx, depth+1) {
					return false
				}
				n++
			}
		}
		return n > 0
	}
	return false
}

// checkIPCodec: structural agreement of the address-extension encoder and decoder (shared by C11 and C06).
func checkIPCodec(c *km.Ctx, s *km.Sem, rule string) {
	r := c.R
	// ---------- R-C11-4 encoder / decoder
	if enc := c.MustFunc(rule, "lib/certgen", "encodeIpAddressChoice"); enc != nil {
		var sizeCall *ssa.Call
		for _, ci := range km.CallsIn(enc) {
			if cl, ok := ci.(*ssa.Call); ok && km.CalleeFull(cl.Common()) == "(net.IPMask).Size" {
				sizeCall = cl
			}
		}
		if sizeCall == nil {
			r.AnchorLost(rule, "Mask.Size() in encodeIpAddressChoice")
		} else {
			// rejects non-32-bit masks
			rej := false
			for _, rc := range s.RetCases(enc) {
				if !km.IsNilConst(rc.Results[1]) {
					continue
				}
				rej = rc.State.All(func(k km.Conj) bool {
					for _, f := range k.List() {
						if cl, idx := callRes(f.X); cl == sizeCall && idx == 1 && f.Op == token.EQL {
							if kv, ok := km.ConstInt(f.Y); ok && kv == 32 {
								return true
							}
						}
					}
					return false
				})
			}
			r.Add(rule, km.FuncName(enc), "encoder: IPv4 masks only", posOf(c, sizeCall), "success only when the mask has 32 bits", sprintf("%v", rej), rej)
			bl := storesByField(enc, "encoding/asn1.BitString")["BitLength"]
			for _, st := range bl {
				cl, idx := callRes(km.Unwrap(st.Val))
				r.Add(rule, km.FuncName(enc), "encoder: BitLength", posOf(c, st), "the number of ones of the mask", km.ValStr(st.Val), cl == sizeCall && idx == 0)
			}
			if len(bl) == 0 {
				r.AnchorLost(rule, "BitLength store in encodeIpAddressChoice")
			}
			// byte count = (ones+7)/8
			okLen := false
			km.Instrs(enc, func(in ssa.Instruction) {
				if ms, ok := in.(*ssa.MakeSlice); ok {
					if d, ok := km.Unwrap(ms.Len).(*ssa.BinOp); ok && d.Op == token.QUO {
						if kv, isC := km.ConstInt(d.Y); isC && kv == 8 {
							if add, ok := d.X.(*ssa.BinOp); ok && add.Op == token.ADD {
								cl, idx := callRes(km.Unwrap(add.X))
								if k7, isC := km.ConstInt(add.Y); isC && k7 == 7 && cl == sizeCall && idx == 0 {
									okLen = true
								}
							}
						}
					}
				}
			})
			r.Add(rule, km.FuncName(enc), "encoder: byte count", c.P.Pos(enc.Pos()), "ceil(ones/8) = (ones+7)/8 address bytes", sprintf("%v", okLen), okLen)
		}
	}
	if dec := c.MustFunc(rule, "lib/certgen", "decodeIPV4AddressChoice"); dec != nil {
		// (dec-1/4) every store into the address array stores an unmodified byte of the encoded bytes at the same index,
		// under the loop test i*8 < BitLength; or a copy() of ceil(BitLength/8) bytes
		var arr *ssa.Alloc
		km.Instrs(dec, func(in ssa.Instruction) {
			if a, ok := in.(*ssa.Alloc); ok && arrayLen(a.Type()) == 4 {
				arr = a
			}
		})
		if arr == nil {
			r.AnchorLost(rule, "4-byte address array in decodeIPV4AddressChoice")
		} else {
			nSt := 0
			km.Instrs(dec, func(in ssa.Instruction) {
				st, ok := in.(*ssa.Store)
				if !ok {
					return
				}
				ia, ok := st.Addr.(*ssa.IndexAddr)
				if !ok || ia.X != ssa.Value(arr) {
					return
				}
				nSt++
				good := false
				if u, ok := km.Unwrap(st.Val).(*ssa.UnOp); ok && u.Op == token.MUL {
					if src, ok := u.X.(*ssa.IndexAddr); ok && mentionsField(src.X, "Bytes") && km.Unwrap(src.Index) == km.Unwrap(ia.Index) {
						good = true
					}
				}
				loop := false
				for _, f := range controllingFactsAll(c, in.Block()) {
					if f.Op == token.LSS && mentionsField(f.Y, "BitLength") {
						if m, ok := f.X.(*ssa.BinOp); ok && m.Op == token.MUL && km.Unwrap(m.X) == km.Unwrap(ia.Index) {
							if kv, isC := km.ConstInt(m.Y); isC && kv == 8 {
								loop = true
							}
						}
					}
				}
				r.Add(rule, km.FuncName(dec), "decoder: address byte", posOf(c, in), "address[i] = Bytes[i] (unmodified) while i*8 < BitLength, i.e. ceil(BitLength/8) bytes", sprintf("unmodified-same-index=%v loop-test=%v value=%s", good, loop, clipS(km.ValStr(st.Val), 80)), good && loop)
			})
			for _, ci := range km.CallsIn(dec) {
				if b, ok := ci.Common().Value.(*ssa.Builtin); ok && b.Name() == "copy" {
					nSt++
					src := km.Unwrap(ci.Common().Args[1])
					good := false
					if sl, ok := src.(*ssa.Slice); ok && sl.High != nil && mentionsField(sl.X, "Bytes") {
						if d, ok := km.Unwrap(sl.High).(*ssa.BinOp); ok && d.Op == token.QUO {
							if add, ok := d.X.(*ssa.BinOp); ok && add.Op == token.ADD && mentionsField(add.X, "BitLength") {
								k7, ok1 := km.ConstInt(add.Y)
								k8, ok2 := km.ConstInt(d.Y)
								good = ok1 && ok2 && k7 == 7 && k8 == 8
							}
						}
					}
					r.Add(rule, km.FuncName(dec), "decoder: address bytes (copy)", posOf(c, ci), "copy of exactly ceil(BitLength/8) = (BitLength+7)/8 encoded bytes", clipS(km.ValStr(src), 120), good)
				}
			}
			if nSt == 0 {
				r.AnchorLost(rule, "stores into the address array in decodeIPV4AddressChoice")
			}
		}
		// (dec-2) mask
		nMask := 0
		for _, ci := range km.CallsIn(dec) {
			if km.CalleeFull(ci.Common()) == "net.CIDRMask" {
				nMask++
				a := ci.Common().Args
				bits, isC := km.ConstInt(a[1])
				ok := mentionsField(a[0], "BitLength") && isC && bits == 32
				r.Add(rule, km.FuncName(dec), "decoder: mask", posOf(c, ci), "net.CIDRMask(BitLength, 32)", km.ValStr(a[0])+", "+km.ValStr(a[1]), ok)
			}
			if km.CalleeFull(ci.Common()) == "net.IPv4" {
				a := ci.Common().Args
				ok := len(a) == 4
				for i := 0; ok && i < 4; i++ {
					u, isU := km.Unwrap(a[i]).(*ssa.UnOp)
					if !isU {
						ok = false
						break
					}
					ia, isIA := u.X.(*ssa.IndexAddr)
					idx, isC := int64(-1), false
					if isIA {
						idx, isC = km.ConstInt(ia.Index)
					}
					if !isIA || ia.X != ssa.Value(arr) || !isC || idx != int64(i) {
						ok = false
					}
				}
				r.Add(rule, km.FuncName(dec), "decoder: address", posOf(c, ci), "net.IPv4(address[0], address[1], address[2], address[3])", sprintf("%v", ok), ok)
			}
		}
		if nMask == 0 {
			r.AnchorLost(rule, "CIDRMask call in decodeIPV4AddressChoice")
		}
	}
	if gen := c.MustFunc(rule, "lib/certgen", "genDelegationExtension"); gen != nil {
		for _, st := range storesByField(gen, certgenPkg+".IpAdressFamily")["AddressFamily"] {
			r.Add(rule, km.FuncName(gen), "family constant (encoder)", posOf(c, st), "ipV4FamilyEncoding", km.ValStr(st.Val), isGlobalLoad(st.Val, "ipV4FamilyEncoding"))
		}
	}
}

// checkExtractRequiresExtension: ExtractIPNetsFromIPRestrictedX509 reports an error for a certificate without
// the address extension. checkAuth admits an ordinary keymaster certificate under the refresh endpoint's mask
// (the certificate gate is shared), so this error is what keeps the refresh endpoint to IP-restricted
// certificates: a success return must have seen the extension.
func checkExtractRequiresExtension(c *km.Ctx, s *km.Sem, rule string) {
	fn := c.MustFunc(rule, "lib/certgen", "ExtractIPNetsFromIPRestrictedX509")
	if fn == nil {
		return
	}
	isOIDEqual := func(v ssa.Value) bool {
		cl, ok := km.Unwrap(v).(*ssa.Call)
		if !ok || !strings.HasSuffix(km.CalleeFull(cl.Common()), "asn1.ObjectIdentifier).Equal") {
			return false
		}
		for _, a := range cl.Common().Args {
			if g, ok := km.Unwrap(a).(*ssa.UnOp); ok {
				if gl, ok := g.X.(*ssa.Global); ok && gl.Name() == "oidIPAddressDelegation" {
					return true
				}
			}
		}
		return false
	}
	// a matcher closure handed to slices.IndexFunc / ContainsFunc: func(e) bool { return e.Id.Equal(oid) }
	isOIDMatcher := func(v ssa.Value) bool {
		mc, ok := km.Unwrap(v).(*ssa.MakeClosure)
		var h *ssa.Function
		if ok {
			h, _ = mc.Fn.(*ssa.Function)
		} else {
			h, _ = km.Unwrap(v).(*ssa.Function)
		}
		if h == nil || h.Blocks == nil {
			return false
		}
		n := 0
		for _, rc := range s.RetCases(h) {
			if !isOIDEqual(rc.Results[0]) {
				return false
			}
			n++
		}
		return n > 0
	}
	present := km.Prim{Name: "address extension present", Direct: func(f km.Fact) bool {
		if f.Op == token.ILLEGAL && f.Pol && isOIDEqual(f.X) {
			return true
		}
		cl, ok := f.X.(*ssa.Call)
		if !ok {
			return false
		}
		name := km.CalleeFull(cl.Common())
		if i := strings.Index(name, "["); i > 0 {
			name = name[:i]
		}
		switch name {
		case "slices.ContainsFunc":
			return f.Op == token.ILLEGAL && f.Pol && len(cl.Common().Args) == 2 && isOIDMatcher(cl.Common().Args[1])
		case "slices.IndexFunc":
			if len(cl.Common().Args) != 2 || !isOIDMatcher(cl.Common().Args[1]) {
				return false
			}
			k, isK := km.ConstInt(f.Y)
			return isK && ((f.Op == token.GEQ && k == 0) || (f.Op == token.GTR && k == -1) || (f.Op == token.NEQ && k == -1))
		}
		return false
	}}
	n := 0
	for _, rc := range s.RetCases(fn) {
		if len(rc.Results) != 2 || !km.IsNilConst(rc.Results[1]) {
			continue
		}
		n++
		ok := len(rc.State) > 0 && rc.State.All(func(k km.Conj) bool { return s.Holds(k, present) })
		c.R.Add(rule, km.FuncName(fn), "netblocks extracted only from a certificate that has the address extension", posOf(c, rc.Ret), "every return without error is reached only after an extension with the address-delegation OID was found (no extension => error)", sprintf("%v", ok), ok)
	}
	if n == 0 {
		c.R.AnchorLost(rule, "success return of ExtractIPNetsFromIPRestrictedX509")
	}
}
