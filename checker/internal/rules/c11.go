package rules

import (
	"go/token"
	"go/types"
	"sort"
	"strings"

	"kmcheck/internal/km"

	"golang.org/x/tools/go/ssa"
)

func init() { km.Register("C11", checkC11) }

func checkC11(c *km.Ctx) {
	r := c.R
	s := km.NewSem(c)
	r.Explain = "Static analysis of /repo: the IP verifier returns true only on the Contains(peer) edge with the peer parsed from its remoteAddr parameter, and false/err otherwise; the helper passes the TCP peer address and the verified leaf; checkAuth grants the IP-certificate bit only on that helper's success and never admits such a certificate as an ordinary one (CA separation); the refresh path copies identity and netblocks from the authenticated certificate only; encoder and decoder of the address extension agree structurally (bit length = prefix ones, ceil(bits/8) unmodified bytes, /32 mask, same family constant); the decoder's copy is bounded. Decides structure; the numerical iff over all prefixes is not computed."
	r.NotDecided = []string{"the numerical iff for every prefix length and boundary address (value round trip)", "ASN.1 parsing inside encoding/asn1"}
	r.Assume = []string{"go/types + go/ssa model the source faithfully", "net.IPNet.Contains, net.CIDRMask and encoding/asn1 behave as documented"}

	r.Rule("R-C11-1", "VerifyIPRestrictedX509CertIP returns true only from decoded.Contains(peer) with the peer parsed from the remoteAddr parameter; no extension or a decode error yields false; the helper passes r.RemoteAddr and the verified leaf", 2)
	r.Rule("R-C11-2", "checkAuth grants the IP-certificate credential only on the helper's success; chains anchored at the role-requesting CA are never admitted as ordinary certificates", 5)
	r.Rule("R-C11-3", "refresh: identity = authenticated name, netblocks = those extracted from the authenticated certificate; nothing request-supplied flows into either; only an IP-certificate credential is accepted", 2)
	r.Rule("R-C11-4", "encoder and decoder agree: BitLength = ones of a 32-bit mask; ceil(BitLength/8) leading bytes copied unmodified; mask = CIDRMask(BitLength, 32); same family constant on both sides", 4)
	r.Rule("R-C11-6", "minting: the netblocks the request parser places in the generation parameters derive from the request's requestor_netblock values and from nothing else in the request; the generator receives that field; a netblock's base address is ParseCIDR's network result, never the address as typed", 2)
	r.Rule("R-C11-5", "the decoder's copy is bounded by BitLength <= 32 and by the length of the encoded bytes", 1)

	// ---------- R-C11-1
	if fn := c.MustFunc("R-C11-1", "lib/certgen", "VerifyIPRestrictedX509CertIP"); fn != nil {
		n := 0
		for _, rc := range s.RetCases(fn) {
			v := km.Unwrap(rc.Results[0])
			if km.ValStr(v) != "true" {
				if _, isC := v.(*ssa.Const); !isC {
					n++
					r.Add("R-C11-1", km.FuncName(fn), "computed verdict", posOf(c, rc.Ret), "verdicts are constants chosen by the membership test", km.ValStr(v), false)
				}
				continue
			}
			n++
			ok := rc.State.All(func(k km.Conj) bool {
				for _, f := range k.List() {
					cl, isC := f.X.(*ssa.Call)
					if f.Op != token.ILLEGAL || !f.Pol || !isC || km.CalleeFull(cl.Common()) != "(*net.IPNet).Contains" {
						continue
					}
					a := km.CallArgs(cl.Common())
					// receiver: the decoded netblock; argument: ParseIP(SplitHostPort(remoteAddr)#0)
					pc, isP := km.Unwrap(a[1]).(*ssa.Call)
					if !isP || km.CalleeFull(pc.Common()) != "net.ParseIP" {
						continue
					}
					hc, hi := callRes(km.Unwrap(pc.Common().Args[0]))
					if hc == nil || hi != 0 || km.CalleeFull(hc.Common()) != "net.SplitHostPort" || km.Unwrap(hc.Common().Args[0]) != ssa.Value(km.ParamAt(fn, 1)) {
						continue
					}
					// receiver derives from decodeIPV4AddressChoice
					if derivesFromCall(a[0], certgenPkg+".decodeIPV4AddressChoice", 0) {
						return true
					}
				}
				return false
			})
			r.Add("R-C11-1", km.FuncName(fn), "accepting return", posOf(c, rc.Ret), "decodeIPV4AddressChoice(block).Contains(ParseIP(host of remoteAddr)) is true", clipS(rc.State.String(), 300), ok)
		}
		if n == 0 {
			r.AnchorLost("R-C11-1", "accepting return of VerifyIPRestrictedX509CertIP")
		}
		// family comparison uses the shared constant
		for _, ci := range km.CallsIn(fn) {
			if km.CalleeFull(ci.Common()) == "bytes.Equal" {
				a := ci.Common().Args
				ok := (mentionsField(a[0], "AddressFamily") && isGlobalLoad(a[1], "ipV4FamilyEncoding")) || (mentionsField(a[1], "AddressFamily") && isGlobalLoad(a[0], "ipV4FamilyEncoding"))
				r.Add("R-C11-4", km.FuncName(fn), "family constant (verifier)", posOf(c, ci), "bytes.Equal(entry.AddressFamily, ipV4FamilyEncoding)", km.ValStr(a[0])+" vs "+km.ValStr(a[1]), ok)
			}
		}
		checkFamilyBeforeDecode(c, s, fn, "R-C11-4")
	}
	checkIPRestrictedHelper(c, s, "R-C11-1")
	if fn := c.P.Func("lib/certgen", "VerifyIPRestrictedX509CertIP"); fn != nil {
		// "malformed address extensions are rejected": a block that does not decode ends the verification with
		// an error, wherever it sits in the list (never skipped in favour of a later block that matches)
		if n := checkErrorAborts(c, "R-C11-1", fn, certgenPkg+".decodeIPV4AddressChoice", 1, "address block that does not decode"); n == 0 {
			r.AnchorLost("R-C11-1", "decoding of the address blocks in VerifyIPRestrictedX509CertIP")
		}
	}
	if fn := c.P.Func("lib/certgen", "ExtractIPNetsFromIPRestrictedX509"); fn != nil {
		// "the netblocks read back equal the ones it was minted with": the reader hands back the whole list or an
		// error - a block that does not decode is never the end of a shorter list reported as success
		if n := checkErrorAborts(c, "R-C11-1", fn, certgenPkg+".decodeIPV4AddressChoice", 1, "address block that does not decode (reader)"); n == 0 {
			r.AnchorLost("R-C11-1", "decoding of the address blocks in ExtractIPNetsFromIPRestrictedX509")
		}
	}

	// ---------- R-C11-2
	if ca := c.MustFunc("R-C11-2", "cmd/keymasterd", "(*RuntimeState).checkAuth"); ca != nil {
		checkAuthBits(c, s, ca, "R-C11-2")
	}
	checkKeymasterSigned(c, s, "R-C11-2")

	// ---------- R-C11-3
	checkExtractRequiresExtension(c, s, "R-C11-3")
	if fn := c.MustFunc("R-C11-3", "cmd/keymasterd", "(*RuntimeState).parseRefreshRoleCertGenParams"); fn != nil {
		typ := KMD + ".roleRequestingCertGenParams"
		for _, st := range storesByField(fn, typ)["Role"] {
			r.Add("R-C11-3", km.FuncName(fn), "refreshed identity", posOf(c, st), "the authenticated certificate's name (authInfo.Username)", km.ValStr(st.Val), s.Is(st.Val, km.RoleAuthUser))
		}
		nb := storesByField(fn, typ)["RequestorNetblocks"]
		if len(nb) == 0 {
			r.AnchorLost("R-C11-3", "RequestorNetblocks store in parseRefreshRoleCertGenParams")
		}
		for _, st := range nb {
			ec, idx := callRes(km.Unwrap(st.Val))
			ok := ec != nil && idx == 0 && km.CalleeFull(ec.Common()) == certgenPkg+".ExtractIPNetsFromIPRestrictedX509" && isVerifiedLeaf(km.Unwrap(ec.Common().Args[0]))
			if ok {
				ok = c.F.At(st).All(func(k km.Conj) bool { return s.Holds(k, primErrNilCall("extract ok", ec, 1)) })
			} else if g := extractorHelper(c, s, ec, idx); g != nil {
				// a helper of the module that returns the extractor's netblocks for the request's verified leaf, and
				// nothing else without an error; all its errors are nil where the netblocks are stored
				ok = true
				res := g.Signature.Results()
				for i := 0; i < res.Len(); i++ {
					if isErrorType(res.At(i).Type()) {
						pr := primErrNilCall("helper ok", ec, i)
						if !c.F.At(st).All(func(k km.Conj) bool { return s.Holds(k, pr) }) {
							ok = false
						}
					}
				}
			}
			r.Add("R-C11-3", km.FuncName(fn), "refreshed netblocks", posOf(c, st), "ExtractIPNetsFromIPRestrictedX509(r.TLS.VerifiedChains[0][0]) without error - the certificate checkAuth verified", clipS(km.ValStr(st.Val), 160), ok)
		}
	}
	if fn := c.MustFunc("R-C11-3", "cmd/keymasterd", "(*RuntimeState).refreshRoleRequestingCertGenHandler"); fn != nil {
		consts := authTypeConsts(c)
		for _, ci := range km.CallsIn(fn) {
			switch km.CalleeFull(ci.Common()) {
			case RS + "checkAuth":
				got := maskExpr(c, km.CallArgs(ci.Common())[3], consts)
				r.Add("R-C11-3", km.FuncName(fn), "refresh admission mask", posOf(c, ci), "AuthTypeIPCertificate only", got, got == "AuthTypeIPCertificate")
			case RS + "withParamsGenerateRoleRequestingCert":
				st := c.F.At(ci)
				pc, idx := callRes(km.Unwrap(km.CallArgs(ci.Common())[1]))
				ok := pc != nil && idx == 0 && km.CalleeFull(pc.Common()) == RS+"parseRefreshRoleCertGenParams"
				if ok {
					ok = st.All(func(k km.Conj) bool {
						return s.Holds(k, s.PrimAuthed()) && s.Holds(k, s.PrimUnsealed()) && s.Holds(k, primErrNilCall("user ok", pc, 1)) && s.Holds(k, primErrNilCall("ok", pc, 2))
					})
				}
				r.Add("R-C11-3", km.FuncName(fn), "re-issue", posOf(c, ci), "Unsealed ∧ Authed ∧ parameters from parseRefreshRoleCertGenParams without error", sprintf("%v", ok), ok)
			}
		}
	}
	if fn := c.MustFunc("R-C11-4", "lib/certgen", "ExtractIPNetsFromIPRestrictedX509"); fn != nil {
		for _, ci := range km.CallsIn(fn) {
			if km.CalleeFull(ci.Common()) == "bytes.Equal" {
				a := ci.Common().Args
				ok := (mentionsField(a[0], "AddressFamily") && isGlobalLoad(a[1], "ipV4FamilyEncoding")) || (mentionsField(a[1], "AddressFamily") && isGlobalLoad(a[0], "ipV4FamilyEncoding"))
				r.Add("R-C11-4", km.FuncName(fn), "family constant (extractor)", posOf(c, ci), "bytes.Equal(entry.AddressFamily, ipV4FamilyEncoding)", km.ValStr(a[0])+" vs "+km.ValStr(a[1]), ok)
			}
		}
		checkFamilyBeforeDecode(c, s, fn, "R-C11-4")
		// every returned netblock comes from the decoder
		nApp := 0
		for _, ci := range km.CallsIn(fn) {
			if b, ok := ci.Common().Value.(*ssa.Builtin); ok && b.Name() == "append" {
				nApp++
				el := appendedSingle(ci.(*ssa.Call))
				ok2 := el != nil && derivesFromCall(el, certgenPkg+".decodeIPV4AddressChoice", 0)
				r.Add("R-C11-4", km.FuncName(fn), "extracted netblock", posOf(c, ci), "each element is decodeIPV4AddressChoice(entry)", sprintf("%v", ok2), ok2)
			}
		}
		if nApp == 0 {
			r.AnchorLost("R-C11-4", "append of decoded netblocks in ExtractIPNetsFromIPRestrictedX509")
		}
	}

	checkMintedNetblocks(c, "R-C11-6")
	checkIPCodec(c, s, "R-C11-4")
	checkIPv4Decoder(c, s, "R-C11-5")
	_ = strings.Contains
}

// controllingFactsAll: controlling facts of b, walking through loop headers with two predecessors by following
// the immediate dominator chain (each step contributes the edge facts when the step is a single If edge).
func controllingFactsAll(c *km.Ctx, b *ssa.BasicBlock) []km.Fact {
	var out []km.Fact
	for b != nil {
		d := b.Idom()
		if d == nil {
			break
		}
		if iff, ok := d.Instrs[len(d.Instrs)-1].(*ssa.If); ok && d.Succs[0] != d.Succs[1] {
			if d.Succs[0] == b {
				out = append(out, c.F.CondFacts(iff.Cond, true)...)
			} else if d.Succs[1] == b {
				out = append(out, c.F.CondFacts(iff.Cond, false)...)
			}
		}
		b = d
	}
	return out
}

func isGlobalLoad(v ssa.Value, name string) bool {
	u, ok := km.Unwrap(v).(*ssa.UnOp)
	if !ok || u.Op != token.MUL {
		return false
	}
	g, ok := u.X.(*ssa.Global)
	return ok && g.Name() == name
}

// derivesFromCall: v is (a load / field / address of) result #idx of a call to callee, possibly through a local cell.
func derivesFromCall(v ssa.Value, callee string, idx int) bool {
	return derivesFromCallD(v, callee, idx, 0)
}

func derivesFromCallD(v ssa.Value, callee string, idx int, depth int) bool {
	if depth > 8 || v == nil {
		return false
	}
	v = km.Unwrap(v)
	if cl, i := callRes(v); cl != nil {
		return i == idx && km.CalleeFull(cl.Common()) == callee
	}
	switch x := v.(type) {
	case *ssa.UnOp:
		return derivesFromCallD(x.X, callee, idx, depth+1)
	case *ssa.FieldAddr:
		return derivesFromCallD(x.X, callee, idx, depth+1)
	case *ssa.Field:
		return derivesFromCallD(x.X, callee, idx, depth+1)
	case *ssa.Alloc:
		n := 0
		for _, ref := range *x.Referrers() {
			if st, ok := ref.(*ssa.Store); ok && st.Addr == ssa.Value(x) {
				if !derivesFromCallD(st.Val, callee, idx, depth+1) {
					return false
				}
				n++
			}
		}
		return n > 0
	}
	return false
}

// checkIPCodec: structural agreement of the address-extension encoder and decoder (shared by C11 and C06).
func checkIPCodec(c *km.Ctx, s *km.Sem, rule string) {
	r := c.R
	// ---------- R-C11-4 encoder / decoder
	if enc := c.MustFunc(rule, "lib/certgen", "encodeIpAddressChoice"); enc != nil {
		var sizeCall *ssa.Call
		for _, ci := range km.CallsIn(enc) {
			if cl, ok := ci.(*ssa.Call); ok && km.CalleeFull(cl.Common()) == "(net.IPMask).Size" {
				sizeCall = cl
			}
		}
		if sizeCall == nil {
			r.AnchorLost(rule, "Mask.Size() in encodeIpAddressChoice")
		} else {
			// rejects non-32-bit masks
			rej := false
			for _, rc := range s.RetCases(enc) {
				if !km.IsNilConst(rc.Results[1]) {
					continue
				}
				rej = rc.State.All(func(k km.Conj) bool {
					for _, f := range k.List() {
						if cl, idx := callRes(f.X); cl == sizeCall && idx == 1 && f.Op == token.EQL {
							if kv, ok := km.ConstInt(f.Y); ok && kv == 32 {
								return true
							}
						}
					}
					return false
				})
			}
			r.Add(rule, km.FuncName(enc), "encoder: IPv4 masks only", posOf(c, sizeCall), "success only when the mask has 32 bits", sprintf("%v", rej), rej)
			bl := storesByField(enc, "encoding/asn1.BitString")["BitLength"]
			for _, st := range bl {
				cl, idx := callRes(km.Unwrap(st.Val))
				r.Add(rule, km.FuncName(enc), "encoder: BitLength", posOf(c, st), "the number of ones of the mask", km.ValStr(st.Val), cl == sizeCall && idx == 0)
			}
			if len(bl) == 0 {
				r.AnchorLost(rule, "BitLength store in encodeIpAddressChoice")
			}
			// byte count = (ones+7)/8
			okLen := false
			km.Instrs(enc, func(in ssa.Instruction) {
				if ms, ok := in.(*ssa.MakeSlice); ok {
					if d, ok := km.Unwrap(ms.Len).(*ssa.BinOp); ok && d.Op == token.QUO {
						if kv, isC := km.ConstInt(d.Y); isC && kv == 8 {
							if add, ok := d.X.(*ssa.BinOp); ok && add.Op == token.ADD {
								cl, idx := callRes(km.Unwrap(add.X))
								if k7, isC := km.ConstInt(add.Y); isC && k7 == 7 && cl == sizeCall && idx == 0 {
									okLen = true
								}
							}
						}
					}
				}
			})
			r.Add(rule, km.FuncName(enc), "encoder: byte count", c.P.Pos(enc.Pos()), "ceil(ones/8) = (ones+7)/8 address bytes", sprintf("%v", okLen), okLen)
		}
	}
	if dec := c.MustFunc(rule, "lib/certgen", "decodeIPV4AddressChoice"); dec != nil {
		// (dec-1/4) every store into the address array stores an unmodified byte of the encoded bytes at the same index,
		// under the loop test i*8 < BitLength; or a copy() of ceil(BitLength/8) bytes
		var arr *ssa.Alloc
		km.Instrs(dec, func(in ssa.Instruction) {
			if a, ok := in.(*ssa.Alloc); ok && arrayLen(a.Type()) == 4 {
				arr = a
			}
		})
		if arr == nil {
			r.AnchorLost(rule, "4-byte address array in decodeIPV4AddressChoice")
		} else {
			nSt := 0
			km.Instrs(dec, func(in ssa.Instruction) {
				st, ok := in.(*ssa.Store)
				if !ok {
					return
				}
				ia, ok := st.Addr.(*ssa.IndexAddr)
				if !ok || ia.X != ssa.Value(arr) {
					return
				}
				nSt++
				good := false
				if u, ok := km.Unwrap(st.Val).(*ssa.UnOp); ok && u.Op == token.MUL {
					if src, ok := u.X.(*ssa.IndexAddr); ok && mentionsField(src.X, "Bytes") && km.Unwrap(src.Index) == km.Unwrap(ia.Index) {
						good = true
					}
				}
				loop := false
				for _, f := range controllingFactsAll(c, in.Block()) {
					if f.Op == token.LSS && mentionsField(f.Y, "BitLength") {
						if m, ok := f.X.(*ssa.BinOp); ok && m.Op == token.MUL && km.Unwrap(m.X) == km.Unwrap(ia.Index) {
							if kv, isC := km.ConstInt(m.Y); isC && kv == 8 {
								loop = true
							}
						}
					}
				}
				r.Add(rule, km.FuncName(dec), "decoder: address byte", posOf(c, in), "address[i] = Bytes[i] (unmodified) while i*8 < BitLength, i.e. ceil(BitLength/8) bytes", sprintf("unmodified-same-index=%v loop-test=%v value=%s", good, loop, clipS(km.ValStr(st.Val), 80)), good && loop)
			})
			for _, ci := range km.CallsIn(dec) {
				if b, ok := ci.Common().Value.(*ssa.Builtin); ok && b.Name() == "copy" {
					nSt++
					src := km.Unwrap(ci.Common().Args[1])
					good := false
					if sl, ok := src.(*ssa.Slice); ok && sl.High != nil && mentionsField(sl.X, "Bytes") {
						if d, ok := km.Unwrap(sl.High).(*ssa.BinOp); ok && d.Op == token.QUO {
							if add, ok := d.X.(*ssa.BinOp); ok && add.Op == token.ADD && mentionsField(add.X, "BitLength") {
								k7, ok1 := km.ConstInt(add.Y)
								k8, ok2 := km.ConstInt(d.Y)
								good = ok1 && ok2 && k7 == 7 && k8 == 8
							}
						}
					}
					r.Add(rule, km.FuncName(dec), "decoder: address bytes (copy)", posOf(c, ci), "copy of exactly ceil(BitLength/8) = (BitLength+7)/8 encoded bytes", clipS(km.ValStr(src), 120), good)
				}
			}
			if nSt == 0 {
				r.AnchorLost(rule, "stores into the address array in decodeIPV4AddressChoice")
			}
		}
		// (dec-2) mask
		nMask := 0
		for _, ci := range km.CallsIn(dec) {
			if km.CalleeFull(ci.Common()) == "net.CIDRMask" {
				nMask++
				a := ci.Common().Args
				bits, isC := km.ConstInt(a[1])
				ok := mentionsField(a[0], "BitLength") && isC && bits == 32
				r.Add(rule, km.FuncName(dec), "decoder: mask", posOf(c, ci), "net.CIDRMask(BitLength, 32)", km.ValStr(a[0])+", "+km.ValStr(a[1]), ok)
			}
			if km.CalleeFull(ci.Common()) == "net.IPv4" {
				a := ci.Common().Args
				ok := len(a) == 4
				for i := 0; ok && i < 4; i++ {
					u, isU := km.Unwrap(a[i]).(*ssa.UnOp)
					if !isU {
						ok = false
						break
					}
					ia, isIA := u.X.(*ssa.IndexAddr)
					idx, isC := int64(-1), false
					if isIA {
						idx, isC = km.ConstInt(ia.Index)
					}
					if !isIA || ia.X != ssa.Value(arr) || !isC || idx != int64(i) {
						ok = false
					}
				}
				r.Add(rule, km.FuncName(dec), "decoder: address", posOf(c, ci), "net.IPv4(address[0], address[1], address[2], address[3])", sprintf("%v", ok), ok)
			}
		}
		if nMask == 0 {
			r.AnchorLost(rule, "CIDRMask call in decodeIPV4AddressChoice")
		}
	}
	if gen := c.MustFunc(rule, "lib/certgen", "genDelegationExtension"); gen != nil {
		for _, st := range storesByField(gen, certgenPkg+".IpAdressFamily")["AddressFamily"] {
			r.Add(rule, km.FuncName(gen), "family constant (encoder)", posOf(c, st), "ipV4FamilyEncoding", km.ValStr(st.Val), isGlobalLoad(st.Val, "ipV4FamilyEncoding"))
		}
	}
}

// checkExtractRequiresExtension: ExtractIPNetsFromIPRestrictedX509 reports an error for a certificate without
// the address extension. checkAuth admits an ordinary keymaster certificate under the refresh endpoint's mask
// (the certificate gate is shared), so this error is what keeps the refresh endpoint to IP-restricted
// certificates: a success return must have seen the extension.
func checkExtractRequiresExtension(c *km.Ctx, s *km.Sem, rule string) {
	fn := c.MustFunc(rule, "lib/certgen", "ExtractIPNetsFromIPRestrictedX509")
	if fn == nil {
		return
	}
	isOIDEqual := func(v ssa.Value) bool {
		cl, ok := km.Unwrap(v).(*ssa.Call)
		if !ok || !strings.HasSuffix(km.CalleeFull(cl.Common()), "asn1.ObjectIdentifier).Equal") {
			return false
		}
		for _, a := range cl.Common().Args {
			if g, ok := km.Unwrap(a).(*ssa.UnOp); ok {
				if gl, ok := g.X.(*ssa.Global); ok && gl.Name() == "oidIPAddressDelegation" {
					return true
				}
			}
		}
		return false
	}
	// a matcher closure handed to slices.IndexFunc / ContainsFunc: func(e) bool { return e.Id.Equal(oid) }
	isOIDMatcher := func(v ssa.Value) bool {
		mc, ok := km.Unwrap(v).(*ssa.MakeClosure)
		var h *ssa.Function
		if ok {
			h, _ = mc.Fn.(*ssa.Function)
		} else {
			h, _ = km.Unwrap(v).(*ssa.Function)
		}
		if h == nil || h.Blocks == nil {
			return false
		}
		n := 0
		for _, rc := range s.RetCases(h) {
			if !isOIDEqual(rc.Results[0]) {
				return false
			}
			n++
		}
		return n > 0
	}
	present := km.Prim{Name: "address extension present", Direct: func(f km.Fact) bool {
		if f.Op == token.ILLEGAL && f.Pol && isOIDEqual(f.X) {
			return true
		}
		cl, ok := f.X.(*ssa.Call)
		if !ok {
			return false
		}
		name := km.CalleeFull(cl.Common())
		if i := strings.Index(name, "["); i > 0 {
			name = name[:i]
		}
		switch name {
		case "slices.ContainsFunc":
			return f.Op == token.ILLEGAL && f.Pol && len(cl.Common().Args) == 2 && isOIDMatcher(cl.Common().Args[1])
		case "slices.IndexFunc":
			if len(cl.Common().Args) != 2 || !isOIDMatcher(cl.Common().Args[1]) {
				return false
			}
			k, isK := km.ConstInt(f.Y)
			return isK && ((f.Op == token.GEQ && k == 0) || (f.Op == token.GTR && k == -1) || (f.Op == token.NEQ && k == -1))
		}
		return false
	}}
	n := 0
	for _, rc := range s.RetCases(fn) {
		if len(rc.Results) != 2 || !km.IsNilConst(rc.Results[1]) {
			continue
		}
		n++
		ok := len(rc.State) > 0 && rc.State.All(func(k km.Conj) bool { return s.Holds(k, present) })
		c.R.Add(rule, km.FuncName(fn), "netblocks extracted only from a certificate that has the address extension", posOf(c, rc.Ret), "every return without error is reached only after an extension with the address-delegation OID was found (no extension => error)", sprintf("%v", ok), ok)
	}
	if n == 0 {
		c.R.AnchorLost(rule, "success return of ExtractIPNetsFromIPRestrictedX509")
	}
}

// ---------------------------------------------------------------------------------------------------
// R-C11-6: minting. The netblocks placed in the generation parameters by the request parser are the
// request's requestor_netblock values and nothing else read from the request.

// formKeys collects the constant keys of the request-form reads in the backward slice of v. Loads of the
// field named self contribute nothing (the accumulating append). env binds the parameters of a helper to
// the arguments of the call we came through. opaque reports a parameter we could not bind.
type formKeyWalk struct {
	c      *km.Ctx
	self   string
	keys   map[string]bool
	opaque []string
	seen   map[ssa.Value]bool
	steps  int
	// a row of a local table of (form name, destination pointer, ...) descriptors: loads of the other columns
	// of the row being iterated evaluate to this row's values
	table *ssa.Alloc
	row   map[int]ssa.Value
}

// resolve: a column of the bound table row -> that row's value
func (w *formKeyWalk) resolve(v ssa.Value) ssa.Value {
	if w.table == nil {
		return v
	}
	if t, col, ok := rowColumn(v); ok && t == w.table {
		if rv, has := w.row[col]; has {
			return rv
		}
	}
	return v
}

// rowColumn: v reads column col of an element of a local table (directly, or through the per-iteration copy).
func rowColumn(v ssa.Value) (*ssa.Alloc, int, bool) {
	switch x := km.Unwrap(v).(type) {
	case *ssa.Field:
		if t := localTableOf(x.X); t != nil {
			return t, x.Field, true
		}
	case *ssa.UnOp:
		if x.Op != token.MUL {
			return nil, 0, false
		}
		fa, ok := x.X.(*ssa.FieldAddr)
		if !ok {
			return nil, 0, false
		}
		a, ok := fa.X.(*ssa.Alloc)
		if !ok {
			return nil, 0, false
		}
		var src ssa.Value
		n := 0
		for _, ref := range *a.Referrers() {
			if st, ok := ref.(*ssa.Store); ok && st.Addr == ssa.Value(a) {
				src = st.Val
				n++
			}
		}
		if n == 1 {
			if t := localTableOf(src); t != nil {
				return t, fa.Field, true
			}
		}
	}
	return nil, 0, false
}

// localTableOf: v is an element loaded from a local array/slice literal; returns the backing allocation.
func localTableOf(v ssa.Value) *ssa.Alloc {
	u, ok := km.Unwrap(v).(*ssa.UnOp)
	if !ok || u.Op != token.MUL {
		return nil
	}
	ia, ok := u.X.(*ssa.IndexAddr)
	if !ok {
		return nil
	}
	x := ia.X
	if sl, ok := x.(*ssa.Slice); ok {
		x = sl.X
	}
	a, _ := x.(*ssa.Alloc)
	return a
}

// localTableRows: the constant-index rows of a local array literal, column index -> stored value.
func localTableRows(t *ssa.Alloc) map[int64]map[int]ssa.Value {
	out := map[int64]map[int]ssa.Value{}
	for _, ref := range *t.Referrers() {
		ia, ok := ref.(*ssa.IndexAddr)
		if !ok {
			continue
		}
		i, ok := km.ConstInt(ia.Index)
		if !ok {
			continue
		}
		for _, r2 := range *ia.Referrers() {
			if st, ok := r2.(*ssa.Store); ok && st.Addr == ssa.Value(ia) {
				// *(&t[i]) = *lit, lit a composite literal filled field by field
				if u, ok := st.Val.(*ssa.UnOp); ok && u.Op == token.MUL {
					if lit, ok := u.X.(*ssa.Alloc); ok {
						for _, r3 := range *lit.Referrers() {
							if fa, ok := r3.(*ssa.FieldAddr); ok {
								for _, r4 := range *fa.Referrers() {
									if s4, ok := r4.(*ssa.Store); ok && s4.Addr == ssa.Value(fa) {
										if out[i] == nil {
											out[i] = map[int]ssa.Value{}
										}
										out[i][fa.Field] = s4.Val
									}
								}
							}
						}
					}
				}
				continue
			}
			fa, ok := r2.(*ssa.FieldAddr)
			if !ok {
				continue
			}
			for _, r3 := range *fa.Referrers() {
				if st, ok := r3.(*ssa.Store); ok && st.Addr == ssa.Value(fa) {
					if out[i] == nil {
						out[i] = map[int]ssa.Value{}
					}
					out[i][fa.Field] = st.Val
				}
			}
		}
	}
	return out
}

func (w *formKeyWalk) key(v ssa.Value, env map[*ssa.Parameter]ssa.Value) {
	if p, ok := km.Unwrap(v).(*ssa.Parameter); ok && env != nil {
		if a, has := env[p]; has {
			v = a
		}
	}
	v = w.resolve(v)
	if k, ok := evalString(w.c, v, 0); ok {
		w.keys[k] = true
		return
	}
	w.opaque = append(w.opaque, "form key "+km.ValStr(v))
}

func (w *formKeyWalk) walk(v ssa.Value, env map[*ssa.Parameter]ssa.Value, depth int) {
	if v == nil || depth > 6 {
		return
	}
	v = km.Unwrap(v)
	if w.seen[v] {
		return
	}
	w.seen[v] = true
	w.steps++
	if w.steps > 4000 {
		return
	}
	switch x := v.(type) {
	case *ssa.Const, *ssa.Global, *ssa.Function, *ssa.Builtin, *ssa.FreeVar:
	case *ssa.Parameter:
		if a, has := env[x]; has && a != nil {
			w.walk(a, nil, depth)
		} else if x.Name() != "state" && !isRequestType(x.Type()) {
			w.opaque = append(w.opaque, "parameter "+x.Name()+" of "+km.FuncName(x.Parent()))
		}
	case *ssa.Phi:
		for _, e := range x.Edges {
			w.walk(e, env, depth)
		}
	case *ssa.Extract:
		w.walk(x.Tuple, env, depth)
	case *ssa.Lookup:
		if isFormMap(x.X) {
			w.key(x.Index, env)
			return
		}
		w.walk(x.X, env, depth)
	case *ssa.Index:
		w.walk(x.X, env, depth)
	case *ssa.IndexAddr:
		w.walk(x.X, env, depth)
	case *ssa.Slice:
		w.walk(x.X, env, depth)
	case *ssa.Convert:
		w.walk(x.X, env, depth)
	case *ssa.BinOp:
		w.walk(x.X, env, depth)
		w.walk(x.Y, env, depth)
	case *ssa.Next:
		w.walk(x.Iter, env, depth)
	case *ssa.Range:
		w.walk(x.X, env, depth)
	case *ssa.FieldAddr:
		if fieldNameOf(x) == w.self {
			return
		}
		w.walk(x.X, env, depth)
	case *ssa.Field:
		if rv := w.resolve(x); rv != ssa.Value(x) {
			w.walk(rv, env, depth)
			return
		}
		w.walk(x.X, env, depth)
	case *ssa.UnOp:
		if rv := w.resolve(x); rv != ssa.Value(x) {
			w.walk(rv, env, depth)
			return
		}
		if x.Op != token.MUL {
			w.walk(x.X, env, depth)
			return
		}
		switch a := x.X.(type) {
		case *ssa.FieldAddr:
			if fieldNameOf(a) == w.self {
				return
			}
			if isFormMapField(a) {
				w.opaque = append(w.opaque, "whole form "+km.ValStr(a))
				return
			}
			w.walk(a.X, env, depth)
		default:
			w.walk(x.X, env, depth)
		}
	case *ssa.Alloc:
		for _, ref := range *x.Referrers() {
			switch st := ref.(type) {
			case *ssa.Store:
				if st.Addr == ssa.Value(x) {
					w.walk(st.Val, env, depth)
				}
			case *ssa.IndexAddr:
				for _, r2 := range *st.Referrers() {
					if s2, ok := r2.(*ssa.Store); ok && s2.Addr == ssa.Value(st) {
						w.walk(s2.Val, env, depth)
					}
				}
			case *ssa.FieldAddr:
				if fieldNameOf(st) == w.self {
					continue
				}
				for _, r2 := range *st.Referrers() {
					if s2, ok := r2.(*ssa.Store); ok && s2.Addr == ssa.Value(st) {
						w.walk(s2.Val, env, depth)
					}
				}
			}
		}
	case *ssa.Call:
		cc := x.Common()
		if b, ok := cc.Value.(*ssa.Builtin); ok {
			_ = b
			for _, a := range cc.Args {
				w.walk(a, env, depth)
			}
			return
		}
		switch km.CalleeFull(cc) {
		case "(net/url.Values).Get", "(*net/http.Request).FormValue", "(*net/http.Request).PostFormValue":
			w.key(km.CallArgs(cc)[1], env)
			return
		}
		if cc.IsInvoke() && len(cc.Args) == 1 {
			switch cc.Method.Name() {
			case "FormValue", "PostFormValue", "Get":
				w.key(cc.Args[0], env)
				return
			}
		}
		callee := km.StaticCallee(cc)
		args := km.CallArgs(cc)
		if callee != nil && w.c.InModule(callee) && len(callee.Blocks) > 0 {
			env2 := map[*ssa.Parameter]ssa.Value{}
			for i, p := range callee.Params {
				if i < len(cc.Args) {
					a := cc.Args[i]
					if ap, isP := km.Unwrap(a).(*ssa.Parameter); isP && env != nil {
						if b, has := env[ap]; has {
							a = b
						}
					}
					env2[p] = w.resolve(a)
				}
			}
			for _, b := range callee.Blocks {
				if ret, ok := b.Instrs[len(b.Instrs)-1].(*ssa.Return); ok {
					for _, rv := range ret.Results {
						if isErrorType(rv.Type()) {
							continue
						}
						w.walk(rv, env2, depth+1)
					}
				}
			}
			return
		}
		for _, a := range args {
			w.walk(a, env, depth)
		}
	}
}

func isRequestType(t types.Type) bool {
	return km.NamedTypeOf(t) == "net/http.Request"
}

// isFormMap: the map indexed is r.PostForm / r.Form (a url.Values).
func isFormMap(v ssa.Value) bool {
	v = km.Unwrap(v)
	if km.NamedTypeOf(v.Type()) == "net/url.Values" {
		return true
	}
	if u, ok := v.(*ssa.UnOp); ok && u.Op == token.MUL {
		if fa, ok := u.X.(*ssa.FieldAddr); ok {
			return isFormMapField(fa)
		}
	}
	return false
}

func isFormMapField(fa *ssa.FieldAddr) bool {
	n := fieldNameOf(fa)
	return (n == "PostForm" || n == "Form") && isRequestType(fa.X.Type())
}

func checkMintedNetblocks(c *km.Ctx, rule string) {
	r := c.R
	typ := KMD + ".roleRequestingCertGenParams"
	refresh := c.P.Func("cmd/keymasterd", "(*RuntimeState).parseRefreshRoleCertGenParams")
	n := 0
	judge := func(fn *ssa.Function, st *ssa.Store, w *formKeyWalk) {
		var ks []string
		for k := range w.keys {
			ks = append(ks, k)
		}
		sort.Strings(ks)
		got := "form values " + strings.Join(ks, ", ")
		if len(w.opaque) > 0 {
			sort.Strings(w.opaque)
			got += "; untraced: " + strings.Join(w.opaque, "; ")
		}
		ok := len(ks) == 1 && ks[0] == "requestor_netblock" && len(w.opaque) == 0
		r.Add(rule, km.FuncName(fn), "minted netblocks", posOf(c, st), "derived from the request's requestor_netblock values only", clipS(got, 240), ok)
	}
	for _, fn := range c.P.AllFuncs {
		if !c.InModule(fn) || fn == refresh {
			continue
		}
		for _, st := range storesByField(fn, typ)["RequestorNetblocks"] {
			n++
			w := &formKeyWalk{c: c, self: "RequestorNetblocks", keys: map[string]bool{}, seen: map[ssa.Value]bool{}}
			w.walk(st.Val, nil, 0)
			judge(fn, st, w)
		}
	}
	// the same through a local table of (form name, destination) rows: *row.dest = parse(row.name)
	for _, fn := range c.P.AllFuncs {
		if !c.InModule(fn) || fn == refresh {
			continue
		}
		km.Instrs(fn, func(in ssa.Instruction) {
			st, ok := in.(*ssa.Store)
			if !ok {
				return
			}
			t, col, ok := rowColumn(st.Addr)
			if !ok {
				return
			}
			var idx []int64
			rows := localTableRows(t)
			for i := range rows {
				idx = append(idx, i)
			}
			sort.Slice(idx, func(a, b int) bool { return idx[a] < idx[b] })
			for _, i := range idx {
				dst, ok := rows[i][col].(*ssa.FieldAddr)
				if !ok || fieldNameOf(dst) != "RequestorNetblocks" || km.NamedTypeOf(dst.X.Type()) != typ {
					continue
				}
				n++
				w := &formKeyWalk{c: c, self: "RequestorNetblocks", keys: map[string]bool{}, seen: map[ssa.Value]bool{}, table: t, row: rows[i]}
				w.walk(st.Val, nil, 0)
				judge(fn, st, w)
			}
		})
	}
	if n == 0 {
		r.AnchorLost(rule, "RequestorNetblocks store of the minting request parser")
	}
	// a netblock is the network ParseCIDR returns (its address masked), never the host address as typed: a prefix
	// with host bits set is encoded with non-zero padding and cannot be read back from the certificate
	nCIDR := 0
	for _, fn := range c.P.AllFuncs {
		if !c.InModule(fn) || fn.Pkg == nil || !pkgIsKMD(fn.Pkg) {
			continue
		}
		for _, ci := range km.CallsIn(fn) {
			cl, isCall := ci.(*ssa.Call)
			if !isCall || km.CalleeFull(cl.Common()) != "net.ParseCIDR" {
				continue
			}
			nCIDR++
			bad := ""
			seen := map[ssa.Value]bool{}
			var flow func(v ssa.Value, d int)
			flow = func(v ssa.Value, d int) {
				if seen[v] || d > 6 || v.Referrers() == nil {
					return
				}
				seen[v] = true
				for _, ref := range *v.Referrers() {
					switch x := ref.(type) {
					case *ssa.Store:
						if fa, ok := x.Addr.(*ssa.FieldAddr); ok && x.Val == v && fieldNameOf(fa) == "IP" && km.NamedTypeOf(fa.X.Type()) == "net.IPNet" {
							bad = "the address as typed becomes the netblock's base at " + posOf(c, x)
						}
						if al, ok := x.Addr.(*ssa.Alloc); ok && x.Val == v {
							for _, r2 := range *al.Referrers() {
								if ld, isLd := r2.(*ssa.UnOp); isLd {
									flow(ld, d+1)
								}
							}
						}
					case *ssa.Call:
						switch km.CalleeFull(x.Common()) {
						case "(net.IP).To4", "(net.IP).To16":
							if x.Common().Args[0] == v {
								flow(x, d+1)
							}
						}
					case *ssa.ChangeType:
						flow(x, d+1)
					case *ssa.Phi:
						flow(x, d+1)
					}
				}
			}
			for _, ref := range *cl.Referrers() {
				if ex, ok := ref.(*ssa.Extract); ok && ex.Index == 0 {
					flow(ex, 0)
				}
			}
			found := "the address result is not used as a netblock base"
			if bad != "" {
				found = bad
			}
			r.Add(rule, km.FuncName(fn), "netblock base is the masked network", posOf(c, ci), "no net.IPNet is built from ParseCIDR's address result (only its network result is canonical)", found, bad == "")
		}
	}
	if nCIDR == 0 {
		r.AnchorLost(rule, "net.ParseCIDR calls of the request parsers")
	}
	// the generator is handed that field (and, inside, the encoder consumes that parameter)
	for _, fn := range c.P.AllFuncs {
		if fn.Pkg == nil || !pkgIsKMD(fn.Pkg) {
			continue
		}
		for _, ci := range km.CallsIn(fn) {
			if km.CalleeFull(ci.Common()) != certgenPkg+".GenIPRestrictedX509Cert" {
				continue
			}
			a := km.CallArgs(ci.Common())
			// mentionsField is true only for a field read (load of a field address, or a field of a struct value)
			ok := len(a) > 4 && a[4] != nil && mentionsField(a[4], "RequestorNetblocks")
			got := "<none>"
			if len(a) > 4 && a[4] != nil {
				got = km.ValStr(a[4])
			}
			r.Add(rule, km.FuncName(fn), "netblocks handed to the generator", posOf(c, ci), "the parameters' RequestorNetblocks, as parsed", clipS(got, 160), ok)
		}
	}
}

// extractorHelper: ec#idx is the result of a module helper whose every return either carries an error or returns,
// at idx, ExtractIPNetsFromIPRestrictedX509(request's VerifiedChains[0][0])#0 under that call's err == nil.
func extractorHelper(c *km.Ctx, s *km.Sem, ec *ssa.Call, idx int) *ssa.Function {
	if ec == nil {
		return nil
	}
	g := km.StaticCallee(ec.Common())
	if g == nil || !c.InModule(g) || len(g.Blocks) == 0 {
		return nil
	}
	res := g.Signature.Results()
	n := 0
	for _, rc := range s.RetCases(g) {
		failing := false
		for i, v := range rc.Results {
			if i < res.Len() && isErrorType(res.At(i).Type()) && !km.IsNilConst(v) {
				failing = true
			}
		}
		if failing {
			continue
		}
		if idx >= len(rc.Results) {
			return nil
		}
		xc, xi := callRes(km.Unwrap(rc.Results[idx]))
		if xc == nil || xi != 0 || km.CalleeFull(xc.Common()) != certgenPkg+".ExtractIPNetsFromIPRestrictedX509" || !isVerifiedLeaf(km.Unwrap(xc.Common().Args[0])) {
			return nil
		}
		pr := primErrNilCall("extract ok", xc, 1)
		if !rc.State.All(func(k km.Conj) bool { return s.Holds(k, pr) }) {
			return nil
		}
		n++
	}
	if n == 0 {
		return nil
	}
	return g
}

// checkFamilyBeforeDecode: only the blocks of the IPv4 family are read as IPv4 netblocks: every call of the prefix
// decoder is reached with entry.AddressFamily == ipV4FamilyEncoding established (a short prefix of another family
// would otherwise widen access: an IPv6 ::/0 read as 0.0.0.0/0).
func checkFamilyBeforeDecode(c *km.Ctx, s *km.Sem, fn *ssa.Function, rule string) {
	fam := km.Prim{Name: "family == ipv4", Direct: func(f km.Fact) bool {
		cl, ok := f.X.(*ssa.Call)
		if !ok || f.Op != token.ILLEGAL || !f.Pol || km.CalleeFull(cl.Common()) != "bytes.Equal" {
			return false
		}
		a := cl.Common().Args
		return (mentionsField(a[0], "AddressFamily") && isGlobalLoad(a[1], "ipV4FamilyEncoding")) || (mentionsField(a[1], "AddressFamily") && isGlobalLoad(a[0], "ipV4FamilyEncoding"))
	}}
	n := 0
	for _, ci := range callsWithNewHelpers(c, fn, 1) {
		if km.CalleeFull(ci.Common()) != certgenPkg+".decodeIPV4AddressChoice" {
			continue
		}
		n++
		ok, _ := s.HoldsOnAllPaths(ci, allPrims(s, fam), map[*ssa.Function]bool{fn: true}, 2)
		c.R.Add(rule, km.FuncName(fn), "address family before decoding", posOf(c, ci), "the block's family is the IPv4 family constant on every path to the decoder", sprintf("%v", ok), ok)
	}
	if n == 0 {
		c.R.AnchorLost(rule, "prefix decoder call in "+km.NameOf(fn))
	}
}
