package rules

import (
	"fmt"
	"go/token"
	"go/types"
	"regexp"
	"sort"
	"strings"

	"kmcheck/internal/km"

	"golang.org/x/tools/go/ssa"
)

func init() { km.Register("C15", checkC15) }

var dmlRE = regexp.MustCompile(`(?i)^\s*(delete|insert|update|replace)\b`)
var tableRE = regexp.MustCompile(`(?i)\b(?:from|into)\s+([a-z_][a-z0-9_]*)`)

// constSQL: the SQL text of an operand if it is a constant or a Sprintf with a constant format.
func constSQL(v ssa.Value) (string, bool) {
	if s, ok := km.ConstString(v); ok {
		return s, true
	}
	if sp, ok := km.Unwrap(v).(*ssa.Call); ok && km.CalleeFull(sp.Common()) == "fmt.Sprintf" {
		return km.ConstString(sp.Common().Args[0])
	}
	return "", false
}

// globalMapStrings reads the string->string entries of a package-level map initialised by a composite literal.
func globalMapStrings(c *km.Ctx, rel, name string) map[string]string {
	out := map[string]string{}
	pk := c.P.Pkg(rel)
	if pk == nil {
		return out
	}
	g, ok := pk.Members[name].(*ssa.Global)
	if !ok {
		return out
	}
	initFn := pk.Func("init")
	if initFn == nil {
		return out
	}
	var m ssa.Value
	km.Instrs(initFn, func(in ssa.Instruction) {
		if st, ok := in.(*ssa.Store); ok && st.Addr == ssa.Value(g) {
			m = km.Unwrap(st.Val)
		}
	})
	if m == nil {
		return out
	}
	km.Instrs(initFn, func(in ssa.Instruction) {
		if mu, ok := in.(*ssa.MapUpdate); ok && km.Unwrap(mu.Map) == m {
			k, ok1 := km.ConstString(mu.Key)
			v, ok2 := km.ConstString(mu.Value)
			if ok1 && ok2 {
				out[k] = v
			}
		}
	})
	return out
}

// stmtTexts: possible SQL texts of a value that is a constant, a Sprintf, or a lookup in a package-level map.
func stmtTexts(c *km.Ctx, v ssa.Value) []string {
	if s, ok := constSQL(v); ok {
		return []string{s}
	}
	// a field of an entry of a package-level table of statement groups: table[dialect].field
	if base, fld, ok := km.FieldOfLoad(km.Unwrap(v)); ok {
		b := km.CellOrigin(base)
		if ex, isEx := b.(*ssa.Extract); isEx {
			b = ex.Tuple
		}
		if lk, isLk := b.(*ssa.Lookup); isLk {
			if u, isU := km.Unwrap(lk.X).(*ssa.UnOp); isU {
				if g, isG := u.X.(*ssa.Global); isG {
					return globalTableFieldStrings(c, g, fld)
				}
			}
		}
	}
	if lk, ok := km.Unwrap(v).(*ssa.Lookup); ok {
		if u, ok := km.Unwrap(lk.X).(*ssa.UnOp); ok {
			if g, ok := u.X.(*ssa.Global); ok {
				var out []string
				m := globalMapStrings(c, "cmd/keymasterd", g.Name())
				keys := make([]string, 0, len(m))
				for k := range m {
					keys = append(keys, k)
				}
				sort.Strings(keys)
				for _, k := range keys {
					out = append(out, m[k])
				}
				return out
			}
		}
	}
	return nil
}

func sqlRecv(n string) (kind, method string, ok bool) {
	for _, k := range []string{"DB", "Tx", "Stmt", "Conn"} {
		p := "(*database/sql." + k + ")."
		if strings.HasPrefix(n, p) {
			return k, strings.TrimPrefix(n, p), true
		}
	}
	return "", "", false
}

func checkC15(c *km.Ctx) {
	r := c.R
	s := km.NewSem(c)
	r.Explain = "Static analysis of /repo: (1) every module-defined struct reachable from the gob-encoded user profile has only exported fields, and save/load use the same type; (2) in the cache synchronisation exactly one transaction is opened on the destination, every destination statement between Begin and Commit is executed through that transaction (receiver provenance), Rollback is deferred, no error exit follows Commit, and nowhere in the storage code is a data-modifying statement issued through Query/QueryRow (which the sqlite driver never steps); (3) every table the synchronisation inserts into is emptied in the same transaction before the inserts (table names read from the constant SQL texts); (4) every SaveUserProfile of a profile that came from LoadUserProfile is dominated by 'not from cache', and the storage readers only fall back to the cache by not answering (no error is sent when the primary cannot be prepared). Decides structure; SQL engine atomicity and crash points are not modelled."
	r.NotDecided = []string{"SQL engine atomicity / crash points as such", "byte-identical round trips of profile values", "the synchronisation schedule"}
	r.Assume = []string{"database/sql transactions are atomic", "encoding/gob encodes exported fields only", "go/types + go/ssa model the source faithfully"}

	r.Rule("R-C15-1", "codec agreement: SaveUserProfile encodes *userProfile, LoadUserProfile decodes into userProfile; every module-defined struct reachable from it has only exported fields; every upsert statement stores the new profile bytes; the CREATE TABLE texts of the two dialects agree on names, type class, uniqueness and collation", 3)
	r.Rule("R-C15-2", "synchronisation is one transaction whose statements run: one Begin on the destination, all destination statements through that Tx, deferred Rollback, Commit last; no DML through Query/QueryRow anywhere in the storage code", 5)
	r.Rule("R-C15-3", "mirror, not merge: every table the synchronisation inserts into is DELETEd in the same transaction before the inserts; nil is returned only after Commit; the expiry filter of the copied records compares with the current time only", 1)
	r.Rule("R-C15-4", "no writes from a cached read: every SaveUserProfile of a loaded profile is dominated by fromCache == false; storage readers send on their result channel only after a successful Prepare (an unreachable primary falls back to the cache)", 7)

	// ---------- R-C15-1
	checkUpsertStatements(c, "R-C15-1", "user_profile", []string{"profile_data"}, 2)
	checkGobStructs(c, "R-C15-1")
	checkSchemasAgree(c, "R-C15-1")
	// "a saved profile is read back identical": saved means committed - SaveUserProfile reports success only on
	// a path on which the transaction's Commit returned no error (an error lost in a retry loop, a shadowed
	// variable, reads as a save that never happened)
	if fn := c.MustFunc("R-C15-1", "cmd/keymasterd", "(*RuntimeState).SaveUserProfile"); fn != nil {
		committed := km.Prim{Name: "commit ok", Rel: func(f km.Fact, resolve func(ssa.Value) ssa.Value) bool {
			if f.Op != token.EQL || f.Y == nil || !km.IsNilConst(f.Y) {
				return false
			}
			cl, ok := km.Unwrap(resolve(f.X)).(*ssa.Call)
			return ok && km.CalleeFull(cl.Common()) == "(*database/sql.Tx).Commit"
		}}
		n := 0
		var judge func(f *ssa.Function, depth int)
		judge = func(f *ssa.Function, depth int) {
			for _, rc := range s.RetCases(f) {
				if len(rc.Results) != 1 {
					continue
				}
				v := km.Unwrap(rc.Results[0])
				if cl, isC := v.(*ssa.Call); isC {
					if km.CalleeFull(cl.Common()) == "(*database/sql.Tx).Commit" {
						n++
						continue // Commit's own verdict
					}
					// the verdict of a helper of this module: judged the same way
					if g := km.StaticCallee(cl.Common()); g != nil && len(g.Blocks) > 0 && c.InModule(g) && depth < 2 {
						judge(g, depth+1)
						continue
					}
				}
				bad := ""
				nNil := 0
				for _, k := range rc.State {
					if !km.IsNilConst(v) {
						// an error value: a failing return when the path knows it is not nil
						known := false
						for _, fc := range k.List() {
							if fc.Op == token.NEQ && fc.Y != nil && km.IsNilConst(fc.Y) && km.Unwrap(fc.X) == v {
								known = true
							}
						}
						if known {
							continue
						}
					}
					nNil++
					if !s.Holds(k, committed) {
						bad = clipS(km.DNF{k}.String(), 200)
					}
				}
				if nNil == 0 {
					continue
				}
				n++
				found := sprintf("%d path(s), each after a Commit that returned nil", nNil)
				if bad != "" {
					found = "success can be reported under " + bad
				}
				r.Add("R-C15-1", km.FuncName(f), "success only after the save was committed", posOf(c, rc.Ret), "every return that can carry a nil error follows Commit() == nil", found, bad == "")
			}
		}
		judge(fn, 0)
		if n == 0 {
			r.AnchorLost("R-C15-1", "returns of SaveUserProfile")
		}
	}
	if fn := c.MustFunc("R-C15-1", "cmd/keymasterd", "(*RuntimeState).SaveUserProfile"); fn != nil {
		n := 0
		for _, ci := range km.CallsIn(fn) {
			if km.CalleeFull(ci.Common()) == "(*encoding/gob.Encoder).Encode" {
				n++
				ok := km.Unwrap(km.CallArgs(ci.Common())[1]) == ssa.Value(km.ParamAt(fn, 2))
				r.Add("R-C15-1", km.FuncName(fn), "encode the profile parameter", posOf(c, ci), "gob.Encode(profile param)", km.ValStr(km.CallArgs(ci.Common())[1]), ok)
				continue
			}
			// ... or in an encoding helper that is handed the profile
			g := km.StaticCallee(ci.Common())
			if g == nil || g.Blocks == nil || !c.InModule(g) {
				continue
			}
			for _, c2 := range km.CallsIn(g) {
				if km.CalleeFull(c2.Common()) != "(*encoding/gob.Encoder).Encode" {
					continue
				}
				n++
				ok := false
				if p, isP := km.Unwrap(km.CallArgs(c2.Common())[1]).(*ssa.Parameter); isP {
					args := km.CallArgs(ci.Common())
					for i, q := range g.Params {
						if q == p && i < len(args) {
							ok = km.Unwrap(args[i]) == ssa.Value(km.ParamAt(fn, 2))
						}
					}
				}
				r.Add("R-C15-1", km.FuncName(fn), "encode the profile parameter", posOf(c, ci), "gob.Encode(profile param)", "through "+km.NameOf(g), ok)
			}
		}
		if n == 0 {
			r.AnchorLost("R-C15-1", "gob Encode in SaveUserProfile")
		}
	}
	if fn := c.MustFunc("R-C15-1", "cmd/keymasterd", "(*RuntimeState).LoadUserProfile"); fn != nil {
		n := 0
		scan := []*ssa.Function{fn}
		for _, ci := range km.CallsIn(fn) {
			if g := km.StaticCallee(ci.Common()); g != nil && g.Blocks != nil && c.InModule(g) && g.Pkg == fn.Pkg {
				scan = append(scan, g)
			}
		}
		for _, sf := range scan {
			for _, ci := range km.CallsIn(sf) {
				if km.CalleeFull(ci.Common()) == "(*encoding/gob.Decoder).Decode" {
					n++
					dst := km.Unwrap(km.CallArgs(ci.Common())[1])
					ok := km.NamedTypeOf(dst.Type()) == KMD+".userProfile"
					r.Add("R-C15-1", km.FuncName(fn), "decode into the same type", posOf(c, ci), "gob.Decode(&userProfile)", types.TypeString(dst.Type(), nil), ok)
				}
			}
		}
		if n == 0 {
			r.AnchorLost("R-C15-1", "gob Decode in LoadUserProfile")
		}
	}

	// ---------- R-C15-2: DML through Query anywhere in the storage code
	nSQL := 0
	for _, fn := range c.P.AllFuncs {
		if fn.Pkg == nil || !pkgIsKMD(fn.Pkg) {
			continue
		}
		for _, ci := range km.CallsIn(fn) {
			kind, method, ok := sqlRecv(km.CalleeFull(ci.Common()))
			if !ok {
				continue
			}
			if !strings.HasPrefix(method, "Query") {
				continue
			}
			nSQL++
			var texts []string
			a := km.CallArgs(ci.Common())
			if kind == "Stmt" {
				// the text given to Prepare
				if pc, idx := callRes(km.Unwrap(a[0])); pc != nil && idx == 0 {
					pa := km.CallArgs(pc.Common())
					texts = stmtTexts(c, pa[len(pa)-1])
				} else if p, isP := km.Unwrap(a[0]).(*ssa.Parameter); isP {
					_ = p // helper taking a prepared statement: judged at the Prepare sites (texts of all statement maps are checked below)
				}
			} else {
				idx := 1
				if method == "QueryContext" || method == "QueryRowContext" {
					idx = 2
				}
				if idx < len(a) {
					texts = stmtTexts(c, a[idx])
				}
			}
			bad := ""
			for _, t := range texts {
				if dmlRE.MatchString(t) {
					bad = t
				}
			}
			r.Add("R-C15-2", km.FuncName(fn), short(km.CalleeFull(ci.Common())), posOf(c, ci), "Query/QueryRow carry only SELECT statements (DML must be Exec'ed: the sqlite driver never steps an unscanned query)", sprintf("texts=%d dml=%q", len(texts), clipS(bad, 60)), bad == "")
		}
	}
	if nSQL < 5 {
		r.AnchorLost("R-C15-2", sprintf("Query/QueryRow call sites in the storage code (found %d)", nSQL))
	}

	// ---------- R-C15-2 / R-C15-3: the synchronisation
	cp := c.MustFunc("R-C15-2", "cmd/keymasterd", "copyDBIntoSQLite")
	if cp != nil {
		dest := km.ParamAt(cp, 1)
		var begins []*ssa.Call
		var commits []*ssa.Call
		for _, ci := range km.CallsIn(cp) {
			cl, ok := ci.(*ssa.Call)
			if !ok {
				continue
			}
			n := km.CalleeFull(cl.Common())
			if n == "(*database/sql.DB).Begin" || n == "(*database/sql.DB).BeginTx" {
				begins = append(begins, cl)
			}
			if n == "(*database/sql.Tx).Commit" {
				commits = append(commits, cl)
			}
		}
		okOne := len(begins) == 1 && len(commits) == 1 && km.Unwrap(km.CallArgs(begins[0].Common())[0]) == ssa.Value(dest)
		r.Add("R-C15-2", km.FuncName(cp), "one transaction on the destination", c.P.Pos(cp.Pos()), "exactly one destination.Begin() and one Commit()", sprintf("begins=%d commits=%d", len(begins), len(commits)), okOne)
		if okOne {
			tx := begins[0]
			// the copy may be split into helpers that work on the caller's transaction: a helper of the module that
			// cp calls with the transaction as an argument is scanned as part of cp, its parameters standing for the
			// arguments of that call and its statements placed, for ordering, at the call
			type frame struct {
				fn   *ssa.Function
				bind map[*ssa.Parameter]ssa.Value
				at   ssa.Instruction // the call in cp (nil for cp itself)
			}
			frames := []frame{{fn: cp}}
			for _, ci := range km.CallsIn(cp) {
				g := km.StaticCallee(ci.Common())
				if g == nil || g.Blocks == nil || !c.InModule(g) || g == cp {
					continue
				}
				args := km.CallArgs(ci.Common())
				passesTx := false
				for _, a := range args {
					if cl, idx := callRes(km.Unwrap(a)); cl == tx && idx == 0 {
						passesTx = true
					}
				}
				if !passesTx || len(args) != len(g.Params) {
					continue
				}
				b := map[*ssa.Parameter]ssa.Value{}
				for i, q := range g.Params {
					b[q] = km.Unwrap(args[i])
				}
				frames = append(frames, frame{fn: g, bind: b, at: ci})
			}
			var cur frame
			res := func(v ssa.Value) ssa.Value {
				v = km.Unwrap(v)
				if q, ok := v.(*ssa.Parameter); ok && cur.bind != nil {
					if a, ok := cur.bind[q]; ok {
						return a
					}
				}
				return v
			}
			isTx := func(v ssa.Value) bool {
				cl, idx := callRes(res(v))
				return cl == tx && idx == 0
			}
			isTxStmt := func(v ssa.Value) bool {
				cl, idx := callRes(km.Unwrap(v))
				if cl == nil || idx != 0 {
					return false
				}
				n := km.CalleeFull(cl.Common())
				return (n == "(*database/sql.Tx).Prepare" || n == "(*database/sql.Tx).PrepareContext") && isTx(km.CallArgs(cl.Common())[0])
			}
			// deferred rollback
			hasRollback := false
			km.Instrs(cp, func(in ssa.Instruction) {
				if d, ok := in.(*ssa.Defer); ok && km.CalleeFull(d.Common()) == "(*database/sql.Tx).Rollback" && isTx(km.CallArgs(d.Common())[0]) {
					hasRollback = true
				}
			})
			r.Add("R-C15-2", km.FuncName(cp), "deferred rollback", posOf(c, tx), "defer tx.Rollback() so that every error exit discards the partial copy", sprintf("%v", hasRollback), hasRollback)
			// every statement touching the destination goes through tx
			deleted := map[string]ssa.Instruction{}
			type ins struct {
				table string
				at    ssa.Instruction
			}
			var inserts []ins
			type sqlCall struct {
				ci ssa.CallInstruction
				fr frame
			}
			var sqlCalls []sqlCall
			for _, fr := range frames {
				for _, ci := range km.CallsIn(fr.fn) {
					sqlCalls = append(sqlCalls, sqlCall{ci, fr})
				}
			}
			for _, sc := range sqlCalls {
				ci := sc.ci
				cur = sc.fr
				at := ssa.Instruction(ci)
				if cur.at != nil {
					at = cur.at
				}
				n := km.CalleeFull(ci.Common())
				kind, method, ok := sqlRecv(n)
				if !ok {
					continue
				}
				a := km.CallArgs(ci.Common())
				recv := res(a[0])
				switch kind {
				case "DB":
					if recv == ssa.Value(dest) && method != "Begin" && method != "BeginTx" {
						r.Add("R-C15-2", km.FuncName(cp), "statement on the destination pool", posOf(c, ci), "between Begin and Commit every destination statement uses the transaction", "destination."+method, false)
					}
				case "Tx":
					if !isTx(recv) {
						r.Add("R-C15-2", km.FuncName(cp), "statement on another transaction", posOf(c, ci), "the one synchronisation transaction", km.ValStr(recv), false)
						continue
					}
					if method == "Exec" || method == "ExecContext" {
						qi := 1
						if method == "ExecContext" {
							qi = 2
						}
						for _, t := range stmtTexts(c, res(a[qi])) {
							if m := tableRE.FindStringSubmatch(t); m != nil && strings.HasPrefix(strings.ToLower(strings.TrimSpace(t)), "delete") {
								if strings.Contains(strings.ToLower(t), " where ") {
									continue // a partial delete does not empty the table
								}
								deleted[strings.ToLower(m[1])] = at
							}
						}
						r.Add("R-C15-2", km.FuncName(cp), "tx.Exec", posOf(c, ci), "executed inside the synchronisation transaction", "tx."+method, true)
					}
					if method == "Prepare" || method == "PrepareContext" {
						for _, t := range stmtTexts(c, res(a[len(a)-1])) {
							if m := tableRE.FindStringSubmatch(t); m != nil && regexp.MustCompile(`(?i)^\s*(insert|replace)`).MatchString(t) {
								inserts = append(inserts, ins{strings.ToLower(m[1]), at})
							}
						}
					}
				case "Stmt":
					if (method == "Exec" || method == "ExecContext") && !isTxStmt(recv) {
						r.Add("R-C15-2", km.FuncName(cp), "statement prepared outside the transaction", posOf(c, ci), "stmt comes from tx.Prepare", km.ValStr(recv), false)
					} else if method == "Exec" || method == "ExecContext" {
						r.Add("R-C15-2", km.FuncName(cp), "stmt.Exec", posOf(c, ci), "statement prepared from the synchronisation transaction", "ok", true)
					}
				}
			}
			// no error return after Commit other than Commit's own
			cm := commits[0]
			okAfter := true
			for _, rc := range s.RetCases(cp) {
				if !km.InstrDominates(cm, rc.Ret) {
					continue
				}
				v := km.Unwrap(rc.Results[0])
				if km.IsNilConst(v) {
					continue
				}
				if u, ok := v.(*ssa.Call); ok && u == cm {
					continue
				}
				// Commit's error with context: fmt.Errorf over it, on paths on which it is known to be non-nil
				if u, ok := v.(*ssa.Call); ok && km.CalleeFull(u.Common()) == "fmt.Errorf" && errorfWraps(u, cm) &&
					rc.State.All(func(k km.Conj) bool {
						return s.Holds(k, km.Prim{Name: "Commit failed", Direct: func(f km.Fact) bool {
							return f.Op == token.NEQ && f.X == ssa.Value(cm) && km.IsNilConst(f.Y)
						}})
					}) {
					continue
				}
				okAfter = false
			}
			r.Add("R-C15-2", km.FuncName(cp), "Commit is last", posOf(c, cm), "after Commit only nil or Commit's own error is returned", sprintf("%v", okAfter), okAfter)
			// and success means committed: the synchronisation reports nil only after Commit (a run that decides
			// there is "nothing to do" and returns nil leaves in the cache what the primary no longer has)
			early := ""
			for _, rc := range s.RetCases(cp) {
				if km.IsNilConst(km.Unwrap(rc.Results[0])) && !km.InstrDominates(cm, rc.Ret) {
					early = posOf(c, rc.Ret)
				}
			}
			r.Add("R-C15-3", km.FuncName(cp), "success only after Commit", posOf(c, cm), "every return of a nil error is dominated by Commit", "nil returned at "+early, early == "")
			// every result set that is copied was read to its end without error: rows.Close() does not report an
			// iteration error, so a Commit reached without rows.Err() == nil can publish a truncated copy
			nRows := 0
			for _, ci := range km.CallsIn(cp) {
				qc, isCall := ci.(*ssa.Call)
				if !isCall {
					continue
				}
				qn := km.CalleeFull(qc.Common())
				if qn != "(*database/sql.DB).Query" && qn != "(*database/sql.DB).QueryContext" && qn != "(*database/sql.Tx).Query" {
					continue
				}
				var rows ssa.Value
				for _, ref := range *qc.Referrers() {
					if ex, ok := ref.(*ssa.Extract); ok && ex.Index == 0 {
						rows = ex
					}
				}
				if rows == nil {
					continue
				}
				// only result sets that are iterated
				iterated := false
				for _, sc := range sqlCalls {
					cur = sc.fr
					if km.CalleeFull(sc.ci.Common()) == "(*database/sql.Rows).Next" && res(sc.ci.Common().Args[0]) == rows {
						iterated = true
					}
				}
				if !iterated {
					continue
				}
				nRows++
				// "unexpired signed records": a filter on the expiry column compares it with the current time and
				// nothing else (a margin added to it leaves live records out of the cache)
				{
					qa := qc.Common().Args
					ti := 1
					if strings.HasSuffix(qn, "Context") {
						ti = 2
					}
					if ti < len(qa) {
						if text, isT := constSQL(qa[ti]); isT && strings.Contains(strings.ToLower(text), "expiration_epoch") {
							var ops []ssa.Value
							if sp, isSp := km.Unwrap(qa[ti]).(*ssa.Call); isSp && km.CalleeFull(sp.Common()) == "fmt.Sprintf" {
								ops = append(ops, variadicVals(sp.Common().Args[len(sp.Common().Args)-1])...)
							}
							if ti+1 < len(qa) {
								ops = append(ops, variadicVals(qa[len(qa)-1])...)
							}
							bad := ""
							for _, o := range ops {
								v := km.Unwrap(o)
								if cv, isCv := v.(*ssa.Convert); isCv {
									v = km.Unwrap(cv.X)
								}
								if !isNowUnix(v) {
									bad = clipS(km.ValStr(o), 100)
								}
							}
							found := sprintf("%d operand(s), each time.Now().Unix()", len(ops))
							if bad != "" {
								found = "compared with " + bad
							}
							r.Add("R-C15-3", km.FuncName(cp), "expiry filter of the copied records", posOf(c, qc), "the expiry column is compared with the current time only", found, bad == "")
						}
					}
				}
				errChecked := km.Prim{Name: "rows.Err() == nil", Rel: func(f km.Fact, resolve func(ssa.Value) ssa.Value) bool {
					if f.Op != token.EQL || !km.IsNilConst(f.Y) {
						return false
					}
					ec, ok := f.X.(*ssa.Call)
					return ok && km.CalleeFull(ec.Common()) == "(*database/sql.Rows).Err" && resolve(ec.Common().Args[0]) == rows
				}}
				st := c.F.At(cm)
				okErr := len(st) > 0 && st.All(func(k km.Conj) bool { return s.Holds(k, errChecked) })
				r.Add("R-C15-2", km.FuncName(cp), "result set read to its end before Commit", posOf(c, qc), "rows.Err() == nil established on every path from the copy loop to Commit", sprintf("%v", okErr), okErr)
			}
			if nRows == 0 {
				r.AnchorLost("R-C15-2", "iterated source result sets in copyDBIntoSQLite")
			}
			// R-C15-3
			seenT := map[string]bool{}
			for _, in := range inserts {
				if seenT[in.table] {
					continue
				}
				seenT[in.table] = true
				d, ok := deleted[in.table]
				okDom := ok && km.InstrDominates(d, in.at)
				r.Add("R-C15-3", km.FuncName(cp), "table "+in.table, posOf(c, in.at), "DELETE FROM "+in.table+" (whole table) executed through the transaction before the inserts", sprintf("deleted=%v before-inserts=%v", ok, okDom), okDom)
			}
			if len(seenT) < 2 {
				r.AnchorLost("R-C15-3", sprintf("insert statements of the synchronisation (found tables %v)", seenT))
			}
		}
	}
	if cl := c.MustFunc("R-C15-2", "cmd/keymasterd", "cleanupDBData"); cl != nil {
		n := 0
		for _, ci := range km.CallsIn(cl) {
			_, method, ok := sqlRecv(km.CalleeFull(ci.Common()))
			if ok && strings.HasPrefix(method, "Exec") {
				n++
			}
		}
		r.Add("R-C15-2", km.FuncName(cl), "expired signed records are deleted by Exec", c.P.Pos(cl.Pos()), "the cleaner executes its DELETE", sprintf("exec calls=%d", n), n >= 1)
	}

	// ---------- R-C15-4
	load := RS + "LoadUserProfile"
	save := RS + "SaveUserProfile"
	var handlers []*ssa.Function
	for _, rt := range c.Routes {
		if rt.Handler != nil {
			handlers = append(handlers, rt.Handler)
		}
	}
	all := reachableFrom(c, nil, handlers...)
	seenSave := map[ssa.Instruction]bool{}
	for _, fn := range sortedFuncs(all) {
		for _, ci := range km.CallsIn(fn) {
			if km.CalleeFull(ci.Common()) != save || seenSave[ci] {
				continue
			}
			seenSave[ci] = true
			prof := km.CallArgs(ci.Common())[2]
			ok, why := notFromCacheOnPaths(c, s, ci, prof, load, 4)
			r.Add("R-C15-4", km.FuncName(fn), "SaveUserProfile", posOf(c, ci), "the saved profile was not read from the offline cache (fromCache == false on every path), or is a fresh profile", clipS(why, 300), ok)
		}
	}
	// storage readers: sends only after a successful Prepare
	for _, name := range []string{"(*RuntimeState).LoadUserProfile", "(*RuntimeState).GetSigned", "(*RuntimeState).GetUsers"} {
		fn := c.MustFunc("R-C15-4", "cmd/keymasterd", name)
		if fn == nil {
			continue
		}
		n := 0
		for _, anon := range fn.AnonFuncs {
			prepOK := primErrNil("primary prepared", "(*database/sql.DB).Prepare", 1)
			km.Instrs(anon, func(in ssa.Instruction) {
				sd, ok := in.(*ssa.Send)
				if !ok {
					return
				}
				n++
				st := c.F.At(sd)
				okS := st.All(func(k km.Conj) bool { return s.Holds(k, prepOK) })
				r.Add("R-C15-4", km.FuncName(anon), "answer from the primary", posOf(c, sd), "the reader's goroutine answers only after the primary statement was prepared; otherwise it stays silent so that the timeout branch serves the cache", clipS(st.String(), 160), okS)
			})
		}
		if n == 0 {
			r.AnchorLost("R-C15-4", "result send in the goroutine of "+name)
		}
		// the cache branch exists: a statement prepared on cacheDB
		hasCache := false
		for _, ci := range callsWithNewHelpers(c, fn, 2) {
			if km.CalleeFull(ci.Common()) == "(*database/sql.DB).Prepare" && mentionsField(km.CallArgs(ci.Common())[0], "cacheDB") {
				hasCache = true
			}
		}
		r.Add("R-C15-4", km.FuncName(fn), "cache fallback", c.P.Pos(fn.Pos()), "the timeout branch reads from cacheDB", sprintf("%v", hasCache), hasCache)
	}
	_ = token.EQL
	checkSQLArgKinds(c, "R-C15-2")
	checkStmtTableKeys(c, "R-C15-2")
	checkCacheWriters(c, "R-C15-4")
	checkScanOrder(c, "R-C15-2")
	checkSyncHandles(c)
}

// checkSyncHandles: the background synchronisation has to work on the databases that are open when it runs. The
// goroutine is started in initDB before the primary is opened, which is fine as long as it reads state.db /
// state.cacheDB when it wakes up; a database handle evaluated at the `go` statement (an argument, or a value
// captured by value into a closure) is whatever the field held then - nil for the primary - unless the store that
// opens it comes first on every path.
func checkSyncHandles(c *km.Ctx) {
	r := c.R
	n := 0
	for _, fn := range c.P.AllFuncs {
		if fn.Pkg == nil || !pkgIsKMD(fn.Pkg) {
			continue
		}
		km.Instrs(fn, func(in ssa.Instruction) {
			g, ok := in.(*ssa.Go)
			if !ok {
				return
			}
			callee := km.StaticCallee(g.Common())
			if callee == nil || !reachesFunc(c, callee, "copyDBIntoSQLite", 3) {
				return
			}
			n++
			bad := ""
			vals := append([]ssa.Value{}, g.Common().Args...) // as written (not the recorded parameter order)
			if mc, isMC := g.Common().Value.(*ssa.MakeClosure); isMC {
				vals = append(vals, mc.Bindings...)
			}
			for _, a := range vals {
				av := km.Unwrap(a)
				if km.NamedTypeOf(av.Type()) != "database/sql.DB" {
					continue
				}
				_, path, isFP := km.FieldPath(av)
				if !isFP || !(strings.HasSuffix(path, "db") || strings.HasSuffix(path, "cacheDB")) {
					continue
				}
				field := path[strings.LastIndex(path, ".")+1:]
				// the field must have been opened before, on every path: a store into it (here, or inside a function
				// called here) that dominates the go statement
				opened := false
				km.Instrs(fn, func(i2 ssa.Instruction) {
					if opened || !km.InstrDominates(i2, in) {
						return
					}
					if st, isSt := i2.(*ssa.Store); isSt {
						if fa, isFA := st.Addr.(*ssa.FieldAddr); isFA && fieldNameOf(fa) == field {
							opened = true
						}
					}
					if ci, isCI := i2.(ssa.CallInstruction); isCI {
						if h := km.StaticCallee(ci.Common()); h != nil && h.Blocks != nil && c.InModule(h) && storesFieldOnAllReturns(h, field) {
							opened = true
						}
					}
				})
				if !opened {
					bad = "handle " + field + " is read at the go statement, before anything on this path opened it"
				}
			}
			found := "the goroutine reads the database handles when it runs (or they are opened before it starts)"
			if bad != "" {
				found = bad
			}
			r.Add("R-C15-2", km.FuncName(fn), "synchronisation goroutine and the database handles", posOf(c, in), "no database handle is evaluated at the go statement before it was opened", found, bad == "")
		})
	}
	if n == 0 {
		r.AnchorLost("R-C15-2", "go statement that starts the background synchronisation")
	}
}

// reachesFunc: fn reaches (by static calls, up to depth) a function whose recorded name is name.
func reachesFunc(c *km.Ctx, fn *ssa.Function, name string, depth int) bool {
	if fn == nil || depth < 0 {
		return false
	}
	if km.NameOf(fn) == name {
		return true
	}
	for _, ci := range km.CallsIn(fn) {
		if g := km.StaticCallee(ci.Common()); g != nil && g != fn && g.Blocks != nil && c.InModule(g) {
			if reachesFunc(c, g, name, depth-1) {
				return true
			}
		}
	}
	return false
}

// storesFieldOnAllReturns: h stores into the named field (of any struct) somewhere (a cheap may-analysis: used only
// to accept code that opens a handle in a helper before starting the goroutine).
func storesFieldOnAllReturns(h *ssa.Function, field string) bool {
	found := false
	km.Instrs(h, func(in ssa.Instruction) {
		if st, ok := in.(*ssa.Store); ok {
			if fa, ok := st.Addr.(*ssa.FieldAddr); ok && fieldNameOf(fa) == field {
				found = true
			}
		}
	})
	return found
}

// notFromCacheOnPaths: the profile value saved at `site` either does not come from LoadUserProfile (fresh value)
// or the fromCache result of that very load is false on every path; parameters are followed into callers.
func notFromCacheOnPaths(c *km.Ctx, s *km.Sem, site ssa.Instruction, prof ssa.Value, load string, depth int) (bool, string) {
	prof = km.Unwrap(prof)
	fn := site.Parent()
	// origin
	var origin *ssa.Call
	switch x := prof.(type) {
	case *ssa.Extract:
		if cl, ok := x.Tuple.(*ssa.Call); ok && km.CalleeFull(cl.Common()) == load && x.Index == 0 {
			origin = cl
		}
	case *ssa.Alloc:
		// a local copy (`profile := *inputProfile`) of a parameter, or a fresh literal
		for _, ref := range *x.Referrers() {
			if st, ok := ref.(*ssa.Store); ok && st.Addr == ssa.Value(x) {
				if u, ok := km.Unwrap(st.Val).(*ssa.UnOp); ok {
					if p, ok := u.X.(*ssa.Parameter); ok {
						return paramNotFromCache(c, s, fn, p, load, depth)
					}
				}
			}
		}
		return true, "fresh profile value"
	case *ssa.Parameter:
		return paramNotFromCache(c, s, fn, x, load, depth)
	case *ssa.FreeVar:
		// goroutine closure: look at the binding
		idx := -1
		for i, fv := range fn.FreeVars {
			if fv == x {
				idx = i
			}
		}
		for _, cs := range c.G.Callers[fn] {
			if mc, ok := cs.Instr.(*ssa.MakeClosure); ok && idx >= 0 {
				return notFromCacheOnPaths(c, s, cs.Instr, mc.Bindings[idx], load, depth-1)
			}
		}
	}
	if origin == nil {
		// handed back by a loading helper (load, 500 on error, 503 when from the cache): every way the helper
		// can have produced the value is a load whose fromCache result is false on that path
		_, _, isFieldOfResult := km.FieldOfLoad(prof)
		if cl0, _ := callRes(prof); (cl0 != nil && km.CalleeFull(cl0.Common()) != load) || isFieldOfResult {
			st := c.F.At(site)
			stopAt := func(cl *ssa.Call) bool { return km.CalleeFull(cl.Common()) == load }
			okAll := len(st) > 0
			why := ""
			for _, k := range st {
				for _, lf := range s.Leaves(k, fn, nil, prof, stopAt, 2) {
					lc, idx := callRes(lf.Val)
					if km.IsNilConst(lf.Val) {
						continue
					}
					if lc == nil || idx != 0 || km.CalleeFull(lc.Common()) != load {
						okAll, why = false, "profile of unknown origin: "+km.ValStr(lf.Val)
						continue
					}
					good := false
					for _, f := range lf.K.List() {
						if c2, i2 := callRes(f.X); f.Op == token.ILLEGAL && !f.Pol && c2 == lc && i2 == 2 {
							good = true
						}
					}
					if !good {
						okAll, why = false, "profile loaded at "+c.P.InstrPos(lc)+" reaches the save on a path where fromCache may be true"
					}
				}
			}
			if okAll {
				return true, "every load behind the helper result has fromCache == false"
			}
			return false, why
		}
		return false, "profile of unknown origin: " + km.ValStr(prof)
	}
	notCached := km.Prim{Name: "fromCache == false", Direct: func(f km.Fact) bool {
		cl, idx := callRes(f.X)
		return f.Op == token.ILLEGAL && !f.Pol && cl == origin && idx == 2
	}}
	st := c.F.At(site)
	if st.All(func(k km.Conj) bool { return s.Holds(k, notCached) }) {
		return true, "dominated by fromCache == false of the load at " + c.P.InstrPos(origin)
	}
	return false, "profile loaded at " + c.P.InstrPos(origin) + " is saved on a path where fromCache may be true; state " + clipS(st.String(), 200)
}

func paramNotFromCache(c *km.Ctx, s *km.Sem, fn *ssa.Function, p *ssa.Parameter, load string, depth int) (bool, string) {
	if depth == 0 {
		return false, "call-depth bound"
	}
	idx := -1
	for i, q := range fn.Params {
		if q == p {
			idx = i
		}
	}
	sites := c.G.Callers[fn]
	if idx < 0 || len(sites) == 0 {
		return false, km.FuncName(fn) + " has no callers"
	}
	for _, cs := range sites {
		ci, ok := cs.Instr.(ssa.CallInstruction)
		if !ok {
			return false, "non-call use"
		}
		a := km.CallArgs(ci.Common())
		if ok2, why := notFromCacheOnPaths(c, s, cs.Instr, a[idx], load, depth-1); !ok2 {
			return false, why + " -> " + km.NameOf(fn)
		}
	}
	return true, "all callers pass a profile that is not from the cache"
}

// globalTableFieldStrings: the constant strings field `field` takes over the entries of a package-level map of
// structs that is assigned once and filled in its package initialiser (sorted; nil when an entry is not constant).
func globalTableFieldStrings(c *km.Ctx, g *ssa.Global, field string) []string {
	st := singleStoreTo(c, g)
	if st == nil || g.Pkg == nil {
		return nil
	}
	initFn := g.Pkg.Func("init")
	if initFn == nil || st.Parent() != initFn {
		return nil
	}
	m := km.Unwrap(st.Val)
	var out []string
	bad := false
	km.Instrs(initFn, func(in ssa.Instruction) {
		mu, ok := in.(*ssa.MapUpdate)
		if !ok || km.Unwrap(mu.Map) != m {
			return
		}
		sy := km.SymOf(mu.Value)
		if sy == nil || sy.Op != "struct" {
			bad = true
			return
		}
		f, has := sy.Fields[field]
		if !has {
			return // zero value: no statement for this dialect
		}
		if f.Op != "const" {
			bad = true
			return
		}
		if cs, ok := km.ConstString(f.Val); ok {
			out = appendUniq(out, cs)
		} else {
			bad = true
		}
	})
	if bad {
		return nil
	}
	sort.Strings(out)
	return out
}

// ---- bound arguments agree with the statement's placeholders: for every statement the storage code executes on the
// two tables, the i-th bound argument has the kind of the column the i-th placeholder stands for (username and
// jws_data are text, type and the epochs are integers, profile_data is bytes). database/sql takes `any`, so
// swapping (username, type) compiles and, on sqlite, silently matches no row.

var sqlColumnKind = map[string]string{
	"username": "text", "jws_data": "text", "type": "int", "expiration_epoch": "int", "update_epoch": "int", "profile_data": "bytes",
}

var rePlaceholderCmp = regexp.MustCompile(`(?i)([a-z_][a-z0-9_]*)\s*(?:=|>=|<=|>|<)\s*(\?|\$[0-9]+)`)
var reInsertCols = regexp.MustCompile(`(?is)insert\s+(?:or\s+replace\s+)?into\s+\w+\s*\(([^)]*)\)\s*values\s*\(([^)]*)\)`)

// placeholderColumns: the column each placeholder of the statement stands for, in binding order ("" when unknown).
func placeholderColumns(text string) []string {
	byPos := map[int]string{}
	next := 0
	assign := func(ph, col string) {
		if ph == "?" {
			byPos[next] = col
			next++
			return
		}
		n := 0
		fmt.Sscanf(ph, "$%d", &n)
		if n > 0 {
			byPos[n-1] = col
		}
	}
	rest := text
	if m := reInsertCols.FindStringSubmatchIndex(text); m != nil {
		cols := strings.Split(text[m[2]:m[3]], ",")
		vals := strings.Split(text[m[4]:m[5]], ",")
		for i, v := range vals {
			v = strings.TrimSpace(v)
			col := ""
			if i < len(cols) {
				col = strings.ToLower(strings.TrimSpace(cols[i]))
			}
			if v == "?" || strings.HasPrefix(v, "$") {
				assign(v, col)
			}
		}
		rest = text[m[1]:]
	}
	for _, m := range rePlaceholderCmp.FindAllStringSubmatch(rest, -1) {
		assign(m[2], strings.ToLower(m[1]))
	}
	n := 0
	for k := range byPos {
		if k+1 > n {
			n = k + 1
		}
	}
	out := make([]string, n)
	for k, v := range byPos {
		out[k] = v
	}
	return out
}

func goKindOf(t types.Type) string {
	switch u := t.Underlying().(type) {
	case *types.Basic:
		switch {
		case u.Info()&types.IsString != 0:
			return "text"
		case u.Info()&types.IsInteger != 0:
			return "int"
		}
	case *types.Slice:
		if b, ok := u.Elem().Underlying().(*types.Basic); ok && b.Kind() == types.Uint8 {
			return "bytes"
		}
	}
	return ""
}

func checkSQLArgKinds(c *km.Ctx, rule string) {
	r := c.R
	n := 0
	for _, fn := range c.P.AllFuncs {
		if fn.Pkg == nil || !pkgIsKMD(fn.Pkg) {
			continue
		}
		for _, ci := range km.CallsIn(fn) {
			kind, method, ok := sqlRecv(km.CalleeFull(ci.Common()))
			if !ok {
				continue
			}
			base := strings.TrimSuffix(method, "Context")
			if base != "Exec" && base != "Query" && base != "QueryRow" {
				continue
			}
			a := km.CallArgs(ci.Common())
			withCtx := strings.HasSuffix(method, "Context")
			var texts []string
			argStart := 1
			if withCtx {
				argStart = 2
			}
			if kind == "Stmt" {
				pc, idx := callRes(km.Unwrap(a[0]))
				if pc == nil || idx != 0 {
					continue
				}
				if _, pm, okP := sqlRecv(km.CalleeFull(pc.Common())); !okP || !strings.HasPrefix(pm, "Prepare") {
					continue
				}
				pa := km.CallArgs(pc.Common())
				texts = stmtTexts(c, resolveThroughFrames(pa[len(pa)-1]))
			} else {
				if argStart >= len(a) {
					continue
				}
				texts = stmtTexts(c, a[argStart])
				argStart++
			}
			if len(texts) == 0 || argStart >= len(a) {
				continue
			}
			// the variadic arguments
			var bound []ssa.Value
			if sl, isSl := km.Unwrap(a[argStart]).(*ssa.Slice); isSl {
				if al, isA := sl.X.(*ssa.Alloc); isA {
					tmp := map[int64]ssa.Value{}
					for _, ref := range *al.Referrers() {
						if ia, ok := ref.(*ssa.IndexAddr); ok {
							i, isC := km.ConstInt(ia.Index)
							for _, r2 := range *ia.Referrers() {
								if st, ok := r2.(*ssa.Store); ok && isC {
									tmp[i] = st.Val
								}
							}
						}
					}
					for i := int64(0); i < int64(len(tmp)); i++ {
						bound = append(bound, tmp[i])
					}
				}
			}
			if len(bound) == 0 {
				continue
			}
			for _, t := range texts {
				cols := placeholderColumns(t)
				if len(cols) == 0 {
					continue
				}
				relevant := false
				for _, col := range cols {
					if sqlColumnKind[col] != "" {
						relevant = true
					}
				}
				if !relevant {
					continue
				}
				n++
				bad := ""
				if len(cols) != len(bound) {
					bad = sprintf("%d placeholders, %d arguments", len(cols), len(bound))
				}
				for i := 0; i < len(cols) && i < len(bound) && bad == ""; i++ {
					want := sqlColumnKind[cols[i]]
					v := bound[i]
					if mi, isMI := v.(*ssa.MakeInterface); isMI {
						v = mi.X
					}
					got := goKindOf(v.Type())
					if want == "" || got == "" {
						continue
					}
					if want != got && !(want == "text" && got == "bytes") && !(want == "bytes" && got == "text") {
						bad = sprintf("argument %d (%s, %s) is bound to column %s (%s)", i+1, km.ValStr(v), got, cols[i], want)
					}
				}
				found := "argument kinds agree with the columns " + strings.Join(cols, ",")
				if bad != "" {
					found = bad
				}
				r.Add(rule, km.FuncName(fn), "bound arguments of "+clipS(strings.Join(strings.Fields(t), " "), 60), posOf(c, ci), "the i-th argument has the kind of the column the i-th placeholder stands for", found, bad == "")
			}
		}
	}
	if n < 4 {
		r.AnchorLost(rule, sprintf("parameterised statements on the profile / signed-data tables (found %d)", n))
	}
}

// resolveThroughFrames: identity (statement texts are looked up in the frame of the Prepare call).
func resolveThroughFrames(v ssa.Value) ssa.Value { return v }

// checkGobStructs: every module-defined struct reachable from the gob-encoded user profile has only exported
// fields (gob silently drops the others: the value is there until the profile is next loaded).
func checkGobStructs(c *km.Ctx, rule string) {
	r := c.R
	if pk := c.P.Pkg("cmd/keymasterd"); pk != nil {
		if tm, ok := pk.Members["userProfile"].(*ssa.Type); ok {
			seen := map[types.Type]bool{}
			var walk func(t types.Type, path string)
			walk = func(t types.Type, path string) {
				t = types.Unalias(t)
				if seen[t] {
					return
				}
				seen[t] = true
				switch x := t.(type) {
				case *types.Pointer:
					walk(x.Elem(), path)
				case *types.Slice:
					walk(x.Elem(), path+"[]")
				case *types.Array:
					walk(x.Elem(), path+"[]")
				case *types.Map:
					walk(x.Key(), path+"{key}")
					walk(x.Elem(), path+"{}")
				case *types.Named:
					if x.Obj().Pkg() == nil || !strings.HasPrefix(x.Obj().Pkg().Path(), km.ModPath) {
						return // third-party / std types bring their own gob support
					}
					st, ok := x.Underlying().(*types.Struct)
					if !ok {
						walk(x.Underlying(), path)
						return
					}
					var unexported []string
					for i := 0; i < st.NumFields(); i++ {
						if !st.Field(i).Exported() {
							unexported = append(unexported, st.Field(i).Name())
						}
						walk(st.Field(i).Type(), path+"."+st.Field(i).Name())
					}
					r.Add(rule, short(x.Obj().Pkg().Path())+"."+x.Obj().Name(), "gob-encoded struct "+x.Obj().Name(), c.P.Pos(x.Obj().Pos()), "only exported fields (gob silently drops the others)", sprintf("unexported=%v", unexported), len(unexported) == 0)
				}
			}
			walk(tm.Type(), "userProfile")
		} else {
			r.AnchorLost(rule, "type userProfile")
		}
	}
}

// checkStmtTableKeys: the SQL statements are kept in package-level maps indexed by the database type; every such
// table has an entry for every database type the others know. A lookup with a missing key yields the empty
// statement, the driver refuses it, and where the caller drops the error (the eviction of a rejected cached
// password) nothing happens.
func checkStmtTableKeys(c *km.Ctx, rule string) {
	pk := c.P.Pkg("cmd/keymasterd")
	if pk == nil {
		return
	}
	type tab struct {
		g    *ssa.Global
		keys map[string]bool
	}
	var tabs []tab
	count := map[string]int{}
	var names []string
	for n := range pk.Members {
		names = append(names, n)
	}
	sort.Strings(names)
	for _, n := range names {
		g, ok := pk.Members[n].(*ssa.Global)
		if !ok {
			continue
		}
		mt, ok := g.Type().(*types.Pointer).Elem().Underlying().(*types.Map)
		if !ok || !types.Identical(mt.Key().Underlying(), types.Typ[types.String]) || !types.Identical(mt.Elem().Underlying(), types.Typ[types.String]) {
			continue
		}
		ents, ok := globalTableEntries(c, g)
		if !ok || len(ents) == 0 {
			continue
		}
		isSQL := false
		keys := map[string]bool{}
		for _, e := range ents {
			k, okK := evalString(c, e.Key, 0)
			v, okV := evalString(c, e.Value, 0)
			if !okK {
				continue
			}
			keys[k] = true
			if okV {
				lv := strings.ToLower(strings.TrimSpace(v))
				for _, kw := range []string{"select ", "insert ", "delete ", "update ", "create "} {
					if strings.HasPrefix(lv, kw) {
						isSQL = true
					}
				}
			}
		}
		if !isSQL {
			continue
		}
		tabs = append(tabs, tab{g, keys})
		for k := range keys {
			count[k]++
		}
	}
	if len(tabs) < 3 {
		// one table of records (a struct of statements per database type) instead of one table per statement:
		// every record names every statement
		nRec := 0
		for _, n := range names {
			g, ok := pk.Members[n].(*ssa.Global)
			if !ok {
				continue
			}
			mt, ok := g.Type().(*types.Pointer).Elem().Underlying().(*types.Map)
			if !ok || !types.Identical(mt.Key().Underlying(), types.Typ[types.String]) {
				continue
			}
			rec := structOf(mt.Elem())
			if rec == nil || rec.NumFields() < 3 {
				continue
			}
			isSQL := false
			var empty []string
			for i := 0; i < rec.NumFields(); i++ {
				if !types.Identical(rec.Field(i).Type().Underlying(), types.Typ[types.String]) {
					continue
				}
				vals := globalTableFieldStrings(c, g, rec.Field(i).Name())
				for _, v := range vals {
					if strings.HasPrefix(strings.ToLower(strings.TrimSpace(v)), "select ") || strings.HasPrefix(strings.ToLower(strings.TrimSpace(v)), "insert ") {
						isSQL = true
					}
				}
				ents, _ := globalTableEntries(c, g)
				if vals == nil || len(vals) == 0 || (len(ents) > 0 && countFieldSet(c, g, rec.Field(i).Name()) < len(ents)) {
					empty = append(empty, rec.Field(i).Name())
				}
			}
			if !isSQL {
				continue
			}
			nRec++
			c.R.Add(rule, "cmd/keymasterd", "statement table "+g.Name(), c.P.Pos(g.Pos()), "every database type's record names every statement", sprintf("statements missing for some type: %v", empty), len(empty) == 0)
		}
		if nRec == 0 {
			c.R.AnchorLost(rule, sprintf("SQL statement tables of cmd/keymasterd (found %d)", len(tabs)))
		}
		return
	}
	// the database types: the keys most tables have
	var want []string
	for k, n := range count {
		if 2*n > len(tabs) {
			want = append(want, k)
		}
	}
	sort.Strings(want)
	for _, t := range tabs {
		var missing []string
		for _, k := range want {
			if !t.keys[k] {
				missing = append(missing, k)
			}
		}
		c.R.Add(rule, "cmd/keymasterd", "statement table "+t.g.Name(), c.P.Pos(t.g.Pos()), sprintf("an entry for each database type %v", want), sprintf("missing=%v", missing), len(missing) == 0)
	}
}

// countFieldSet: in how many entries of the package-level table of records the field is set to a non-empty constant.
func countFieldSet(c *km.Ctx, g *ssa.Global, field string) int {
	st := singleStoreTo(c, g)
	if st == nil || g.Pkg == nil {
		return 0
	}
	initFn := g.Pkg.Func("init")
	if initFn == nil {
		return 0
	}
	m := km.Unwrap(st.Val)
	n := 0
	km.Instrs(initFn, func(in ssa.Instruction) {
		mu, ok := in.(*ssa.MapUpdate)
		if !ok || km.Unwrap(mu.Map) != m {
			return
		}
		sy := km.SymOf(mu.Value)
		if sy == nil || sy.Op != "struct" {
			return
		}
		if f, has := sy.Fields[field]; has && f.Op == "const" {
			if cs, ok := km.ConstString(f.Val); ok && cs != "" {
				n++
			}
		}
	})
	return n
}

// checkCacheWriters: who may write the offline cache. The cache mirrors the primary: its content changes only
// through the synchronisation (copyDBIntoSQLite), the expiry clean-up that follows it and the creation of its
// tables. Every other use of the cache handle reads (statements that are only queried). A write from a request
// path - however well meant - makes the cache differ from the primary and is a profile change made while the
// primary is unreachable.
func checkCacheWriters(c *km.Ctx, rule string) {
	writers := map[string]bool{"copyDBIntoSQLite": true, "cleanupDBData": true, "initFileDBSQLite": true, "initDB": true}
	type use struct {
		v  ssa.Value
		fn *ssa.Function
	}
	var work []use
	seen := map[ssa.Value]bool{}
	for _, fn := range c.P.AllFuncs {
		if fn.Pkg == nil || !pkgIsKMD(fn.Pkg) {
			continue
		}
		km.Instrs(fn, func(in ssa.Instruction) {
			if u, ok := in.(*ssa.UnOp); ok && u.Op == token.MUL && mentionsField(u, "cacheDB") && strings.HasSuffix(km.NamedTypeOf(u.Type()), "database/sql.DB") {
				work = append(work, use{u, fn})
			}
		})
	}
	if len(work) == 0 {
		c.R.AnchorLost(rule, "reads of the cache handle (field cacheDB)")
		return
	}
	n := 0
	bad := func(at ssa.Instruction, fn *ssa.Function, what string) {
		n++
		c.R.Add(rule, km.FuncName(fn), "write to the offline cache", posOf(c, at), "the cache changes only through the synchronisation, its clean-up and the creation of its tables", what, false)
	}
	stmtWrites := func(stmt ssa.Value) bool {
		w := false
		var walk func(v ssa.Value, d int)
		walk = func(v ssa.Value, d int) {
			if d > 4 || v.Referrers() == nil {
				return
			}
			for _, ref := range *v.Referrers() {
				switch x := ref.(type) {
				case *ssa.Extract:
					if x.Index == 0 {
						walk(x, d+1)
					}
				case ssa.CallInstruction:
					if len(x.Common().Args) > 0 && km.Unwrap(x.Common().Args[0]) == v {
						if m := km.CalleeFull(x.Common()); strings.HasSuffix(m, ".Exec") || strings.HasSuffix(m, ".ExecContext") {
							w = true
						}
					}
				}
			}
		}
		walk(stmt, 0)
		return w
	}
	for len(work) > 0 {
		u := work[0]
		work = work[1:]
		if seen[u.v] || u.v.Referrers() == nil {
			continue
		}
		seen[u.v] = true
		inWriter := writers[km.NameOf(u.fn)]
		for _, ref := range *u.v.Referrers() {
			ci, ok := ref.(ssa.CallInstruction)
			if !ok {
				if phi, isPhi := ref.(*ssa.Phi); isPhi {
					work = append(work, use{phi, u.fn})
				}
				continue
			}
			cc := ci.Common()
			name := km.CalleeFull(cc)
			args := cc.Args
			if len(args) > 0 && km.Unwrap(args[0]) == u.v && strings.HasPrefix(name, "(*database/sql.DB).") {
				switch m := strings.TrimPrefix(name, "(*database/sql.DB)."); m {
				case "Begin", "BeginTx", "Exec", "ExecContext":
					if !inWriter {
						bad(ci, u.fn, m+" on the cache handle in "+km.NameOf(u.fn))
					}
				case "Prepare", "PrepareContext":
					if cl, isCall := ci.(*ssa.Call); isCall && !inWriter && stmtWrites(cl) {
						bad(ci, u.fn, "a prepared statement on the cache handle is executed in "+km.NameOf(u.fn))
					}
				}
				continue
			}
			// handed to a function of the module
			g := km.StaticCallee(cc)
			if g == nil || !c.InModule(g) || len(g.Blocks) == 0 || writers[km.NameOf(g)] {
				continue
			}
			for i, a := range args {
				if km.Unwrap(a) == u.v && i < len(g.Params) {
					work = append(work, use{g.Params[i], g})
				}
			}
		}
	}
	if n == 0 {
		c.R.Add(rule, "cmd/keymasterd", "writers of the offline cache", "cmd/keymasterd/storage.go", "the cache changes only through the synchronisation, its clean-up and the creation of its tables", sprintf("%d uses of the handle followed; no other writer", len(seen)), true)
	}
}

// checkScanOrder: the destinations of a Scan are in the order of the columns the query selects. Two columns of the
// same type can be crossed without any error (expiration_epoch / update_epoch): where a destination carries the
// name of a selected column, it has to sit at that column's position.
func checkScanOrder(c *km.Ctx, rule string) {
	norm := func(s string) string { return strings.ToLower(strings.ReplaceAll(s, "_", "")) }
	destName := func(v ssa.Value) string {
		switch x := km.Unwrap(v).(type) {
		case *ssa.Alloc:
			return x.Comment
		case *ssa.FieldAddr:
			return fieldNameOf(x)
		}
		return ""
	}
	selected := func(text string) []string {
		lt := strings.ToLower(text)
		i := strings.Index(lt, "select ")
		j := strings.Index(lt, " from ")
		if i < 0 || j < i {
			return nil
		}
		var cols []string
		for _, p := range strings.Split(text[i+len("select "):j], ",") {
			cols = append(cols, strings.TrimSpace(p))
		}
		return cols
	}
	// the query text behind a rows / row value: the call that produced it, followed through one parameter
	var textsOf func(v ssa.Value, d int) []string
	textsOf = func(v ssa.Value, d int) []string {
		v = km.CellOrigin(km.Unwrap(v))
		if ex, ok := v.(*ssa.Extract); ok {
			v = ex.Tuple
		}
		switch x := v.(type) {
		case *ssa.Call:
			if _, m, ok := sqlRecv(km.CalleeFull(x.Common())); ok && strings.HasPrefix(m, "Query") {
				a := km.CallArgs(x.Common())
				kind, _, _ := sqlRecv(km.CalleeFull(x.Common()))
				if kind == "Stmt" {
					if pc, idx := callRes(km.Unwrap(a[0])); pc != nil && idx == 0 {
						pa := km.CallArgs(pc.Common())
						return stmtTexts(c, resolveThroughFrames(pa[len(pa)-1]))
					}
					return nil
				}
				for _, cand := range a[1:] {
					if cand != nil && types.Identical(cand.Type().Underlying(), types.Typ[types.String]) {
						return stmtTexts(c, cand)
					}
				}
			}
		case *ssa.Parameter:
			if d > 1 {
				return nil
			}
			fn := x.Parent()
			idx := -1
			for i, q := range fn.Params {
				if q == x {
					idx = i
				}
			}
			var out []string
			for _, cs := range c.G.Callers[fn] {
				ci, ok := cs.Instr.(ssa.CallInstruction)
				if !ok || idx < 0 {
					return nil
				}
				a := callArgsAsParams(ci, fn)
				if idx >= len(a) {
					return nil
				}
				out = append(out, textsOf(a[idx], d+1)...)
			}
			return out
		}
		return nil
	}
	n := 0
	for _, fn := range c.P.AllFuncs {
		if fn.Pkg == nil || !pkgIsKMD(fn.Pkg) {
			continue
		}
		for _, ci := range km.CallsIn(fn) {
			name := km.CalleeFull(ci.Common())
			if name != "(*database/sql.Rows).Scan" && name != "(*database/sql.Row).Scan" {
				continue
			}
			a := ci.Common().Args
			if len(a) < 2 {
				continue
			}
			var dests []ssa.Value
			if sl, isSl := km.Unwrap(a[1]).(*ssa.Slice); isSl {
				if al, isA := sl.X.(*ssa.Alloc); isA {
					tmp := map[int64]ssa.Value{}
					for _, ref := range *al.Referrers() {
						if ia, ok := ref.(*ssa.IndexAddr); ok {
							i, isC := km.ConstInt(ia.Index)
							for _, r2 := range *ia.Referrers() {
								if st, ok := r2.(*ssa.Store); ok && isC {
									tmp[i] = st.Val
								}
							}
						}
					}
					for i := int64(0); i < int64(len(tmp)); i++ {
						dests = append(dests, tmp[i])
					}
				}
			}
			if len(dests) < 2 {
				continue
			}
			for _, text := range textsOf(a[0], 0) {
				cols := selected(text)
				if len(cols) != len(dests) {
					continue
				}
				n++
				bad := ""
				for i, d := range dests {
					dn := norm(destName(d))
					if dn == "" || dn == norm(cols[i]) {
						continue
					}
					for j, col := range cols {
						if j != i && dn == norm(col) {
							bad = sprintf("destination %d (%s) receives column %s; column %s goes to destination %d", i+1, destName(d), cols[i], col, j+1)
						}
					}
				}
				c.R.Add(rule, km.FuncName(fn), "Scan of "+clipS(strings.Join(cols, ","), 80), posOf(c, ci), "a destination named after a selected column sits at that column's position", bad, bad == "")
			}
		}
	}
	if n == 0 {
		c.R.AnchorLost(rule, "Scan calls with a known query text")
	}
}

// callArgsAsParams: the arguments of a static call aligned with the callee's parameters (receiver first).
func callArgsAsParams(ci ssa.CallInstruction, fn *ssa.Function) []ssa.Value {
	cc := ci.Common()
	if cc.IsInvoke() {
		return nil
	}
	if f, ok := cc.Value.(*ssa.Function); ok && f == fn {
		return cc.Args
	}
	return nil
}

// checkSchemasAgree: the primary store and the offline cache are created from two sets of CREATE TABLE texts (one
// per SQL dialect). What identifies a row has to mean the same in both: for every table the texts define, the
// columns carry the same names, the same class of type, the same uniqueness and the same collation (a
// case-insensitive user name in one of them merges two users the other keeps apart).
func checkSchemasAgree(c *km.Ctx, rule string) {
	type col struct {
		class, collate string
		unique         bool
	}
	type tbl struct {
		cols  map[string]col
		tcons []string
		where string
	}
	byTable := map[string][]tbl{}
	ddl := regexp.MustCompile(`(?is)create\s+table\s+(?:if\s+not\s+exists\s+)?([a-z_0-9]+)\s*\((.*)\)\s*;?\s*$`)
	classOf := func(t string) string {
		switch strings.ToLower(t) {
		case "serial", "integer", "int", "bigint", "bigserial", "smallint":
			return "integer"
		case "text", "varchar":
			return "text"
		case "bytea", "blob":
			return "bytes"
		}
		return strings.ToLower(t)
	}
	seenText := map[string]bool{}
	for _, fn := range c.P.AllFuncs {
		if fn.Pkg == nil || !pkgIsKMD(fn.Pkg) {
			continue
		}
		km.Instrs(fn, func(in ssa.Instruction) {
			for _, op := range in.Operands(nil) {
				if op == nil || *op == nil {
					continue
				}
				text, ok := km.ConstString(*op)
				if !ok || seenText[text] {
					continue
				}
				m := ddl.FindStringSubmatch(strings.TrimSpace(text))
				if m == nil {
					continue
				}
				seenText[text] = true
				t := tbl{cols: map[string]col{}, where: posOf(c, in)}
				// split the body at top-level commas
				depth, start := 0, 0
				var parts []string
				for i, ch := range m[2] {
					switch ch {
					case '(':
						depth++
					case ')':
						depth--
					case ',':
						if depth == 0 {
							parts = append(parts, m[2][start:i])
							start = i + 1
						}
					}
				}
				parts = append(parts, m[2][start:])
				for _, p := range parts {
					f := strings.Fields(strings.ToLower(p))
					if len(f) == 0 {
						continue
					}
					if strings.HasPrefix(f[0], "unique") || strings.HasPrefix(f[0], "primary") || strings.HasPrefix(f[0], "constraint") || strings.HasPrefix(f[0], "foreign") || strings.HasPrefix(f[0], "check") {
						t.tcons = append(t.tcons, strings.Join(strings.Fields(strings.ReplaceAll(strings.ToLower(p), " ", "")), ""))
						continue
					}
					cl := col{}
					if len(f) > 1 {
						cl.class = classOf(f[1])
					}
					for i := 2; i < len(f); i++ {
						switch f[i] {
						case "unique":
							cl.unique = true
						case "primary":
							cl.unique = true
						case "collate":
							if i+1 < len(f) {
								cl.collate = f[i+1]
							}
						}
					}
					t.cols[f[0]] = cl
				}
				sort.Strings(t.tcons)
				byTable[strings.ToLower(m[1])] = append(byTable[strings.ToLower(m[1])], t)
			}
		})
	}
	names := make([]string, 0, len(byTable))
	for n := range byTable {
		names = append(names, n)
	}
	sort.Strings(names)
	nCmp := 0
	for _, n := range names {
		defs := byTable[n]
		if len(defs) < 2 {
			continue
		}
		nCmp++
		var diffs []string
		ref := defs[0]
		for _, d := range defs[1:] {
			if strings.Join(d.tcons, ";") != strings.Join(ref.tcons, ";") {
				diffs = append(diffs, sprintf("table constraints %v / %v", ref.tcons, d.tcons))
			}
			var cn []string
			for k := range ref.cols {
				cn = append(cn, k)
			}
			for k := range d.cols {
				if _, has := ref.cols[k]; !has {
					cn = append(cn, k)
				}
			}
			sort.Strings(cn)
			for _, k := range cn {
				a, hasA := ref.cols[k]
				b, hasB := d.cols[k]
				if !hasA || !hasB {
					diffs = append(diffs, "column "+k+" defined in one dialect only")
				} else if a != b {
					diffs = append(diffs, sprintf("column %s: %+v at %s / %+v at %s", k, a, ref.where, b, d.where))
				}
			}
		}
		c.R.Add(rule, "cmd/keymasterd", "table "+n+" means the same in the primary and in the cache", ref.where, "the CREATE TABLE texts of the dialects agree on column names, type class, uniqueness and collation", sprintf("%d definitions compared; %s", len(defs), strings.Join(diffs, "; ")), len(diffs) == 0)
	}
	if nCmp < 2 {
		c.R.AnchorLost(rule, sprintf("CREATE TABLE texts of user_profile / expiring_signed_user_data in two dialects (found %d tables with two definitions)", nCmp))
	}
}
