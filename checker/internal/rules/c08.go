package rules

import (
	"go/token"
	"go/types"
	"strings"

	"kmcheck/internal/km"

	"golang.org/x/tools/go/ssa"
)

func init() { km.Register("C08", checkC08) }

// accessors: resolved callee -> (index of the user-name operand counting the receiver, class)
var accessors = map[string]struct {
	arg   int
	class string
}{
	RS + "LoadUserProfile":       {1, "read"},
	RS + "SaveUserProfile":       {1, "write"},
	RS + "DeleteUserProfile":     {1, "write"},
	RS + "sendBootstrapOtpEmail": {5, "write"}, // (state, hash, otp, duration, requesting, target)
}

// Handlers in which plain administrator rights (no hardware factor) are sufficient for every operation on
// another user, per the property: listing, adding and deleting users, issuing bootstrap OTPs.
var adminOnlyHandlers = map[string]string{
	"usersHandler":         "listing users requires an administrator",
	"addUserHandler":       "adding a user requires an administrator",
	"deleteUserHandler":    "deleting a user requires an administrator",
	"generateBootstrapOTP": "issuing a bootstrap OTP requires an administrator",
}

func checkC08(c *km.Ctx) {
	r := c.R
	s := km.NewSem(c)
	r.Explain = "Static analysis of /repo: every profile/user-store accessor reachable from a service route is located by its resolved callee; its user-name operand must, on every CFG path (followed through parameters into all callers), be the authenticated user's own name, or be compared equal to it, or the path must carry the administrator fact the operation class requires (read: IsAdminUser(authUser); write: IsAdminUserAndU2F(authUser, authLevel); in the four user-administration handlers IsAdminUser suffices), or - at the password entry point - be the very value whose password was just accepted. The meaning of the administrator predicates and of the admin cache is checked structurally. Decides guard structure, not the several-hundred-cell matrix as executions."
	r.NotDecided = []string{"directory content and group membership", "the actor x level x target x operation matrix as executions"}
	r.Assume = []string{"go/types + go/ssa model the source faithfully", "admin-ness is defined by IsAdminUser / IsAdminUserAndU2F / isAutomationAdmin"}

	r.Rule("R-C08-1", "at every profile accessor the user operand is the authenticated user, or equal to it, or the path holds the admin fact of the operation class", 13)
	r.Rule("R-C08-2", "IsAdminUserAndU2F = IsAdminUser ∧ U2F bit; IsAdminUser returns a cached verdict only while valid and never refreshes the timestamp on a hit; cache lifetime constant <= 5 min; isValid is now-ts < max; _IsAdminUser returns true only from name/group matches", 5)
	r.Rule("R-C08-3", "GetUsers (listing) is reachable only under the administrator fact", 1)
	r.Rule("R-C08-4", "automation certificates are minted only under isAutomationAdmin(authUser) and only for identities that passed isAutomationUser", 1)
	checkConfigKeys(c, "R-C08-2", "who is an administrator", "base.admin_users", "base.admin_groups", "base.automation_")

	checkAuth := c.MustFunc("R-C08-1", "cmd/keymasterd", "(*RuntimeState).checkAuth")
	checkUserPassword := c.MustFunc("R-C08-1", "cmd/keymasterd", "checkUserPassword")
	if checkAuth == nil || checkUserPassword == nil {
		return
	}
	stop := map[*ssa.Function]bool{checkAuth: true, checkUserPassword: true}

	isAuthUser := func(v ssa.Value) bool { return s.Is(v, km.RoleAuthUser) }
	isAuthLevel := func(v ssa.Value) bool { return s.Is(v, km.RoleAuthLevel) }
	prAdmin := s.PrimCall("Admin", km.KMD_IsAdminUser(), true, 1, isAuthUser)
	prAdminU2F := km.Prim{Name: "AdminU2F", Direct: func(f km.Fact) bool {
		if f.Op != token.ILLEGAL || !f.Pol {
			return false
		}
		cl, idx := callRes(f.X)
		if cl == nil || idx != 0 || km.CalleeFull(cl.Common()) != RS+"IsAdminUserAndU2F" {
			return false
		}
		// the predicate handed the authenticated credential itself (user and level travel in one record)
		if raw := cl.Common().Args; len(raw) == 2 && s.Is(raw[1], km.RoleAuthInfo) {
			return true
		}
		a := km.CallArgs(cl.Common())
		return len(a) == 3 && isAuthUser(a[1]) && isAuthLevel(a[2])
	}}
	// "failure == false" of sendFailureToClientIfNonAdmin is resolved through the wrapper summary to prAdmin.

	type siteInfo struct {
		root  *ssa.Function
		reach map[*ssa.Function]bool
	}
	seen := map[string]bool{}
	var handlers []*ssa.Function
	for _, rt := range c.Routes {
		if rt.Mux == "service" && rt.Handler != nil && strings.Contains(km.FuncFull(rt.Handler), KMD) {
			handlers = append(handlers, rt.Handler)
		}
	}
	for _, h := range handlers {
		reach := reachableFrom(c, stop, h)
		roots := map[*ssa.Function]bool{h: true}
		for _, fn := range sortedFuncs(reach) {
			if stop[fn] {
				continue
			}
			for _, ci := range km.CallsIn(fn) {
				name := km.CalleeFull(ci.Common())
				if name == RS+"GetUsers" {
					key := "getusers|" + km.NameOf(h) + "|" + posOf(c, ci)
					if seen[key] {
						continue
					}
					seen[key] = true
					ok, why := s.HoldsOnPathsWithin(ci, allPrims(s, prAdmin), roots, reach, 6)
					found := "dominated by IsAdminUser(authUser)"
					if !ok {
						found = why
					}
					r.Add("R-C08-3", km.FuncName(fn), "route "+km.NameOf(h)+" -> GetUsers", posOf(c, ci), "Admin(authUser)", found, ok)
					continue
				}
				acc, isAcc := accessors[name]
				if !isAcc {
					continue
				}
				args := km.CallArgs(ci.Common())
				if acc.arg >= len(args) {
					continue
				}
				key := km.NameOf(h) + "|" + posOf(c, ci)
				if seen[key] {
					continue
				}
				seen[key] = true
				needWrite := acc.class == "write"
				_, adminOnly := adminOnlyHandlers[km.NameOf(h)]
				pred := func(k km.Conj, u ssa.Value) bool {
					u = km.Unwrap(u)
					if isAuthUser(u) {
						return true
					}
					for _, f := range k.List() {
						if f.Op == token.EQL && ((f.X == u && isAuthUser(f.Y)) || (f.Y == u && isAuthUser(f.X))) {
							return true
						}
						// password entry: u is the user whose password was accepted on this path
						if f.Op == token.ILLEGAL && f.Pol {
							if cl, idx := callRes(f.X); cl != nil && idx == 0 && km.CalleeFull(cl.Common()) == KMD+".checkUserPassword" && km.Unwrap(cl.Common().Args[0]) == u {
								return true
							}
						}
					}
					// ... or the name a password helper handed back after the backend accepted its password
					if cl0, _ := callRes(u); cl0 != nil {
						lfs := s.Leaves(k, nil, nil, u, func(cl *ssa.Call) bool { return km.CalleeFull(cl.Common()) == RS+"reprocessUsername" }, 2)
						accepted := len(lfs) > 0
						for _, lf := range lfs {
							okLeaf := false
							for _, f := range lf.K.List() {
								if f.Op == token.ILLEGAL && f.Pol {
									if cl, idx := callRes(f.X); cl != nil && idx == 0 && km.CalleeFull(cl.Common()) == KMD+".checkUserPassword" && km.Unwrap(cl.Common().Args[0]) == lf.Val {
										okLeaf = true
									}
								}
							}
							if !okLeaf || lf.Val == u {
								accepted = false
							}
						}
						if accepted {
							return true
						}
					}
					// the same comparison made inside a helper the operand was passed to
					own := km.Prim{Name: "operand == authUser", Rel: func(f km.Fact, resolve func(ssa.Value) ssa.Value) bool {
						if f.Op != token.EQL {
							return false
						}
						return (resolve(f.X) == u && isAuthUser(f.Y)) || (resolve(f.Y) == u && isAuthUser(f.X))
					}}
					// own ∨ admin must be decided per return case of a helper, so it is one proposition
					adm := []km.Prim{prAdminU2F}
					if !(needWrite && !adminOnly) {
						adm = append(adm, prAdmin)
					}
					return s.Holds(k, km.Prim{Name: "own ∨ admin", Direct: func(f km.Fact) bool {
						for _, a := range adm {
							if a.Direct(f) {
								return true
							}
						}
						return false
					}, Rel: own.Rel})
				}
				ok, why := operandOnPaths(c, s, ci, args[acc.arg], pred, roots, reach, 6)
				req := "own profile (operand is authUser or == authUser)"
				if needWrite && !adminOnly {
					req += " ∨ AdminU2F(authUser, authLevel)"
				} else {
					req += " ∨ Admin(authUser)"
				}
				found := "operand bound to the authenticated user or path holds the admin fact"
				if !ok {
					found = why
				}
				r.Add("R-C08-1", km.FuncName(fn), "route "+km.NameOf(h)+" -> "+short(name)+" ["+acc.class+"]", posOf(c, ci), req, clipS(found, 700), ok)
			}
		}
	}
	checkAdminPredicates(c, s)
	checkRoleMinting(c, s)
}

// operandOnPaths checks pred(conj, operand) for every disjunct at the site; if it fails and the operand is a
// parameter of the enclosing function, the check moves to every caller (within `within`) with the argument.
func operandOnPaths(c *km.Ctx, s *km.Sem, site ssa.Instruction, operand ssa.Value, pred func(km.Conj, ssa.Value) bool, roots, within map[*ssa.Function]bool, depth int) (bool, string) {
	st := c.F.At(site)
	if st == nil {
		return true, ""
	}
	operand = km.Unwrap(operand)
	if st.All(func(k km.Conj) bool { return pred(k, operand) }) {
		return true, ""
	}
	fn := site.Parent()
	// closure: free variable operand -> binding at the MakeClosure site
	if fv, ok := operand.(*ssa.FreeVar); ok {
		idx := -1
		for i, v := range fn.FreeVars {
			if v == fv {
				idx = i
			}
		}
		for _, cs := range c.G.Callers[fn] {
			if mc, ok := cs.Instr.(*ssa.MakeClosure); ok && idx >= 0 && idx < len(mc.Bindings) {
				b := mc.Bindings[idx]
				if a, ok := b.(*ssa.Alloc); ok {
					// captured variable: use any stored value (all stores must satisfy)
					allOK := true
					for _, ref := range *a.Referrers() {
						if stt, ok := ref.(*ssa.Store); ok && stt.Addr == a {
							if ok2, _ := operandOnPaths(c, s, cs.Instr, stt.Val, pred, roots, within, depth-1); !ok2 {
								allOK = false
							}
						}
					}
					if allOK {
						continue
					}
					return false, "captured variable " + fv.Name() + " in " + km.FuncName(fn)
				}
				if ok2, why := operandOnPaths(c, s, cs.Instr, b, pred, roots, within, depth-1); !ok2 {
					return false, why
				}
			}
		}
		return true, ""
	}
	// a field of what a preamble helper handed back (authenticated, authorised and parsed in one place): the value
	// the helper stored there, judged under the facts of the helper's return
	if _, _, isField := km.FieldOfLoad(operand); isField {
		okAll, n := true, 0
		for _, k := range st {
			if pred(k, operand) {
				n++
				continue
			}
			lfs := s.Leaves(k, fn, nil, operand, nil, 2)
			if len(lfs) == 1 && lfs[0].Val == operand {
				okAll = false
				break
			}
			for _, lf := range lfs {
				n++
				if !pred(lf.K, lf.Val) {
					okAll = false
				}
			}
		}
		if okAll && n > 0 {
			return true, ""
		}
	}
	p, isParam := operand.(*ssa.Parameter)
	if !isParam || roots[fn] || depth == 0 {
		return false, "in " + km.FuncName(fn) + " operand " + km.ValStr(operand) + " is neither bound to the authenticated user nor under the admin fact; state " + clipS(st.String(), 400)
	}
	idx := -1
	for i, q := range fn.Params {
		if q == p {
			idx = i
		}
	}
	n := 0
	for _, cs := range c.G.Callers[fn] {
		if within != nil && !within[cs.Caller] {
			continue
		}
		ci, ok := cs.Instr.(ssa.CallInstruction)
		if !ok {
			return false, "non-call use of " + km.FuncName(fn)
		}
		args := km.CallArgs(ci.Common())
		if idx < 0 || idx >= len(args) {
			return false, "argument mismatch calling " + km.FuncName(fn)
		}
		n++
		if ok2, why := operandOnPaths(c, s, cs.Instr, args[idx], pred, roots, within, depth-1); !ok2 {
			return false, why + " -> " + km.NameOf(fn)
		}
	}
	if n == 0 {
		return false, km.FuncName(fn) + " has no callers on this route"
	}
	return true, ""
}

func checkAdminPredicates(c *km.Ctx, s *km.Sem) {
	r := c.R
	u2f := authTypeConsts(c)["AuthTypeU2F"]
	checkAdminCacheUse(c)
	// --- IsAdminUserAndU2F
	if fn := c.MustFunc("R-C08-2", "cmd/keymasterd", "(*RuntimeState).IsAdminUserAndU2F"); fn != nil {
		for _, rc := range s.RetCases(fn) {
			v := rc.Results[0]
			ok, desc := conjOfAdminAndU2F(c, s, fn, v, u2f)
			r.Add("R-C08-2", km.FuncName(fn), "result = IsAdminUser(user) ∧ level has U2F bit", posOf(c, rc.Ret), "true only if IsAdminUser(user param) is true and (level param & AuthTypeU2F) is set", desc, ok)
		}
	}
	// --- IsAdminUser
	if fn := c.MustFunc("R-C08-2", "cmd/keymasterd", "(*RuntimeState).IsAdminUser"); fn != nil {
		getName := "(*" + km.ModPath + "/keymasterd/admincache.Cache).Get"
		putName := "(*" + km.ModPath + "/keymasterd/admincache.Cache).Put"
		validTrue := km.Prim{Name: "cacheValid", Direct: func(f km.Fact) bool {
			cl, idx := callRes(f.X)
			return f.Op == token.ILLEGAL && f.Pol && cl != nil && idx == 1 && km.CalleeFull(cl.Common()) == getName
		}}
		validFalse := km.Prim{Name: "cacheExpired", Direct: func(f km.Fact) bool {
			cl, idx := callRes(f.X)
			return f.Op == token.ILLEGAL && !f.Pol && cl != nil && idx == 1 && km.CalleeFull(cl.Common()) == getName
		}}
		evalOK := primErrNil("evalOK", RS+"_IsAdminUser", 1)
		evalFailed := km.Prim{Name: "evalFailed", Direct: func(f km.Fact) bool {
			cl, idx := callRes(f.X)
			return f.Op == token.NEQ && km.IsNilConst(f.Y) && cl != nil && idx == 1 && km.CalleeFull(cl.Common()) == RS+"_IsAdminUser"
		}}
		// judge one source value under one conjunction of facts
		judge := func(v ssa.Value, k km.Conj) (string, bool) {
			cl, idx := callRes(km.Unwrap(v))
			switch {
			case cl != nil && km.CalleeFull(cl.Common()) == getName && idx == 0:
				return "cached", s.Holds(k, validTrue) || s.Holds(k, evalFailed)
			case cl != nil && km.CalleeFull(cl.Common()) == RS+"_IsAdminUser" && idx == 0:
				return "fresh", s.Holds(k, evalOK)
			}
			return "unrecognised", false
		}
		reqOf := map[string]string{
			"cached":       "cached verdict returned only while the entry is valid, or when re-evaluation failed",
			"fresh":        "fresh verdict returned only when _IsAdminUser succeeded",
			"unrecognised": "IsAdminUser returns the cached or the freshly evaluated verdict",
			"merged":       "on every path the result is the cached verdict (entry valid or re-evaluation failed) or the fresh verdict (_IsAdminUser succeeded)",
		}
		for _, rc := range s.RetCases(fn) {
			v := km.Unwrap(rc.Results[0])
			if phi, isPhi := v.(*ssa.Phi); isPhi {
				// a merged result: in every disjunct the provenance fact names the source taken on that path
				ok := rc.State.All(func(k km.Conj) bool {
					for _, f := range k.List() {
						if f.Op == token.EQL && f.X == ssa.Value(phi) {
							if _, good := judge(f.Y, k); good {
								return true
							}
						}
					}
					return false
				})
				r.Add("R-C08-2", km.FuncName(fn), "return merged verdict", posOf(c, rc.Ret), reqOf["merged"], clipS(rc.State.String(), 300), ok)
				continue
			}
			kind, _ := judge(v, c.F.NewConj())
			if kind == "unrecognised" {
				r.Add("R-C08-2", km.FuncName(fn), "return (unrecognised source)", posOf(c, rc.Ret), reqOf[kind], km.ValStr(v), false)
				continue
			}
			ok := rc.State.All(func(k km.Conj) bool { _, g := judge(v, k); return g })
			r.Add("R-C08-2", km.FuncName(fn), "return "+kind+" verdict", posOf(c, rc.Ret), reqOf[kind], clipS(rc.State.String(), 300), ok)
		}
		// the timestamp is refreshed only after the entry expired (otherwise an active admin is never re-evaluated)
		nPut := 0
		for _, ci := range km.CallsIn(fn) {
			if km.CalleeFull(ci.Common()) != putName {
				continue
			}
			nPut++
			st := c.F.At(ci)
			ok := st.All(func(k km.Conj) bool { return s.Holds(k, validFalse) })
			r.Add("R-C08-2", km.FuncName(fn), "cache Put", posOf(c, ci), "the cache entry is (re)stamped only after it expired", clipS(st.String(), 300), ok)
			// and the user argument of Get, _IsAdminUser and Put is the function's parameter
		}
		if nPut == 0 {
			r.AnchorLost("R-C08-2", "admin cache Put in IsAdminUser")
		}
		for _, ci := range km.CallsIn(fn) {
			n := km.CalleeFull(ci.Common())
			if n == getName || n == putName || n == RS+"_IsAdminUser" {
				a := km.CallArgs(ci.Common())
				ok := len(a) > 1 && km.Unwrap(a[1]) == ssa.Value(km.ParamAt(fn, 1))
				r.Add("R-C08-2", km.FuncName(fn), "user operand of "+short(n), posOf(c, ci), "evaluated/cached for the user asked about", km.ValStr(a[1]), ok)
			}
		}
	}
	// --- cache lifetime and validity test
	nNew := 0
	for _, fn := range c.P.AllFuncs {
		for _, ci := range km.CallsIn(fn) {
			if km.CalleeFull(ci.Common()) == km.ModPath+"/keymasterd/admincache.New" && fn.Pkg.Pkg.Path() != km.ModPath+"/keymasterd/admincache" {
				nNew++
				d, ok := km.ConstInt(ci.Common().Args[0])
				r.Add("R-C08-2", km.FuncName(fn), "admincache.New lifetime", posOf(c, ci), "constant, 0 < lifetime <= 5 minutes", sprintf("%d ns const=%v", d, ok), ok && d > 0 && d <= 5*60*1e9)
			}
		}
	}
	if nNew == 0 {
		r.AnchorLost("R-C08-2", "construction of the admin cache")
	}
	// the cache is keyed by the user name exactly as given: a folded or otherwise transformed key makes two
	// different accounts (names differing in case when normalisation is off) share one verdict
	{
		nKey := 0
		cachePkg := km.ModPath + "/keymasterd/admincache"
		var keyIsGivenName func(fn *ssa.Function, v ssa.Value, depth int) bool
		keyIsGivenName = func(fn *ssa.Function, v ssa.Value, depth int) bool {
			p, ok := km.CellOrigin(km.Unwrap(v)).(*ssa.Parameter)
			if !ok || depth > 3 {
				return false
			}
			if fn.Object() != nil && fn.Object().Exported() {
				return true // the exported entry point's own parameter
			}
			idx := -1
			for i, q := range fn.Params {
				if q == p {
					idx = i
				}
			}
			sites := c.G.Callers[fn]
			if idx < 0 || len(sites) == 0 {
				return false
			}
			for _, cs := range sites {
				ci, isCI := cs.Instr.(ssa.CallInstruction)
				if !isCI {
					return false
				}
				a := km.CallArgs(ci.Common())
				if idx >= len(a) || !keyIsGivenName(cs.Caller, a[idx], depth+1) {
					return false
				}
			}
			return true
		}
		for _, fn := range c.P.AllFuncs {
			if fn.Pkg == nil || fn.Pkg.Pkg.Path() != cachePkg {
				continue
			}
			km.Instrs(fn, func(in ssa.Instruction) {
				var m, key ssa.Value
				switch x := in.(type) {
				case *ssa.Lookup:
					m, key = x.X, x.Index
				case *ssa.MapUpdate:
					m, key = x.Map, x.Key
				default:
					return
				}
				if !mentionsField(m, "data") {
					return
				}
				nKey++
				if mu, isMU := in.(*ssa.MapUpdate); isMU {
					// what is stored is the verdict handed in (on every path): an entry that keeps an earlier
					// verdict while its time stamp is refreshed serves a demoted administrator for ever
					sy := km.SymOf(mu.Value)
					okV, got := false, "not a record built from the arguments"
					if sy != nil && sy.Op == "struct" {
						if f, has := sy.Fields["IsAdmin"]; has {
							got = f.String()
							if p, isP := f.Val.(*ssa.Parameter); f.Op == "val" && isP && p.Parent() == fn && types.Identical(p.Type().Underlying(), types.Typ[types.Bool]) {
								okV = true
							}
						}
					}
					r.Add("R-C08-2", km.FuncName(fn), "admin cache stores the verdict given", posOf(c, in), "the stored entry's IsAdmin is the verdict parameter on every path", clipS(got, 120), okV)
				}
				ok := keyIsGivenName(fn, key, 0)
				r.Add("R-C08-2", km.FuncName(fn), "admin cache key", posOf(c, in), "the entry is stored and looked up under the user name exactly as the caller gave it", km.ValStr(key), ok)
			})
		}
		if nKey < 2 {
			r.AnchorLost("R-C08-2", sprintf("reads / writes of the admin cache map (found %d)", nKey))
		}
	}
	// the validity test of the cache: whatever function Get's second result comes from
	if get := c.MustFunc("R-C08-2", "keymasterd/admincache", "(*Cache).Get"); get != nil {
		var vcall *ssa.Call
		var find func(fn *ssa.Function, depth int)
		find = func(fn *ssa.Function, depth int) {
			for _, rc := range s.RetCases(fn) {
				if len(rc.Results) != 2 {
					continue
				}
				v := km.Unwrap(rc.Results[1])
				cl, idx := callRes(v)
				if cl == nil {
					continue
				}
				g := km.StaticCallee(cl.Common())
				if g == nil || g.Blocks == nil || !c.InModule(g) {
					continue
				}
				if g.Signature.Results().Len() == 2 && idx == 1 && depth < 3 {
					find(g, depth+1) // a thin wrapper around the real getter
					continue
				}
				if g.Signature.Results().Len() == 1 {
					vcall = cl
				}
			}
		}
		find(get, 0)
		if vcall == nil {
			r.AnchorLost("R-C08-2", "validity function behind the second result of admincache Get")
		} else {
			fn := km.StaticCallee(vcall.Common())
			args := km.CallArgs(vcall.Common())
			isMax := func(v ssa.Value) bool {
				if mentionsField(v, "maxDuration") {
					return true
				}
				if p, ok := km.Unwrap(v).(*ssa.Parameter); ok {
					for i, q := range fn.Params {
						if q == p && i < len(args) {
							return mentionsField(args[i], "maxDuration")
						}
					}
				}
				return false
			}
			n := 0
			for _, rc := range s.RetCases(fn) {
				v := km.Unwrap(rc.Results[0])
				if cst, ok := v.(*ssa.Const); ok {
					n++
					r.Add("R-C08-2", km.FuncName(fn), "constant result", posOf(c, rc.Ret), "constant results are false", km.ValStr(cst), km.ValStr(cst) == "false")
					continue
				}
				b, ok := v.(*ssa.BinOp)
				good := false
				if ok && (b.Op == token.LSS || b.Op == token.LEQ) {
					if sub, ok := b.X.(*ssa.Call); ok && km.CalleeFull(sub.Common()) == "(time.Time).Sub" && isMax(b.Y) {
						good = true
					}
				}
				n++
				r.Add("R-C08-2", km.FuncName(fn), "validity test", posOf(c, rc.Ret), "valid iff now.Sub(ts) < maxDuration", km.ValStr(v), good)
			}
			if n == 0 {
				r.AnchorLost("R-C08-2", "returns of the admincache validity function")
			}
		}
	}
	// "the administrator's own hardware-token session": the U2F bit of a session is that user's own - the cookie a
	// factor upgrade re-signs belongs to the user who proved the factor (C05's obligations, as this property's own)
	if r.Remap == nil {
		r.Remap = func(rule, fn, construct string) (string, bool) {
			if rule == "R-C05-3" {
				return "R-C08-2", true
			}
			return "", false
		}
		saveExplain, saveND, saveAs := r.Explain, r.NotDecided, r.Assume
		checkC05(c)
		r.Explain, r.NotDecided, r.Assume = saveExplain, saveND, saveAs
		r.Remap = nil
	}
	// --- _IsAdminUser: true only from a match
	if fn := c.MustFunc("R-C08-2", "cmd/keymasterd", "(*RuntimeState)._IsAdminUser"); fn != nil {
		for _, rc := range s.RetCases(fn) {
			v := km.Unwrap(rc.Results[0])
			cst, ok := v.(*ssa.Const)
			if !ok {
				r.Add("R-C08-2", km.FuncName(fn), "non-constant result", posOf(c, rc.Ret), "results are constants chosen by match edges", km.ValStr(v), false)
				continue
			}
			if km.ValStr(cst) != "true" {
				// "cannot tell" is reserved for a directory that did not answer: IsAdminUser falls back to the
				// expired cached verdict on an error, so an error made up for an answer the directory did give
				// (an empty group list) keeps a demoted administrator for as long as the daemon runs
				if len(rc.Results) == 2 && !km.IsNilConst(rc.Results[1]) {
					cl, idx := callRes(km.Unwrap(rc.Results[1]))
					okE := cl != nil && idx == 1 && strings.HasSuffix(km.CalleeFull(cl.Common()), ".getUserGroups")
					r.Add("R-C08-2", km.FuncName(fn), "error verdict", posOf(c, rc.Ret), "the only error is the group lookup's own error", km.ValStr(rc.Results[1]), okE)
				}
				continue
			}
			// true: must be under user == adminUser (config) or map lookup ok of an admin group
			ok2 := rc.State.All(func(k km.Conj) bool {
				for _, f := range k.List() {
					if f.Op == token.EQL && ((f.X == ssa.Value(km.ParamAt(fn, 1)) && isConfigElem(f.Y, "AdminUsers")) || (f.Y == ssa.Value(km.ParamAt(fn, 1)) && isConfigElem(f.X, "AdminUsers"))) {
						return true
					}
					// a helper that says whether two lists share an element: configured admin groups x this user's groups
					if cl, idx := callRes(f.X); cl != nil && idx == 0 && f.Op == token.ILLEGAL && f.Pol {
						if i, j, isI := intersectPredicate(c, s, km.StaticCallee(cl.Common())); isI {
							a := km.CallArgs(cl.Common())
							if i < len(a) && j < len(a) {
								if (isConfigList(a[i], "AdminGroups") && derivesFromUserGroups(a[j], fn, 0)) || (isConfigList(a[j], "AdminGroups") && derivesFromUserGroups(a[i], fn, 0)) {
									return true
								}
							}
						}
					}
					// a configured admin group compared directly with one of the groups looked up for this user
					if f.Op == token.EQL && f.X != nil && f.Y != nil {
						for _, pr := range [][2]ssa.Value{{f.X, f.Y}, {f.Y, f.X}} {
							if !isConfigElem(pr[0], "AdminGroups") {
								continue
							}
							if u, isU := km.Unwrap(pr[1]).(*ssa.UnOp); isU && u.Op == token.MUL {
								if ia, isIA := u.X.(*ssa.IndexAddr); isIA && derivesFromUserGroups(ia.X, fn, 0) {
									return true
								}
							}
						}
					}
					if list, elem, isM := membership(f); isM {
						// user ∈ configured admin names
						if elem == ssa.Value(km.ParamAt(fn, 1)) && isConfigList(list, "AdminUsers") {
							return true
						}
						// a configured admin group ∈ the groups looked up for this user
						if isConfigElem(elem, "AdminGroups") && derivesFromUserGroups(list, fn, 0) {
							return true
						}
					}
				}
				return false
			})
			r.Add("R-C08-2", km.FuncName(fn), "return true", posOf(c, rc.Ret), "user == configured admin name, or user's group set contains a configured admin group", clipS(rc.State.String(), 300), ok2)
		}
	}
}

// derivesFromUserGroups: v is the result of getUserGroups(<the user parameter>) or a set built only from it
func derivesFromUserGroups(v ssa.Value, fn *ssa.Function, depth int) bool {
	v = km.Unwrap(v)
	if depth > 3 {
		return false
	}
	if cl, idx := callRes(v); cl != nil && idx == 0 && strings.HasSuffix(km.CalleeFull(cl.Common()), ".getUserGroups") {
		a := km.CallArgs(cl.Common())
		return len(a) == 2 && km.Unwrap(a[1]) == ssa.Value(km.ParamAt(fn, 1))
	}
	if mk, ok := v.(*ssa.MakeMap); ok {
		// every key stored into the set is an element of a value that derives from the user's groups
		n := 0
		for _, ref := range *mk.Referrers() {
			if mu, ok := ref.(*ssa.MapUpdate); ok && mu.Map == ssa.Value(mk) {
				n++
				u, ok := km.Unwrap(mu.Key).(*ssa.UnOp)
				if !ok {
					return false
				}
				ia, ok := u.X.(*ssa.IndexAddr)
				if !ok || !derivesFromUserGroups(ia.X, fn, depth+1) {
					return false
				}
			}
		}
		return n > 0
	}
	return false
}

func isConfigElem(v ssa.Value, field string) bool {
	u, ok := km.Unwrap(v).(*ssa.UnOp)
	if !ok || u.Op != token.MUL {
		return false
	}
	ia, ok := u.X.(*ssa.IndexAddr)
	if !ok {
		return false
	}
	_, path, ok := km.FieldPath(ia.X)
	return ok && strings.HasSuffix(path, "Base."+field)
}

// conjOfAdminAndU2F: v evaluates to IsAdminUser(user) && (level&U2F) != 0
func conjOfAdminAndU2F(c *km.Ctx, s *km.Sem, fn *ssa.Function, v ssa.Value, u2f int64) (bool, string) {
	isBitTest := func(x ssa.Value) bool {
		b, ok := km.Unwrap(x).(*ssa.BinOp)
		if !ok {
			return false
		}
		and, ok := b.X.(*ssa.BinOp)
		if !ok || and.Op != token.AND {
			return false
		}
		// the level: the level parameter, or the AuthType of the credential record handed in
		isLevel := func(x ssa.Value) bool {
			x = km.Unwrap(x)
			if p := km.ParamAt(fn, 2); p != nil && x == ssa.Value(p) {
				return true
			}
			if base, fld, ok := km.FieldOfLoad(x); ok && fld == "AuthType" {
				if _, isP := km.Unwrap(base).(*ssa.Parameter); isP && km.NamedTypeOf(base.Type()) == KMD+".authInfo" {
					return true
				}
			}
			return false
		}
		var k ssa.Value
		if isLevel(and.X) {
			k = and.Y
		} else if isLevel(and.Y) {
			k = and.X
		} else {
			return false
		}
		kv, ok := km.ConstInt(k)
		if !ok || kv != u2f {
			return false
		}
		y, ok := km.ConstInt(b.Y)
		return ok && ((b.Op == token.NEQ && y == 0) || (b.Op == token.EQL && y == u2f))
	}
	isAdminCall := func(x ssa.Value) bool {
		cl, ok := km.Unwrap(x).(*ssa.Call)
		if !ok || km.CalleeFull(cl.Common()) != RS+"IsAdminUser" {
			return false
		}
		a := km.CallArgs(cl.Common())
		if len(a) != 2 {
			return false
		}
		if p := km.ParamAt(fn, 1); p != nil && km.Unwrap(a[1]) == ssa.Value(p) {
			return true
		}
		// the user of the credential record handed in
		if base, fld, ok := km.FieldOfLoad(km.Unwrap(a[1])); ok && fld == "Username" {
			if _, isP := km.Unwrap(base).(*ssa.Parameter); isP && km.NamedTypeOf(base.Type()) == KMD+".authInfo" {
				return true
			}
		}
		return false
	}
	phi, ok := km.Unwrap(v).(*ssa.Phi)
	if !ok {
		return false, "result is not a short-circuit conjunction: " + km.ValStr(v)
	}
	for i, e := range phi.Edges {
		pred := phi.Block().Preds[i]
		if cst, ok := e.(*ssa.Const); ok {
			if km.ValStr(cst) != "false" {
				return false, "constant true operand"
			}
			continue
		}
		facts := controllingFacts(c, pred)
		other := e
		needAdmin, needBit := !isAdminCall(e), !isBitTest(e)
		if needAdmin && needBit {
			return false, "operand is neither the admin test nor the U2F bit test: " + km.ValStr(other)
		}
		for _, f := range facts {
			if f.Op == token.ILLEGAL && f.Pol && isAdminCall(f.X) {
				needAdmin = false
			}
			if f.Op == token.ILLEGAL && f.Pol && isBitTest(f.X) {
				needBit = false
			}
			cf := f
			if cf.Op != token.ILLEGAL {
				// a comparison fact: rebuild the BinOp shape check
				if and, ok := cf.X.(*ssa.BinOp); ok && and.Op == token.AND {
					kv, ok1 := km.ConstInt(and.Y)
					y, ok2 := km.ConstInt(cf.Y)
					if ok1 && ok2 && kv == u2f && km.Unwrap(and.X) == ssa.Value(km.ParamAt(fn, 2)) && ((cf.Op == token.NEQ && y == 0) || (cf.Op == token.EQL && y == u2f)) {
						needBit = false
					}
				}
			}
		}
		if needAdmin || needBit {
			return false, sprintf("true-capable operand %s not under both tests (admin missing=%v, bit missing=%v)", km.ValStr(e), needAdmin, needBit)
		}
	}
	return true, "IsAdminUser(user) && (level & AuthTypeU2F) != 0"
}

func checkRoleMinting(c *km.Ctx, s *km.Sem) {
	r := c.R
	mint := c.MustFunc("R-C08-4", "cmd/keymasterd", "(*RuntimeState).withParamsGenerateRoleRequestingCert")
	h := c.MustFunc("R-C08-4", "cmd/keymasterd", "(*RuntimeState).roleRequetingCertGenHandler")
	parse := c.MustFunc("R-C08-4", "cmd/keymasterd", "(*RuntimeState).parseRoleCertGenParams")
	if mint == nil || h == nil || parse == nil {
		return
	}
	isAuthUser := func(v ssa.Value) bool { return s.Is(v, km.RoleAuthUser) }
	prAutoAdmin := s.PrimCall("AutoAdmin", RS+"isAutomationAdmin", true, 1, isAuthUser)
	prParseOK := primErrNil("paramsOK", RS+"parseRoleCertGenParams", 2)
	prParseUserOK := primErrNil("paramsUserOK", RS+"parseRoleCertGenParams", 1)
	n := 0
	for _, ci := range km.CallsIn(h) {
		if km.StaticCallee(ci.Common()) != mint {
			continue
		}
		n++
		st := c.F.At(ci)
		var missing []string
		for _, p := range []km.Prim{s.PrimUnsealed(), s.PrimAuthed(), prAutoAdmin, prParseOK, prParseUserOK, s.PrimMethod("POST")} {
			if !st.All(func(k km.Conj) bool { return s.Holds(k, p) }) {
				missing = append(missing, p.Name)
			}
		}
		cl, idx := callRes(km.Unwrap(ci.Common().Args[1]))
		okArg := cl != nil && idx == 0 && km.CalleeFull(cl.Common()) == RS+"parseRoleCertGenParams"
		r.Add("R-C08-4", km.FuncName(h), "mint automation certificate", posOf(c, ci), "Unsealed ∧ Authed ∧ isAutomationAdmin(authUser) ∧ parameters parsed without error ∧ POST; params come from parseRoleCertGenParams", sprintf("missing=%v paramsFromParser=%v", missing, okArg), len(missing) == 0 && okArg)
	}
	if n == 0 {
		r.AnchorLost("R-C08-4", "call of withParamsGenerateRoleRequestingCert in roleRequetingCertGenHandler")
	}
	// parser: non-nil params only for identities that passed isAutomationUser, and Role is that identity
	autoOK := km.Prim{Name: "isAutomationUser(identity)", Direct: func(f km.Fact) bool {
		cl, idx := callRes(f.X)
		return f.Op == token.ILLEGAL && f.Pol && cl != nil && idx == 0 && km.CalleeFull(cl.Common()) == RS+"isAutomationUser"
	}}
	autoErrNil := primErrNil("isAutomationUser err==nil", RS+"isAutomationUser", 1)
	for _, rc := range s.RetCases(parse) {
		if km.IsNilConst(rc.Results[0]) {
			continue
		}
		ok := rc.State.All(func(k km.Conj) bool { return s.Holds(k, autoOK) && s.Holds(k, autoErrNil) })
		r.Add("R-C08-4", km.FuncName(parse), "parameters returned", posOf(c, rc.Ret), "identity passed isAutomationUser (true, no error)", clipS(rc.State.String(), 300), ok)
	}
	// Role field store uses the checked identity (the store may sit in a constructor the parser calls)
	nRole := 0
	type roleVal struct {
		v  ssa.Value
		at ssa.Instruction
	}
	var roles []roleVal
	km.Instrs(parse, func(in ssa.Instruction) {
		if st, ok := in.(*ssa.Store); ok {
			if fa, ok := st.Addr.(*ssa.FieldAddr); ok && fieldNameOf(fa) == "Role" {
				roles = append(roles, roleVal{st.Val, in})
			}
		}
		if cl, ok := in.(*ssa.Call); ok {
			g := km.StaticCallee(cl.Common())
			if g == nil || g.Blocks == nil || !c.InModule(g) || g.Signature.Results().Len() != 1 || km.NamedTypeOf(g.Signature.Results().At(0).Type()) != KMD+".roleRequestingCertGenParams" {
				return
			}
			args := km.CallArgs(cl.Common())
			km.Instrs(g, func(i2 ssa.Instruction) {
				if st, ok := i2.(*ssa.Store); ok {
					if fa, ok := st.Addr.(*ssa.FieldAddr); ok && fieldNameOf(fa) == "Role" {
						for i, p := range g.Params {
							if km.Unwrap(st.Val) == ssa.Value(p) && i < len(args) {
								roles = append(roles, roleVal{args[i], in})
							}
						}
					}
				}
			})
		}
	})
	for _, rv := range roles {
		nRole++
		same := false
		for _, ci := range km.CallsIn(parse) {
			if km.CalleeFull(ci.Common()) == RS+"isAutomationUser" && km.Unwrap(km.CallArgs(ci.Common())[1]) == km.Unwrap(rv.v) {
				same = true
			}
		}
		r.Add("R-C08-4", km.FuncName(parse), "Role := checked identity", posOf(c, rv.at), "the identity stored as Role is the value passed to isAutomationUser", km.ValStr(rv.v), same)
	}
	if nRole == 0 {
		r.AnchorLost("R-C08-4", "store of roleRequestingCertGenParams.Role in parseRoleCertGenParams")
	}
}

// checkAdminCacheUse: the cache holds one verdict per name, and that verdict means "is an administrator": only
// IsAdminUser reads and writes it (another predicate memoised in the same slots - "is an automation identity" -
// would be answered with the administrator verdict and the reverse); and the clock its five minutes are measured
// with is the wall clock, read at each use.
func checkAdminCacheUse(c *km.Ctx) {
	getName := "(*" + km.ModPath + "/keymasterd/admincache.Cache).Get"
	putName := "(*" + km.ModPath + "/keymasterd/admincache.Cache).Put"
	owner := c.P.Func("cmd/keymasterd", "(*RuntimeState).IsAdminUser")
	if owner == nil {
		return
	}
	fam := map[*ssa.Function]bool{}
	for _, f := range callsWithNewHelpersFuncs(c, owner, 2) {
		fam[f] = true
	}
	n, bad := 0, ""
	for _, fn := range c.P.AllFuncs {
		if fn.Pkg == nil || !pkgIsKMD(fn.Pkg) {
			continue
		}
		for _, ci := range km.CallsIn(fn) {
			if nm := km.CalleeFull(ci.Common()); nm == getName || nm == putName {
				n++
				top := fn
				for top.Parent() != nil {
					top = top.Parent()
				}
				if !fam[top] {
					bad = km.FuncName(fn) + " uses the administrator cache at " + posOf(c, ci)
				}
			}
		}
	}
	if n == 0 {
		c.R.AnchorLost("R-C08-2", "uses of the administrator cache in cmd/keymasterd")
	} else {
		found := sprintf("%d uses, all in IsAdminUser", n)
		if bad != "" {
			found = bad
		}
		c.R.Add("R-C08-2", km.FuncName(owner), "the administrator cache answers one question", c.P.Pos(owner.Pos()), "only IsAdminUser reads and writes the per-name verdict cache", found, bad == "")
	}
	// the clock
	nw := c.P.Func("keymasterd/admincache", "New")
	if nw == nil {
		c.R.AnchorLost("R-C08-2", "admincache.New")
		return
	}
	wall, desc := false, "no clock found in the constructor"
	for _, f := range callsWithNewHelpersFuncs(c, nw, 1) {
		km.Instrs(f, func(in ssa.Instruction) {
			mi, ok := in.(*ssa.MakeInterface)
			if !ok || !strings.HasSuffix(mi.Type().String(), "admincache.clock") {
				return
			}
			m := c.P.SSA.LookupMethod(mi.X.Type(), f.Pkg.Pkg, "Now")
			if m == nil || len(m.Blocks) == 0 {
				desc = "clock of type " + mi.X.Type().String() + ": Now not found"
				return
			}
			all, nRet := true, 0
			km.Instrs(m, func(i2 ssa.Instruction) {
				if ret, isRet := i2.(*ssa.Return); isRet && len(ret.Results) == 1 {
					nRet++
					cl, isC := km.Unwrap(ret.Results[0]).(*ssa.Call)
					if !isC || km.CalleeFull(cl.Common()) != "time.Now" {
						all = false
					}
				}
			})
			wall = all && nRet > 0
			desc = sprintf("clock %s: Now() returns time.Now() on every return=%v", mi.X.Type().String(), wall)
		})
	}
	c.R.Add("R-C08-2", km.FuncName(nw), "cache lifetime measured on the wall clock", c.P.Pos(nw.Pos()), "the clock the production constructor installs reads time.Now() at every use", desc, wall)
}
