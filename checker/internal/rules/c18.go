package rules

import (
	"go/token"
	"go/types"
	"strings"

	"kmcheck/internal/km"

	"golang.org/x/tools/go/ssa"
)

func init() { km.Register("C18", checkC18) }

var trustedMarkupTypes = map[string]bool{
	"html/template.HTML": true, "html/template.HTMLAttr": true, "html/template.JS": true, "html/template.JSStr": true,
	"html/template.CSS": true, "html/template.URL": true, "html/template.Srcset": true,
}

var htmlSanitisers = map[string]bool{
	"html.EscapeString": true, "html/template.HTMLEscapeString": true, "html/template.HTMLEscaper": true,
	"text/template.HTMLEscapeString": true,
}

// alphabet-safe producers: their output cannot contain markup characters
var alphabetSafe = map[string]bool{
	"(*encoding/base64.Encoding).EncodeToString": true, "encoding/hex.EncodeToString": true, "strconv.Itoa": true,
	"strconv.FormatInt": true, "strconv.FormatUint": true, "strconv.FormatBool": true,
}

// markupSafe: every non-constant origin of v passed an HTML-escaping sanitiser or is alphabet-safe.
func markupSafe(c *km.Ctx, v ssa.Value, depth int) (bool, string) {
	if depth > 8 {
		return false, "too deep"
	}
	v = km.Unwrap(v)
	if _, ok := km.ConstString(v); ok {
		return true, "constant"
	}
	switch x := v.(type) {
	case *ssa.BinOp:
		if x.Op == token.ADD {
			if ok, why := markupSafe(c, x.X, depth+1); !ok {
				return false, why
			}
			return markupSafe(c, x.Y, depth+1)
		}
	case *ssa.Convert:
		return markupSafe(c, x.X, depth+1)
	case *ssa.Phi:
		for _, e := range x.Edges {
			if ok, why := markupSafe(c, e, depth+1); !ok {
				return false, why
			}
		}
		return true, "all branches safe"
	case *ssa.Call:
		n := km.CalleeFull(x.Common())
		if htmlSanitisers[n] {
			return true, "escaped by " + n
		}
		if alphabetSafe[n] {
			return true, "alphabet-safe " + n
		}
		if n == "(*strings.Builder).String" {
			// the text assembled in a local builder: every piece written into it is safe
			b, isLocal := km.Unwrap(x.Common().Args[0]).(*ssa.Alloc)
			if !isLocal {
				return false, "strings.Builder that is not a local of the function"
			}
			pieces := 0
			for _, ref := range *b.Referrers() {
				ci, isCall := ref.(ssa.CallInstruction)
				if !isCall {
					continue
				}
				switch wn := km.CalleeFull(ci.Common()); wn {
				case "(*strings.Builder).WriteString":
					pieces++
					if ok, why := markupSafe(c, ci.Common().Args[1], depth+1); !ok {
						return false, "written into the builder: " + why
					}
				case "(*strings.Builder).WriteByte", "(*strings.Builder).WriteRune":
					pieces++
					if _, isC := km.Unwrap(ci.Common().Args[1]).(*ssa.Const); !isC {
						return false, "non-constant byte written into the builder"
					}
				case "(*strings.Builder).Grow", "(*strings.Builder).String", "(*strings.Builder).Len", "(*strings.Builder).Reset":
				default:
					return false, "builder handed to " + short(wn)
				}
			}
			return pieces > 0, "assembled in a builder from safe pieces"
		}
		if n == "fmt.Sprintf" {
			f, ok := km.ConstString(x.Common().Args[0])
			if ok && !strings.ContainsAny(strings.ReplaceAll(strings.ReplaceAll(strings.ReplaceAll(f, "%d", ""), "%x", ""), "%%", ""), "%") {
				return true, "numeric formatting only"
			}
			return false, "Sprintf with string verbs: " + f
		}
		if callee := km.StaticCallee(x.Common()); callee != nil && callee.Blocks != nil && c.InModule(callee) && x.Common().Signature().Results().Len() == 1 {
			all := true
			why := ""
			km.Instrs(callee, func(in ssa.Instruction) {
				if ret, ok := in.(*ssa.Return); ok {
					if ok2, w := markupSafe(c, km.ReturnValues(ret)[0], depth+1); !ok2 {
						all, why = false, callee.Name()+"() may return "+w
					}
				}
			})
			return all, why
		}
		return false, "unescaped result of " + short(n)
	case *ssa.Parameter:
		fn := x.Parent()
		idx := -1
		for i, p := range fn.Params {
			if p == x {
				idx = i
			}
		}
		sites := c.G.Callers[fn]
		if idx < 0 || len(sites) == 0 {
			return false, "parameter " + x.Name() + " of " + km.NameOf(fn) + " (callers unknown)"
		}
		for _, cs := range sites {
			ci, ok := cs.Instr.(ssa.CallInstruction)
			if !ok {
				return false, "non-call use of " + km.NameOf(fn)
			}
			if ok2, why := markupSafe(c, km.CallArgs(ci.Common())[idx], depth+1); !ok2 {
				return false, "argument of " + km.NameOf(fn) + " in " + km.NameOf(cs.Caller) + ": " + why
			}
		}
		return true, "every caller passes a safe value"
	}
	return false, "unescaped " + clipS(km.ValStr(v), 80)
}

func checkC18(c *km.Ctx) {
	r := c.R
	r.Explain = "Static analysis of /repo: every conversion to one of html/template's trusted-markup types is located in the SSA of keymasterd and every non-constant origin of its operand must pass an HTML-escaping sanitiser or be alphabet-safe by construction (parameters are followed into all callers, module helpers into all their returns; url.URL.String() is not a sanitiser); every template execution that writes to an http.ResponseWriter is html/template's (contextual escaping), text/template reaches only non-HTTP writers, and no template function map returns a trusted-markup type; every direct write of a response body is classified: http.Error (text/plain, nosniff), an explicit non-HTML content type set earlier in the function, a constant / numeric-prefixed status line, or key/certificate material produced by the server. Decides provenance; the HTML5 tokenizer is not modelled."
	r.NotDecided = []string{"the browser's HTML tokenizer view of each page", "html/template's own contextual escaping (trusted)"}
	r.Assume = []string{"html/template escapes every non-trusted value contextually", "http.Error sets text/plain and X-Content-Type-Options: nosniff", "go/types + go/ssa model the source faithfully"}

	r.Rule("R-C18-1", "every conversion to a trusted-markup type has an operand whose non-constant origins are all HTML-escaped or alphabet-safe", 1)
	r.Rule("R-C18-2", "pages are rendered by html/template only: every Execute/ExecuteTemplate into an http.ResponseWriter is html/template's; text/template writes only to non-HTTP writers; template function maps return no trusted-markup type", 4)
	r.Rule("R-C18-3", "every direct response-body write is http.Error, or follows a non-HTML Content-Type set in the same function, or writes a constant / numeric-prefixed line, or server-produced key/certificate material", 9)

	// ---------- R-C18-1
	n := 0
	for _, fn := range c.P.AllFuncs {
		if fn.Pkg == nil || !strings.HasPrefix(fn.Pkg.Pkg.Path(), km.ModPath) || strings.Contains(fn.Pkg.Pkg.Path(), "/lib/client") {
			continue
		}
		km.Instrs(fn, func(in ssa.Instruction) {
			var operand ssa.Value
			var to types.Type
			switch x := in.(type) {
			case *ssa.ChangeType:
				operand, to = x.X, x.Type()
			case *ssa.Convert:
				operand, to = x.X, x.Type()
			default:
				return
			}
			if !trustedMarkupTypes[km.NamedTypeOf(to)] {
				return
			}
			if trustedMarkupTypes[km.NamedTypeOf(operand.Type())] {
				return
			}
			n++
			ok, why := markupSafe(c, operand, 0)
			r.Add("R-C18-1", km.FuncName(fn), "conversion to "+km.NamedTypeOf(to), posOf(c, in), "operand built only from constants, HTML-escaped values and alphabet-safe encodings", clipS(why, 260), ok)
			// an escaped value is inert between quotes and as text, not as an unquoted attribute value (a blank
			// ends the value and what follows is read as further attributes)
			parts := concatParts(operand, 0)
			for i, pt := range parts {
				if pt.v == nil || i == 0 || parts[i-1].v != nil {
					continue
				}
				before := strings.TrimRight(parts[i-1].s, " \t")
				unquoted := strings.HasSuffix(before, "=")
				r.Add("R-C18-1", km.FuncName(fn), "markup around the inserted value", posOf(c, in), "the value is inserted between quotes or as text, never as an unquoted attribute value", clipS(parts[i-1].s, 80)+" + "+clipS(km.ValStr(pt.v), 60), !unquoted)
			}
		})
	}
	if n == 0 {
		r.AnchorLost("R-C18-1", "conversions to html/template trusted types")
	}

	// ---------- R-C18-2
	isResponseWriter := func(v ssa.Value) bool {
		t := km.Unwrap(v).Type()
		if km.NamedTypeOf(t) == "net/http.ResponseWriter" {
			return true
		}
		if mi, ok := v.(*ssa.MakeInterface); ok {
			return km.NamedTypeOf(mi.X.Type()) == "net/http.ResponseWriter" || strings.Contains(km.NamedTypeOf(mi.X.Type()), "ResponseRecorder") || strings.HasSuffix(km.NamedTypeOf(mi.X.Type()), "LoggingWriter")
		}
		return false
	}
	nExec := 0
	for _, fn := range c.P.AllFuncs {
		if fn.Pkg == nil || !pkgIsKMD(fn.Pkg) {
			continue
		}
		for _, ci := range km.CallsIn(fn) {
			name := km.CalleeFull(ci.Common())
			switch name {
			case "(*html/template.Template).ExecuteTemplate", "(*html/template.Template).Execute":
				nExec++
				r.Add("R-C18-2", km.FuncName(fn), "template execution", posOf(c, ci), "html/template (contextual escaping)", "html/template", true)
			case "(*text/template.Template).ExecuteTemplate", "(*text/template.Template).Execute":
				nExec++
				w := km.CallArgs(ci.Common())[1]
				ok := !isResponseWriter(w)
				r.Add("R-C18-2", km.FuncName(fn), "text/template execution", posOf(c, ci), "text/template never writes to an http.ResponseWriter", clipS(km.ValStr(w), 80), ok)
			case "(*html/template.Template).Funcs", "(*text/template.Template).Funcs":
				// function maps: any function returning a trusted type
				r.Add("R-C18-2", km.FuncName(fn), "template function map", posOf(c, ci), "no template function map is installed (none today); a new one must be reviewed", name, false)
			}
		}
	}
	if nExec < 8 {
		r.AnchorLost("R-C18-2", sprintf("template executions (found %d)", nExec))
	}

	// ---------- R-C18-3
	for _, fn := range c.P.AllFuncs {
		if fn.Pkg == nil || !pkgIsKMD(fn.Pkg) {
			continue
		}
		nonHTMLType := false
		for _, ci := range km.CallsIn(fn) {
			if nm := km.CalleeFull(ci.Common()); nm == "(net/http.Header).Set" || nm == "(net/http.Header).Add" {
				if k, ok := km.ConstString(ci.Common().Args[1]); ok && strings.EqualFold(k, "Content-Type") {
					if v, ok := km.ConstString(ci.Common().Args[2]); ok && !strings.Contains(strings.ToLower(v), "html") {
						nonHTMLType = true
					}
				}
			}
		}
		for _, ci := range km.CallsIn(fn) {
			name := km.CalleeFull(ci.Common())
			var body ssa.Value
			format := ""
			switch {
			case name == "fmt.Fprintf" && isResponseWriter(ci.Common().Args[0]):
				f, _ := km.ConstString(ci.Common().Args[1])
				format = f
				body = ci.Common().Args[2]
			case ci.Common().IsInvoke() && ci.Common().Method.Name() == "Write" && km.NamedTypeOf(ci.Common().Value.Type()) == "net/http.ResponseWriter":
				body = ci.Common().Args[0]
			case (name == "(*bytes.Buffer).WriteTo" || name == "encoding/pem.Encode") && len(ci.Common().Args) > 1 && isResponseWriter(ci.Common().Args[len(ci.Common().Args)-1]) || name == "(*bytes.Buffer).WriteTo" && isResponseWriter(ci.Common().Args[1]):
				body = ci.Common().Args[0]
			default:
				continue
			}
			ok, how := false, ""
			switch {
			case nonHTMLType:
				ok, how = true, "non-HTML Content-Type set in this function"
			case format != "" && !strings.Contains(format, "%"):
				ok, how = true, "constant text "+clipS(format, 30)
			case isConstBytes(body):
				ok, how = true, "constant text"
			case isStatusLine(body):
				ok, how = true, "status line with numeric prefix (\"%d %s %s\")"
			case derivesFromCertMaterial(body, 0):
				ok, how = true, "server-produced key/certificate material"
			case bodyParamIsCertMaterial(c, fn, body):
				ok, how = true, "a writer helper: every caller hands it server-produced key/certificate material or constant text"
			default:
				how = "unclassified body " + clipS(km.ValStr(body), 100)
			}
			r.Add("R-C18-3", km.FuncName(fn), "direct body write via "+shortName(name, ci), posOf(c, ci), "http.Error / non-HTML content type / constant or numeric-prefixed text / server-produced key material", how, ok)
		}
	}
}

func shortName(n string, ci ssa.CallInstruction) string {
	if n == "" && ci.Common().IsInvoke() {
		return ci.Common().Method.Name()
	}
	return short(n)
}

func isConstBytes(v ssa.Value) bool {
	v = km.Unwrap(v)
	if _, ok := km.ConstString(v); ok {
		return true
	}
	if cv, ok := v.(*ssa.Convert); ok {
		_, ok := km.ConstString(cv.X)
		return ok
	}
	if sl, ok := v.(*ssa.Slice); ok {
		// variadic args of Fprintf with only constants
		if a, ok := sl.X.(*ssa.Alloc); ok {
			all := true
			n := 0
			for _, ref := range *a.Referrers() {
				if ia, ok := ref.(*ssa.IndexAddr); ok {
					for _, r2 := range *ia.Referrers() {
						if st, ok := r2.(*ssa.Store); ok {
							n++
							if _, ok := km.ConstString(st.Val); !ok {
								if _, ok := km.ConstInt(st.Val); !ok {
									all = false
								}
							}
						}
					}
				}
			}
			return all && n > 0
		}
	}
	return false
}

// isStatusLine: []byte(fmt.Sprintf("%d %s %s\n", code, ...)) - begins with digits, so content sniffing cannot see markup first
func isStatusLine(v ssa.Value) bool {
	v = km.Unwrap(v)
	if cv, ok := v.(*ssa.Convert); ok {
		v = km.Unwrap(cv.X)
	}
	if sp, ok := v.(*ssa.Call); ok && km.CalleeFull(sp.Common()) == "fmt.Sprintf" {
		f, ok := km.ConstString(sp.Common().Args[0])
		return ok && strings.HasPrefix(f, "%d ")
	}
	return false
}

// derivesFromCertMaterial: the body is produced by the server's own encoders of keys / certificates / JSON
func derivesFromCertMaterial(v ssa.Value, depth int) bool {
	if depth > 8 || v == nil {
		return false
	}
	v = km.Unwrap(v)
	switch x := v.(type) {
	case *ssa.Call:
		n := km.CalleeFull(x.Common())
		switch n {
		case "encoding/pem.EncodeToMemory", "golang.org/x/crypto/ssh.MarshalAuthorizedKey", certgenPkg + ".GenSSHCertFileString", "encoding/json.Marshal", "encoding/json.MarshalIndent":
			return true
		case "(*bytes.Buffer).Bytes", "(*bytes.Buffer).String":
			return derivesFromCertMaterial(x.Common().Args[0], depth+1)
		}
		// module helper returning encoded material
		if callee := km.StaticCallee(x.Common()); callee != nil && callee.Blocks != nil && strings.HasPrefix(callee.String(), "(*"+KMD) {
			all, n := true, 0
			km.Instrs(callee, func(in ssa.Instruction) {
				if ret, ok := in.(*ssa.Return); ok {
					rv := km.ReturnValues(ret)[0]
					if cs, isC := km.ConstString(rv); isC && cs == "" {
						return
					}
					if km.IsNilConst(rv) {
						return
					}
					n++
					if !derivesFromCertMaterial(rv, depth+1) {
						all = false
					}
				}
			})
			return all && n > 0
		}
		return false
	case *ssa.Extract:
		return derivesFromCertMaterial(x.Tuple, depth+1)
	case *ssa.Convert:
		return derivesFromCertMaterial(x.X, depth+1)
	case *ssa.Alloc:
		// a bytes.Buffer filled by pem.Encode / Fprintf of marshalled keys / json.Indent
		okAll, n := true, 0
		var refs []ssa.Instruction
		for _, ref := range *x.Referrers() {
			refs = append(refs, ref)
			if mi, ok := ref.(*ssa.MakeInterface); ok {
				refs = append(refs, *mi.Referrers()...)
			}
		}
		for _, ref := range refs {
			ci, ok := ref.(ssa.CallInstruction)
			if !ok {
				continue
			}
			nm := km.CalleeFull(ci.Common())
			switch nm {
			case "encoding/pem.Encode", "encoding/json.Indent":
				n++
			case "fmt.Fprintf":
				n++
				if !derivesFromCertMaterial(ci.Common().Args[2], depth+1) {
					okAll = false
				}
			}
		}
		return okAll && n > 0
	case *ssa.Slice:
		if a, ok := x.X.(*ssa.Alloc); ok {
			for _, ref := range *a.Referrers() {
				if ia, ok := ref.(*ssa.IndexAddr); ok {
					for _, r2 := range *ia.Referrers() {
						if st, ok := r2.(*ssa.Store); ok {
							if !derivesFromCertMaterial(st.Val, depth+1) {
								return false
							}
						}
					}
				}
			}
			return true
		}
	case *ssa.Phi:
		for _, e := range x.Edges {
			if _, isC := km.ConstString(e); isC {
				continue
			}
			if !derivesFromCertMaterial(e, depth+1) {
				return false
			}
		}
		return true
	case *ssa.UnOp:
		return derivesFromCertMaterial(x.X, depth+1)
	case *ssa.MakeInterface:
		return derivesFromCertMaterial(x.X, depth+1)
	}
	return false
}

// bodyParamIsCertMaterial: the body written by a small writer helper is (derived from) one of its parameters,
// and every call of the helper passes server-produced key / certificate material or constant text for it.
func bodyParamIsCertMaterial(c *km.Ctx, fn *ssa.Function, body ssa.Value) bool {
	var p *ssa.Parameter
	v := km.Unwrap(body)
	for i := 0; i < 4 && p == nil; i++ {
		switch x := v.(type) {
		case *ssa.Parameter:
			p = x
		case *ssa.Convert:
			v = km.Unwrap(x.X)
		case *ssa.Call:
			// buffer.Bytes() / []byte(...) style wrappers around the parameter
			if len(x.Common().Args) > 0 {
				v = km.Unwrap(x.Common().Args[0])
			} else {
				return false
			}
		case *ssa.UnOp:
			v = km.Unwrap(x.X)
		default:
			return false
		}
	}
	if p == nil || p.Parent() != fn {
		return false
	}
	idx := -1
	for i, q := range fn.Params {
		if q == p {
			idx = i
		}
	}
	sites := c.G.Callers[fn]
	if idx < 0 || len(sites) == 0 {
		return false
	}
	for _, cs := range sites {
		ci, ok := cs.Instr.(ssa.CallInstruction)
		if !ok {
			return false
		}
		a := km.CallArgs(ci.Common())
		if idx >= len(a) {
			return false
		}
		if !isConstBytes(a[idx]) && !derivesFromCertMaterial(a[idx], 0) {
			return false
		}
	}
	return true
}

type concatPart struct {
	s string    // constant text (v == nil)
	v ssa.Value // a non-constant operand
}

// concatParts flattens a string concatenation into its constant and non-constant operands, in order.
func concatParts(v ssa.Value, depth int) []concatPart {
	v = km.Unwrap(v)
	if cs, ok := km.ConstString(v); ok {
		return []concatPart{{s: cs}}
	}
	if b, ok := v.(*ssa.BinOp); ok && b.Op == token.ADD && depth < 12 {
		return append(concatParts(b.X, depth+1), concatParts(b.Y, depth+1)...)
	}
	return []concatPart{{v: v}}
}
