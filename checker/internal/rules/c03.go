package rules

import (
	"fmt"
	"go/token"
	"go/types"
	"os"
	"strings"

	"kmcheck/internal/km"

	"golang.org/x/tools/go/ssa"
)

func init() { km.Register("C03", checkC03) }

const (
	hour     = int64(3600 * 1e9)
	day      = 24 * hour
	roleDays = 45 * day
)

// wholeSecondsOf: v is the number of seconds of a duration d, never more than d: d.Seconds(), d / time.Second,
// int64(d) / 1e9, possibly through numeric conversions.
func wholeSecondsOf(v ssa.Value) (ssa.Value, bool) {
	v = km.Unwrap(v)
	for i := 0; i < 3; i++ {
		if cv, ok := v.(*ssa.Convert); ok {
			v = km.Unwrap(cv.X)
			continue
		}
		break
	}
	if sec, ok := isCall(v, "(time.Duration).Seconds"); ok {
		return km.Unwrap(sec.Common().Args[0]), true
	}
	if b, ok := v.(*ssa.BinOp); ok && b.Op == token.QUO {
		if k, isC := km.ConstInt(b.Y); isC && k == int64(1e9) {
			d := km.Unwrap(b.X)
			if cv, ok := d.(*ssa.Convert); ok {
				d = km.Unwrap(cv.X)
			}
			return d, true
		}
	}
	return nil, false
}

// the same judgements on symbolic values (helpers and struct fields inlined, km.SymOf)
func symNowOrEarlier(s *km.Sym) bool {
	if a, ok := s.IsCall("time.Now"); ok && len(a) == 0 {
		return true
	}
	if a, ok := s.IsCall("(time.Time).Add"); ok && len(a) == 2 {
		if d, isC := a[1].ConstInt(); isC && d <= 0 {
			return symNowOrEarlier(a[0])
		}
	}
	return false
}

func symNowEpoch(s *km.Sym) bool {
	if s == nil || s.Op != "conv" {
		return false
	}
	a, ok := s.Args[0].IsCall("(time.Time).Unix")
	if !ok || len(a) != 1 {
		return false
	}
	n, ok := a[0].IsCall("time.Now")
	return ok && len(n) == 0
}

func symWholeSeconds(s *km.Sym) (*km.Sym, bool) {
	for i := 0; i < 3 && s != nil && s.Op == "conv"; i++ {
		s = s.Args[0]
	}
	if a, ok := s.IsCall("(time.Duration).Seconds"); ok && len(a) == 1 {
		return a[0], true
	}
	if s != nil && s.Op == "binop" && s.Name == "/" {
		if k, isC := s.Args[1].ConstInt(); isC && k == int64(1e9) {
			d := s.Args[0]
			if d.Op == "conv" {
				d = d.Args[0]
			}
			return d, true
		}
	}
	return nil, false
}

func isCall(v ssa.Value, name string) (*ssa.Call, bool) {
	cl, ok := km.Unwrap(v).(*ssa.Call)
	if !ok || km.CalleeFull(cl.Common()) != name {
		return nil, false
	}
	return cl, true
}

// isTimeNow: time.Now() or time.Now().Add(non-positive constant)
func isTimeNowOrEarlier(v ssa.Value) bool {
	if _, ok := isCall(v, "time.Now"); ok {
		return true
	}
	if add, ok := isCall(v, "(time.Time).Add"); ok {
		if _, ok := isCall(add.Common().Args[0], "time.Now"); ok {
			d, isC := km.ConstInt(add.Common().Args[1])
			return isC && d <= 0
		}
	}
	return false
}

func checkC03(c *km.Ctx) {
	r := c.R
	s := km.NewSem(c)
	r.Explain = "Static analysis of /repo: (1) at the three issuing calls of the certificate handler the duration operand is proven, on every CFG path, <= the 24 h constant, <= time.Until(authInfo.IssuedAt + 24 h) and >= 0, by a comparison-fact dataflow with transitivity (symbolic bounds, no values); (2) in every issuing library function the validity fields are now / now+D with D exactly the duration parameter or a constant within the property's cap (45 d automation, 24 h cloud role); (3) every signed/float to unsigned conversion of a duration-derived value is dominated by a proven lower bound 0. Decides bounds structurally for all inputs; clock behaviour is not modelled."
	r.NotDecided = []string{"clock behaviour / skew", "the numeric validity of each accepted duration string"}
	r.Assume = []string{"go/types + go/ssa model the source faithfully", "time.ParseDuration returns a value or an error", "time.Until(t) = t - now"}

	r.Rule("R-C03-1", "the duration handed to each issuing call of the certificate handler is <= 24 h, <= time.Until(authInfo.IssuedAt + 24 h) and >= 0 on every path; a parse error reaches no issuing call; the session's authentication time is its signed iat, which a level upgrade keeps", 4)
	r.Rule("R-C03-2", "validity fields: NotBefore/ValidAfter = now (or earlier by a constant); NotAfter/ValidBefore = that instant + D with D exactly the duration parameter, or a constant <= the path's cap", 3)
	r.Rule("R-C03-3", "no unsigned wrap: every conversion of a duration-derived signed/float value to an unsigned type is dominated by the fact duration >= 0", 1)
	r.Rule("R-C03-4", "automation certificates: the Duration of every roleRequestingCertGenParams is the constant 45 d; the issuer passes it through unchanged", 1)

	h := c.MustFunc("R-C03-1", "cmd/keymasterd", "(*RuntimeState).certGenHandler")
	if h == nil {
		return
	}
	isAuthInfo := func(v ssa.Value) bool { return s.Is(v, km.RoleAuthInfo) }
	// the session-age bound of a function: time.Until((authInfo.IssuedAt).Add(<= 24h)) computed in it
	ageMemo := map[*ssa.Function]ssa.Value{}
	ageBoundOf := func(fn *ssa.Function) ssa.Value {
		if v, ok := ageMemo[fn]; ok {
			return v
		}
		var found ssa.Value
		km.Instrs(fn, func(in ssa.Instruction) {
			cl, ok := in.(*ssa.Call)
			if !ok || km.CalleeFull(cl.Common()) != "time.Until" {
				return
			}
			add, ok := isCall(cl.Common().Args[0], "(time.Time).Add")
			if !ok {
				return
			}
			d, isC := km.ConstInt(add.Common().Args[1])
			if !isC || d <= 0 || d > day {
				return
			}
			issued := km.Unwrap(add.Common().Args[0])
			isIssuedAt := func(v ssa.Value) bool {
				base, fld, ok2 := km.FieldOfLoad(km.Unwrap(v))
				return ok2 && fld == "IssuedAt" && isAuthInfo(base)
			}
			if isIssuedAt(issued) {
				found = cl
				return
			}
			// the instant handed in as a parameter: every caller passes authInfo.IssuedAt
			if p, isP := issued.(*ssa.Parameter); isP {
				idx := -1
				for i, q := range fn.Params {
					if q == p {
						idx = i
					}
				}
				sites := c.G.Callers[fn]
				all := idx >= 0 && len(sites) > 0
				for _, cs := range sites {
					ci, ok := cs.Instr.(ssa.CallInstruction)
					if !ok {
						all = false
						break
					}
					a := km.CallArgs(ci.Common())
					if idx >= len(a) || !isIssuedAt(a[idx]) {
						all = false
					}
				}
				if all {
					found = cl
				}
			}
		})
		ageMemo[fn] = found
		return found
	}
	// the three bounds of a duration value under one conjunction of facts of function fn; when the value is the
	// result of a helper, every compatible return of the helper must establish the bound in the helper's frame
	var bounds func(k km.Conj, fn *ssa.Function, v ssa.Value, depth int) (cap24, capAge, nonNeg bool)
	bounds = func(k km.Conj, fn *ssa.Function, v ssa.Value, depth int) (bool, bool, bool) {
		k = s.Augment(k)
		cap24 := proveLEConst(k, v, day)
		capAge := false
		if ab := ageBoundOf(fn); ab != nil {
			capAge = km.ProveLE(k, v, ab)
		}
		nonNeg := km.ProveGE0(k, v)
		if (cap24 && capAge && nonNeg) || depth >= 3 {
			return cap24, capAge, nonNeg
		}
		cases, isCall := s.ResultCases(k, v)
		if !isCall || len(cases) == 0 {
			// the value may be bounded by (or be) the result of a helper that establishes the constant bounds itself:
			// v <= w and every compatible return of w's helper is <= 24 h; w <= v and every return is >= 0
			if !cap24 {
				for _, w := range km.UpperChain(k, v) {
					if cs, ok := s.ResultCases(k, w); ok && len(cs) > 0 && w != km.Unwrap(v) {
						all := true
						for _, rc := range cs {
							if x, _, _ := bounds(rc.K, rc.Fn, rc.Val, depth+1); !x {
								all = false
							}
						}
						if all {
							cap24 = true
						}
					}
				}
			}
			if !nonNeg {
				for _, w := range km.LowerChain(k, v) {
					if cs, ok := s.ResultCases(k, w); ok && len(cs) > 0 && w != km.Unwrap(v) {
						all := true
						for _, rc := range cs {
							if _, _, z := bounds(rc.K, rc.Fn, rc.Val, depth+1); !z {
								all = false
							}
						}
						if all {
							nonNeg = true
						}
					}
				}
			}
			return cap24, capAge, nonNeg
		}
		a24, aAge, aNN := true, true, true
		for _, rc := range cases {
			x, y, z := bounds(rc.K, rc.Fn, rc.Val, depth+1)
			a24, aAge, aNN = a24 && x, aAge && y, aNN && z
		}
		return cap24 || a24, capAge || aAge, nonNeg || aNN
	}
	checkCredentialIssueTime(c, s, "R-C03-1")
	nCalls := 0
	// the issuing calls: in the handler or - the handler split into stages - in a stage new to the tree that the
	// handler calls once (the frame of the stage then has the handler's frame at that call as its parent)
	type issueSite struct {
		ci    ssa.CallInstruction
		in    *ssa.Function
		enter ssa.CallInstruction // the handler's call of the stage (nil when in == h)
	}
	var issueSites []issueSite
	for _, ci := range km.CallsIn(h) {
		issueSites = append(issueSites, issueSite{ci, h, nil})
		if g := km.StaticCallee(ci.Common()); g != nil && len(g.Blocks) > 0 && c.InModule(g) && !c.P.IsRecorded(g) && len(c.G.Callers[g]) == 1 {
			for _, c2 := range km.CallsIn(g) {
				issueSites = append(issueSites, issueSite{c2, g, ci})
			}
		}
	}
	for _, is := range issueSites {
		ci := is.ci
		callee := km.StaticCallee(ci.Common())
		if callee == nil || (km.NameOf(callee) != "postAuthSSHCertHandler" && km.NameOf(callee) != "postAuthX509CertHandler") {
			continue
		}
		nCalls++
		if is.in != h {
			var dur ssa.Value
			for _, a := range ci.Common().Args {
				if km.NamedTypeOf(a.Type()) == "time.Duration" {
					dur = a
				}
			}
			if dur == nil {
				r.Add("R-C03-1", km.FuncName(is.in), "duration operand of "+km.NameOf(callee), posOf(c, ci), "a time.Duration operand", "none", false)
				continue
			}
			stIn, stUp := c.F.At(ci), c.F.At(is.enter)
			viaS := func(kind durKind) bool {
				if len(stIn) == 0 || len(stUp) == 0 {
					return false
				}
				for _, kin := range stIn {
					for _, kup := range stUp {
						fr := &durFrame{fn: is.in, k: s.Augment(kin), call: is.enter, parent: &durFrame{fn: h, k: s.Augment(kup)}}
						if !durHolds(c, s, fr, dur, kind, 0, map[ssa.Value]bool{}) {
							return false
						}
					}
				}
				return true
			}
			a, b, z := viaS(durLE24), viaS(durLEAge), viaS(durGE0)
			r.Add("R-C03-1", km.FuncName(h), "duration <= 24h at "+km.NameOf(callee), posOf(c, ci), "duration <= maxCertificateLifetime (24 h) on every path", sprintf("%v", a), a)
			r.Add("R-C03-1", km.FuncName(h), "duration <= remaining session age at "+km.NameOf(callee), posOf(c, ci), "duration <= time.Until(authInfo.IssuedAt + 24 h) on every path", sprintf("%v", b), b)
			r.Add("R-C03-1", km.FuncName(h), "duration >= 0 at "+km.NameOf(callee), posOf(c, ci), "duration >= 0 on every path", sprintf("%v", z), z)
			continue
		}
		// the duration argument: the time.Duration typed one
		var dur ssa.Value
		for _, a := range ci.Common().Args {
			if km.NamedTypeOf(a.Type()) == "time.Duration" {
				dur = a
			}
		}
		if dur == nil {
			// the request's values handed over as one record built here: the value put into its duration field
			for _, a := range ci.Common().Args {
				if durationFieldCount(a.Type()) != 1 {
					continue
				}
				if ld, isLd := km.Unwrap(a).(*ssa.UnOp); isLd && ld.Op == token.MUL {
					if al, isAl := ld.X.(*ssa.Alloc); isAl {
						var val ssa.Value
						nSt := 0
						for _, ref := range *al.Referrers() {
							if fa, isFA := ref.(*ssa.FieldAddr); isFA && km.NamedTypeOf(fa.Type().(*types.Pointer).Elem()) == "time.Duration" {
								for _, r2 := range *fa.Referrers() {
									if st, isSt := r2.(*ssa.Store); isSt && st.Addr == ssa.Value(fa) {
										val, nSt = st.Val, nSt+1
									}
								}
							}
						}
						if nSt == 1 {
							dur = val
						}
					}
				}
			}
		}
		if dur == nil {
			r.Add("R-C03-1", km.FuncName(h), "duration operand of "+km.NameOf(callee), posOf(c, ci), "a time.Duration operand", "none", false)
			continue
		}
		st := c.F.At(ci)
		cap24 := st.All(func(k km.Conj) bool { x, _, _ := bounds(k, h, dur, 0); return x })
		capAge := st.All(func(k km.Conj) bool { _, y, _ := bounds(k, h, dur, 0); return y })
		nonNeg := st.All(func(k km.Conj) bool { _, _, z := bounds(k, h, dur, 0); return z })
		// the clamps may live in helpers (a policy value with methods): the interprocedural argument
		via := func(kind durKind) bool {
			return len(st) > 0 && st.All(func(k km.Conj) bool {
				return durHolds(c, s, &durFrame{fn: h, k: s.Augment(k)}, dur, kind, 0, map[ssa.Value]bool{})
			})
		}
		if !cap24 {
			cap24 = via(durLE24)
		}
		if !capAge {
			capAge = via(durLEAge)
		}
		if !nonNeg {
			nonNeg = via(durGE0)
		}
		r.Add("R-C03-1", km.FuncName(h), "duration <= 24h at "+km.NameOf(callee), posOf(c, ci), "duration <= maxCertificateLifetime (24 h) on every path", sprintf("%v", cap24), cap24)
		r.Add("R-C03-1", km.FuncName(h), "duration <= remaining session age at "+km.NameOf(callee), posOf(c, ci), "duration <= time.Until(authInfo.IssuedAt + 24 h) on every path", sprintf("%v", capAge), capAge)
		r.Add("R-C03-1", km.FuncName(h), "duration >= 0 at "+km.NameOf(callee), posOf(c, ci), "duration >= 0 on every path", sprintf("%v", nonNeg), nonNeg)
	}
	if nCalls < 1 {
		r.AnchorLost("R-C03-1", sprintf("issuing calls in certGenHandler (found %d)", nCalls))
	}
	// the certificate a request is answered with is the one signed for it, under its own bounds: the result of the
	// issuing call is never merged with a certificate of another origin (one remembered from an earlier request was
	// bounded by that request's duration and session)
	{
		nIssue := 0
		for _, f := range c.P.AllFuncs {
			if f.Pkg == nil || !pkgIsKMD(f.Pkg) {
				continue
			}
			for _, ci := range km.CallsIn(f) {
				cl, isCall := ci.(*ssa.Call)
				if !isCall {
					continue
				}
				switch km.CalleeFull(cl.Common()) {
				case certgenPkg + ".GenSSHCertFileString", certgenPkg + ".GenUserX509Cert", certgenPkg + ".GenIPRestrictedX509Cert":
				default:
					continue
				}
				nIssue++
				foreign := ""
				for _, ref := range *cl.Referrers() {
					ex, ok := ref.(*ssa.Extract)
					if !ok || isErrorType(ex.Type()) {
						continue
					}
					for _, r2 := range *ex.Referrers() {
						ph, isPh := r2.(*ssa.Phi)
						if !isPh {
							continue
						}
						for _, e := range ph.Edges {
							e = km.Unwrap(e)
							if e == ssa.Value(ex) || e == ssa.Value(ph) {
								continue
							}
							if cst, isC := e.(*ssa.Const); isC && (cst.Value == nil || km.ValStr(cst) == `""`) {
								continue // the zero value of a declaration
							}
							if oc, oi := callRes(e); oc != nil && km.CalleeFull(oc.Common()) == km.CalleeFull(cl.Common()) && oi == ex.Index {
								continue // another issuing call of the same kind
							}
							foreign = clipS(km.ValStr(e), 80) + " at " + posOf(c, ph)
						}
					}
				}
				found := "the issued certificate is used as issued"
				if foreign != "" {
					found = "merged with " + foreign
				}
				r.Add("R-C03-2", km.FuncName(f), "the certificate handed out is the one signed for this request", posOf(c, cl), "the results of the issuing call are not merged with values of another origin", found, foreign == "")
			}
		}
		if nIssue == 0 {
			r.AnchorLost("R-C03-2", "issuing library calls in cmd/keymasterd")
		}
	}
	// "not beyond the duration the client asked for": the parsed request value is not only validated, it is what
	// the issuers are handed (a value parsed into a variable that shadows the one passed on is checked and dropped)
	{
		nParse := 0
		for _, f := range callsWithNewHelpersFuncs(c, h, 2) {
			for _, ci := range km.CallsIn(f) {
				cl, isCall := ci.(*ssa.Call)
				if !isCall || km.CalleeFull(cl.Common()) != "time.ParseDuration" {
					continue
				}
				nParse++
				reached := ""
				seen := map[ssa.Value]bool{}
				var flow func(v ssa.Value, d int)
				flow = func(v ssa.Value, d int) {
					if seen[v] || d > 12 || reached != "" || v.Referrers() == nil {
						return
					}
					seen[v] = true
					for _, ref := range *v.Referrers() {
						switch x := ref.(type) {
						case *ssa.Phi, *ssa.Convert, *ssa.ChangeType, *ssa.Field, *ssa.Extract:
							flow(x.(ssa.Value), d+1)
						case *ssa.Return:
							// handed back by a helper: the result at its callers
							ri := -1
							for i, rv := range x.Results {
								if rv == v {
									ri = i
								}
							}
							for _, cs := range c.G.Callers[x.Parent()] {
								cv, isV := cs.Instr.(ssa.Value)
								if !isV || ri < 0 {
									continue
								}
								if len(x.Results) == 1 {
									flow(cv, d+1)
									continue
								}
								for _, r2 := range *cv.Referrers() {
									if ex, isEx := r2.(*ssa.Extract); isEx && ex.Index == ri {
										flow(ex, d+1)
									}
								}
							}
						case *ssa.Store:
							if x.Val != v {
								continue
							}
							// a local cell or a field of a local record: every load of it
							switch a := x.Addr.(type) {
							case *ssa.Alloc:
								for _, r2 := range *a.Referrers() {
									if ld, isLd := r2.(*ssa.UnOp); isLd {
										flow(ld, d+1)
									}
									if f2, isF := r2.(*ssa.FieldAddr); isF {
										for _, r3 := range *f2.Referrers() {
											if ld, isLd := r3.(*ssa.UnOp); isLd {
												flow(ld, d+1)
											}
										}
									}
								}
							case *ssa.FieldAddr:
								// a field of a record the caller handed in by pointer: the caller's reads of that field
								if par, isPar := a.X.(*ssa.Parameter); isPar {
									g := par.Parent()
									pi := -1
									for i, q := range g.Params {
										if q == par {
											pi = i
										}
									}
									for _, cs := range c.G.Callers[g] {
										ci2, isCI := cs.Instr.(ssa.CallInstruction)
										if !isCI || pi < 0 || pi >= len(ci2.Common().Args) {
											continue
										}
										if al, isAl := km.Unwrap(ci2.Common().Args[pi]).(*ssa.Alloc); isAl {
											// the caller's own reads, and those of the other functions it hands the record to
											var readers func(ptr ssa.Value, dd int)
											readers = func(ptr ssa.Value, dd int) {
												if dd > 3 || ptr.Referrers() == nil {
													return
												}
												for _, r2 := range *ptr.Referrers() {
													switch y := r2.(type) {
													case *ssa.FieldAddr:
														if y.Field == a.Field {
															for _, r3 := range *y.Referrers() {
																if ld, isLd := r3.(*ssa.UnOp); isLd {
																	flow(ld, d+1)
																}
															}
														}
													case ssa.CallInstruction:
														h2 := km.StaticCallee(y.Common())
														if h2 == nil || !c.InModule(h2) || len(h2.Blocks) == 0 {
															continue
														}
														for ai, av := range y.Common().Args {
															if av == ptr && ai < len(h2.Params) {
																readers(h2.Params[ai], dd+1)
															}
														}
													}
												}
											}
											readers(al, 0)
										}
									}
								}
								if al, isAl := a.X.(*ssa.Alloc); isAl {
									for _, r2 := range *al.Referrers() {
										if f2, isF := r2.(*ssa.FieldAddr); isF && f2.Field == a.Field {
											for _, r3 := range *f2.Referrers() {
												if ld, isLd := r3.(*ssa.UnOp); isLd {
													flow(ld, d+1)
												}
											}
										}
										if ld, isLd := r2.(*ssa.UnOp); isLd {
											flow(ld, d+1) // the record passed on whole
										}
									}
								}
							}
						case ssa.CallInstruction:
							cc := x.Common()
							if b, isB := cc.Value.(*ssa.Builtin); isB && (b.Name() == "min" || b.Name() == "max") {
								if val, isV := x.(ssa.Value); isV {
									flow(val, d+1)
								}
								continue
							}
							g := km.StaticCallee(cc)
							if g == nil || !c.InModule(g) {
								continue
							}
							for i, a := range cc.Args {
								if a != v {
									continue
								}
								if km.NamedTypeOf(a.Type()) == "time.Duration" || i < len(g.Params) && len(g.Blocks) > 0 {
									reached = km.NameOf(g)
								}
							}
						}
					}
				}
				for _, ref := range *cl.Referrers() {
					if ex, ok := ref.(*ssa.Extract); ok && ex.Index == 0 {
						flow(ex, 0)
					}
				}
				found := "handed to " + reached
				if reached == "" {
					found = "the parsed value is tested but never handed on"
				}
				r.Add("R-C03-1", km.FuncName(f), "the requested duration is the one that is used", posOf(c, ci), "the value parsed from the request's duration reaches an issuing (module) function as its duration", found, reached != "")
			}
		}
		if nParse == 0 {
			r.AnchorLost("R-C03-1", "time.ParseDuration of the request's duration")
		}
	}
	// the issuing helpers pass their duration parameter through unchanged
	for _, name := range []string{"(*RuntimeState).postAuthSSHCertHandler", "(*RuntimeState).postAuthX509CertHandler"} {
		fn := c.MustFunc("R-C03-1", "cmd/keymasterd", name)
		if fn == nil {
			continue
		}
		var dparam *ssa.Parameter
		for _, p := range fn.Params {
			if km.NamedTypeOf(p.Type()) == "time.Duration" {
				dparam = p
			}
		}
		for _, ci := range km.CallsIn(fn) {
			n := km.CalleeFull(ci.Common())
			if n != certgenPkg+".GenSSHCertFileString" && n != certgenPkg+".GenUserX509Cert" {
				continue
			}
			var dur ssa.Value
			for _, a := range ci.Common().Args {
				if km.NamedTypeOf(a.Type()) == "time.Duration" {
					dur = a
				}
			}
			ok := dparam != nil && dur != nil && km.Unwrap(dur) == ssa.Value(dparam)
			// the request's values handed in as one record: the duration field of that parameter, read as it is
			if !ok && dparam == nil && dur != nil {
				if base, _, isF := km.FieldOfLoad(km.Unwrap(dur)); isF {
					b := km.Unwrap(base)
					if o := km.CellOrigin(b); o != nil {
						b = km.Unwrap(o)
					}
					if _, isP := b.(*ssa.Parameter); isP && durationFieldCount(b.Type()) == 1 {
						ok = true
					}
				}
			}
			r.Add("R-C03-1", km.FuncName(fn), "duration passed through to "+short(n), posOf(c, ci), "the library receives exactly the handler's bounded duration", km.ValStr(dur), ok)
		}
	}

	// ---------- R-C03-2 / R-C03-3: library functions
	type libfn struct {
		rel, name string
		capConst  int64 // when the lifetime is a constant: its cap; 0 = must be the duration parameter
	}
	for _, lf := range []libfn{
		{"lib/certgen", "GenUserX509Cert", 0},
		{"lib/certgen", "GenIPRestrictedX509Cert", 0},
		{"lib/server/aws_identity_cert", "makeCertificateTemplate", day},
	} {
		fn := c.MustFunc("R-C03-2", lf.rel, lf.name)
		if fn == nil {
			continue
		}
		var dparam *ssa.Parameter
		for _, p := range fn.Params {
			if km.NamedTypeOf(p.Type()) == "time.Duration" {
				dparam = p
			}
		}
		tst := templateStores(c, fn, "crypto/x509.Certificate", "crypto/x509.Certificate")
		nb, na := tst["NotBefore"], tst["NotAfter"]
		if len(nb) == 0 || len(na) == 0 {
			r.AnchorLost("R-C03-2", "NotBefore/NotAfter stores in "+lf.name)
			continue
		}
		// the instants may be computed by a small helper that returns them together: follow the field of its
		// result to the value the helper stored, and the helper's duration parameter to the argument it was given
		type inst struct {
			val  ssa.Value
			bind func(ssa.Value) ssa.Value // callee parameter -> argument at the call
		}
		resolveInst := func(at ssa.Instruction, v ssa.Value) []inst {
			ident := func(x ssa.Value) ssa.Value { return km.Unwrap(x) }
			base, _, isField := km.FieldOfLoad(km.Unwrap(v))
			if !isField {
				return []inst{{km.Unwrap(v), ident}}
			}
			b := cellOrigin(base)
			call, _ := callRes(b)
			if call == nil {
				return []inst{{km.Unwrap(v), ident}}
			}
			g := km.StaticCallee(call.Common())
			args := km.CallArgs(call.Common())
			bind := func(x ssa.Value) ssa.Value {
				x = km.Unwrap(x)
				if p, ok := x.(*ssa.Parameter); ok && g != nil {
					for i, q := range g.Params {
						if q == p && i < len(args) {
							return km.Unwrap(args[i])
						}
					}
				}
				return x
			}
			var out []inst
			for _, k := range c.F.At(at) {
				for _, lf := range s.Leaves(k, fn, nil, v, nil, 2) {
					out = append(out, inst{km.Unwrap(lf.Val), bind})
				}
			}
			if len(out) == 0 {
				return []inst{{km.Unwrap(v), ident}}
			}
			return out
		}
		for _, st := range nb {
			okAll := true
			for _, in := range resolveInst(st.At, st.Val) {
				if !isTimeNowOrEarlier(in.val) {
					okAll = false
				}
			}
			if !okAll && symNowOrEarlier(km.SymOf(st.Val)) {
				okAll = true
			}
			r.Add("R-C03-2", km.FuncName(fn), "NotBefore", posOf(c, st.At), "time.Now() (or earlier by a constant)", km.ValStr(st.Val), okAll)
		}
		for _, st := range na {
			good := true
			desc := km.ValStr(st.Val)
			for _, in := range resolveInst(st.At, st.Val) {
				add, ok := isCall(in.val, "(time.Time).Add")
				if !ok {
					good = false
					continue
				}
				baseOK := isTimeNowOrEarlier(add.Common().Args[0])
				d := in.bind(add.Common().Args[1])
				switch {
				case lf.capConst == 0:
					if !(baseOK && dparam != nil && d == ssa.Value(dparam)) {
						good = false
					}
					desc = sprintf("base-now=%v D=%s", baseOK, km.ValStr(d))
				default:
					k, isC := km.ConstInt(d)
					if !(baseOK && isC && k > 0 && k <= lf.capConst) {
						good = false
					}
					desc = sprintf("base-now=%v D=%d ns", baseOK, k)
				}
			}
			if !good {
				// through value types with methods / constructor helpers
				if a, ok := km.SymOf(st.Val).IsCall("(time.Time).Add"); ok && len(a) == 2 && symNowOrEarlier(a[0]) {
					if lf.capConst == 0 {
						good = dparam != nil && a[1].IsVal(dparam)
					} else if k, isC := a[1].ConstInt(); isC {
						good = k > 0 && k <= lf.capConst
					}
					if good {
						desc = "symbolically: " + km.SymOf(st.Val).String()
					}
				}
			}
			r.Add("R-C03-2", km.FuncName(fn), "NotAfter", posOf(c, st.At), "now + D with D exactly the duration parameter (or a constant within the cap)", desc, good)
		}
	}
	// SSH
	if fn := c.MustFunc("R-C03-2", "lib/certgen", "GenSSHCertFileString"); fn != nil {
		var dparam *ssa.Parameter
		for _, p := range fn.Params {
			if km.NamedTypeOf(p.Type()) == "time.Duration" {
				dparam = p
			}
		}
		va := storesByField(fn, "golang.org/x/crypto/ssh.Certificate")["ValidAfter"]
		vb := storesByField(fn, "golang.org/x/crypto/ssh.Certificate")["ValidBefore"]
		if len(va) == 0 || len(vb) == 0 || dparam == nil {
			r.AnchorLost("R-C03-2", "ValidAfter/ValidBefore stores in GenSSHCertFileString")
		} else {
			isNowEpoch := func(v ssa.Value) bool {
				cv, ok := km.Unwrap(v).(*ssa.Convert)
				if !ok {
					return false
				}
				return isNowUnix(cv.X)
			}
			for _, st := range va {
				r.Add("R-C03-2", km.FuncName(fn), "ValidAfter", posOf(c, st), "uint64(time.Now().Unix())", km.ValStr(st.Val), isNowEpoch(st.Val) || symNowEpoch(km.SymOf(st.Val)))
			}
			for _, st := range vb {
				b, ok := km.Unwrap(st.Val).(*ssa.BinOp)
				good := false
				var conv *ssa.Convert
				if ok && b.Op == token.ADD && isNowEpoch(b.X) {
					if cv, ok := km.Unwrap(b.Y).(*ssa.Convert); ok {
						if d, ok := wholeSecondsOf(cv.X); ok && d == ssa.Value(dparam) {
							good = true
							conv = cv
						}
					}
				}
				viaSym := false
				if !good {
					if sy := km.SymOf(st.Val); sy.Op == "binop" && sy.Name == "+" && symNowEpoch(sy.Args[0]) && sy.Args[1].Op == "conv" {
						if d, ok := symWholeSeconds(sy.Args[1].Args[0]); ok && d.IsVal(dparam) {
							good, viaSym = true, true
						}
					}
				}
				r.Add("R-C03-2", km.FuncName(fn), "ValidBefore", posOf(c, st), "ValidAfter + uint64(whole seconds of the duration parameter)", km.ValStr(st.Val), good)
				if viaSym {
					// the conversion happens inside the helper; what it converts is this function's duration parameter,
					// so the lower bound has to hold where the helper's result is used
					stt := c.F.At(st)
					nonNeg := stt.All(func(k km.Conj) bool { return km.ProveGE0(s.Augment(k), dparam) })
					r.Add("R-C03-3", km.FuncName(fn), "uint64(duration.Seconds())", posOf(c, st), "duration >= 0 proven where the converted value is used", sprintf("%v", nonNeg), nonNeg)
				}
				if conv != nil {
					stt := c.F.At(conv)
					nonNeg := stt.All(func(k km.Conj) bool { return km.ProveGE0(s.Augment(k), dparam) })
					r.Add("R-C03-3", km.FuncName(fn), "uint64(duration.Seconds())", posOf(c, conv), "duration >= 0 proven at the conversion", sprintf("%v", nonNeg), nonNeg)
				}
			}
		}
		// any other float/signed -> unsigned conversion in lib/certgen fed by a Duration
		for _, f2 := range c.P.AllFuncs {
			if f2.Pkg == nil || f2.Pkg.Pkg.Path() != certgenPkg {
				continue
			}
			km.Instrs(f2, func(in ssa.Instruction) {
				cv, ok := in.(*ssa.Convert)
				if !ok {
					return
				}
				to, ok1 := cv.Type().Underlying().(*types.Basic)
				if !ok1 || to.Info()&types.IsUnsigned == 0 {
					return
				}
				if d, ok := wholeSecondsOf(cv.X); ok && km.NamedTypeOf(d.Type()) == "time.Duration" {
					if f2 == fn && d == ssa.Value(dparam) {
						return // judged above
					}
					stt := c.F.At(cv)
					nonNeg := stt.All(func(k km.Conj) bool { return km.ProveGE0(k, d) })
					if !nonNeg {
						// a small helper converting a field or parameter: the bound has to hold at every call of it
						nonNeg = nonNegAtCallers(c, s, f2, cv.X, 0)
					}
					r.Add("R-C03-3", km.FuncName(f2), "unsigned conversion of a duration", posOf(c, cv), "operand >= 0 proven at the conversion", sprintf("%v", nonNeg), nonNeg)
				}
			})
		}
	}

	// ---------- R-C03-4 automation
	n := 0
	for _, fn := range c.P.AllFuncs {
		if fn.Pkg == nil || !pkgIsKMD(fn.Pkg) {
			continue
		}
		for _, st := range storesByField(fn, KMD+".roleRequestingCertGenParams")["Duration"] {
			n++
			// the constant 45 d, or a value proven to lie in [0, 45 d] on every path (directly or by the helper
			// that computed it)
			var upper func(k km.Conj, v ssa.Value, depth int) (bool, bool)
			upper = func(k km.Conj, v ssa.Value, depth int) (bool, bool) {
				k = s.Augment(k)
				le, ge := proveLEConst(k, v, roleDays), km.ProveGE0(k, v)
				if (le && ge) || depth >= 3 {
					return le, ge
				}
				cases, isCall := s.ResultCases(k, v)
				if !isCall || len(cases) == 0 {
					return le, ge
				}
				aLe, aGe := true, true
				for _, rc := range cases {
					x, y := upper(rc.K, rc.Val, depth+1)
					aLe, aGe = aLe && x, aGe && y
				}
				return le || aLe, ge || aGe
			}
			stt := c.F.At(st)
			okLe, okGe := len(stt) > 0, len(stt) > 0
			for _, k := range stt {
				x, y := upper(k, st.Val, 0)
				okLe, okGe = okLe && x, okGe && y
			}
			r.Add("R-C03-4", km.FuncName(fn), "automation certificate lifetime", posOf(c, st), "0 <= D <= 45 days on every path (the constant, or a requested value clamped to it)", sprintf("upper=%v lower=%v value=%s", okLe, okGe, clipS(km.ValStr(st.Val), 80)), okLe && okGe)
		}
	}
	if n < 1 {
		r.AnchorLost("R-C03-4", "Duration stores of roleRequestingCertGenParams")
	}
	if fn := c.MustFunc("R-C03-4", "cmd/keymasterd", "(*RuntimeState).withParamsGenerateRoleRequestingCert"); fn != nil {
		for _, ci := range km.CallsIn(fn) {
			if km.CalleeFull(ci.Common()) != certgenPkg+".GenIPRestrictedX509Cert" {
				continue
			}
			var dur ssa.Value
			for _, a := range ci.Common().Args {
				if km.NamedTypeOf(a.Type()) == "time.Duration" {
					dur = a
				}
			}
			ok := dur != nil && fieldLoadOf(dur, KMD+".roleRequestingCertGenParams", "Duration")
			r.Add("R-C03-4", km.FuncName(fn), "lifetime passed to the issuer", posOf(c, ci), "params.Duration, unchanged", km.ValStr(dur), ok)
		}
	}
	_ = strings.Contains
}

func proveLEConst(k km.Conj, v ssa.Value, bound int64) bool {
	// find or build a constant bound value among the facts
	v = km.Unwrap(v)
	if cv, ok := km.ConstInt(v); ok {
		return cv <= bound
	}
	for _, f := range k.List() {
		for _, side := range []ssa.Value{f.X, f.Y} {
			if side == nil {
				continue
			}
			if cst, ok := km.Unwrap(side).(*ssa.Const); ok {
				if i, ok := km.ConstInt(cst); ok && i <= bound && km.ProveLE(k, v, cst) {
					return true
				}
			}
		}
	}
	return false
}

// nonNegAtCallers: operand (a value of helper fn, converted to an unsigned type as whole seconds of a duration) is
// proven >= 0 at every static call of fn: seen from the call, the duration is a value of the caller's frame whose
// lower bound the caller's facts at the call establish - or again a parameter, judged at the caller's callers.
func nonNegAtCallers(c *km.Ctx, s *km.Sem, fn *ssa.Function, operand ssa.Value, depth int) bool {
	sites := c.G.Callers[fn]
	if depth > 2 || len(sites) == 0 || len(c.G.AddrTaken[fn]) > 0 {
		return false
	}
	for _, cs := range sites {
		ci, ok := cs.Instr.(ssa.CallInstruction)
		if !ok {
			return false
		}
		d, ok := symWholeSeconds(km.SymAtCall(operand, fn, ci))
		if !ok || d.Op != "val" {
			return false
		}
		st := c.F.At(cs.Instr)
		if len(st) > 0 && st.All(func(k km.Conj) bool { return km.ProveGE0(s.Augment(k), d.Val) }) {
			continue
		}
		// handed in from further up
		p, isP := d.Val.(*ssa.Parameter)
		if !isP || !paramNonNegAtCallers(c, s, cs.Caller, p, depth+1) {
			return false
		}
	}
	return true
}

func paramNonNegAtCallers(c *km.Ctx, s *km.Sem, fn *ssa.Function, p *ssa.Parameter, depth int) bool {
	sites := c.G.Callers[fn]
	if depth > 2 || len(sites) == 0 || len(c.G.AddrTaken[fn]) > 0 {
		return false
	}
	for _, cs := range sites {
		ci, ok := cs.Instr.(ssa.CallInstruction)
		if !ok {
			return false
		}
		d := km.SymAtCall(p, fn, ci)
		if d.Op != "val" {
			return false
		}
		st := c.F.At(cs.Instr)
		if len(st) > 0 && st.All(func(k km.Conj) bool { return km.ProveGE0(s.Augment(k), d.Val) }) {
			continue
		}
		q, isP := d.Val.(*ssa.Parameter)
		if !isP || !paramNonNegAtCallers(c, s, cs.Caller, q, depth+1) {
			return false
		}
	}
	return true
}

// ---- an interprocedural upper-/lower-bound argument for durations, used when the comparison-fact prover of the
// handler's own frame is not enough because the clamps live in helpers (a policy value with methods, a limit()
// function): "v <= 24 h", "v <= time.Until(session issued + K)" and "v >= 0" are proven by following v through
// merges (edge by edge), comparison facts, min/max, helper results (every return, in the helper's frame) and
// helper parameters (back in the caller's frame with the caller's facts).

type durFrame struct {
	fn     *ssa.Function
	k      km.Conj
	call   ssa.CallInstruction // the call that entered fn (nil for the root)
	parent *durFrame
}

type durKind int

const (
	durLE24 durKind = iota
	durLEAge
	durGE0
)

func (fr *durFrame) env() map[*ssa.Parameter]*km.Sym {
	if fr == nil || fr.call == nil || fr.parent == nil {
		return nil
	}
	out := map[*ssa.Parameter]*km.Sym{}
	args := km.CallArgs(fr.call.Common())
	penv := fr.parent.env()
	for i, p := range fr.fn.Params {
		if i < len(args) {
			out[p] = km.SymOfEnv(args[i], penv)
		}
	}
	return out
}

// isSessionAgeSym: time.Until(<authenticated session>.IssuedAt + K) with 0 < K <= 24 h.
func isSessionAgeSym(s *km.Sem, sy *km.Sym) bool {
	a, ok := sy.IsCall("time.Until")
	if !ok || len(a) != 1 {
		return false
	}
	ad, ok := a[0].IsCall("(time.Time).Add")
	if !ok || len(ad) != 2 {
		return false
	}
	k, isC := ad[1].ConstInt()
	if !isC || k <= 0 || k > day {
		return false
	}
	is := ad[0]
	if is.Op == "field" && is.Name == "IssuedAt" && is.Args[0] != nil && is.Args[0].Op == "val" {
		if os.Getenv("KMCHECK_TRACE_DUR") != "" {
			fmt.Fprintf(os.Stderr, "   age: base=%s (%T) role=%v\n", km.ValStr(is.Args[0].Val), is.Args[0].Val, s.Is(is.Args[0].Val, km.RoleAuthInfo))
		}
		return s.Is(is.Args[0].Val, km.RoleAuthInfo)
	}
	if is.Op == "val" {
		base, fld, ok := km.FieldOfLoad(km.Unwrap(is.Val))
		return ok && fld == "IssuedAt" && s.Is(base, km.RoleAuthInfo)
	}
	return false
}

func durHolds(c *km.Ctx, s *km.Sem, fr *durFrame, v ssa.Value, kind durKind, depth int, seen map[ssa.Value]bool) bool {
	if depth > 10 {
		return false
	}
	v = km.Unwrap(v)
	if seen[v] {
		return false
	}
	seen[v] = true
	defer delete(seen, v)
	// 1. the value itself, symbolically in the root's terms
	sy := km.SymOfEnv(v, fr.env())
	if os.Getenv("KMCHECK_TRACE_DUR") != "" {
		fmt.Fprintf(os.Stderr, "%*sdur kind=%d fn=%s v=%s sym=%s facts=%s\n", depth*2, "", kind, fr.fn.Name(), km.ValStr(v), sy.String(), clipS(km.DNF{fr.k}.String(), 200))
	}
	switch kind {
	case durLE24:
		if k, ok := sy.ConstInt(); ok && k <= day {
			return true
		}
	case durGE0:
		if k, ok := sy.ConstInt(); ok && k >= 0 {
			return true
		}
	case durLEAge:
		if isSessionAgeSym(s, sy) {
			return true
		}
	}
	// 2. a parameter: what this frame's own comparisons say about it, then back in the caller with the caller's
	// facts
	if p, isP := v.(*ssa.Parameter); isP {
		if durHoldsNoParamEscape(c, s, fr, p, kind, depth+1) {
			return true
		}
		if fr.call == nil || fr.parent == nil {
			return false
		}
		args := km.CallArgs(fr.call.Common())
		for i, q := range fr.fn.Params {
			if q == p && i < len(args) {
				return durHolds(c, s, fr.parent, args[i], kind, depth+1, map[ssa.Value]bool{})
			}
		}
		return false
	}
	// 2b. a field of a request-scoped record that is new to the tree (the handler was split into stages that hand
	// the record along): field-based - the bound holds for the field when it holds, at the store, for every value
	// ever stored into it; for ">= 0" also when a test of the field that no store follows says so on the way here
	if base, fld, isF := km.FieldOfLoad(v); isF {
		if tn := km.NamedTypeOf(base.Type()); tn != "" && km.IsNewNamedType(tn) {
			if recordFieldBound(c, s, tn, fld, kind, depth+1) {
				return true
			}
			if kind == durGE0 && recordFieldTestedNonNeg(c, s, fr, base, tn, fld) {
				return true
			}
		}
	}
	// 3. min / max
	if cl, ok := v.(*ssa.Call); ok {
		if b, isB := cl.Common().Value.(*ssa.Builtin); isB && (b.Name() == "min" || b.Name() == "max") {
			all, any := len(cl.Common().Args) > 0, false
			for _, a := range cl.Common().Args {
				if durHolds(c, s, fr, a, kind, depth+1, seen) {
					any = true
				} else {
					all = false
				}
			}
			upper := kind != durGE0
			if (b.Name() == "min") == upper {
				if any {
					return true
				}
			} else if all {
				return true
			}
		}
	}
	// 4. comparison facts of this frame
	for _, f := range fr.k.List() {
		var w ssa.Value
		le := f.Op == token.LEQ || f.Op == token.LSS || f.Op == token.EQL
		ge := f.Op == token.GEQ || f.Op == token.GTR || f.Op == token.EQL
		if kind == durGE0 {
			le, ge = ge, le
		}
		switch {
		case le && f.Y != nil && km.Unwrap(f.X) == v:
			w = f.Y
		case ge && f.Y != nil && km.Unwrap(f.Y) == v:
			w = f.X
		default:
			continue
		}
		if durHolds(c, s, fr, w, kind, depth+1, seen) {
			return true
		}
	}
	// a boolean helper that compared the value for us: !tooLong(v) etc. (facts inside the helper's true/false returns)
	for _, f := range fr.k.List() {
		cl, idx := callRes(f.X)
		if cl == nil || idx != 0 || f.Op != token.ILLEGAL {
			continue
		}
		g := km.StaticCallee(cl.Common())
		if g == nil || g.Blocks == nil || !c.InModule(g) {
			continue
		}
		args := km.CallArgs(cl.Common())
		pi := -1
		for i, a := range args {
			if km.Unwrap(a) == v && i < len(g.Params) {
				pi = i
			}
		}
		if pi < 0 {
			continue
		}
		okAll, nRet := true, 0
		for _, rc := range s.RetCases(g) {
			for _, d := range rc.State {
				kk, may := s.TrueFacts(d, km.Unwrap(rc.Results[0]))
				if f.Pol != may {
					// this return cannot have produced the verdict the caller saw... unless the result is not constant
					if _, isC := km.Unwrap(rc.Results[0]).(*ssa.Const); isC {
						continue
					}
				}
				if !f.Pol {
					// the caller saw false: the facts of the false outcome
					kk = d
					for _, nf := range c.F.CondFacts(km.Unwrap(rc.Results[0]), false) {
						kk = kk.With(nf)
					}
				}
				nRet++
				inner := &durFrame{fn: g, k: kk, call: cl, parent: fr}
				if !durHoldsNoParamEscape(c, s, inner, g.Params[pi], kind, depth+1) {
					okAll = false
				}
			}
		}
		if okAll && nRet > 0 {
			return true
		}
	}
	// 5. the result of a helper: every return, in the helper's frame
	if cl, idx := callRes(v); cl != nil {
		g := km.StaticCallee(cl.Common())
		if g != nil && g.Blocks != nil && c.InModule(g) && g != fr.fn {
			okAll, n := true, 0
			for _, rc := range s.RetCases(g) {
				if idx >= len(rc.Results) {
					return false
				}
				for _, d := range rc.State {
					n++
					inner := &durFrame{fn: g, k: d, call: cl, parent: fr}
					if !durHolds(c, s, inner, rc.Results[idx], kind, depth+1, map[ssa.Value]bool{}) {
						okAll = false
					}
				}
			}
			if okAll && n > 0 {
				return true
			}
		}
	}
	// 6. a merge: every operand under the facts of its own edge
	if phi, isPhi := v.(*ssa.Phi); isPhi {
		okAll := len(phi.Edges) > 0
		for i, e := range phi.Edges {
			if i >= len(phi.Block().Preds) {
				return false
			}
			est := c.F.OnEdge(phi.Block().Preds[i], phi.Block())
			if len(est) == 0 {
				continue // an edge that cannot be taken
			}
			for _, d := range est {
				inner := &durFrame{fn: fr.fn, k: d, call: fr.call, parent: fr.parent}
				if !durHolds(c, s, inner, e, kind, depth+1, seen) {
					okAll = false
				}
			}
		}
		return okAll
	}
	return false
}

// durHoldsNoParamEscape: inside a predicate helper, the parameter is bounded by the helper's own facts (the
// question is not handed back to the caller, which is asking it).
func durHoldsNoParamEscape(c *km.Ctx, s *km.Sem, fr *durFrame, p *ssa.Parameter, kind durKind, depth int) bool {
	for _, f := range fr.k.List() {
		var w ssa.Value
		le := f.Op == token.LEQ || f.Op == token.LSS || f.Op == token.EQL
		ge := f.Op == token.GEQ || f.Op == token.GTR || f.Op == token.EQL
		if kind == durGE0 {
			le, ge = ge, le
		}
		switch {
		case le && f.Y != nil && km.Unwrap(f.X) == ssa.Value(p):
			w = f.Y
		case ge && f.Y != nil && km.Unwrap(f.Y) == ssa.Value(p):
			w = f.X
		default:
			continue
		}
		if durHolds(c, s, fr, w, kind, depth+1, map[ssa.Value]bool{ssa.Value(p): true}) {
			return true
		}
	}
	return false
}

// recordFieldStores: the stores into field fld of the record type tn anywhere in the module.
func recordFieldStores(c *km.Ctx, tn, fld string) []*ssa.Store {
	var out []*ssa.Store
	for _, fn := range c.P.AllFuncs {
		if !c.InModule(fn) {
			continue
		}
		km.Instrs(fn, func(in ssa.Instruction) {
			st, ok := in.(*ssa.Store)
			if !ok {
				return
			}
			if fa, ok := st.Addr.(*ssa.FieldAddr); ok && km.NamedTypeOf(fa.X.Type()) == tn && fieldNameOf(fa) == fld {
				out = append(out, st)
			}
		})
	}
	return out
}

// recordFieldBound: every value stored into the field satisfies the bound where it is stored.
func recordFieldBound(c *km.Ctx, s *km.Sem, tn, fld string, kind durKind, depth int) bool {
	stores := recordFieldStores(c, tn, fld)
	if len(stores) == 0 || depth > 8 {
		return false
	}
	for _, st := range stores {
		stt := c.F.At(st)
		if len(stt) == 0 {
			continue // unreachable
		}
		for _, k := range stt {
			if !durHolds(c, s, &durFrame{fn: st.Parent(), k: s.Augment(k)}, st.Val, kind, depth+1, map[ssa.Value]bool{}) {
				return false
			}
		}
	}
	return true
}

// recordFieldTestedNonNeg: on the way to this frame the field was tested to be >= 0 and not stored again: in this
// frame, or - the record being handed in - in the calling frames, directly or inside a stage whose verdict the
// caller acted on (the facts of that stage's returns, seen through s.Holds).
func recordFieldTestedNonNeg(c *km.Ctx, s *km.Sem, fr *durFrame, base ssa.Value, tn, fld string) bool {
	for f, b := fr, km.Unwrap(base); f != nil; f = f.parent {
		rec := b
		pr := km.Prim{Name: "record." + fld + " >= 0", Rel: func(ft km.Fact, resolve func(ssa.Value) ssa.Value) bool {
			var x ssa.Value
			switch {
			case (ft.Op == token.GEQ || ft.Op == token.GTR) && ft.Y != nil:
				if kv, ok := km.ConstInt(ft.Y); ok && ((ft.Op == token.GEQ && kv >= 0) || (ft.Op == token.GTR && kv >= -1)) {
					x = ft.X
				}
			case (ft.Op == token.LEQ || ft.Op == token.LSS) && ft.Y != nil:
				if kv, ok := km.ConstInt(ft.X); ok && ((ft.Op == token.LEQ && kv >= 0) || (ft.Op == token.LSS && kv >= -1)) {
					x = ft.Y
				}
			}
			if x == nil {
				return false
			}
			ld, isLoad := km.Unwrap(x).(*ssa.UnOp)
			b2, f2, ok := km.FieldOfLoad(km.Unwrap(x))
			if !ok || !isLoad || f2 != fld || km.NamedTypeOf(b2.Type()) != tn || km.CellOrigin(resolve(b2)) != km.CellOrigin(rec) {
				return false
			}
			// no store into the field after the tested load, in the function of the test
			for _, st := range recordFieldStores(c, tn, fld) {
				if st.Parent() == ld.Parent() && !km.InstrDominates(st, ld) {
					return false
				}
			}
			return true
		}}
		if s.Holds(f.k, pr) {
			return true
		}
		// up one frame: the record is the argument the caller passed for our parameter
		p, isP := km.CellOrigin(rec).(*ssa.Parameter)
		if !isP || f.call == nil || f.parent == nil {
			return false
		}
		args := km.CallArgs(f.call.Common())
		found := false
		for i, q := range f.fn.Params {
			if q == p && i < len(args) && args[i] != nil {
				b, found = km.Unwrap(args[i]), true
			}
		}
		if !found {
			return false
		}
	}
	return false
}

// checkCredentialIssueTime: "24 hours after the credential" is counted from when the credential was issued: for a
// keymaster client certificate that is the leaf's NotBefore (never its NotAfter, which lies in the future and
// makes the clamp vacuous), for an IP-restricted certificate the time of the request.
func checkCredentialIssueTime(c *km.Ctx, s *km.Sem, rule string) {
	if fn := c.P.Func("cmd/keymasterd", "(*RuntimeState).getUsernameIfKeymasterSigned"); fn != nil {
		n := 0
		for _, rc := range s.RetCases(fn) {
			if cs, ok := km.ConstString(rc.Results[0]); ok && cs == "" {
				continue
			}
			if len(rc.Results) < 2 {
				continue
			}
			n++
			v := km.Unwrap(rc.Results[1])
			ok := mentionsField(v, "NotBefore")
			c.R.Add(rule, km.FuncName(fn), "issue time of a certificate credential", posOf(c, rc.Ret), "the leaf certificate's NotBefore", km.ValStr(v), ok)
		}
		if n == 0 {
			c.R.AnchorLost(rule, "success return of getUsernameIfKeymasterSigned")
		}
	}
	// a session cookie: the authentication time the handler counts from is the signed iat claim, and a cookie
	// that is re-signed at a higher level keeps the iat it had (a second factor presented hours after the
	// password does not restart the 24 hours)
	const claimsT = KMD + ".authInfoJWT"
	if fn := c.MustFunc(rule, "cmd/keymasterd", "(*RuntimeState).getAuthInfoFromJWT"); fn != nil {
		nSt, good := 0, true
		instrsWithNewHelpers(c, fn, 2, func(in ssa.Instruction) {
			if st, ok := in.(*ssa.Store); ok {
				if fa, ok := st.Addr.(*ssa.FieldAddr); ok && fieldNameOf(fa) == "IssuedAt" && km.NamedTypeOf(fa.X.Type()) == KMD+".authInfo" {
					nSt++
					cl, isC := km.Unwrap(st.Val).(*ssa.Call)
					if !isC || km.CalleeFull(cl.Common()) != "time.Unix" || !fieldLoadOf(cl.Common().Args[0], claimsT, "IssuedAt") {
						good = false
					} else if z, isZ := km.ConstInt(cl.Common().Args[1]); !isZ || z != 0 {
						good = false
					}
				}
			}
		})
		c.R.Add(rule, km.FuncName(fn), "issue time of a session credential", c.P.Pos(fn.Pos()), "authInfo.IssuedAt = time.Unix(claims.iat, 0)", sprintf("stores=%d ok=%v", nSt, good), nSt > 0 && good)
	}
	if upd := c.MustFunc(rule, "cmd/keymasterd", "(*RuntimeState).updateAuthJWTWithNewAuthLevel"); upd != nil {
		seen := map[*ssa.Function]bool{upd: true}
		work := []*ssa.Function{upd}
		bad, resigns := "", false
		for len(work) > 0 {
			f := work[0]
			work = work[1:]
			km.Instrs(f, func(in ssa.Instruction) {
				if st, ok := in.(*ssa.Store); ok {
					if fa, ok := st.Addr.(*ssa.FieldAddr); ok && fieldNameOf(fa) == "IssuedAt" && km.NamedTypeOf(fa.X.Type()) == claimsT {
						if !fieldLoadOf(st.Val, claimsT, "IssuedAt") {
							bad = "iat written in " + km.FuncName(f) + " at " + posOf(c, in) + ": " + clipS(km.ValStr(st.Val), 60)
						}
					}
				}
			})
			for _, ci := range km.CallsIn(f) {
				if strings.HasSuffix(km.CalleeFull(ci.Common()), "jwt.Builder).Claims") {
					a := ci.Common().Args
					if km.NamedTypeOf(km.Unwrap(a[len(a)-1]).Type()) == claimsT {
						resigns = true
					}
				}
			}
			for _, g := range c.G.Callees[f] {
				if g != nil && g.Pkg != nil && strings.HasPrefix(g.Pkg.Pkg.Path(), km.ModPath) && !seen[g] && len(g.Blocks) > 0 {
					seen[g] = true
					work = append(work, g)
				}
			}
		}
		found := sprintf("re-signs session claims=%v; functions on the path=%d", resigns, len(seen))
		if bad != "" {
			found = bad
		}
		c.R.Add(rule, km.FuncName(upd), "a raised session keeps its authentication time", c.P.Pos(upd.Pos()), "the upgrade path signs session claims and nothing on it writes the iat claim (other than copying it)", found, resigns && bad == "")
	}
}

// durationFieldCount: the number of time.Duration fields of a struct type (0 for anything else).
func durationFieldCount(t types.Type) int {
	if p, ok := t.Underlying().(*types.Pointer); ok {
		t = p.Elem()
	}
	st, ok := t.Underlying().(*types.Struct)
	if !ok {
		return 0
	}
	n := 0
	for i := 0; i < st.NumFields(); i++ {
		if km.NamedTypeOf(st.Field(i).Type()) == "time.Duration" {
			n++
		}
	}
	return n
}
