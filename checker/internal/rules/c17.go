package rules

import (
	"go/token"
	"go/types"
	"sort"
	"strings"

	"kmcheck/internal/km"

	"golang.org/x/tools/go/ssa"
)

func init() { km.Register("C17", checkC17) }

// redirects that leave the origin by design (keyed by function; one reason each)
var offOriginByDesign = map[string]string{
	"oauth2DoRedirectoToProviderHandler": "redirect to the operator-configured OAuth2 provider (AuthCodeURL of the configured endpoint)",
	"idpOpenIDCAuthorizationHandler":     "OpenID authorization response to the client's validated redirect_uri (governed by C13)",
	"SendAuthDocumentHandler":            "CLI hand-off to http://localhost:<port> (constant scheme and host, numeric port)",
}

func onOriginConst(s string) bool {
	if s == "" || s[0] != '/' {
		return false
	}
	if len(s) > 1 && (s[1] == '/' || s[1] == '\\') {
		return false
	}
	for _, r := range s {
		if r < 0x20 || r == 0x7f {
			return false
		}
	}
	return true
}

type redirClass struct {
	ok   bool
	desc string
}

// filterOffOriginConsts: the constants the destination filter can hand back that are not on-origin paths
// themselves (an empty string meaning "nothing acceptable was asked for"); a use of the filter's output as a
// redirect target then has to exclude them by a test. Computed by checkC17 before the sinks are classified.
var filterOffOriginConsts []string

// excludedByFacts: every disjunct of st says v is none of the given constants.
func excludedByFacts(st km.DNF, v ssa.Value, consts []string) bool {
	if len(st) == 0 {
		return false
	}
	return st.All(func(k km.Conj) bool {
		for _, want := range consts {
			found := false
			for _, f := range k.List() {
				if f.Op == token.NEQ && km.Unwrap(f.X) == km.Unwrap(v) {
					if cs, ok := km.ConstString(f.Y); ok && cs == want {
						found = true
					}
				}
				if want == "" && (f.Op == token.GTR || f.Op == token.GEQ || f.Op == token.NEQ) {
					if cl, ok := f.X.(*ssa.Call); ok {
						if b, isB := cl.Common().Value.(*ssa.Builtin); isB && b.Name() == "len" && km.Unwrap(cl.Common().Args[0]) == km.Unwrap(v) {
							if i, isC := km.ConstInt(f.Y); isC && ((f.Op == token.GTR && i >= 0) || (f.Op == token.GEQ && i >= 1) || (f.Op == token.NEQ && i == 0)) {
								found = true
							}
						}
					}
				}
			}
			if !found {
				return false
			}
		}
		return true
	})
}

// classifyTarget decides whether a redirect target stays on the origin.
func classifyTarget(c *km.Ctx, v ssa.Value, filter *ssa.Function, depth int) redirClass {
	return classifyTargetAt(c, v, filter, depth, nil)
}

// classifyTargetAt: st is what is known where the value is used (nil when unknown).
func classifyTargetAt(c *km.Ctx, v ssa.Value, filter *ssa.Function, depth int, st km.DNF) redirClass {
	if depth > 6 {
		return redirClass{false, "too deep: " + km.ValStr(v)}
	}
	v = km.Unwrap(v)
	if cs, ok := km.ConstString(v); ok {
		return redirClass{onOriginConst(cs), "constant " + cs}
	}
	switch x := v.(type) {
	case *ssa.Call:
		callee := km.StaticCallee(x.Common())
		switch {
		case callee != nil && callee == filter:
			if len(filterOffOriginConsts) > 0 && !excludedByFacts(st, x, filterOffOriginConsts) {
				return redirClass{false, sprintf("destination filter output, which may be one of the off-origin constants %q and is not tested against them here", filterOffOriginConsts)}
			}
			return redirClass{true, "destination filter output"}
		case strings.HasPrefix(km.CalleeFull(x.Common()), "cmp.Or"):
			// the first non-empty of its operands: each of them has to be a safe target
			var ops []ssa.Value
			if len(x.Common().Args) == 1 {
				if sl, ok := km.Unwrap(x.Common().Args[0]).(*ssa.Slice); ok {
					if al, ok := sl.X.(*ssa.Alloc); ok {
						for _, ref := range *al.Referrers() {
							if ia, ok := ref.(*ssa.IndexAddr); ok {
								for _, r2 := range *ia.Referrers() {
									if st, ok := r2.(*ssa.Store); ok && st.Addr == ssa.Value(ia) {
										ops = append(ops, st.Val)
									}
								}
							}
						}
					}
				}
			}
			if len(ops) == 0 {
				return redirClass{false, "cmp.Or over operands that could not be read"}
			}
			all := true
			var descs []string
			for _, o := range ops {
				rc := classifyTargetAt(c, o, filter, depth+1, st)
				descs = append(descs, rc.desc)
				if !rc.ok {
					all = false
				}
			}
			return redirClass{all, "first non-empty of {" + strings.Join(descs, "; ") + "}"}
		case km.CalleeFull(x.Common()) == "fmt.Sprintf":
			if f, ok := km.ConstString(x.Common().Args[0]); ok {
				prefix := f
				if i := strings.Index(f, "%"); i >= 0 {
					prefix = f[:i]
				}
				// the constant prefix must be on-origin and long enough to fix the second character
				if len(prefix) >= 2 && onOriginConst(prefix) {
					return redirClass{true, "formatted with on-origin constant prefix " + prefix}
				}
				return redirClass{false, "formatted with prefix " + prefix}
			}
		case callee != nil && callee.Blocks != nil && c.InModule(callee):
			// module helper: every return must be on-origin
			all := true
			var descs []string
			km.Instrs(callee, func(in ssa.Instruction) {
				if ret, ok := in.(*ssa.Return); ok && len(ret.Results) == 1 {
					rc := classifyTarget(c, km.ReturnValues(ret)[0], filter, depth+1)
					descs = append(descs, rc.desc)
					if !rc.ok {
						all = false
					}
				}
			})
			return redirClass{all && len(descs) > 0, callee.Name() + "() returns {" + strings.Join(descs, "; ") + "}"}
		}
	case *ssa.BinOp:
		if x.Op == token.ADD {
			if cs, ok := km.ConstString(x.X); ok {
				if len(cs) >= 2 && onOriginConst(cs) {
					return redirClass{true, "concatenation with on-origin constant prefix " + cs}
				}
				return redirClass{false, "concatenation with prefix " + cs}
			}
			return classifyTarget(c, x.X, filter, depth+1)
		}
	case *ssa.Phi:
		all := true
		var descs []string
		for i, e := range x.Edges {
			// what is known on the edge that selects this operand
			var est km.DNF
			if i < len(x.Block().Preds) {
				est = c.F.OnEdge(x.Block().Preds[i], x.Block())
			}
			rc := classifyTargetAt(c, e, filter, depth+1, est)
			descs = append(descs, rc.desc)
			if !rc.ok {
				all = false
			}
		}
		return redirClass{all, "one of {" + strings.Join(descs, "; ") + "}"}
	case *ssa.UnOp:
		if base, fld, ok := km.FieldOfLoad(x); ok && fld == "loginDestination" && km.NamedTypeOf(base.Type()) == KMD+".pendingAuth2Request" {
			return redirClass{true, "pendingAuth2Request.loginDestination (every store is filter output: checked separately)"}
		}
	case *ssa.Field:
		if base, fld, ok := km.FieldOfLoad(x); ok && fld == "loginDestination" && km.NamedTypeOf(base.Type()) == KMD+".pendingAuth2Request" {
			return redirClass{true, "pendingAuth2Request.loginDestination (every store is filter output: checked separately)"}
		}
	case *ssa.Parameter:
		// judged at the callers
		fn := x.Parent()
		idx := -1
		for i, p := range fn.Params {
			if p == x {
				idx = i
			}
		}
		sites := c.G.Callers[fn]
		if idx < 0 || len(sites) == 0 {
			return redirClass{false, "parameter " + x.Name() + " of a function without known callers"}
		}
		all := true
		var descs []string
		for _, cs := range sites {
			ci, ok := cs.Instr.(ssa.CallInstruction)
			if !ok {
				return redirClass{false, "non-call use"}
			}
			rc := classifyTarget(c, km.CallArgs(ci.Common())[idx], filter, depth+1)
			descs = append(descs, cs.Caller.Name()+": "+rc.desc)
			if !rc.ok {
				all = false
			}
		}
		return redirClass{all, "parameter: {" + strings.Join(descs, "; ") + "}"}
	}
	return redirClass{false, "request-derived or unrecognised value " + clipS(km.ValStr(v), 100)}
}

func checkC17(c *km.Ctx) {
	r := c.R
	s := km.NewSem(c)
	r.Explain = "Static analysis of /repo: every http.Redirect call (and every Location header store) in keymasterd is located by its resolved callee and its target operand is classified by provenance: an on-origin constant, a string with an on-origin constant prefix of at least two characters, the output of the destination filter, a field that only ever stores filter output, or one of three tabled by-design off-origin redirects; a request-derived string that has not passed the filter is a violation. The filter itself returns the client's value only on paths dominated by: starts with '/', does not start with '//', contains no backslash in its path part, contains no control character. Decides provenance and the filter's test structure, not browser URL resolution."
	r.NotDecided = []string{"browser URL resolution beyond the stated character rules", "behaviour of an opaque (parser-based) filter"}
	r.Assume = []string{"http.Redirect emits the target it is given (after path cleaning)", "go/types + go/ssa model the source faithfully"}

	r.Rule("R-C17-1", "every redirect target is an on-origin constant, has an on-origin constant prefix, is destination-filter output (directly or through a filter-only field), or is a tabled by-design off-origin redirect", 7)
	r.Rule("R-C17-2", "the destination filter returns the client's value only when it starts with '/', not with '//', has no backslash before the first '?' (the part net/http.Redirect path-cleans) and no control character; otherwise the constant profile path", 1)
	r.Rule("R-C17-3", "every store into pendingAuth2Request.loginDestination is destination-filter output", 1)

	filter := c.MustFunc("R-C17-2", "cmd/keymasterd", "getLoginDestination")
	if filter == nil {
		return
	}
	// the constants the filter can return (through its phis and the pure helpers it returns from)
	filterOffOriginConsts = nil
	{
		seen := map[ssa.Value]bool{}
		var walk func(v ssa.Value, depth int)
		walk = func(v ssa.Value, depth int) {
			v = km.Unwrap(v)
			if seen[v] || depth > 6 {
				return
			}
			seen[v] = true
			if cs, ok := km.ConstString(v); ok {
				if !onOriginConst(cs) {
					filterOffOriginConsts = appendUniq(filterOffOriginConsts, cs)
				}
				return
			}
			switch x := v.(type) {
			case *ssa.Phi:
				for _, e := range x.Edges {
					walk(e, depth+1)
				}
			case *ssa.Call:
				if g := km.StaticCallee(x.Common()); g != nil && g.Blocks != nil && c.InModule(g) {
					km.Instrs(g, func(in ssa.Instruction) {
						if ret, ok := in.(*ssa.Return); ok && len(ret.Results) >= 1 {
							walk(km.ReturnValues(ret)[0], depth+1)
						}
					})
				}
			case *ssa.Extract:
				if cl, ok := x.Tuple.(*ssa.Call); ok && x.Index == 0 {
					walk(cl, depth+1)
				}
			}
		}
		km.Instrs(filter, func(in ssa.Instruction) {
			if ret, ok := in.(*ssa.Return); ok && len(ret.Results) >= 1 {
				walk(km.ReturnValues(ret)[0], 0)
			}
		})
		sort.Strings(filterOffOriginConsts)
	}
	// ---------- R-C17-1
	n := 0
	for _, fn := range c.P.AllFuncs {
		if fn.Pkg == nil || !pkgIsKMD(fn.Pkg) {
			continue
		}
		for _, ci := range km.CallsIn(fn) {
			name := km.CalleeFull(ci.Common())
			var target ssa.Value
			switch {
			case name == "net/http.Redirect":
				target = ci.Common().Args[2]
			case name == "(net/http.Header).Set" || name == "(net/http.Header).Add":
				if k, ok := km.ConstString(ci.Common().Args[1]); ok && strings.EqualFold(k, "Location") {
					target = ci.Common().Args[2]
				}
			}
			if target == nil {
				continue
			}
			n++
			top := fn
			for top.Parent() != nil {
				top = top.Parent()
			}
			if reason, ok := offOriginByDesign[top.Name()]; ok {
				// still must not be a raw request value: it has the tabled shape
				shapeOK := true
				desc := reason
				switch top.Name() {
				case "SendAuthDocumentHandler":
					shapeOK = false
					if sp, ok := km.Unwrap(target).(*ssa.Call); ok && km.CalleeFull(sp.Common()) == "fmt.Sprintf" {
						if f, ok := km.ConstString(sp.Common().Args[0]); ok && strings.HasPrefix(f, "http://localhost:%d") {
							shapeOK = true
						}
					}
				case "oauth2DoRedirectoToProviderHandler":
					shapeOK = false
					if cl, ok := km.Unwrap(target).(*ssa.Call); ok && km.CalleeFull(cl.Common()) == "(*golang.org/x/oauth2.Config).AuthCodeURL" {
						shapeOK = true
					}
				}
				r.Add("R-C17-1", km.FuncName(fn), "redirect (by-design off-origin)", posOf(c, ci), "tabled: "+reason, desc, shapeOK)
				continue
			}
			rc := classifyTargetAt(c, target, filter, 0, c.F.At(ci))
			r.Add("R-C17-1", km.FuncName(fn), "redirect target", posOf(c, ci), "on-origin constant / on-origin constant prefix / destination filter output", clipS(rc.desc, 300), rc.ok)
		}
	}
	if n == 0 {
		r.AnchorLost("R-C17-1", "http.Redirect calls in cmd/keymasterd")
	}

	// ---------- R-C17-3
	nSt := 0
	for _, fn := range c.P.AllFuncs {
		if fn.Pkg == nil || !pkgIsKMD(fn.Pkg) {
			continue
		}
		for _, st := range storesByField(fn, KMD+".pendingAuth2Request")["loginDestination"] {
			nSt++
			cl, ok := km.Unwrap(st.Val).(*ssa.Call)
			good := ok && km.StaticCallee(cl.Common()) == filter
			r.Add("R-C17-3", km.FuncName(fn), "pending federated login destination", posOf(c, st), "getLoginDestination(r)", clipS(km.ValStr(st.Val), 120), good)
		}
	}
	if nSt == 0 {
		r.AnchorLost("R-C17-3", "store of pendingAuth2Request.loginDestination")
	}

	// ---------- R-C17-2
	var isInbound func(v ssa.Value) bool
	inboundParam := map[*ssa.Parameter]int{}
	// parameters of the entries of a rule table (functions called only through the table), bound to the values the
	// filter hands to every entry
	tableBound := map[*ssa.Parameter]ssa.Value{}
	c17TableBound = tableBound
	isInbound = func(v ssa.Value) bool {
		// a variable kept in a cell because a closure captures it: the one value stored into it
		if o := km.CellOrigin(km.Unwrap(v)); o != km.Unwrap(v) {
			v = o
		}
		if derivesFromFormValue(v, "login_destination", 0) {
			return true
		}
		if bp, isP := km.Unwrap(v).(*ssa.Parameter); isP {
			if bv, has := tableBound[bp]; has {
				return isInboundPathPartExact(bv, isInbound)
			}
		}
		// the parameter of a pure filter helper: every caller hands it the inbound value
		p, ok := km.Unwrap(v).(*ssa.Parameter)
		if !ok {
			return false
		}
		if r, seen := inboundParam[p]; seen {
			return r == 2
		}
		inboundParam[p] = 1
		g := p.Parent()
		idx := -1
		for i, q := range g.Params {
			if q == p {
				idx = i
			}
		}
		sites := c.G.Callers[g]
		all := idx >= 0 && len(sites) > 0
		for _, cs := range sites {
			ci, ok := cs.Instr.(ssa.CallInstruction)
			if !ok {
				all = false
				break
			}
			a := km.CallArgs(ci.Common())
			if idx >= len(a) || !isInbound(a[idx]) {
				all = false
			}
		}
		if all {
			inboundParam[p] = 2
		}
		return all
	}
	prefix := func(p string, pol bool) km.Prim {
		return km.Prim{Name: map[bool]string{true: "", false: "!"}[pol] + "HasPrefix(x," + p + ")", Direct: func(f km.Fact) bool {
			// x[0] == '/' is the same test as HasPrefix(x, "/")
			if p == "/" && pol && f.Op == token.EQL {
				var base, index ssa.Value
				switch x := f.X.(type) {
				case *ssa.Index: // string indexing in current go/ssa
					base, index = x.X, x.Index
				case *ssa.Lookup:
					if !x.CommaOk {
						base, index = x.X, x.Index
					}
				}
				if base != nil {
					if i, isI := km.ConstInt(index); isI && i == 0 && isInbound(base) {
						if ch, isC := km.ConstInt(f.Y); isC && ch == '/' {
							return true
						}
					}
				}
			}
			// not "//": the second byte is not '/', or there is no second byte
			if p == "//" && !pol {
				if f.Op == token.NEQ {
					if ix, isIx := f.X.(*ssa.Index); isIx {
						if i, isI := km.ConstInt(ix.Index); isI && i == 1 && isInbound(ix.X) {
							if ch, isC := km.ConstInt(f.Y); isC && ch == '/' {
								return true
							}
						}
					}
				}
				if lc, isL := f.X.(*ssa.Call); isL && km.CalleeFull(lc.Common()) == "builtin:len" && isInbound(lc.Common().Args[0]) {
					if n, isC := km.ConstInt(f.Y); isC && ((f.Op == token.LEQ && n <= 1) || (f.Op == token.LSS && n <= 2) || (f.Op == token.EQL && n <= 1)) {
						return true
					}
				}
			}
			cl, ok := f.X.(*ssa.Call)
			if f.Op != token.ILLEGAL || f.Pol != pol || !ok || km.CalleeFull(cl.Common()) != "strings.HasPrefix" {
				return false
			}
			cs, isC := km.ConstString(cl.Common().Args[1])
			return isC && cs == p && isInbound(cl.Common().Args[0])
		}}
	}
	noBackslash := km.Prim{Name: "no backslash before the query", Direct: func(f km.Fact) bool {
		// the index of the first backslash is negative
		if ic, isC := f.X.(*ssa.Call); isC && f.Y != nil {
			n := km.CalleeFull(ic.Common())
			k, isK := km.ConstInt(f.Y)
			if isK && ((f.Op == token.LSS && k == 0) || (f.Op == token.EQL && k == -1) || (f.Op == token.LEQ && k == -1)) {
				single := false
				switch n {
				case "strings.Index", "strings.IndexAny":
					cs, isS := km.ConstString(ic.Common().Args[1])
					single = isS && cs == "\\"
				case "strings.IndexByte", "strings.IndexRune":
					ch, isI := km.ConstInt(ic.Common().Args[1])
					single = isI && ch == '\\'
				}
				if single {
					return isInboundPathPart(ic.Common().Args[0], isInbound, 0)
				}
			}
		}
		cl, ok := f.X.(*ssa.Call)
		if f.Op != token.ILLEGAL || f.Pol || !ok {
			return false
		}
		n := km.CalleeFull(cl.Common())
		if n != "strings.Contains" && n != "strings.ContainsRune" && n != "strings.ContainsAny" {
			return false
		}
		if cs, isC := km.ConstString(cl.Common().Args[1]); isC {
			// Contains looks for the whole string: only the single backslash finds every backslash
			if (n == "strings.Contains" && cs != "\\") || !strings.Contains(cs, "\\") {
				return false
			}
		} else if i, isI := km.ConstInt(cl.Common().Args[1]); !isI || i != '\\' {
			return false
		}
		return isInboundPathPart(cl.Common().Args[0], isInbound, 0)
	}}
	noControl := km.Prim{Name: "no control character", Direct: func(f km.Fact) bool {
		if f.Op == token.ILLEGAL && !f.Pol {
			if cl, ok := f.X.(*ssa.Call); ok && km.CalleeFull(cl.Common()) == "strings.ContainsFunc" && isInbound(cl.Common().Args[0]) {
				fnv, ok := km.Unwrap(cl.Common().Args[1]).(*ssa.Function)
				return ok && fnv.String() == "unicode.IsControl"
			}
		}
		if f.Op != token.LSS {
			return false
		}
		if i, ok := km.ConstInt(f.Y); !ok || i != 0 {
			return false
		}
		cl, ok := f.X.(*ssa.Call)
		if !ok || km.CalleeFull(cl.Common()) != "strings.IndexFunc" || !isInbound(cl.Common().Args[0]) {
			return false
		}
		fnv, ok := km.Unwrap(cl.Common().Args[1]).(*ssa.Function)
		return ok && fnv.String() == "unicode.IsControl"
	}}
	nRet := 0
	for _, rc := range s.RetCases(filter) {
		v := km.Unwrap(rc.Results[0])
		if cs, ok := km.ConstString(v); ok {
			if onOriginConst(cs) {
				r.Add("R-C17-2", km.FuncName(filter), "constant fallback", posOf(c, rc.Ret), "an on-origin constant", cs, true)
			} else {
				// not a path by itself: acceptable only as a "nothing acceptable" marker that every redirecting use
				// tests for (R-C17-1 requires that test at each redirect fed by the filter)
				r.Add("R-C17-2", km.FuncName(filter), "constant fallback", posOf(c, rc.Ret), "an on-origin constant, or a marker constant without '/' that every redirect excludes by a test", sprintf("%q (marker; uses judged under R-C17-1)", cs), !strings.Contains(cs, "/") && !strings.Contains(cs, "\\"))
			}
			nRet++
			continue
		}
		nRet++
		if cl0, _ := callRes(v); cl0 != nil && !isInbound(v) {
			// the result of a pure helper: every way the helper can have produced it is the constant fallback or
			// the inbound value under the four tests
			missingSet := map[string]bool{}
			originsOK, nLeaves := true, 0
			for _, k := range rc.State {
				for _, lf := range s.Leaves(k, filter, rc.Ret, v, nil, 2) {
					nLeaves++
					lv := km.Unwrap(lf.Val)
					if cs, isC := km.ConstString(lv); isC {
						if !onOriginConst(cs) {
							originsOK = false
						}
						continue
					}
					if resultIsConstOn(lf.K, lv) {
						continue
					}
					if !phiOriginsAre(lv, isInbound) {
						originsOK = false
					}
					for _, p := range []km.Prim{prefix("/", true), prefix("//", false), noBackslash, noControl} {
						if !s.Holds(lf.K, p) {
							missingSet[p.Name] = true
						}
					}
				}
			}
			var missing []string
			for m := range missingSet {
				missing = append(missing, m)
			}
			sort.Strings(missing)
			r.Add("R-C17-2", km.FuncName(filter), "client value returned", posOf(c, rc.Ret), "HasPrefix(x,\"/\") ∧ ¬HasPrefix(x,\"//\") ∧ no backslash before the first '?' ∧ no control character", sprintf("missing=%v origins-ok=%v (through %d helper returns)", missing, originsOK, nLeaves), len(missing) == 0 && originsOK && nLeaves > 0)
			continue
		}
		// phi of the fallback constant and the inbound value: judge the disjuncts in which the result is inbound
		var missing []string
		for _, p := range []km.Prim{prefix("/", true), prefix("//", false), noBackslash, noControl} {
			ok := rc.State.All(func(k km.Conj) bool {
				if resultIsConstOn(k, v) {
					return true
				}
				return s.Holds(ruleTableFacts(c, s, k, tableBound), p)
			})
			if !ok {
				missing = append(missing, p.Name)
			}
		}
		// and every non-constant origin of the result is the inbound value
		originsOK := phiOriginsAre(v, isInbound)
		r.Add("R-C17-2", km.FuncName(filter), "client value returned", posOf(c, rc.Ret), "HasPrefix(x,\"/\") ∧ ¬HasPrefix(x,\"//\") ∧ no backslash before the first '?' ∧ no control character", sprintf("missing=%v origins-ok=%v", missing, originsOK), len(missing) == 0 && originsOK)
	}
	if nRet == 0 {
		r.AnchorLost("R-C17-2", "returns of getLoginDestination")
	}
}

// resultIsConstOn: in conjunction k the phi result v is known to be the constant fallback (a fact v == const).
func resultIsConstOn(k km.Conj, v ssa.Value) bool {
	for _, f := range k.List() {
		if f.Op == token.EQL && f.X == v {
			if _, ok := f.Y.(*ssa.Const); ok {
				return true
			}
		}
	}
	return false
}

func phiOriginsAre(v ssa.Value, pred func(ssa.Value) bool) bool {
	phi, ok := v.(*ssa.Phi)
	if !ok {
		return pred(v)
	}
	for _, e := range phi.Edges {
		e = km.Unwrap(e)
		if cst, isC := e.(*ssa.Const); isC {
			// a constant the filter can hand back is itself a redirect target: it has to be an on-origin path
			// (an empty string sends the browser to the page it came from)
			_ = cst
			continue
		}
		if p2, isP := e.(*ssa.Phi); isP {
			if !phiOriginsAre(p2, pred) {
				return false
			}
			continue
		}
		if !pred(e) {
			return false
		}
	}
	return true
}

// derivesFromFormValue: r.Form.Get(key) / r.FormValue(key) / r.PostFormValue(key)
func derivesFromFormValue(v ssa.Value, key string, depth int) bool {
	if depth > 4 {
		return false
	}
	v = km.Unwrap(v)
	cl, ok := v.(*ssa.Call)
	if !ok {
		return false
	}
	// the request seen through a narrow interface (a seam for tests): the same accessors, by name
	if cc := cl.Common(); cc.IsInvoke() && len(cc.Args) == 1 {
		switch cc.Method.Name() {
		case "FormValue", "PostFormValue", "Get":
			k, isK := km.ConstString(cc.Args[0])
			return isK && k == key
		}
		return false
	}
	switch km.CalleeFull(cl.Common()) {
	case "(net/url.Values).Get":
		k, ok := km.ConstString(cl.Common().Args[1])
		return ok && k == key
	case "(*net/http.Request).FormValue", "(*net/http.Request).PostFormValue":
		k, ok := km.ConstString(cl.Common().Args[1])
		return ok && k == key
	}
	return false
}

// isInboundPathPart: the inbound value, or the inbound value cut at the first '?'/'#' (phi of both)
// c17TableBound mirrors checkC17's tableBound for isInboundPathPart.
var c17TableBound map[*ssa.Parameter]ssa.Value

// isInboundPathPartExact: v is the inbound value itself (not a part of it).
func isInboundPathPartExact(v ssa.Value, isInbound func(ssa.Value) bool) bool {
	v = km.Unwrap(v)
	if _, isP := v.(*ssa.Parameter); isP {
		return false
	}
	return isInbound(v)
}

func isInboundPathPart(v ssa.Value, isInbound func(ssa.Value) bool, depth int) bool {
	if depth > 4 {
		return false
	}
	v = km.Unwrap(v)
	if bp, isP := v.(*ssa.Parameter); isP && c17TableBound != nil {
		if bv, has := c17TableBound[bp]; has {
			return isInboundPathPart(bv, isInbound, depth+1)
		}
	}
	if isInbound(v) {
		return true
	}
	// strings.Cut(x, "?") : the part before the first '?'
	if ex, ok := v.(*ssa.Extract); ok && ex.Index == 0 {
		if cl, ok := ex.Tuple.(*ssa.Call); ok && km.CalleeFull(cl.Common()) == "strings.Cut" {
			if cs, isC := km.ConstString(cl.Common().Args[1]); isC && cs == "?" {
				return isInbound(cl.Common().Args[0])
			}
		}
	}
	switch x := v.(type) {
	case *ssa.Phi:
		for _, e := range x.Edges {
			if !isInboundPathPart(e, isInbound, depth+1) {
				return false
			}
		}
		return len(x.Edges) > 0
	case *ssa.Slice:
		if x.Low != nil {
			return false
		}
		if !isInboundPathPart(x.X, isInbound, depth+1) {
			return false
		}
		// high bound: index of the first '?' and nothing else. net/http.Redirect splits its target at the first
		// '?' only and path.Clean()s everything before it - a fragment included - so a scan that stops at '#'
		// leaves "/a#/../\\host" (cleaned to "/\\host") unexamined.
		if cl, ok := km.Unwrap(x.High).(*ssa.Call); ok {
			switch km.CalleeFull(cl.Common()) {
			case "strings.IndexAny", "strings.Index":
				cs, isC := km.ConstString(cl.Common().Args[1])
				return isC && cs == "?" && isInboundPathPart(cl.Common().Args[0], isInbound, depth+1)
			case "strings.IndexByte", "strings.IndexRune":
				i, isI := km.ConstInt(cl.Common().Args[1])
				return isI && i == '?' && isInboundPathPart(cl.Common().Args[0], isInbound, depth+1)
			}
		}
	}
	return false
}

// ruleTableFacts: when k says that no entry of a package-level table of predicates accepted
// (!slices.ContainsFunc(table, func(rule) bool { return rule.pred(x, y) })), every entry's predicate returned
// false for (x, y): the comparison facts of each entry's false result are added to k, and the entries' parameters
// are recorded in bound as standing for x and y. The table has to be a package-level slice assigned once in its
// initialiser from a literal whose predicate fields are plain function literals. k is returned unchanged when the
// shape is anything else.
func ruleTableFacts(c *km.Ctx, s *km.Sem, k km.Conj, bound map[*ssa.Parameter]ssa.Value) km.Conj {
	out := k
	for _, f := range k.List() {
		if f.Op != token.ILLEGAL || f.Pol {
			continue
		}
		cl, ok := f.X.(*ssa.Call)
		if !ok {
			continue
		}
		name := km.CalleeFull(cl.Common())
		if i := strings.Index(name, "["); i > 0 {
			name = name[:i]
		}
		if name != "slices.ContainsFunc" || len(cl.Common().Args) != 2 {
			continue
		}
		u, isU := km.Unwrap(cl.Common().Args[0]).(*ssa.UnOp)
		mc, isMC := km.Unwrap(cl.Common().Args[1]).(*ssa.MakeClosure)
		if !isU || !isMC {
			continue
		}
		g, isG := u.X.(*ssa.Global)
		h, isF := mc.Fn.(*ssa.Function)
		if !isG || !isF || len(h.Params) != 1 {
			continue
		}
		rcs := s.RetCases(h)
		if len(rcs) != 1 {
			continue
		}
		dyn, isCall := km.Unwrap(rcs[0].Results[0]).(*ssa.Call)
		if !isCall || dyn.Common().IsInvoke() || km.StaticCallee(dyn.Common()) != nil {
			continue
		}
		base, fld, isFld := km.FieldOfLoad(km.Unwrap(dyn.Common().Value))
		if !isFld || km.CellOrigin(base) != ssa.Value(km.ParamAt(h, 0)) {
			continue
		}
		// the operands handed to every entry, in the filter's frame
		var operands []ssa.Value
		okOps := true
		for _, a := range dyn.Common().Args {
			av := km.Unwrap(a)
			if ld, isLd := av.(*ssa.UnOp); isLd {
				av = ld.X
			}
			found := false
			for fi, fv := range h.FreeVars {
				if ssa.Value(fv) == av && fi < len(mc.Bindings) {
					operands = append(operands, km.CellOrigin(mc.Bindings[fi]))
					found = true
				}
			}
			if !found {
				okOps = false
			}
		}
		if !okOps {
			continue
		}
		elems, okT := globalSliceElemSyms(c, g)
		if !okT {
			continue
		}
		add := []km.Fact{}
		good := true
		for _, e := range elems {
			if e == nil || e.Op != "struct" {
				good = false
				break
			}
			pf := e.Fields[fld]
			if pf == nil || pf.Op != "val" {
				good = false
				break
			}
			var he *ssa.Function
			switch x := pf.Val.(type) {
			case *ssa.Function:
				he = x
			case *ssa.MakeClosure:
				if len(x.Bindings) == 0 {
					he, _ = x.Fn.(*ssa.Function)
				}
			}
			if he == nil || he.Blocks == nil || len(he.Params) != len(operands) {
				good = false
				break
			}
			hr := s.RetCases(he)
			if len(hr) != 1 {
				good = false
				break
			}
			for j, p := range he.Params {
				bound[p] = operands[j]
			}
			add = append(add, c.F.CondFacts(km.Unwrap(hr[0].Results[0]), false)...)
		}
		if !good {
			continue
		}
		for _, nf := range add {
			out = out.With(nf)
		}
	}
	return out
}

// globalSliceElemSyms: the elements (symbolically) of a package-level slice that is assigned once, in its package
// initialiser, from a composite literal, and whose elements are never written afterwards.
func globalSliceElemSyms(c *km.Ctx, g *ssa.Global) ([]*km.Sym, bool) {
	st := singleStoreTo(c, g)
	if st == nil || g.Pkg == nil || st.Parent() != g.Pkg.Func("init") {
		return nil, false
	}
	for _, fn := range c.P.AllFuncs {
		bad := false
		km.Instrs(fn, func(in ssa.Instruction) {
			if ia, ok := in.(*ssa.IndexAddr); ok {
				if l, ok := km.Unwrap(ia.X).(*ssa.UnOp); ok && l.X == ssa.Value(g) {
					for _, ref := range *ia.Referrers() {
						switch ref.(type) {
						case *ssa.Store:
							bad = true
						case *ssa.FieldAddr:
							for _, r2 := range *ref.(*ssa.FieldAddr).Referrers() {
								if _, isSt := r2.(*ssa.Store); isSt {
									bad = true
								}
							}
						}
					}
				}
			}
		})
		if bad {
			return nil, false
		}
	}
	sl, ok := km.Unwrap(st.Val).(*ssa.Slice)
	if !ok {
		return nil, false
	}
	arr, ok := sl.X.(*ssa.Alloc)
	if !ok {
		return nil, false
	}
	at, ok := arr.Type().Underlying().(*types.Pointer).Elem().Underlying().(*types.Array)
	if !ok {
		return nil, false
	}
	out := make([]*km.Sym, at.Len())
	for _, ref := range *arr.Referrers() {
		ia, ok := ref.(*ssa.IndexAddr)
		if !ok {
			continue
		}
		i, ok := km.ConstInt(ia.Index)
		if !ok || i < 0 || i >= at.Len() {
			return nil, false
		}
		for _, r2 := range *ia.Referrers() {
			if es, ok := r2.(*ssa.Store); ok && es.Addr == ssa.Value(ia) {
				if out[i] != nil {
					return nil, false
				}
				out[i] = km.SymOf(es.Val)
			}
		}
	}
	for _, e := range out {
		if e == nil {
			return nil, false
		}
	}
	return out, len(out) > 0
}
