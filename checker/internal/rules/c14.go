package rules

import (
	"go/token"
	"go/types"
	"reflect"
	"sort"
	"strings"

	"kmcheck/internal/km"

	"golang.org/x/tools/go/ssa"
)

func init() { km.Register("C14", checkC14) }

const (
	totpMutexDeclared = KMD + ".RuntimeState.totpLocalTateLimitMutex"
	secondNS          = int64(1e9)
	rateInfoT         = KMD + ".totpRateLimitInfo"
	limiterAll        = "(*golang.org/x/time/rate.Limiter).Allow"
)

func checkC14(c *km.Ctx) {
	r := c.R
	s := km.NewSem(c)
	ls := km.NewLockSets()
	r.Explain = "Static analysis of /repo: every call of the password backend dispatcher is dominated by the success edge of the global limiter, whose only nil return is on the true edge of rate.Limiter.Allow and whose refusal writes 429; the limiter is constructed once from the two configuration fields after clamps >= 10 (burst) and >= 1 (rate); the TOTP validator reads, tests and updates the per-user last-check time in one uninterrupted critical section, returns early when fewer than a constant >= 2 s elapsed, and performs lock-out test, spacing test before any secret decryption or code validation; every update of the lock-out record is actually stored (no discarded time.Time.Add), failures increment the counter and write the record back under the mutex. Decides structure; the quantitative rate is x/time/rate's."
	r.NotDecided = []string{"the quantitative bound under load (golang.org/x/time/rate)", "timing as such"}
	r.Assume = []string{"rate.Limiter.Allow consumes a token atomically", "sync.Mutex provides mutual exclusion", "go/types + go/ssa model the source faithfully"}

	r.Rule("R-C14-1", "every call of checkUserPassword is dominated by checkPasswordAttemptLimit == nil; that function returns nil only on Allow() == true and answers 429 otherwise", 2)
	r.Rule("R-C14-2", "the global limiter is constructed once (outside tests) from the rate and burst configuration fields; adjustments after parsing raise them to floors of at most 10 (burst) and 1 (rate)", 1)
	r.Rule("R-C14-3", "TOTP spacing: lookup, test and update of lastCheckTime in one uninterrupted critical section; early return when less than a constant >= 2 s elapsed; spacing and lock-out tests precede any decryption / validation", 2)
	r.Rule("R-C14-4", "lock-out bookkeeping is effective: no computed time is discarded; a failure increments the counter, every fifth failure sets a future lock-out time, and the record is written back under the mutex on every exit after validation; every access files the record under the user name as received", 3)
	checkConfigKeys(c, "R-C14-2", "the password attempt limits", "base.password_attempt_global_")

	// ---------- R-C14-1
	lim := c.MustFunc("R-C14-1", "cmd/keymasterd", "(*RuntimeState).checkPasswordAttemptLimit")
	cup := c.MustFunc("R-C14-1", "cmd/keymasterd", "checkUserPassword")
	if lim == nil || cup == nil {
		return
	}
	prLimiter := primErrNil("LimiterOK", RS+"checkPasswordAttemptLimit", 0)
	for _, cs := range c.G.Callers[cup] {
		st := c.F.At(cs.Instr)
		// here, or - when the lookup sits in a helper - at every call of that helper
		ok, _ := s.HoldsOnAllPaths(cs.Instr, allPrims(s, prLimiter), map[*ssa.Function]bool{}, 3)
		r.Add("R-C14-1", km.FuncName(cs.Caller), "backend lookup behind the limiter", posOf(c, cs.Instr), "checkPasswordAttemptLimit(...) == nil on every path to checkUserPassword", clipS(st.String(), 200), ok)
	}
	// who may call the backend interface
	backend := "iface:(" + km.ModPath + "/lib/pwauth.PasswordAuthenticator).PasswordAuthenticate"
	for _, fn := range c.P.AllFuncs {
		if fn.Pkg == nil || !pkgIsKMD(fn.Pkg) {
			continue
		}
		for _, ci := range km.CallsIn(fn) {
			if km.CalleeFull(ci.Common()) == backend {
				r.Add("R-C14-1", km.FuncName(fn), "who may call the password backend", posOf(c, ci), "only checkUserPassword", km.NameOf(fn), fn == cup)
			}
		}
	}
	// the limiter may be held behind a one-method interface: what matters is that Allow() is asked of the value kept
	// in passwordAttemptGlobalLimiter (whose construction R-C14-2 judges)
	isAllow := func(cl *ssa.Call, needField bool) bool {
		cc := cl.Common()
		if cc.IsInvoke() {
			return cc.Method.Name() == "Allow" && len(cc.Args) == 0 && (!needField || mentionsField(cc.Value, "passwordAttemptGlobalLimiter"))
		}
		return km.CalleeFull(cc) == limiterAll && (!needField || mentionsField(cc.Args[0], "passwordAttemptGlobalLimiter"))
	}
	allowTrue := km.Prim{Name: "Allow()", Direct: func(f km.Fact) bool {
		cl, ok := f.X.(*ssa.Call)
		return f.Op == token.ILLEGAL && f.Pol && ok && isAllow(cl, true)
	}}
	allowFalse := km.Prim{Name: "!Allow()", Direct: func(f km.Fact) bool {
		cl, ok := f.X.(*ssa.Call)
		return f.Op == token.ILLEGAL && !f.Pol && ok && isAllow(cl, false)
	}}
	nNil := 0
	for _, rc := range s.RetCases(lim) {
		if km.IsNilConst(rc.Results[0]) {
			nNil++
			ok := rc.State.All(func(k km.Conj) bool { return s.Holds(k, allowTrue) })
			r.Add("R-C14-1", km.FuncName(lim), "limiter admits", posOf(c, rc.Ret), "nil only on the true edge of passwordAttemptGlobalLimiter.Allow() (a token was consumed)", clipS(rc.State.String(), 200), ok)
		}
	}
	if nNil == 0 {
		r.AnchorLost("R-C14-1", "nil return of checkPasswordAttemptLimit")
	}
	// a recovered panic leaves the function through its recovery exit with the zero value of the result - a nil
	// error, "not limited" - whatever the limiter said: the limiter function has no such exit
	if lim.Recover != nil {
		okR := false
		if ret, isRet := lim.Recover.Instrs[len(lim.Recover.Instrs)-1].(*ssa.Return); isRet {
			rv := km.ReturnValues(ret)
			okR = len(rv) > 0 && !km.IsNilConst(rv[len(rv)-1]) && km.Nilness(rv[len(rv)-1]) > 0
		}
		r.Add("R-C14-1", km.FuncName(lim), "exit after a recovered panic", c.P.Pos(lim.Pos()), "none, or one that reports an error (a recovered panic must not read as \"attempt allowed\")", "returns the zero value", okR)
	}
	n429 := 0
	for _, ci := range km.CallsIn(lim) {
		if code, ok := statusOfFailureCall(ci); ok {
			st := c.F.At(ci)
			if st.All(func(k km.Conj) bool { return s.Holds(k, allowFalse) }) {
				n429++
				r.Add("R-C14-1", km.FuncName(lim), "limiter refuses", posOf(c, ci), "the excess is answered 429", sprintf("%d", code), code == 429)
			}
		}
	}
	if n429 == 0 {
		r.Add("R-C14-1", km.FuncName(lim), "limiter refuses", c.P.Pos(lim.Pos()), "a 429 answer on the refusal edge", "none found", false)
	}

	// ---------- R-C14-2
	nNew := 0
	for _, fn := range c.P.AllFuncs {
		if fn.Pkg == nil || !pkgIsKMD(fn.Pkg) {
			continue
		}
		for _, st := range storesByField(fn, KMD+".RuntimeState")["passwordAttemptGlobalLimiter"] {
			nNew++
			// the value stored is a rate.NewLimiter result, made here or in a constructor helper
			var nl *ssa.Call
			cfn := fn
			if cl, ok := km.Unwrap(st.Val).(*ssa.Call); ok {
				if km.CalleeFull(cl.Common()) == "golang.org/x/time/rate.NewLimiter" {
					nl = cl
				} else if g := km.StaticCallee(cl.Common()); g != nil && g.Blocks != nil && c.InModule(g) {
					only := true
					for _, rc := range s.RetCases(g) {
						inner, ok := km.Unwrap(rc.Results[0]).(*ssa.Call)
						if !ok || km.CalleeFull(inner.Common()) != "golang.org/x/time/rate.NewLimiter" || (nl != nil && nl != inner) {
							only = false
							break
						}
						nl = inner
					}
					if !only {
						nl = nil
					}
					cfn = g
				}
			}
			if nl == nil {
				r.Add("R-C14-2", km.FuncName(fn), "limiter construction", posOf(c, st), "rate.NewLimiter(configured rate, configured burst)", km.ValStr(st.Val), false)
				continue
			}
			rateArg, burstArg := stripConv(nl.Common().Args[0]), stripConv(nl.Common().Args[1])
			// the two configured quantities are identified by their YAML keys (the operator's contract), wherever
			// the fields live and whatever they are called
			rateOwner, rateField := yamlField(c, "password_attempt_global_rate_limit")
			burstOwner, burstField := yamlField(c, "password_attempt_global_burst_limit")
			if rateField == "" || burstField == "" {
				r.AnchorLost("R-C14-2", "configuration fields with the YAML keys password_attempt_global_rate_limit / password_attempt_global_burst_limit")
				continue
			}
			fromCfg := fieldLoadOf(rateArg, rateOwner, rateField) && fieldLoadOf(burstArg, burstOwner, burstField)
			// when the construction sits in a method of the struct that holds the limits, the receiver has to be the
			// configuration
			if fromCfg && cfn != fn {
				fromCfg = false
				if cl, ok := km.Unwrap(st.Val).(*ssa.Call); ok {
					for _, a := range km.CallArgs(cl.Common()) {
						if _, path, okP := km.FieldPath(km.Unwrap(a)); okP && strings.Contains(path, "Config.") {
							fromCfg = true
						}
					}
					if rateOwner == KMD+".baseConfig" {
						fromCfg = true
					}
				}
			}
			r.Add("R-C14-2", km.FuncName(fn), "limiter construction", posOf(c, st), "rate.NewLimiter(configured password_attempt_global_rate_limit, int(configured password_attempt_global_burst_limit))", km.ValStr(st.Val), fromCfg)
			for _, cl := range []struct {
				owner, field string
				min          float64
			}{{burstOwner, burstField, 10}, {rateOwner, rateField, 1}} {
				ok, desc := clampBefore(c, cfn, nl, cl.owner, cl.field, cl.min)
				if cfn != fn {
					// adjustments made by the caller before it calls the constructor count as well
					ok2, desc2 := clampBefore(c, fn, st, cl.owner, cl.field, cl.min)
					ok, desc = ok && ok2, strings.TrimSpace(desc+" "+desc2)
				}
				r.Add("R-C14-2", km.FuncName(fn), "clamp "+cl.field, posOf(c, nl), sprintf("between parsing and construction the configured value is only ever raised to a floor <= %v (never above what the operator configured beyond that floor)", cl.min), desc, ok)
			}
		}
	}
	if nNew != 1 {
		r.Add("R-C14-2", "cmd/keymasterd", "single construction of the limiter", "-", "exactly one assignment of passwordAttemptGlobalLimiter outside tests", sprintf("%d", nNew), false)
	}

	// ---------- R-C14-3 / R-C14-4
	vt := c.MustFunc("R-C14-3", "cmd/keymasterd", "(*RuntimeState).validateUserTOTP")
	if vt == nil {
		return
	}
	// one record per user: the gate, the lock-out test and the bookkeeping all file the record under the user name
	// as it was handed in (a gate that looks under a folded name never sees the failures stored under the raw one)
	{
		nAcc, bad := 0, ""
		for _, f := range callsWithNewHelpersFuncs(c, vt, 2) {
			km.Instrs(f, func(in ssa.Instruction) {
				var key ssa.Value
				switch x := in.(type) {
				case *ssa.Lookup:
					if mentionsField(x.X, "totpLocalRateLimit") {
						key = x.Index
					}
				case *ssa.MapUpdate:
					if mentionsField(x.Map, "totpLocalRateLimit") {
						key = x.Key
					}
				case *ssa.Call:
					if b, ok := x.Common().Value.(*ssa.Builtin); ok && b.Name() == "delete" && mentionsField(x.Common().Args[0], "totpLocalRateLimit") {
						key = x.Common().Args[1]
					}
				}
				if key == nil {
					return
				}
				nAcc++
				k := km.Unwrap(key)
				if o := km.CellOrigin(k); o != nil {
					k = km.Unwrap(o)
				}
				if _, isP := k.(*ssa.Parameter); !isP {
					bad = "record filed under " + clipS(km.ValStr(key), 80) + " at " + posOf(c, in)
				}
			})
		}
		if nAcc > 0 {
			found := sprintf("%d accesses, each keyed by the user-name parameter itself", nAcc)
			if bad != "" {
				found = bad
			}
			r.Add("R-C14-4", km.FuncName(vt), "one rate-limit record per user name", c.P.Pos(vt.Pos()), "every read and write of the per-user record in the validator uses the user name as received for the key", found, bad == "")
		}
	}
	// the spacing gate may live in validateUserTOTP itself or in a helper it calls
	gate := findTotpGate(c, vt)
	if gate == nil {
		r.AnchorLost("R-C14-3", "lookup / update of totpLocalRateLimit in validateUserTOTP or a helper it calls")
		return
	}
	gf, lookup, firstUpdate, spacingIf, spacingConst := gate.fn, gate.lookup, gate.firstUpdate, gate.spacingIf, gate.spacingConst
	held := ls.Held(gf)
	totpMutex := gateMutex(ls, gate)
	// write-backs of the record seen from validateUserTOTP: direct map updates, or calls of a helper that stores
	// its record parameter into the map under the mutex on every path
	var updates []ssa.Instruction
	updHeld := map[ssa.Instruction]bool{}
	heldVT := ls.Held(vt)
	km.Instrs(vt, func(in ssa.Instruction) {
		if mu, ok := in.(*ssa.MapUpdate); ok && mentionsField(mu.Map, "totpLocalRateLimit") {
			updates = append(updates, in)
			updHeld[in] = heldVT[in][totpMutex]
		}
		if cl, ok := in.(*ssa.Call); ok {
			if g := km.StaticCallee(cl.Common()); g != nil && g != gf && g.Blocks != nil && g.Pkg != nil && pkgIsKMD(g.Pkg) {
				hg := ls.Held(g)
				var mus []*ssa.MapUpdate
				km.Instrs(g, func(i2 ssa.Instruction) {
					if mu, ok := i2.(*ssa.MapUpdate); ok && mentionsField(mu.Map, "totpLocalRateLimit") {
						mus = append(mus, mu)
					}
				})
				if len(mus) == 0 {
					return
				}
				all := true
				for _, rc := range s.RetCases(g) {
					dom := false
					for _, mu := range mus {
						if km.InstrDominates(mu, rc.Ret) {
							dom = true
						}
					}
					if !dom {
						all = false
					}
				}
				if all {
					updates = append(updates, in)
					h := true
					for _, mu := range mus {
						if !hg[mu][totpMutex] {
							h = false
						}
					}
					updHeld[in] = h
				}
			}
		}
	})
	if spacingIf == nil {
		r.Add("R-C14-3", km.FuncName(vt), "spacing test", c.P.Pos(vt.Pos()), "lastCheckTime + D after now (or now - lastCheckTime < D) with constant D", "no such test found", false)
	} else {
		r.Add("R-C14-3", km.FuncName(gf), "spacing constant", posOf(c, spacingIf), "D >= 2 seconds", sprintf("%d ns", spacingConst), spacingConst >= 2*secondNS)
		// early return on the 'too soon' edge: that edge reaches no validation
		tooSoon := spacingIf.Block().Succs[0]
		reach := km.ReachableBlocks(tooSoon, nil)
		reachesValidation := false
		for _, ci := range km.CallsIn(vt) {
			n := km.CalleeFull(ci.Common())
			if n != "github.com/pquerna/otp/totp.Validate" && n != RS+"decryptWithPublicKeys" {
				continue
			}
			if gf == vt {
				if reach[ci.Block()] {
					reachesValidation = true
				}
				continue
			}
			// gate in a helper: what is known at the validation must exclude every return of the helper that lies on
			// its too-soon edge
			for _, gc := range km.CallsIn(vt) {
				gcall, isCall := gc.(*ssa.Call)
				if !isCall || km.StaticCallee(gc.Common()) != gf {
					continue
				}
				for _, k := range c.F.At(ci) {
					cases, _ := s.ResultCases(k, gcall)
					for _, rc := range cases {
						if reach[rc.Ret.Block()] {
							reachesValidation = true
						}
					}
				}
			}
		}
		// and inside the gate the too-soon edge updates nothing
		km.Instrs(gf, func(in ssa.Instruction) {
			if mu, ok := in.(*ssa.MapUpdate); ok && mentionsField(mu.Map, "totpLocalRateLimit") && reach[mu.Block()] {
				reachesValidation = true
			}
		})
		r.Add("R-C14-3", km.FuncName(vt), "too-soon edge evaluates nothing", posOf(c, spacingIf), "the edge 'less than D since the last check' reaches no decryption / validation", sprintf("reaches validation=%v", reachesValidation), !reachesValidation)
		// one uninterrupted critical section: lock held at lookup, at the test and at the first update, and on every
		// block between them
		between := blocksBetween(lookup.Block(), firstUpdate.Block())
		allHeld := held[lookup][totpMutex] && held[spacingIf][totpMutex] && held[firstUpdate][totpMutex]
		for b := range between {
			for _, in := range b.Instrs {
				if h, ok := held[in]; ok && !h[totpMutex] {
					// instructions before the lookup in its own block / after the update in its block do not count
					if b == lookup.Block() && !km.InstrDominates(lookup, in) {
						continue
					}
					if b == firstUpdate.Block() && !km.InstrDominates(in, firstUpdate) {
						continue
					}
					allHeld = false
				}
			}
		}
		usesLookup := false
		if a, ok := spacingOperandBase(spacingIf.Cond); ok {
			usesLookup = derivesFromValue(a, lookup, 0)
		}
		r.Add("R-C14-3", km.FuncName(gf), "read-test-update is one critical section", posOf(c, lookup), "totpLocalTateLimitMutex held continuously from the lookup through the spacing test to the update; the test reads the looked-up record", sprintf("held=%v test-uses-lookup=%v", allHeld, usesLookup), allHeld && usesLookup)
		// the update stores now() as lastCheckTime
		nowStored := false
		km.Instrs(gf, func(in ssa.Instruction) {
			if st, ok := in.(*ssa.Store); ok {
				if fa, ok := st.Addr.(*ssa.FieldAddr); ok && fieldNameOf(fa) == "lastCheckTime" {
					if _, ok := isCall(st.Val, "time.Now"); ok && km.InstrDominates(st, firstUpdate) {
						nowStored = true
					}
				}
			}
		})
		r.Add("R-C14-3", km.FuncName(gf), "last-check time updated", posOf(c, firstUpdate), "lastCheckTime = time.Now() stored into the map before leaving the critical section", sprintf("%v", nowStored), nowStored)
		// ... on every way out of the gate once the spacing test passed: an update made under a condition (only for
		// users already in the table, say) lets the others through the gate any number of times at once
		{
			skipped := ""
			var all []string
			ub := firstUpdate.Block()
			for _, sc := range spacingIf.Block().Succs {
				if sc == ub || !km.ReachableBlocks(sc, nil)[ub] {
					continue // the refusing arm, or straight into the update
				}
				for blk := range km.ReachableBlocks(sc, map[*ssa.BasicBlock]bool{ub: true}) {
					for _, in := range blk.Instrs {
						switch x := in.(type) {
						case *ssa.Return:
							all = append(all, "the function can return at "+posOf(c, x)+" after passing the spacing test without having stored the new time")
						case ssa.CallInstruction:
							if n := km.CalleeFull(x.Common()); n == "(*sync.Mutex).Unlock" || n == "(*sync.RWMutex).Unlock" {
								if _, isDefer := in.(*ssa.Defer); !isDefer {
									all = append(all, "the mutex is released at "+posOf(c, in)+" after passing the spacing test without the new time having been stored")
								}
							}
						}
					}
				}
			}
			sort.Strings(all)
			if len(all) > 0 {
				skipped = all[0]
			}
			r.Add("R-C14-3", km.FuncName(gf), "last-check time updated on every pass", posOf(c, firstUpdate), "no path from the passed spacing test leaves the critical section without going through the map update", skipped, skipped == "")
		}
		// spacing passed and not locked out before any decryption/validation
		spacingPassed := km.Prim{Name: "spacing passed", Direct: func(f km.Fact) bool {
			_, ok := spacingTestFact(f)
			return ok
		}}
		notLocked := km.Prim{Name: "not locked out", Direct: func(f km.Fact) bool {
			cl, ok := f.X.(*ssa.Call)
			// time.Until(lockoutExpirationTime) <= 0 / time.Since(lockoutExpirationTime) >= 0
			if ok && f.Y != nil && len(cl.Common().Args) == 1 && mentionsField(cl.Common().Args[0], "lockoutExpirationTime") {
				if z, isZ := km.ConstInt(f.Y); isZ && z == 0 {
					switch km.CalleeFull(cl.Common()) {
					case "time.Until":
						return f.Op == token.LEQ
					case "time.Since":
						return f.Op == token.GEQ
					}
				}
			}
			if f.Op != token.ILLEGAL || f.Pol || !ok {
				return false
			}
			if km.CalleeFull(cl.Common()) == "(time.Time).After" && mentionsField(cl.Common().Args[0], "lockoutExpirationTime") {
				return true
			}
			// a method of the record: lockedOut(now)
			if a, isAfter := km.SymOf(cl).IsCall("(time.Time).After"); isAfter && len(a) == 2 && a[0].Op == "field" && a[0].Name == "lockoutExpirationTime" {
				return true
			}
			return false
		}}
		for _, ci := range km.CallsIn(vt) {
			n := km.CalleeFull(ci.Common())
			if n != "github.com/pquerna/otp/totp.Validate" && n != RS+"decryptWithPublicKeys" {
				continue
			}
			st := c.F.At(ci)
			ok := st.All(func(k km.Conj) bool { return s.Holds(k, spacingPassed) && s.Holds(k, notLocked) })
			r.Add("R-C14-3", km.FuncName(vt), "tests precede "+short(n), posOf(c, ci), "spacing passed ∧ not locked out", clipS(st.String(), 240), ok)
		}
	}

	// ---------- R-C14-4
	// (a) discarded results of pure time methods on the record
	nPure := 0
	km.Instrs(vt, func(in ssa.Instruction) {
		cl, ok := in.(*ssa.Call)
		if !ok {
			return
		}
		n := km.CalleeFull(cl.Common())
		if n != "(time.Time).Add" && n != "(time.Time).AddDate" && n != "(time.Time).Truncate" && n != "(time.Time).Round" {
			return
		}
		base := cl.Common().Args[0]
		if !mentionsFieldOfType(base, rateInfoT) {
			return
		}
		nPure++
		used := cl.Referrers() != nil && len(*cl.Referrers()) > 0
		r.Add("R-C14-4", km.FuncName(vt), "result of "+short(n)+" on the rate-limit record", posOf(c, cl), "the computed time is used (stored / compared), never discarded", sprintf("referrers=%d", lenRef(cl)), used)
	})
	// (b) failure path: increment, lock-out, write back under the mutex
	// the stores may sit in validateUserTOTP or in a method of the record it calls with the record's address
	// (recordFailure(now)); for ordering, a store inside a method counts at the call
	var incr, lockSet ssa.Instruction
	var failStamps []ssa.Instruction
	judgeStore := func(st *ssa.Store, at ssa.Instruction, callee *ssa.Function, call ssa.CallInstruction) {
		fa, ok := st.Addr.(*ssa.FieldAddr)
		if !ok || km.NamedTypeOf(fa.X.Type()) != rateInfoT {
			return
		}
		switch fieldNameOf(fa) {
		case "lastFailTime":
			// the time of the failure: the 24 h window of the failure count is measured from it
			if km.NamedTypeOf(st.Val.Type()) == "time.Time" {
				if _, isZero := km.Unwrap(st.Val).(*ssa.Const); !isZero {
					failStamps = append(failStamps, at)
				}
			}
		case "failCount":
			if b, ok := km.Unwrap(st.Val).(*ssa.BinOp); ok && b.Op == token.ADD {
				if one, isC := km.ConstInt(b.Y); isC && one == 1 {
					incr = at
				}
			}
		case "lockoutExpirationTime":
			good := false
			if add, ok := isCall(st.Val, "(time.Time).Add"); ok {
				if _, ok := isCall(add.Common().Args[0], "time.Now"); ok && positiveDuration(add.Common().Args[1]) {
					good = true
				} else if call != nil {
					// now handed in by the caller
					if a, isAdd := km.SymAtCall(st.Val, callee, call).IsCall("(time.Time).Add"); isAdd && len(a) == 2 {
						if n, isNow := a[0].IsCall("time.Now"); isNow && len(n) == 0 && positiveDuration(add.Common().Args[1]) {
							good = true
						}
					}
				}
			}
			if good {
				// under failCount % K == 0
				for _, f := range controllingFacts(c, st.Block()) {
					if f.Op == token.EQL {
						if m, ok := f.X.(*ssa.BinOp); ok && m.Op == token.REM {
							lockSet = at
						}
					}
				}
			}
		}
	}
	km.Instrs(vt, func(in ssa.Instruction) {
		switch x := in.(type) {
		case *ssa.Store:
			judgeStore(x, x, nil, nil)
		case ssa.CallInstruction:
			g := km.StaticCallee(x.Common())
			if g == nil || g.Blocks == nil || !c.InModule(g) {
				return
			}
			takesRecord := false
			for _, a := range km.CallArgs(x.Common()) {
				if p, isP := a.Type().Underlying().(*types.Pointer); isP && km.NamedTypeOf(p.Elem()) == rateInfoT {
					takesRecord = true
				}
			}
			if !takesRecord {
				return
			}
			km.Instrs(g, func(i2 ssa.Instruction) {
				if st, isSt := i2.(*ssa.Store); isSt {
					judgeStore(st, in, g, x)
				}
			})
		}
	})
	r.Add("R-C14-4", km.FuncName(vt), "failure counter incremented", posRef(c, incr, vt), "failCount = failCount + 1 on the failed-validation path", sprintf("%v", incr != nil), incr != nil)
	if incr != nil {
		// the failure is dated: without lastFailTime the count is "older than 24 h" at every attempt and starts
		// again from zero, so the fifth failure never comes
		stamped := false
		for _, fs := range failStamps {
			if km.InstrDominates(incr, fs) || km.InstrDominates(fs, incr) {
				stamped = true
			}
		}
		r.Add("R-C14-4", km.FuncName(vt), "failure time recorded", posOf(c, incr), "a failed validation stores the current time into lastFailTime (the failure-count window is measured from it)", sprintf("%v", stamped), stamped)
	}
	r.Add("R-C14-4", km.FuncName(vt), "lock-out applied", posRef(c, lockSet, vt), "every K-th failure stores lockoutExpirationTime = time.Now().Add(positive duration)", sprintf("%v", lockSet != nil), lockSet != nil)
	if incr != nil {
		// after the increment every return is preceded by a map update under the mutex
		okBack := true
		for _, rc := range s.RetCases(vt) {
			if !km.InstrDominates(incr, rc.Ret) {
				continue
			}
			wrote := false
			for _, mu := range updates {
				if km.InstrDominates(incr, mu) && km.InstrDominates(mu, rc.Ret) && updHeld[mu] {
					wrote = true
				}
			}
			if !wrote {
				okBack = false
			}
		}
		r.Add("R-C14-4", km.FuncName(vt), "failure record written back", posOf(c, incr), "after a failed validation the updated record is stored into the map under the mutex before returning", sprintf("%v", okBack), okBack)
	}
	// every map update happens under the mutex
	for _, mu := range updates {
		r.Add("R-C14-4", km.FuncName(vt), "rate-limit map update under the mutex", posOf(c, mu), totpMutex+" held", sprintf("%v", updHeld[mu]), updHeld[mu])
	}
	_ = nPure
	// (c) nobody else forgets failures early: outside the validation path (validateUserTOTP and the helpers it
	// calls) a rate-limit record is removed or overwritten only when it is older than the 24 h window after which
	// validateUserTOTP itself would reset the failure count
	own := map[*ssa.Function]bool{vt: true}
	for _, ci := range km.CallsIn(vt) {
		if g := km.StaticCallee(ci.Common()); g != nil && g.Pkg != nil && pkgIsKMD(g.Pkg) {
			own[g] = true
		}
	}
	const resetWindow = 24 * 3600 * secondNS
	older := km.Prim{Name: "record older than the failure window", Direct: func(f km.Fact) bool {
		cl, ok := f.X.(*ssa.Call)
		if !ok {
			return false
		}
		n := km.CalleeFull(cl.Common())
		a := cl.Common().Args
		// time.Since(t) > K, now.Sub(t) > K
		if d, isC := km.ConstInt(f.Y); isC && d >= resetWindow && (f.Op == token.GTR || f.Op == token.GEQ) {
			if (n == "time.Since" || n == "(time.Time).Sub") && (mentionsFieldOfType(a[len(a)-1], rateInfoT) || mentionsFieldOfType(a[0], rateInfoT)) {
				return true
			}
		}
		// t.Add(K).Before(now) is true, or t.Add(K).After(now) is false
		if f.Op == token.ILLEGAL && ((n == "(time.Time).Before" && f.Pol) || (n == "(time.Time).After" && !f.Pol)) {
			if add, ok := isCall(a[0], "(time.Time).Add"); ok && mentionsFieldOfType(add.Common().Args[0], rateInfoT) {
				if d, isC := km.ConstInt(add.Common().Args[1]); isC && d >= resetWindow {
					return true
				}
			}
		}
		return false
	}}
	olderThanWindow := func(k km.Conj) bool { return s.Holds(k, older) }
	// (b') inside the validation path the failure count goes back to zero only for a record whose last failure is
	// older than the window (a comparison the wrong way round forgets every failure at the next attempt)
	for fnOwn := range own {
		km.Instrs(fnOwn, func(in ssa.Instruction) {
			st, ok := in.(*ssa.Store)
			if !ok {
				return
			}
			fa, ok := st.Addr.(*ssa.FieldAddr)
			if !ok || km.NamedTypeOf(fa.X.Type()) != rateInfoT || fieldNameOf(fa) != "failCount" {
				return
			}
			if z, isC := km.ConstInt(st.Val); !isC || z != 0 {
				return
			}
			stt := c.F.At(st)
			validated := km.Prim{Name: "code accepted", Direct: func(f km.Fact) bool {
				cl, idx := callRes(f.X)
				return f.Op == token.ILLEGAL && f.Pol && cl != nil && idx == 0 && strings.HasPrefix(km.CalleeFull(cl.Common()), "github.com/pquerna/otp/totp.Validate")
			}}
			pred := func(st km.DNF, at ssa.Instruction) bool {
				return len(st) > 0 && st.All(func(k km.Conj) bool { return olderThanWindow(k) || s.Holds(k, validated) })
			}
			okReset := pred(stt, st)
			if !okReset && fnOwn != vt {
				// the reset sits in a helper of the validation path (a method of the record): what holds at its calls
				okReset, _ = s.HoldsOnAllPaths(st, pred, map[*ssa.Function]bool{vt: true}, 2)
			}
			r.Add("R-C14-4", km.FuncName(fnOwn), "failure count reset", posOf(c, st), "only when the last failure is older than the 24 h window, or after a code was accepted", clipS(stt.String(), 200), okReset)
		})
	}
	for _, fn := range c.P.AllFuncs {
		top := fn
		for top.Parent() != nil {
			top = top.Parent()
		}
		if fn.Pkg == nil || !pkgIsKMD(fn.Pkg) || own[top] {
			continue
		}
		if _, exempt := initExempt[km.NameOf(top)]; exempt {
			continue
		}
		km.Instrs(fn, func(in ssa.Instruction) {
			isWrite := false
			if mu, ok := in.(*ssa.MapUpdate); ok && mentionsField(mu.Map, "totpLocalRateLimit") {
				isWrite = true
			}
			if cl, ok := in.(*ssa.Call); ok {
				if b, ok := cl.Common().Value.(*ssa.Builtin); ok && b.Name() == "delete" && mentionsField(cl.Common().Args[0], "totpLocalRateLimit") {
					isWrite = true
				}
			}
			if !isWrite {
				return
			}
			st := c.F.At(in)
			ok := len(st) > 0 && st.All(olderThanWindow)
			r.Add("R-C14-4", km.FuncName(fn), "rate-limit record dropped outside the validation path", posOf(c, in), "only a record older than the 24 h failure-count window may be removed or overwritten by other code", clipS(st.String(), 240), ok)
		})
	}
}

func lenRef(v ssa.Value) int {
	if v.Referrers() == nil {
		return 0
	}
	return len(*v.Referrers())
}

func posRef(c *km.Ctx, st ssa.Instruction, fn *ssa.Function) string {
	if st != nil {
		return posOf(c, st)
	}
	return c.P.Pos(fn.Pos())
}

func stripConv(v ssa.Value) ssa.Value {
	v = km.Unwrap(v)
	for {
		cv, ok := v.(*ssa.Convert)
		if !ok {
			return v
		}
		v = km.Unwrap(cv.X)
	}
}

func mentionsFieldOfType(v ssa.Value, typ string) bool {
	base, _, ok := km.FieldOfLoad(km.Unwrap(v))
	return ok && km.NamedTypeOf(base.Type()) == typ
}

func positiveDuration(v ssa.Value) bool {
	v = km.Unwrap(v)
	if i, ok := km.ConstInt(v); ok {
		return i > 0
	}
	// product of a count derived from failCount and a positive constant
	if b, ok := v.(*ssa.BinOp); ok && b.Op == token.MUL {
		if i, ok := km.ConstInt(b.Y); ok && i > 0 {
			return true
		}
		if i, ok := km.ConstInt(b.X); ok && i > 0 {
			return true
		}
	}
	return false
}

// clampBefore: in fn, before `at`, there is `if load(field) < K { field = K' }` with K, K' >= min.
// clampBefore: every adjustment of the configured limit between the parsing of the configuration and the
// construction of the limiter raises it to no more than the documented floor (a larger constant would let more
// guesses through than the operator configured). Returns ok and a description.
func clampBefore(c *km.Ctx, fn *ssa.Function, at ssa.Instruction, owner, field string, floor float64) (bool, string) {
	// the parse of the configuration file
	var parse ssa.Instruction
	for _, ci := range km.CallsIn(fn) {
		if strings.Contains(km.CalleeFull(ci.Common()), "Unmarshal") && km.InstrDominates(ci, at) {
			parse = ci
		}
	}
	ok := true
	var seen []string
	judge := func(st *ssa.Store) {
		fa, isFA := st.Addr.(*ssa.FieldAddr)
		if !isFA || fieldNameOf(fa) != field || km.NamedTypeOf(fa.X.Type()) != owner {
			return
		}
		v := km.Unwrap(st.Val)
		if k, isC := constFloat(v); isC {
			seen = append(seen, sprintf("= %v", k))
			if k > floor {
				ok = false
			}
			return
		}
		if cl, isCall := v.(*ssa.Call); isCall {
			if b, isB := cl.Common().Value.(*ssa.Builtin); isB && (b.Name() == "max" || b.Name() == "min") {
				for _, a := range cl.Common().Args {
					if k, isC := constFloat(a); isC {
						seen = append(seen, sprintf("%s(field, %v)", b.Name(), k))
						if b.Name() == "max" && k > floor {
							ok = false
						}
					} else if !mentionsField(a, field) {
						ok = false
						seen = append(seen, b.Name()+"(…, "+km.ValStr(a)+")")
					}
				}
				return
			}
		}
		ok = false
		seen = append(seen, "= "+km.ValStr(v))
	}
	// "between the parse and the construction": on some path from the one to the other (an adjustment made under
	// a condition does not dominate the construction, but it is still an adjustment)
	mayPrecede := func(a, b ssa.Instruction) bool {
		if a.Block() == b.Block() {
			return km.InstrDominates(a, b)
		}
		return km.ReachableBlocks(a.Block(), nil)[b.Block()]
	}
	km.Instrs(fn, func(in ssa.Instruction) {
		switch x := in.(type) {
		case *ssa.Store:
			if !mayPrecede(x, at) || (parse != nil && !mayPrecede(parse, x)) {
				return
			}
			judge(x)
		case ssa.CallInstruction:
			// a method or helper called between the parse and the construction that adjusts the limits
			if !mayPrecede(x, at) || (parse != nil && !mayPrecede(parse, x)) || x == parse {
				return
			}
			g := km.StaticCallee(x.Common())
			if g == nil || g.Blocks == nil || !c.InModule(g) {
				return
			}
			km.Instrs(g, func(i2 ssa.Instruction) {
				if st, isSt := i2.(*ssa.Store); isSt {
					judge(st)
				}
			})
		}
	})
	return ok, strings.Join(seen, "; ")
}

// yamlField: the struct type of cmd/keymasterd (full name) and the recorded Go name of the field whose yaml tag has
// the given key.
func yamlField(c *km.Ctx, key string) (string, string) {
	pk := c.P.Pkg("cmd/keymasterd")
	if pk == nil {
		return "", ""
	}
	sc := pk.Pkg.Scope()
	names := sc.Names()
	sort.Strings(names)
	for _, n := range names {
		tn, ok := sc.Lookup(n).(*types.TypeName)
		if !ok {
			continue
		}
		st, ok := tn.Type().Underlying().(*types.Struct)
		if !ok {
			continue
		}
		for i := 0; i < st.NumFields(); i++ {
			tag := reflect.StructTag(st.Tag(i)).Get("yaml")
			if strings.Split(tag, ",")[0] == key {
				return KMD + "." + n, km.RecordedField(tn.Type(), st.Field(i).Name())
			}
		}
	}
	return "", ""
}

func constFloat(v ssa.Value) (float64, bool) {
	cst, ok := km.Unwrap(v).(*ssa.Const)
	if !ok || cst.Value == nil {
		return 0, false
	}
	if b, ok := cst.Type().Underlying().(*types.Basic); ok && b.Info()&types.IsNumeric != 0 {
		return cst.Float64(), true
	}
	return 0, false
}

// spacingTest recognises the 'too soon' condition (true edge = too soon) and returns the constant.
func spacingTest(cond ssa.Value) (int64, bool) {
	if d, ok := spacingTestDirect(cond); ok {
		return d, true
	}
	// through a method of the record (checkedWithin(interval, now) and the like)
	if _, isCall := cond.(*ssa.Call); isCall {
		if d, _, ok := symSpacing(km.SymOf(cond)); ok {
			return d, true
		}
	}
	return 0, false
}

// symSpacing: the too-soon condition on a symbolic value; returns the constant and the record the last-check time
// was read from.
func symSpacing(sy *km.Sym) (int64, *km.Sym, bool) {
	lastCheckOf := func(x *km.Sym) (*km.Sym, bool) {
		if x != nil && x.Op == "field" && x.Name == "lastCheckTime" {
			return x.Args[0], true
		}
		return nil, false
	}
	if a, ok := sy.IsCall("(time.Time).After"); ok && len(a) == 2 {
		if ad, ok := a[0].IsCall("(time.Time).Add"); ok && len(ad) == 2 {
			if b, ok := lastCheckOf(ad[0]); ok {
				if d, isC := ad[1].ConstInt(); isC {
					return d, b, true
				}
			}
		}
	}
	if sy != nil && sy.Op == "binop" && (sy.Name == "<" || sy.Name == "<=") {
		if d, isC := sy.Args[1].ConstInt(); isC {
			if a, ok := sy.Args[0].IsCall("(time.Time).Sub"); ok && len(a) == 2 {
				if b, ok := lastCheckOf(a[1]); ok {
					return d, b, true
				}
			}
			if a, ok := sy.Args[0].IsCall("time.Since"); ok && len(a) == 1 {
				if b, ok := lastCheckOf(a[0]); ok {
					return d, b, true
				}
			}
		}
	}
	return 0, nil, false
}

func spacingTestDirect(cond ssa.Value) (int64, bool) {
	// lastCheckTime.Add(D).After(time.Now())
	if cl, ok := cond.(*ssa.Call); ok && km.CalleeFull(cl.Common()) == "(time.Time).After" {
		if add, ok := isCall(cl.Common().Args[0], "(time.Time).Add"); ok && mentionsField(add.Common().Args[0], "lastCheckTime") {
			if d, ok := km.ConstInt(add.Common().Args[1]); ok {
				return d, true
			}
		}
	}
	// now.Sub(lastCheckTime) < D   /  time.Since(lastCheckTime) < D
	if b, ok := cond.(*ssa.BinOp); ok && (b.Op == token.LSS || b.Op == token.LEQ) {
		if d, ok := km.ConstInt(b.Y); ok {
			if sub, ok := isCall(b.X, "(time.Time).Sub"); ok && mentionsField(sub.Common().Args[1], "lastCheckTime") {
				return d, true
			}
			if since, ok := isCall(b.X, "time.Since"); ok && mentionsField(since.Common().Args[0], "lastCheckTime") {
				return d, true
			}
		}
	}
	return 0, false
}

// spacingTestFact: the fact that the spacing test was passed (the false edge of the 'too soon' condition).
func spacingTestFact(f km.Fact) (int64, bool) {
	if f.Op == token.ILLEGAL && !f.Pol {
		return spacingTest(f.X)
	}
	if f.Op == token.GEQ || f.Op == token.GTR {
		if d, ok := km.ConstInt(f.Y); ok {
			if sub, ok := isCall(f.X, "(time.Time).Sub"); ok && mentionsField(sub.Common().Args[1], "lastCheckTime") {
				return d, true
			}
			if since, ok := isCall(f.X, "time.Since"); ok && mentionsField(since.Common().Args[0], "lastCheckTime") {
				return d, true
			}
		}
	}
	return 0, false
}

func spacingOperandBase(cond ssa.Value) (ssa.Value, bool) {
	if _, isCall := cond.(*ssa.Call); isCall {
		if _, okD := spacingTestDirect(cond); !okD {
			if _, b, ok := symSpacing(km.SymOf(cond)); ok && b != nil && b.Op == "val" {
				return b.Val, true
			}
		}
	}
	var last ssa.Value
	if cl, ok := cond.(*ssa.Call); ok && km.CalleeFull(cl.Common()) == "(time.Time).After" {
		if add, ok := isCall(cl.Common().Args[0], "(time.Time).Add"); ok {
			last = add.Common().Args[0]
		}
	}
	if b, ok := cond.(*ssa.BinOp); ok {
		if sub, ok := isCall(b.X, "(time.Time).Sub"); ok {
			last = sub.Common().Args[1]
		}
		if since, ok := isCall(b.X, "time.Since"); ok {
			last = since.Common().Args[0]
		}
	}
	return last, last != nil
}

func derivesFromValue(v ssa.Value, src ssa.Value, depth int) bool {
	if depth > 8 || v == nil {
		return false
	}
	v = km.Unwrap(v)
	if v == src {
		return true
	}
	switch x := v.(type) {
	case *ssa.UnOp:
		return derivesFromValue(x.X, src, depth+1)
	case *ssa.FieldAddr:
		return derivesFromValue(x.X, src, depth+1)
	case *ssa.Field:
		return derivesFromValue(x.X, src, depth+1)
	case *ssa.Extract:
		return derivesFromValue(x.Tuple, src, depth+1)
	case *ssa.Alloc:
		for _, ref := range *x.Referrers() {
			if st, ok := ref.(*ssa.Store); ok && st.Addr == ssa.Value(x) {
				if derivesFromValue(st.Val, src, depth+1) {
					return true
				}
			}
		}
	}
	return false
}

// blocksBetween: blocks on some path from a to b (inclusive).
func blocksBetween(a, b *ssa.BasicBlock) map[*ssa.BasicBlock]bool {
	fwd := km.ReachableBlocks(a, map[*ssa.BasicBlock]bool{})
	// backward reachability from b
	back := map[*ssa.BasicBlock]bool{}
	var dfs func(x *ssa.BasicBlock)
	dfs = func(x *ssa.BasicBlock) {
		if back[x] {
			return
		}
		back[x] = true
		if x == a {
			return
		}
		for _, p := range x.Preds {
			dfs(p)
		}
	}
	dfs(b)
	out := map[*ssa.BasicBlock]bool{}
	for x := range fwd {
		if back[x] {
			out[x] = true
		}
	}
	return out
}

// totpGate: where the TOTP spacing gate lives (validateUserTOTP or a helper it calls directly).
type totpGate struct {
	fn           *ssa.Function
	lookup       *ssa.Lookup
	firstUpdate  *ssa.MapUpdate
	spacingIf    *ssa.If
	spacingConst int64
}

func findTotpGate(c *km.Ctx, vt *ssa.Function) *totpGate {
	cands := []*ssa.Function{vt}
	for _, ci := range km.CallsIn(vt) {
		if g := km.StaticCallee(ci.Common()); g != nil && g.Blocks != nil && g.Pkg != nil && pkgIsKMD(g.Pkg) {
			cands = append(cands, g)
		}
	}
	for _, fn := range cands {
		g := &totpGate{fn: fn}
		var lookups []*ssa.Lookup
		type spIf struct {
			iff *ssa.If
			d   int64
		}
		var spacings []spIf
		km.Instrs(fn, func(in ssa.Instruction) {
			if lk, ok := in.(*ssa.Lookup); ok && mentionsField(lk.X, "totpLocalRateLimit") {
				lookups = append(lookups, lk)
			}
			if mu, ok := in.(*ssa.MapUpdate); ok && mentionsField(mu.Map, "totpLocalRateLimit") && g.firstUpdate == nil {
				g.firstUpdate = mu
			}
			if iff, ok := in.(*ssa.If); ok {
				if d, ok := spacingTest(iff.Cond); ok {
					spacings = append(spacings, spIf{iff, d})
				}
			}
		})
		// the lookup that belongs to the update: the closest one that dominates it (an earlier read-only peek
		// that admits nothing is not the gate)
		for _, lk := range lookups {
			if g.firstUpdate != nil && !km.InstrDominates(lk, g.firstUpdate) {
				continue
			}
			if g.lookup == nil || km.InstrDominates(g.lookup, lk) {
				g.lookup = lk
			}
		}
		if g.lookup == nil && len(lookups) > 0 {
			g.lookup = lookups[0]
		}
		for _, sp := range spacings {
			if g.lookup != nil && g.firstUpdate != nil && km.InstrDominates(g.lookup, sp.iff) && km.InstrDominates(sp.iff, g.firstUpdate) {
				g.spacingIf, g.spacingConst = sp.iff, sp.d
				break
			}
		}
		if g.spacingIf == nil && len(spacings) > 0 {
			g.spacingIf, g.spacingConst = spacings[0].iff, spacings[0].d
		}
		if g.lookup != nil && g.firstUpdate != nil {
			return g
		}
	}
	return nil
}

// gateMutex: the mutex held both at the lookup of the per-user record and at the update of lastCheckTime (the
// field may be renamed; what matters is that it is one and the same lock at both ends and in between).
func gateMutex(ls *km.LockSets, g *totpGate) string {
	at := map[string]bool{}
	for _, m := range ls.HeldAt(g.lookup) {
		at[m] = true
	}
	var both []string
	for _, m := range ls.HeldAt(g.firstUpdate) {
		if at[m] {
			both = append(both, m)
		}
	}
	sort.Strings(both)
	if len(both) == 0 {
		return totpMutexDeclared
	}
	return both[0]
}
