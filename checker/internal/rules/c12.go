package rules

import (
	"go/constant"
	"go/token"
	"go/types"
	"sort"
	"strings"

	"kmcheck/internal/km"

	"golang.org/x/tools/go/ssa"
)

func init() { km.Register("C12", checkC12) }

const (
	typCode   = KMD + ".keymasterdCodeToken"
	typIDTok  = KMD + ".openIDConnectIDToken"
	typAccess = KMD + ".bearerAccessToken"
)

// storesByField collects, for every struct cell of named type typ allocated in fn, the values stored per field
// (composite literals and later assignments).
func storesByField(fn *ssa.Function, typ string) map[string][]*ssa.Store {
	out := map[string][]*ssa.Store{}
	km.Instrs(fn, func(in ssa.Instruction) {
		st, ok := in.(*ssa.Store)
		if !ok {
			return
		}
		fa, ok := st.Addr.(*ssa.FieldAddr)
		if !ok || km.NamedTypeOf(fa.X.Type()) != typ {
			return
		}
		out[fieldNameOf(fa)] = append(out[fieldNameOf(fa)], st)
	})
	return out
}

func isFormGet(v ssa.Value, key string) bool {
	cl, ok := km.Unwrap(v).(*ssa.Call)
	if !ok || km.CalleeFull(cl.Common()) != "(net/url.Values).Get" {
		return false
	}
	k, ok := km.ConstString(cl.Common().Args[1])
	return ok && k == key
}

func checkC12(c *km.Ctx) {
	r := c.R
	s := km.NewSem(c)
	r.Explain = "Static analysis of /repo: at both token-minting calls of the token endpoint the state must contain, on every path, the verified code, the client-authentication flag, client == code.subject, code.exp >= now (strict), code.redirect_uri == submitted redirect_uri and code.type == token_endpoint; the client-authentication flag becomes true only from the PKCE verifier (for a secret-less client) or from the secret comparison under a non-empty secret; the PKCE verifier returns true only from an equality between (a transform of) the submitted verifier and the challenge decrypted from the same code; the fields of the ID token, access token, authorization code and userinfo answer have the provenance the property states. Decides structure and provenance, not the thirty-odd request combinations as executions."
	r.NotDecided = []string{"JSON/JOSE encodings", "the combinations of requests as executions", "JWKS content beyond C09's publication rule"}
	r.Assume = []string{"go-jose signature verification", "go/types + go/ssa model the source faithfully"}

	r.Rule("R-C12-1", "both minting calls of the token endpoint are dominated by: code verified ∧ client authenticated ∧ client == code.sub ∧ code.exp >= now ∧ redirect_uri equal ∧ type == token_endpoint", 1)
	r.Rule("R-C12-2", "the client-authentication flag is true only from the PKCE verifier under 'client may use PKCE' or from the secret comparison under a non-empty secret, for the client named in the request; the secret comparison is the plain equality of the submitted and the configured string", 1)
	r.Rule("R-C12-3", "the PKCE verifier returns true only from verifier==challenge (plain/empty method) or base64url(sha256(verifier))==challenge (S256), with the challenge decrypted from the same code; anything else is false", 2)
	r.Rule("R-C12-4", "field provenance: ID token (iss=this server, sub=code.username, aud=[client], nonce=code.nonce, exp=code.auth_exp), access token (username=code.username, exp=ID token exp, type=bearer), code (username=authenticated user, sub=resolved client, redirect_uri=validated string, auth_exp=now+16h const, exp=now+300s const) and userinfo (identity = access token's username)", 8)

	th := c.MustFunc("R-C12-1", "cmd/keymasterd", "(*RuntimeState).idpOpenIDCTokenHandler")
	ah := c.MustFunc("R-C12-4", "cmd/keymasterd", "(*RuntimeState).idpOpenIDCAuthorizationHandler")
	uh := c.MustFunc("R-C12-4", "cmd/keymasterd", "(*RuntimeState).idpOpenIDCUserinfoHandler")
	if th == nil || ah == nil || uh == nil {
		return
	}
	// the PKCE verifier: the module function the token endpoint hands the code to and that opens the code's
	// protected data (whatever its name and result type)
	// the client authentication may have been moved, whole, into a helper of the token endpoint that is new to the
	// tree: the flag and the verifier call are then looked for there, the helper's parameters standing for the
	// arguments of its (only) call in the token endpoint
	authFrames := []*ssa.Function{th}
	helperCall := map[*ssa.Function]ssa.CallInstruction{}
	for _, ci := range km.CallsIn(th) {
		g := km.StaticCallee(ci.Common())
		if g == nil || g.Blocks == nil || !c.InModule(g) || c.P.IsRecorded(g) {
			continue
		}
		if _, dup := helperCall[g]; dup {
			helperCall[g] = nil
			continue
		}
		helperCall[g] = ci
	}
	for g, ci := range helperCall {
		if ci != nil {
			authFrames = append(authFrames, g)
		}
	}
	sort.Slice(authFrames[1:], func(i, j int) bool { return authFrames[1+i].String() < authFrames[1+j].String() })
	// toTh: a value of an authentication frame as the token endpoint sees it
	toTh := func(v ssa.Value) ssa.Value {
		v = km.Unwrap(v)
		if q, isP := v.(*ssa.Parameter); isP && q.Parent() != th {
			if ci := helperCall[q.Parent()]; ci != nil {
				a := ci.Common().Args
				for i, x := range q.Parent().Params {
					if x == q && i < len(a) {
						return km.Unwrap(a[i])
					}
				}
			}
		}
		return v
	}
	var vf *ssa.Function
	var vfCalls []ssa.CallInstruction
	for _, af := range authFrames {
		vfCalls = append(vfCalls, km.CallsIn(af)...)
	}
	for _, ci := range vfCalls {
		g := km.StaticCallee(ci.Common())
		if g == nil || g.Blocks == nil || !c.InModule(g) {
			continue
		}
		takesCode := false
		for _, q := range g.Params {
			if km.NamedTypeOf(q.Type()) == typCode {
				takesCode = true
			}
		}
		opens := false
		for _, c2 := range km.CallsIn(g) {
			if km.CalleeFull(c2.Common()) == KMD+".decodeOpenData" {
				opens = true
			}
		}
		if takesCode && opens {
			vf = g
		}
	}
	if vf == nil {
		r.AnchorLost("R-C12-3", "the PKCE verifier (a function called by the token endpoint with the code that opens its protected data)")
		return
	}
	verifierParam, codeParam := checkPKCEVerifier(c, s, vf)
	// the position of a verifier parameter in CallArgs (the recorded order when the verifier is a recorded function)
	paramIdx := func(q *ssa.Parameter) int {
		if q == nil {
			return -1
		}
		for i := 0; i < len(vf.Params)+4; i++ {
			if km.ParamAt(vf, i) == q {
				return i
			}
		}
		return -1
	}
	// isVerifierVerdict: v is "the verifier accepted" - its boolean result or its error result compared with nil
	verifierCall := func(v ssa.Value) *ssa.Call {
		v = km.Unwrap(v)
		if b, ok := v.(*ssa.BinOp); ok && b.Op == token.EQL && km.IsNilConst(b.Y) {
			v = km.Unwrap(b.X)
		}
		if cl, idx := callRes(v); cl != nil && idx == 0 && km.StaticCallee(cl.Common()) == vf {
			return cl
		}
		return nil
	}

	// ---- the client id value of the token handler: phi/merge of BasicAuth#0, form client_id, unescaped
	// a value of the request may reach the handler through a helper that collects the credentials (possibly in a
	// struct): every place the value can come from has to satisfy pred
	var leafAll func(v ssa.Value, pred func(ssa.Value) bool, d int) bool
	leafAll = func(v ssa.Value, pred func(ssa.Value) bool, d int) bool {
		v = km.Unwrap(v)
		if pred(v) {
			return true
		}
		if d > 4 {
			return false
		}
		if p, ok := v.(*ssa.Phi); ok {
			for _, e := range p.Edges {
				if !leafAll(e, pred, d+1) {
					return false
				}
			}
			return len(p.Edges) > 0
		}
		lfs := s.Leaves(c.F.NewConj(), nil, nil, v, nil, 2)
		if len(lfs) == 0 || (len(lfs) == 1 && lfs[0].Val == v) {
			return false
		}
		for _, lf := range lfs {
			if !leafAll(lf.Val, pred, d+1) {
				return false
			}
		}
		return true
	}
	isClientID := func(v ssa.Value) bool {
		return leafAll(v, func(x ssa.Value) bool { return derivesFromClientID(x, 0) }, 0)
	}

	// ---- R-C12-2: flag
	var flag *ssa.Phi
	var flagIf *ssa.If
	for _, af := range authFrames {
		km.Instrs(af, func(in ssa.Instruction) {
			iff, ok := in.(*ssa.If)
			if !ok {
				return
			}
			v := iff.Cond
			if u, ok := v.(*ssa.UnOp); ok && u.Op == token.NOT {
				v = u.X
			}
			p, ok := v.(*ssa.Phi)
			if !ok {
				return
			}
			// the flag that merges the two authentication methods: one of its (transitive) edges is ValidClientSecret
			if phiHasCallEdge(p, "ValidClientSecret", map[*ssa.Phi]bool{}) {
				flag, flagIf = p, iff
			}
		})
	}
	if flag == nil {
		r.AnchorLost("R-C12-2", "client-authentication flag in idpOpenIDCTokenHandler")
		return
	}
	_ = flagIf
	pkceOperand := func(x *ssa.Call, facts []km.Fact) {
		canPKCE := false
		for _, f := range facts {
			if f.Op == token.ILLEGAL && f.Pol {
				if cl, idx := callRes(f.X); cl != nil && idx == 0 && strings.HasSuffix(km.CalleeFull(cl.Common()), "OpenIDConnectClientConfig).ClientCanDoPKCEAuth") {
					canPKCE = true
				}
			}
		}
		a := km.CallArgs(x.Common())
		vi, ci := paramIdx(verifierParam), paramIdx(codeParam)
		verifierOK := vi >= 0 && vi < len(a) && leafAll(toTh(a[vi]), func(x ssa.Value) bool { return isFormGetThrough(x, "code_verifier") }, 0)
		codeOK := ci >= 0 && ci < len(a) && km.NamedTypeOf(a[ci].Type()) == typCode && isVerifiedCode(th, toTh(a[ci]))
		r.Add("R-C12-2", km.FuncName(th), "flag := PKCE verifier result", posOf(c, x), "only for a client that may use PKCE; verifier from the request; code is the verified code", sprintf("canPKCE=%v verifier-from-form=%v code-is-verified=%v", canPKCE, verifierOK, codeOK), canPKCE && verifierOK && codeOK)
	}
	seen := map[*ssa.Phi]bool{}
	var walk func(p *ssa.Phi)
	walk = func(p *ssa.Phi) {
		if seen[p] {
			return
		}
		seen[p] = true
		for i, e := range p.Edges {
			pred := p.Block().Preds[i]
			switch x := e.(type) {
			case *ssa.Phi:
				walk(x)
			case *ssa.Const:
				ok := x.Value != nil && x.Value.Kind() == constant.Bool && !constant.BoolVal(x.Value)
				r.Add("R-C12-2", km.FuncName(th), "flag constant operand", posOf(c, p), "the only constant operand is the initial false", km.ValStr(x), ok)
			case *ssa.BinOp:
				vc := verifierCall(x)
				if vc == nil {
					r.Add("R-C12-2", km.FuncName(th), "flag operand (unrecognised)", posOf(c, p), "PKCE verifier or secret comparison", km.ValStr(e), false)
					continue
				}
				pkceOperand(vc, append(controllingFacts(c, pred), controllingFacts(c, vc.Block())...))
			case *ssa.Call:
				name := km.CalleeFull(x.Common())
				facts := append(controllingFacts(c, pred), controllingFacts(c, x.Block())...)
				switch {
				case verifierCall(x) != nil:
					pkceOperand(x, facts)
				case strings.HasSuffix(name, "OpenIDConnectClientConfig).ValidClientSecret"):
					nonEmpty := false
					for _, f := range facts {
						if cl, ok := f.X.(*ssa.Call); ok {
							if b, ok := cl.Common().Value.(*ssa.Builtin); ok && b.Name() == "len" && km.Unwrap(cl.Common().Args[0]) == km.Unwrap(km.CallArgs(x.Common())[1]) {
								if i, ok := km.ConstInt(f.Y); ok && ((f.Op == token.GTR && i == 0) || (f.Op == token.GEQ && i == 1) || (f.Op == token.NEQ && i == 0)) {
									nonEmpty = true
								}
							}
						}
						if f.Op == token.NEQ && km.Unwrap(f.X) == km.Unwrap(km.CallArgs(x.Common())[1]) {
							if cs, ok := km.ConstString(f.Y); ok && cs == "" {
								nonEmpty = true
							}
						}
					}
					// receiver: the client configuration looked up for the request's client id
					recvOK := false
					if lc, idx := callRes(toTh(km.CallArgs(x.Common())[0])); lc != nil && idx == 0 && km.CalleeFull(lc.Common()) == RS+"idpOpenIDCGetClientConfig" {
						recvOK = isClientID(km.CallArgs(lc.Common())[1])
					}
					r.Add("R-C12-2", km.FuncName(th), "flag := secret comparison", posOf(c, x), "only with a non-empty submitted secret, against the configuration of the client named in the request", sprintf("non-empty=%v client-config-of-request=%v", nonEmpty, recvOK), nonEmpty && recvOK)
				default:
					r.Add("R-C12-2", km.FuncName(th), "flag := (unrecognised)", posOf(c, x), "PKCE verifier or secret comparison", short(name), false)
				}
			default:
				r.Add("R-C12-2", km.FuncName(th), "flag operand (unrecognised)", posOf(c, p), "PKCE verifier or secret comparison", km.ValStr(e), false)
			}
		}
	}
	walk(flag)
	checkSecretComparison(c, s)

	// ---- R-C12-1
	prCode := primErrNil("code verified", RS+"JWTClaims", 0)
	prAuth := km.Prim{Name: "client authenticated", Direct: func(f km.Fact) bool {
		return f.Op == token.ILLEGAL && f.Pol && f.X == ssa.Value(flag)
	}}
	prSub := km.Prim{Name: "client == code.sub", Rel: func(f km.Fact, resolve func(ssa.Value) ssa.Value) bool {
		if f.Op != token.EQL {
			return false
		}
		return (fieldLoadOf(resolve(f.X), typCode, "Subject") && isClientID(resolve(f.Y))) || (fieldLoadOf(resolve(f.Y), typCode, "Subject") && isClientID(resolve(f.X)))
	}}
	prExp := primNotExpiredEpoch(typCode)
	prRedir := km.Prim{Name: "code.redirect_uri == submitted", Rel: func(f km.Fact, resolve func(ssa.Value) ssa.Value) bool {
		if f.Op != token.EQL {
			return false
		}
		return (fieldLoadOf(resolve(f.X), typCode, "RedirectURI") && isFormGet(resolve(f.Y), "redirect_uri")) || (fieldLoadOf(resolve(f.Y), typCode, "RedirectURI") && isFormGet(resolve(f.X), "redirect_uri"))
	}}
	prType := km.Prim{Name: "code.type == token_endpoint", Rel: func(f km.Fact, resolve func(ssa.Value) ssa.Value) bool {
		if f.Op != token.EQL {
			return false
		}
		for _, pair := range [][2]ssa.Value{{f.X, f.Y}, {f.Y, f.X}} {
			if cs, ok := km.ConstString(resolve(pair[1])); ok && cs == "token_endpoint" && fieldLoadOf(resolve(pair[0]), typCode, "Type") {
				return true
			}
		}
		return false
	}}
	nMint := 0
	for _, ci := range km.CallsIn(th) {
		if !strings.HasSuffix(km.CalleeFull(ci.Common()), "jwt.Builder).Serialize") {
			continue
		}
		nMint++
		st := c.F.At(ci)
		var missing []string
		for _, p := range []km.Prim{prCode, prAuth, prSub, prExp, prRedir, prType} {
			if !st.All(func(k km.Conj) bool { return s.Holds(k, p) }) {
				missing = append(missing, p.Name)
			}
		}
		r.Add("R-C12-1", km.FuncName(th), "mint token", posOf(c, ci), "code verified ∧ client authenticated ∧ client == code.sub ∧ code.exp >= now ∧ redirect_uri equal ∧ type == token_endpoint", sprintf("missing=%v", missing), len(missing) == 0)
	}
	if nMint < 2 {
		r.AnchorLost("R-C12-1", "the two Serialize calls of idpOpenIDCTokenHandler")
	}

	// codes and access tokens this server signs after unsealing must verify: the verifier list follows the keys
	checkVerifierListFresh(c, s, "R-C12-1")

	checkPublishedJWK(c, "R-C12-4")
	// "the access token makes userinfo return that same user, and nothing else does": what the userinfo endpoint
	// honours is a verified, unexpired token of the access-token kind for this server - C04's obligations on
	// that consumer, as this property's own (an authorization code presented there names the user without any
	// client authentication)
	if r.Remap == nil {
		r.Remap = func(rule, fn, construct string) (string, bool) {
			if strings.HasPrefix(rule, "R-C04-") && strings.Contains(fn, "idpOpenIDCUserinfoHandler") {
				return "R-C12-4", true
			}
			return "", false
		}
		saveExplain, saveND, saveAs := r.Explain, r.NotDecided, r.Assume
		checkC04(c)
		r.Explain, r.NotDecided, r.Assume = saveExplain, saveND, saveAs
		r.Remap = nil
	}
	// ---- R-C12-4 provenance
	prov := func(fn *ssa.Function, typ, field, req string, pred func(v ssa.Value) bool) {
		sts := storesByField(fn, typ)[field]
		if len(sts) == 0 {
			r.Add("R-C12-4", km.FuncName(fn), short(typ)+"."+field, c.P.Pos(fn.Pos()), req, "no store found", false)
			return
		}
		for _, st := range sts {
			r.Add("R-C12-4", km.FuncName(fn), short(typ)+"."+field, posOf(c, st), req, clipS(km.ValStr(st.Val), 160), pred(st.Val))
		}
	}
	isIssuerCall := func(v ssa.Value) bool {
		cl, ok := km.Unwrap(v).(*ssa.Call)
		return ok && km.CalleeFull(cl.Common()) == RS+"idpGetIssuer"
	}
	codeField := func(f string) func(ssa.Value) bool {
		return func(v ssa.Value) bool { return fieldLoadOf(v, typCode, f) && isVerifiedCode(th, fieldBase(v)) }
	}
	prov(th, typIDTok, "Issuer", "idpGetIssuer()", isIssuerCall)
	prov(th, typIDTok, "Subject", "code.username", codeField("Username"))
	prov(th, typIDTok, "Nonce", "code.nonce", codeField("Nonce"))
	prov(th, typIDTok, "Expiration", "code.auth_exp", codeField("AuthExpiration"))
	prov(th, typIDTok, "Audience", "[client id of the authenticated client]", func(v ssa.Value) bool {
		sl, ok := km.Unwrap(v).(*ssa.Slice)
		if !ok {
			return false
		}
		a, ok := sl.X.(*ssa.Alloc)
		if !ok {
			return false
		}
		n, good := 0, true
		for _, ref := range *a.Referrers() {
			if ia, ok := ref.(*ssa.IndexAddr); ok {
				for _, r2 := range *ia.Referrers() {
					if st, ok := r2.(*ssa.Store); ok {
						n++
						if !isClientID(st.Val) {
							good = false
						}
					}
				}
			}
		}
		return n == 1 && good
	})
	prov(th, typAccess, "Username", "code.username", codeField("Username"))
	prov(th, typAccess, "Type", `"bearer"`, func(v ssa.Value) bool { cs, ok := km.ConstString(v); return ok && cs == "bearer" })
	prov(th, typAccess, "Issuer", "idpGetIssuer()", isIssuerCall)
	prov(th, typAccess, "Expiration", "the ID token's expiry (code.auth_exp)", func(v ssa.Value) bool {
		return fieldLoadOf(v, typIDTok, "Expiration") || codeField("AuthExpiration")(v)
	})
	// authorization code
	isAuthUser := func(v ssa.Value) bool { return s.Is(v, km.RoleAuthUser) }
	nowPlus := func(max int64) func(ssa.Value) bool {
		return func(v ssa.Value) bool {
			b, ok := km.Unwrap(v).(*ssa.BinOp)
			if !ok || b.Op != token.ADD {
				return false
			}
			k, ok := km.ConstInt(b.Y)
			if !ok {
				k, ok = km.ConstInt(b.X)
				if !ok {
					return false
				}
				return isNowUnix(b.Y) && k > 0 && k <= max
			}
			return isNowUnix(b.X) && k > 0 && k <= max
		}
	}
	prov(ah, typCode, "Username", "the authenticated user", isAuthUser)
	prov(ah, typCode, "Subject", "the client_id form value", func(v ssa.Value) bool { return isFormGet(v, "client_id") })
	prov(ah, typCode, "Issuer", "idpGetIssuer()", isIssuerCall)
	prov(ah, typCode, "Type", `"token_endpoint"`, func(v ssa.Value) bool { cs, ok := km.ConstString(v); return ok && cs == "token_endpoint" })
	prov(ah, typCode, "AuthExpiration", "now + constant <= 16h", nowPlus(16*3600))
	prov(ah, typCode, "Expiration", "now + constant <= 300s", nowPlus(300))
	prov(ah, typCode, "Nonce", "the nonce form value", func(v ssa.Value) bool { return isFormGet(v, "nonce") })
	var validated ssa.Value
	for _, ci := range km.CallsIn(ah) {
		if strings.HasSuffix(km.CalleeFull(ci.Common()), "OpenIDConnectClientConfig).CanRedirectToURL") {
			validated = km.Unwrap(km.CallArgs(ci.Common())[1])
		}
	}
	prov(ah, typCode, "RedirectURI", "the string that CanRedirectToURL validated", func(v ssa.Value) bool { return validated != nil && km.Unwrap(v) == validated })
	// minting of the code under Unsealed ∧ Authed ∧ CanRedirect ok ∧ client resolved
	prCan := km.Prim{Name: "CanRedirectToURL ok", Direct: func(f km.Fact) bool {
		cl, idx := callRes(f.X)
		return f.Op == token.ILLEGAL && f.Pol && cl != nil && idx == 0 && strings.HasSuffix(km.CalleeFull(cl.Common()), "OpenIDConnectClientConfig).CanRedirectToURL")
	}}
	prCanErr := km.Prim{Name: "CanRedirectToURL err==nil", Direct: func(f km.Fact) bool {
		cl, idx := callRes(f.X)
		return f.Op == token.EQL && km.IsNilConst(f.Y) && cl != nil && idx == 2 && strings.HasSuffix(km.CalleeFull(cl.Common()), "OpenIDConnectClientConfig).CanRedirectToURL")
	}}
	prClient := primErrNil("client resolved", RS+"idpOpenIDCGetClientConfig", 1)
	for _, ci := range km.CallsIn(ah) {
		if !strings.HasSuffix(km.CalleeFull(ci.Common()), "jwt.Builder).Serialize") {
			continue
		}
		st := c.F.At(ci)
		var missing []string
		for _, p := range []km.Prim{s.PrimUnsealed(), s.PrimAuthed(), prClient, prCan, prCanErr} {
			if !st.All(func(k km.Conj) bool { return s.Holds(k, p) }) {
				missing = append(missing, p.Name)
			}
		}
		r.Add("R-C12-4", km.FuncName(ah), "mint authorization code", posOf(c, ci), "Unsealed ∧ Authed ∧ client resolved ∧ redirect validated (true, no error)", sprintf("missing=%v", missing), len(missing) == 0)
	}
	// the client whose validator ran is the one named in the code
	for _, ci := range km.CallsIn(ah) {
		if strings.HasSuffix(km.CalleeFull(ci.Common()), "OpenIDConnectClientConfig).CanRedirectToURL") {
			recv := km.Unwrap(km.CallArgs(ci.Common())[0])
			lc, idx := callRes(recv)
			ok := lc != nil && idx == 0 && km.CalleeFull(lc.Common()) == RS+"idpOpenIDCGetClientConfig" && isFormGet(km.CallArgs(lc.Common())[1], "client_id")
			r.Add("R-C12-4", km.FuncName(ah), "validator belongs to the requesting client", posOf(c, ci), "CanRedirectToURL is evaluated on the configuration of form client_id", km.ValStr(recv), ok)
		}
	}
	// userinfo identity
	for _, f := range []string{"Subject", "Username", "Name", "Login"} {
		prov(uh, KMD+".openidConnectUserInfo", f, "the verified access token's username", func(v ssa.Value) bool { return fieldLoadOf(v, typAccess, "Username") })
	}
}

func fieldBase(v ssa.Value) ssa.Value {
	x, _, _ := km.FieldOfLoad(km.Unwrap(v))
	return x
}

// isVerifiedCode: v is (a load of) the struct cell that was passed to JWTClaims in fn.
func isVerifiedCode(fn *ssa.Function, v ssa.Value) bool {
	v = km.Unwrap(v)
	if u, ok := v.(*ssa.UnOp); ok && u.Op == token.MUL {
		v = u.X
	}
	for _, ci := range km.CallsIn(fn) {
		if km.CalleeFull(ci.Common()) != RS+"JWTClaims" {
			continue
		}
		a := km.CallArgs(ci.Common())
		if sl, ok := km.Unwrap(a[2]).(*ssa.Slice); ok {
			if dest := sliceSingleElem(sl); dest != nil && dest == v {
				return true
			}
		}
	}
	return false
}

func phiHasCallEdge(p *ssa.Phi, nameSuffix string, seen map[*ssa.Phi]bool) bool {
	if seen[p] {
		return false
	}
	seen[p] = true
	for _, e := range p.Edges {
		switch x := e.(type) {
		case *ssa.Phi:
			if phiHasCallEdge(x, nameSuffix, seen) {
				return true
			}
		case *ssa.Call:
			if strings.HasSuffix(km.CalleeFull(x.Common()), nameSuffix) {
				return true
			}
		}
	}
	return false
}

// derivesFromClientID: BasicAuth()#0, Form.Get("client_id"), url.QueryUnescape of those, and phis of those.
func derivesFromClientID(v ssa.Value, depth int) bool {
	if depth > 8 {
		return false
	}
	v = km.Unwrap(v)
	if isFormGet(v, "client_id") {
		return true
	}
	switch x := v.(type) {
	case *ssa.Extract:
		if cl, ok := x.Tuple.(*ssa.Call); ok {
			n := km.CalleeFull(cl.Common())
			if n == "(*net/http.Request).BasicAuth" && x.Index == 0 {
				return true
			}
			if n == "net/url.QueryUnescape" && x.Index == 0 {
				return derivesFromClientID(cl.Common().Args[0], depth+1)
			}
		}
	case *ssa.Phi:
		for _, e := range x.Edges {
			if !derivesFromClientID(e, depth+1) {
				return false
			}
		}
		return len(x.Edges) > 0
	}
	return false
}

func isFormGetThrough(v ssa.Value, key string) bool {
	v = km.Unwrap(v)
	if isFormGet(v, key) {
		return true
	}
	if p, ok := v.(*ssa.Phi); ok {
		for _, e := range p.Edges {
			if !isFormGetThrough(e, key) {
				return false
			}
		}
		return true
	}
	return false
}

func checkPKCEVerifier(c *km.Ctx, s *km.Sem, vf *ssa.Function) (verifier, code *ssa.Parameter) {
	r := c.R
	for _, q := range vf.Params {
		if km.NamedTypeOf(q.Type()) == typCode {
			code = q
		}
	}
	if code == nil {
		r.AnchorLost("R-C12-3", "code parameter of the PKCE verifier")
		return nil, nil
	}
	// the challenge: field CodeChallenge of the struct unmarshalled from decodeOpenData(code.ProtectedData, code.JWTId, key(code.ProtectedDataKey))
	challengeOK := func(v ssa.Value) bool {
		base, fld, ok := km.FieldOfLoad(km.Unwrap(v))
		if !ok || fld != "CodeChallenge" || km.NamedTypeOf(base.Type()) != KMD+".keymasterdIDPCodeProtectedData" {
			return false
		}
		// base is the alloc passed to json.Unmarshal(plainTextJson, &protectedData) with plaintext from decodeOpenData
		good := false
		for _, ci := range km.CallsIn(vf) {
			if km.CalleeFull(ci.Common()) == "encoding/json.Unmarshal" {
				dst := km.Unwrap(ci.Common().Args[1])
				if dst == base {
					src := km.Unwrap(ci.Common().Args[0])
					if cv, ok := src.(*ssa.Convert); ok {
						src = km.Unwrap(cv.X)
					}
					if dc, idx := callRes(src); dc != nil && idx == 0 && km.CalleeFull(dc.Common()) == KMD+".decodeOpenData" {
						a := dc.Common().Args
						fromCode := func(x ssa.Value, f string) bool {
							x = km.Unwrap(x)
							if cv, ok := x.(*ssa.Convert); ok {
								x = km.Unwrap(cv.X)
							}
							b, fl, ok := km.FieldOfLoad(x)
							if !ok || fl != f {
								return false
							}
							// the code parameter is spilled into a local cell
							return allocHoldsParam(b, code)
						}
						keyOK := false
						if kc, ki := callRes(km.Unwrap(a[2])); kc != nil && ki == 0 && km.CalleeFull(kc.Common()) == RS+"deserializeKeysetIntoPlaintextKey" {
							keyOK = fromCode(km.CallArgs(kc.Common())[1], "ProtectedDataKey")
						}
						if fromCode(a[0], "ProtectedData") && fromCode(a[1], "JWTId") && keyOK {
							good = true
						}
					}
				}
			}
		}
		return good
	}
	isErr := vf.Signature.Results().Len() > 0 && types.Identical(vf.Signature.Results().At(0).Type(), types.Universe.Lookup("error").Type())
	n := 0
	for _, rc := range s.RetCases(vf) {
		v := km.Unwrap(rc.Results[0])
		n++
		// refusing returns need no argument
		if cst, ok := v.(*ssa.Const); ok && !isErr {
			r.Add("R-C12-3", km.FuncName(vf), "constant result", posOf(c, rc.Ret), "constant results are false", km.ValStr(cst), km.ValStr(cst) == "false")
			continue
		}
		if isErr && km.Nilness(rc.Results[0]) > 0 {
			r.Add("R-C12-3", km.FuncName(vf), "refusal", posOf(c, rc.Ret), "a non-nil error refuses", km.ValStr(v), true)
			continue
		}
		// an accepting return: every disjunct that can accept must contain the equality of the right kind
		good := len(rc.State) > 0
		desc := ""
		// judgeK: the facts k of one accepting path contain the equality of the right kind. The facts may be those of
		// a comparison helper (frame h), whose parameters stand for the arguments of its call in the verifier.
		judgeK := func(k km.Conj, frame *ssa.Function, subst map[*ssa.Parameter]ssa.Value) bool {
			sub := func(x ssa.Value) ssa.Value {
				x = km.Unwrap(x)
				if q, isP := x.(*ssa.Parameter); isP && subst != nil {
					if a, has := subst[q]; has {
						return km.Unwrap(a)
					}
				}
				return x
			}
			method, hasMethod := "", false
			for _, f := range k.List() {
				if f.Op == token.EQL && f.X != nil && mentionsField(sub(f.X), "CodeChallengeMethod") {
					if cs, ok := km.ConstString(f.Y); ok {
						method, hasMethod = cs, true
					}
				}
			}
			found := false
			for _, f := range k.List() {
				if f.Op != token.EQL || f.X == nil || f.Y == nil {
					continue
				}
				var other ssa.Value
				switch {
				case challengeOK(sub(f.Y)):
					other = f.X
				case challengeOK(sub(f.X)):
					other = f.Y
				default:
					continue
				}
				o := km.Unwrap(other)
				var q *ssa.Parameter
				s256 := false
				if pq, ok := sub(o).(*ssa.Parameter); ok && pq.Parent() == vf {
					q = pq
				} else {
					for _, cand := range frame.Params {
						if isS256Of(o, cand) {
							if vq, ok := sub(cand).(*ssa.Parameter); ok && vq.Parent() == vf {
								q, s256 = vq, true
							}
						}
					}
				}
				viaTable := false
				if q == nil && frame == vf {
					// the transform looked up by method in a table of functions: each entry is judged
					if tq, why, ok := pkceTableTransform(c, k, o, vf); ok {
						q, viaTable = tq, true
					} else if why != "" {
						desc = why
						continue
					}
				}
				if q == nil {
					desc = "other side is not the verifier or its S256 transform: " + km.ValStr(o)
					continue
				}
				if verifier != nil && verifier != q {
					desc = "two different parameters compared with the challenge"
					continue
				}
				switch {
				case viaTable:
					found, verifier = true, q
					desc = "transform chosen by method from a table whose entries are identity for \"\"/plain and base64url(sha256) for S256"
				case !s256 && hasMethod && (method == "" || method == "plain"):
					found, verifier = true, q
					desc = "verifier == challenge under method=" + method
				case s256 && hasMethod && method == "S256":
					found, verifier = true, q
					desc = "base64url(sha256(verifier)) == challenge under method=S256"
				default:
					desc = sprintf("comparison (s256=%v) under method=%q (known=%v)", s256, method, hasMethod)
				}
			}
			return found
		}
		for _, d := range rc.State {
			k := d
			if !isErr {
				var can bool
				k, can = s.TrueFacts(d, v)
				if !can {
					continue
				}
			} else if !km.IsNilConst(v) {
				// an error handed on: a refusal where this path knows it to be non-nil, otherwise not an argument
				// for acceptance
				nonNil := false
				for _, f := range d.List() {
					if f.Op == token.NEQ && km.IsNilConst(f.Y) && km.Unwrap(f.X) == v {
						nonNil = true
					}
				}
				if nonNil {
					continue
				}
				good = false
				desc = "error of unknown origin returned: " + km.ValStr(v)
				break
			}
			found := judgeK(k, vf, nil)
			if !found && !isErr {
				// the comparison itself may live in a helper new to the tree whose verdict is returned: every way the
				// helper can answer true has to contain the equality, its parameters standing for the arguments
				if hc, hi := callRes(v); hc != nil && hi == 0 {
					if h := km.StaticCallee(hc.Common()); h != nil && h != vf && c.InModule(h) && len(h.Blocks) > 0 && h.Signature.Results().Len() == 1 && len(hc.Common().Args) == len(h.Params) {
						subst := map[*ssa.Parameter]ssa.Value{}
						for i, q := range h.Params {
							subst[q] = hc.Common().Args[i]
						}
						all, any := true, false
						for _, rc2 := range s.RetCases(h) {
							v2 := km.Unwrap(rc2.Results[0])
							for _, d2 := range rc2.State {
								k2, can := s.TrueFacts(d2, v2)
								if !can {
									continue
								}
								any = true
								if !judgeK(k2, h, subst) {
									all = false
								}
							}
						}
						found = all && any
					}
				}
			}
			if !found {
				good = false
				if desc == "" {
					desc = "no equality between the verifier and the challenge bound to the code on an accepting path"
				}
				break
			}
		}
		r.Add("R-C12-3", km.FuncName(vf), "accepting result", posOf(c, rc.Ret), "verifier==challenge for \"\"/plain; base64url(sha256(verifier))==challenge for S256; challenge decrypted from the same code", desc, good)
	}
	if n < 3 || verifier == nil {
		r.AnchorLost("R-C12-3", "accepting returns of the PKCE verifier")
	}
	return verifier, code
}

func allocHoldsParam(v ssa.Value, p *ssa.Parameter) bool {
	if v == ssa.Value(p) {
		return true
	}
	a, ok := v.(*ssa.Alloc)
	if !ok {
		return false
	}
	for _, ref := range *a.Referrers() {
		if st, ok := ref.(*ssa.Store); ok && st.Addr == a && st.Val == ssa.Value(p) {
			return true
		}
	}
	return false
}

// rcUnderMethods: the block is reachable only through tests CodeChallengeMethod == one of methods
func rcUnderMethods(c *km.Ctx, b *ssa.BasicBlock, methods []string) bool {
	if len(b.Preds) == 0 {
		return false
	}
	for _, p := range b.Preds {
		iff, ok := p.Instrs[len(p.Instrs)-1].(*ssa.If)
		if !ok || p.Succs[0] != b {
			return false
		}
		bo, ok := iff.Cond.(*ssa.BinOp)
		if !ok || bo.Op != token.EQL || !mentionsField(bo.X, "CodeChallengeMethod") {
			return false
		}
		cs, ok := km.ConstString(bo.Y)
		if !ok {
			return false
		}
		found := false
		for _, m := range methods {
			if m == cs {
				found = true
			}
		}
		if !found {
			return false
		}
	}
	return true
}

// isS256Of: v = base64.RawURLEncoding.EncodeToString(sha256.Sum256([]byte(verifier))[:])
func isS256Of(v ssa.Value, verifier *ssa.Parameter) bool {
	cl, ok := km.Unwrap(v).(*ssa.Call)
	if !ok || km.CalleeFull(cl.Common()) != "(*encoding/base64.Encoding).EncodeToString" {
		return false
	}
	enc := km.Unwrap(cl.Common().Args[0])
	if u, ok := enc.(*ssa.UnOp); !ok || !strings.Contains(km.ValStr(u), "RawURLEncoding") {
		return false
	}
	sl, ok := km.Unwrap(cl.Common().Args[1]).(*ssa.Slice)
	if !ok {
		return false
	}
	a, ok := sl.X.(*ssa.Alloc)
	if !ok {
		return false
	}
	for _, ref := range *a.Referrers() {
		if st, ok := ref.(*ssa.Store); ok && st.Addr == a {
			if sc, ok := km.Unwrap(st.Val).(*ssa.Call); ok && km.CalleeFull(sc.Common()) == "crypto/sha256.Sum256" {
				arg := km.Unwrap(sc.Common().Args[0])
				if cv, ok := arg.(*ssa.Convert); ok {
					arg = km.Unwrap(cv.X)
				}
				return arg == ssa.Value(verifier)
			}
		}
	}
	return false
}

// pkceTableTransform: o = table[protectedData.CodeChallengeMethod](verifier parameter), with the presence of the
// method in the table established on this path, and a table (package-level, filled once) that maps "" and "plain"
// to the identity and "S256" to base64url(sha256(.)) and holds nothing else. Returns the verifier parameter.
func pkceTableTransform(c *km.Ctx, k km.Conj, o ssa.Value, vf *ssa.Function) (*ssa.Parameter, string, bool) {
	cl, ok := km.Unwrap(o).(*ssa.Call)
	if !ok || cl.Common().IsInvoke() || km.StaticCallee(cl.Common()) != nil || len(cl.Common().Args) != 1 {
		return nil, "", false
	}
	q, isP := km.Unwrap(cl.Common().Args[0]).(*ssa.Parameter)
	if !isP || q.Parent() != vf {
		return nil, "", false
	}
	fv := km.Unwrap(cl.Common().Value)
	var lk *ssa.Lookup
	if ex, isEx := fv.(*ssa.Extract); isEx && ex.Index == 0 {
		lk, _ = ex.Tuple.(*ssa.Lookup)
	} else {
		lk, _ = fv.(*ssa.Lookup)
	}
	if lk == nil || !mentionsField(lk.Index, "CodeChallengeMethod") {
		return nil, "transform is not looked up by the code's challenge method", false
	}
	u, isU := km.Unwrap(lk.X).(*ssa.UnOp)
	if !isU {
		return nil, "", false
	}
	g, isG := u.X.(*ssa.Global)
	if !isG {
		return nil, "", false
	}
	present := false
	for _, f := range k.List() {
		if ex, isEx := f.X.(*ssa.Extract); isEx && ex.Tuple == ssa.Value(lk) && ex.Index == 1 && f.Op == token.ILLEGAL && f.Pol {
			present = true
		}
		if f.Op == token.NEQ && km.IsNilConst(f.Y) && km.Unwrap(f.X) == fv {
			present = true
		}
	}
	if !present {
		return nil, "the method's presence in the transform table is not established on this path", false
	}
	entries, okTab := globalTableEntries(c, g)
	if !okTab {
		return nil, "transform table is not a package-level map filled once", false
	}
	seen := map[string]bool{}
	for _, mu := range entries {
		key, isC := km.ConstString(mu.Key)
		if !isC {
			return nil, "transform table has a non-constant key", false
		}
		var fn *ssa.Function
		switch x := km.Unwrap(mu.Value).(type) {
		case *ssa.Function:
			fn = x
		case *ssa.MakeClosure:
			if len(x.Bindings) == 0 {
				fn, _ = x.Fn.(*ssa.Function)
			}
		}
		if fn == nil || fn.Blocks == nil || len(fn.Params) != 1 {
			return nil, "transform table entry " + key + " is not a plain function of the verifier", false
		}
		for _, b := range fn.Blocks {
			ret, isRet := b.Instrs[len(b.Instrs)-1].(*ssa.Return)
			if !isRet {
				continue
			}
			rv := km.Unwrap(km.ReturnValues(ret)[0])
			switch key {
			case "", "plain":
				if rv != ssa.Value(km.ParamAt(fn, 0)) {
					return nil, "transform for method " + key + " is not the identity", false
				}
			case "S256":
				if !isS256Of(rv, km.ParamAt(fn, 0)) {
					return nil, "transform for S256 is not base64url(sha256(verifier))", false
				}
			default:
				return nil, "transform table has an entry for the unknown method " + key, false
			}
		}
		seen[key] = true
	}
	if !seen["S256"] {
		return nil, "transform table has no S256 entry", false
	}
	return q, "", true
}

// checkPublishedJWK: what the key-set endpoint says about a key is derived from that key. The relying party picks
// the verification key by key id and, when given, by algorithm: an id that is not the fingerprint of the key it
// stands next to, or one algorithm name written down for keys of several families, makes a correct signature
// unverifiable.
func checkPublishedJWK(c *km.Ctx, rule string) {
	fn := c.MustFunc(rule, "cmd/keymasterd", "(*RuntimeState).idpOpenIDCJWKSHandler")
	if fn == nil {
		return
	}
	n := 0
	for _, f := range callsWithNewHelpersFuncs(c, fn, 2) {
		km.Instrs(f, func(in ssa.Instruction) {
			st, ok := in.(*ssa.Store)
			if !ok {
				return
			}
			fa, ok := st.Addr.(*ssa.FieldAddr)
			if !ok || !strings.HasSuffix(km.NamedTypeOf(fa.X.Type()), "go-jose.v2.JSONWebKey") && !strings.HasSuffix(km.NamedTypeOf(fa.X.Type()), ".JSONWebKey") {
				return
			}
			switch fieldNameOf(fa) {
			case "Algorithm":
				n++
				cs, isC := km.ConstString(st.Val)
				c.R.Add(rule, km.FuncName(f), "published key: algorithm", posOf(c, st), "absent, or derived from the key it describes (never one constant for every key)", km.ValStr(st.Val), !(isC && cs != ""))
			case "KeyID":
				n++
				cl, idx := callRes(km.Unwrap(st.Val))
				ok := cl != nil && idx == 0 && km.CalleeFull(cl.Common()) == KMD+".getKeyFingerprint"
				c.R.Add(rule, km.FuncName(f), "published key: id", posOf(c, st), "the fingerprint of the key (the id the tokens carry)", km.ValStr(st.Val), ok)
			}
		})
	}
	if n == 0 {
		c.R.AnchorLost(rule, "JSONWebKey built by the key-set endpoint")
	}
	// every verification key the server holds is in the document: an iteration of the loop over the keys either
	// appends the key or ends the request with an error - it never goes on to the next key without appending (a
	// filter here and a signer whose key it drops give tokens nobody can verify)
	nLoop := 0
	for _, f := range callsWithNewHelpersFuncs(c, fn, 2) {
		var appendBlk *ssa.BasicBlock
		km.Instrs(f, func(in ssa.Instruction) {
			st, ok := in.(*ssa.Store)
			if !ok {
				return
			}
			fa, ok := st.Addr.(*ssa.FieldAddr)
			if !ok || fieldNameOf(fa) != "Keys" || !strings.HasSuffix(km.NamedTypeOf(fa.X.Type()), ".JSONWebKeySet") {
				return
			}
			if cl, isC := km.Unwrap(st.Val).(*ssa.Call); isC {
				if b, isB := cl.Common().Value.(*ssa.Builtin); isB && b.Name() == "append" {
					appendBlk = in.Block()
				}
			}
		})
		if appendBlk == nil {
			continue
		}
		for h := appendBlk.Idom(); h != nil; h = h.Idom() {
			if h.Comment != "rangeindex.loop" || len(h.Succs) != 2 || !km.ReachableBlocks(appendBlk, nil)[h] {
				continue
			}
			overKeys := false
			for blk := range km.ReachableBlocks(h.Succs[0], map[*ssa.BasicBlock]bool{h: true, h.Succs[1]: true}) {
				for _, in := range blk.Instrs {
					if ia, ok := in.(*ssa.IndexAddr); ok && mentionsField(ia.X, "KeymasterPublicKeys") {
						overKeys = true
					}
				}
			}
			if !overKeys {
				continue
			}
			nLoop++
			skip := h.Succs[0] != appendBlk && km.ReachableBlocks(h.Succs[0], map[*ssa.BasicBlock]bool{appendBlk: true, h.Succs[1]: true})[h]
			c.R.Add(rule, km.FuncName(f), "published key set: no key is skipped", posOf(c, h.Instrs[len(h.Instrs)-1]), "every trip round the loop over KeymasterPublicKeys passes the append to the key set (or ends the request)", sprintf("a trip can reach the next key without appending=%v", skip), !skip)
			break
		}
	}
	if nLoop == 0 {
		c.R.AnchorLost(rule, "loop over KeymasterPublicKeys that fills the published key set")
	}
}

// checkSecretComparison: "proves it is the client ... by the client secret": the comparison says yes only when the
// submitted string and the configured one are the same string - compared as they are (the handler's "a secret was
// submitted" guard looks at the raw value: a comparison that trims or folds first makes a blank submission equal
// to the empty secret of a secret-less client).
func checkSecretComparison(c *km.Ctx, s *km.Sem) {
	fn := c.MustFunc("R-C12-2", "cmd/keymasterd", "(*OpenIDConnectClientConfig).ValidClientSecret")
	if fn == nil {
		return
	}
	par := km.ParamAt(fn, 1)
	raw := func(v ssa.Value) (isPar, isCfg bool) {
		v = km.Unwrap(v)
		if cv, ok := v.(*ssa.Convert); ok {
			v = km.Unwrap(cv.X)
		}
		if par != nil && v == ssa.Value(par) {
			return true, false
		}
		if fieldLoadOf(v, "", "ClientSecret") {
			return false, true
		}
		return false, false
	}
	pair := func(a, b ssa.Value) bool {
		ap, ac := raw(a)
		bp, bc := raw(b)
		return (ap && bc) || (ac && bp)
	}
	same := km.Prim{Name: "submitted == configured", Direct: func(f km.Fact) bool {
		if f.Op == token.EQL && f.Y != nil {
			if pair(f.X, f.Y) {
				return true
			}
			if cl, ok := km.Unwrap(f.X).(*ssa.Call); ok && km.CalleeFull(cl.Common()) == "crypto/subtle.ConstantTimeCompare" {
				if one, isC := km.ConstInt(f.Y); isC && one == 1 {
					return pair(cl.Common().Args[0], cl.Common().Args[1])
				}
			}
		}
		if f.Op == token.ILLEGAL && f.Pol {
			if cl, ok := km.Unwrap(f.X).(*ssa.Call); ok {
				switch km.CalleeFull(cl.Common()) {
				case "bytes.Equal", "crypto/hmac.Equal":
					return pair(cl.Common().Args[0], cl.Common().Args[1])
				}
			}
		}
		return false
	}}
	n := 0
	for _, rc := range s.RetCases(fn) {
		v := km.Unwrap(rc.Results[0])
		if km.ValStr(v) == "false" {
			continue
		}
		bad := ""
		nTrue := 0
		for _, k := range rc.State {
			kk, may := s.TrueFacts(k, v)
			if !may {
				continue
			}
			nTrue++
			if !s.Holds(kk, same) {
				bad = clipS(km.DNF{kk}.String(), 200)
			}
		}
		if nTrue == 0 {
			continue
		}
		n++
		found := sprintf("%d path(s) that can say yes, each under the equality of the two strings as they are", nTrue)
		if bad != "" {
			found = "yes without that equality: " + bad
		}
		c.R.Add("R-C12-2", km.FuncName(fn), "secret comparison says yes", posOf(c, rc.Ret), "only when the submitted secret equals the configured one, both unmodified", found, bad == "")
	}
	if n == 0 {
		c.R.AnchorLost("R-C12-2", "possibly-true return of ValidClientSecret")
	}
}
