package rules

import (
	"go/token"
	"go/types"
	"strings"

	"kmcheck/internal/km"

	"golang.org/x/tools/go/ssa"
)

func init() { km.Register("C13", checkC13) }

func isElemOfField(v ssa.Value, field string) bool {
	u, ok := km.Unwrap(v).(*ssa.UnOp)
	if !ok || u.Op != token.MUL {
		return false
	}
	ia, ok := u.X.(*ssa.IndexAddr)
	if !ok {
		return false
	}
	return mentionsField(ia.X, field)
}

func checkC13(c *km.Ctx) {
	r := c.R
	s := km.NewSem(c)
	r.Explain = "Static analysis of /repo: every return of the redirect validator that can be true is dominated by: URL parsed, scheme == https, empty query, no \"..\" in the path; its boolean is true only from a configured-domain match through the shared host predicate and/or a configured-pattern match (exactly as the configuration cases demand); the shared host predicate returns true only for equality or a suffix that begins at a dot; the three sibling sites (redirect validator, client CORS test, generic CORS test) all decide the host through that one predicate on Hostname(); the authorization handler redirects to the validated string only. Decides structure; URL-parser quirks are trusted."
	r.NotDecided = []string{"the accepted language as a whole (url.Parse / Hostname() semantics: user-info, encodings, ports)", "regular expressions configured by the operator"}
	r.Assume = []string{"net/url parses as documented", "go/types + go/ssa model the source faithfully"}

	r.Rule("R-C13-1", "validator: every possibly-true return is dominated by parse ok ∧ scheme==https ∧ empty query ∧ no '..' in path; no domains and no patterns => false", 1)
	r.Rule("R-C13-2", "validator verdict: true only from a configured-domain match by the shared host predicate and a configured-pattern match (pattern match alone only when no domains are configured; domain match alone only when no patterns are configured)", 1)
	r.Rule("R-C13-3", "host predicate: true only for host == domain, or HasSuffix(host, \".\"+domain), or HasSuffix(host, domain) when the configured domain itself starts with a dot", 1)
	r.Rule("R-C13-4", "siblings agree: redirect validator, client CORS test and generic CORS test all decide the host with the shared predicate applied to parsedURL.Hostname() and a configured domain, after scheme == https", 1)
	checkConfigKeys(c, "R-C13-2", "where a client may be redirected", "openid_connect_idp.clients.allowed_redirect_")
	r.Rule("R-C13-5", "the authorization handler issues a code only on the validator's true edge for the requesting client and redirects to the validated string", 1)

	vf := c.MustFunc("R-C13-1", "cmd/keymasterd", "(*OpenIDConnectClientConfig).CanRedirectToURL")
	hp := c.MustFunc("R-C13-3", "cmd/keymasterd", "hostnameInDomain")
	if vf == nil || hp == nil {
		return
	}
	parseOK := primErrNil("parsed", "net/url.Parse", 1)
	https := km.Prim{Name: "scheme == https", Direct: func(f km.Fact) bool {
		cs, ok := km.ConstString(f.Y)
		return f.Op == token.EQL && ok && cs == "https" && fieldLoadOf(f.X, "net/url.URL", "Scheme")
	}}
	noQuery := km.Prim{Name: "empty query", Direct: func(f km.Fact) bool {
		if cl, ok := f.X.(*ssa.Call); ok {
			if b, ok := cl.Common().Value.(*ssa.Builtin); ok && b.Name() == "len" && fieldLoadOf(cl.Common().Args[0], "net/url.URL", "RawQuery") {
				i, isC := km.ConstInt(f.Y)
				return isC && ((f.Op == token.LEQ && i == 0) || (f.Op == token.EQL && i == 0) || (f.Op == token.LSS && i == 1))
			}
		}
		if f.Op == token.EQL && fieldLoadOf(f.X, "net/url.URL", "RawQuery") {
			cs, ok := km.ConstString(f.Y)
			return ok && cs == ""
		}
		return false
	}}
	noDotDot := km.Prim{Name: "no '..' in path", Direct: func(f km.Fact) bool {
		cl, ok := f.X.(*ssa.Call)
		if f.Op != token.ILLEGAL || f.Pol || !ok || km.CalleeFull(cl.Common()) != "strings.Contains" {
			return false
		}
		cs, isC := km.ConstString(cl.Common().Args[1])
		return isC && cs == ".." && fieldLoadOf(cl.Common().Args[0], "net/url.URL", "Path")
	}}
	// the URL that is parsed is the parameter
	parsedParam := false
	for _, ci := range km.CallsIn(vf) {
		if km.CalleeFull(ci.Common()) == "net/url.Parse" && km.Unwrap(ci.Common().Args[0]) == ssa.Value(km.ParamAt(vf, 1)) {
			parsedParam = true
		}
		if cl, isCall := ci.(*ssa.Call); isCall {
			for _, ref := range *cl.Referrers() {
				if ex, isEx := ref.(*ssa.Extract); isEx && ex.Index == 0 {
					if arg, ok := parsedArg(ex); ok && arg == ssa.Value(km.ParamAt(vf, 1)) {
						parsedParam = true
					}
				}
			}
		}
	}
	nRet := 0
	for _, rc := range s.RetCases(vf) {
		v := km.Unwrap(rc.Results[0])
		if km.ValStr(v) == "false" {
			continue
		}
		nRet++
		var missing []string
		for _, p := range []km.Prim{parseOK, https, noQuery, noDotDot} {
			if !rc.State.All(func(k km.Conj) bool { return s.Holds(k, p) }) {
				missing = append(missing, p.Name)
			}
		}
		r.Add("R-C13-1", km.FuncName(vf), "possibly-true return", posOf(c, rc.Ret), "parse ok (of the submitted string) ∧ scheme == https ∧ empty query ∧ no '..'", sprintf("missing=%v parses-param=%v", missing, parsedParam), len(missing) == 0 && parsedParam)
		// verdict: on every path on which the returned value can be true, the domain side and the pattern side
		// are each satisfied the way the configuration demands
		nTruePaths := 0
		var bad []string
		for _, k := range rc.State {
			kk, mayBeTrue := s.TrueFacts(k, v)
			if !mayBeTrue {
				continue
			}
			nTruePaths++
			// each of the four is looked for on this path and inside the predicate helpers it went through
			holds := func(d func(f km.Fact, resolve func(ssa.Value) ssa.Value) bool) bool {
				return s.Holds(kk, km.Prim{Name: "-", Rel: d})
			}
			domEmpty := holds(func(f km.Fact, _ func(ssa.Value) ssa.Value) bool { return lenZeroFact(f, "AllowedRedirectDomains") })
			patEmpty := holds(func(f km.Fact, _ func(ssa.Value) ssa.Value) bool { return lenZeroFact(f, "AllowedRedirectURLRE") })
			domMatch := holds(func(f km.Fact, resolve func(ssa.Value) ssa.Value) bool { return domainMatchFactR(s, hp, f, resolve) })
			patMatch := holds(func(f km.Fact, resolve func(ssa.Value) ssa.Value) bool {
				if f.Op != token.ILLEGAL || !f.Pol {
					return false
				}
				cl, idx := callRes(f.X)
				if cl == nil || idx != 0 {
					return false
				}
				switch km.CalleeFull(cl.Common()) {
				case "regexp.MatchString":
					if !isElemOfField(cl.Common().Args[0], "AllowedRedirectURLRE") {
						return false
					}
				case "(*regexp.Regexp).MatchString":
					// the pattern compiled first (possibly through a helper that remembers compilations)
					pat, ok := compiledPattern(c, cl.Common().Args[0], 0)
					if !ok || !isElemOfField(pat, "AllowedRedirectURLRE") {
						return false
					}
				default:
					return false
				}
				return resolve(cl.Common().Args[1]) == ssa.Value(km.ParamAt(vf, 1))
			})
			switch {
			case domEmpty && patEmpty:
				bad = appendUniq(bad, "true with neither domains nor patterns configured")
			case !(domEmpty || domMatch):
				bad = appendUniq(bad, "true without a configured-domain match although domains may be configured")
			case !(patEmpty || patMatch):
				bad = appendUniq(bad, "true without a configured-pattern match although patterns may be configured")
			}
		}
		r.Add("R-C13-2", km.FuncName(vf), "verdict sources", posOf(c, rc.Ret), "true only when (no domains configured ∨ host in a configured domain) ∧ (no patterns configured ∨ a configured pattern matches), and something is configured", sprintf("paths that can yield true=%d %v", nTruePaths, bad), len(bad) == 0 && nTruePaths > 0)
	}
	if nRet < 2 {
		r.AnchorLost("R-C13-1", sprintf("possibly-true returns of CanRedirectToURL (found %d)", nRet))
	}
	// no domains and no patterns => false
	entryFalse := false
	for _, rc := range s.RetCases(vf) {
		if km.ValStr(km.Unwrap(rc.Results[0])) != "false" {
			continue
		}
		d, p := false, false
		for _, f := range controllingFacts(c, rc.Ret.Block()) {
			if cl, ok := f.X.(*ssa.Call); ok {
				if b, ok := cl.Common().Value.(*ssa.Builtin); ok && b.Name() == "len" {
					if mentionsField(cl.Common().Args[0], "AllowedRedirectDomains") {
						d = true
					}
					if mentionsField(cl.Common().Args[0], "AllowedRedirectURLRE") {
						p = true
					}
				}
			}
		}
		if d && p {
			entryFalse = true
		}
	}
	r.Add("R-C13-1", km.FuncName(vf), "nothing configured => false", c.P.Pos(vf.Pos()), "a client with neither domains nor patterns never gets a redirect", sprintf("%v", entryFalse), entryFalse)

	// the client's allow-lists are what the operator wrote: nothing in the server rewrites them after the
	// configuration is parsed (dropping a pattern turns a "domain AND pattern" client into a domain-only one)
	{
		nFields := 0
		if pk := c.P.Pkg("cmd/keymasterd"); pk != nil {
			cur := km.CurrentTypeName(KMD + ".OpenIDConnectClientConfig")
			if tn, ok := pk.Pkg.Scope().Lookup(cur[strings.LastIndex(cur, ".")+1:]).(*types.TypeName); ok {
				if st, ok := tn.Type().Underlying().(*types.Struct); ok {
					for i := 0; i < st.NumFields(); i++ {
						if n := st.Field(i).Name(); n == "AllowedRedirectURLRE" || n == "AllowedRedirectDomains" {
							nFields++
						}
					}
				}
			}
		}
		if nFields != 2 {
			r.AnchorLost("R-C13-2", "AllowedRedirectURLRE / AllowedRedirectDomains fields of OpenIDConnectClientConfig")
		}
		bad := ""
		for _, fn := range c.P.AllFuncs {
			if fn.Pkg == nil || !strings.HasPrefix(fn.Pkg.Pkg.Path(), km.ModPath) {
				continue
			}
			km.Instrs(fn, func(in ssa.Instruction) {
				if st, ok := in.(*ssa.Store); ok {
					if fa, ok := st.Addr.(*ssa.FieldAddr); ok && km.NamedTypeOf(fa.X.Type()) == KMD+".OpenIDConnectClientConfig" {
						if n := fieldNameOf(fa); n == "AllowedRedirectURLRE" || n == "AllowedRedirectDomains" {
							bad = n + " is rewritten in " + km.FuncName(fn) + " at " + posOf(c, in)
						}
					}
				}
			})
		}
		found := "no store into either list anywhere in the module"
		if bad != "" {
			found = bad
		}
		r.Add("R-C13-2", "cmd/keymasterd.OpenIDConnectClientConfig", "allow-lists are only ever what the configuration says", "", "no code assigns AllowedRedirectURLRE or AllowedRedirectDomains (they are filled by the configuration parser alone)", found, bad == "")
	}

	// ---------- R-C13-3 host predicate
	nTrue := 0
	for _, rc := range s.RetCases(hp) {
		v := km.Unwrap(rc.Results[0])
		host, dom := ssa.Value(km.ParamAt(hp, 0)), ssa.Value(km.ParamAt(hp, 1))
		if km.ValStr(v) != "false" {
			// an empty entry of the domain list matches nothing: with it, "host == domain" holds for the empty
			// host and the suffix test for every host that ends in a dot
			nonEmpty := rc.State.All(func(k km.Conj) bool {
				for _, f := range k.List() {
					if f.Op == token.NEQ && km.Unwrap(f.X) == dom {
						if cs, isC := km.ConstString(f.Y); isC && cs == "" {
							return true
						}
					}
					if lc, isL := f.X.(*ssa.Call); isL && f.Y != nil && km.CalleeFull(lc.Common()) == "builtin:len" && km.Unwrap(lc.Common().Args[0]) == dom {
						if n, isN := km.ConstInt(f.Y); isN && ((f.Op == token.GTR && n >= 0) || (f.Op == token.GEQ && n >= 1) || (f.Op == token.NEQ && n == 0)) {
							return true
						}
					}
					if ix, isIx := f.X.(*ssa.Index); isIx && f.Op == token.EQL && km.Unwrap(ix.X) == dom {
						return true // a byte of the domain was read on this path
					}
					if pc, isP := f.X.(*ssa.Call); isP && f.Op == token.ILLEGAL && f.Pol && km.CalleeFull(pc.Common()) == "strings.HasPrefix" && km.Unwrap(pc.Common().Args[0]) == dom {
						if cs, isC := km.ConstString(pc.Common().Args[1]); isC && cs != "" {
							return true
						}
					}
				}
				return false
			})
			r.Add("R-C13-3", km.FuncName(hp), "an empty domain matches nothing", posOf(c, rc.Ret), "domain != \"\" on every path to a return that can be true", clipS(rc.State.String(), 200), nonEmpty)
		}
		switch {
		case km.ValStr(v) == "false":
			continue
		case km.ValStr(v) == "true":
			nTrue++
			ok := rc.State.All(func(k km.Conj) bool {
				for _, f := range k.List() {
					if f.Op == token.EQL && ((km.Unwrap(f.X) == host && km.Unwrap(f.Y) == dom) || (km.Unwrap(f.X) == dom && km.Unwrap(f.Y) == host)) {
						return true
					}
					if f.Op == token.ILLEGAL && f.Pol && isDotSuffixCall(f.X, host, dom, k) {
						return true
					}
				}
				return false
			})
			r.Add("R-C13-3", km.FuncName(hp), "return true", posOf(c, rc.Ret), "host == domain, or a suffix match that starts at a dot", clipS(rc.State.String(), 240), ok)
		default:
			nTrue++
			ok := rc.State.All(func(k km.Conj) bool { return isDotSuffixCall(v, host, dom, k) || isDotBeforeSuffix(v, host, dom, k) })
			r.Add("R-C13-3", km.FuncName(hp), "return of a suffix test", posOf(c, rc.Ret), "HasSuffix(host, \".\"+domain), or HasSuffix(host, domain) under HasPrefix(domain, \".\")", clipS(km.ValStr(v), 160), ok)
		}
	}
	if nTrue < 2 {
		r.AnchorLost("R-C13-3", "true-capable returns of hostnameInDomain")
	}

	// ---------- R-C13-4 siblings
	for _, sib := range []string{"(*OpenIDConnectClientConfig).CanRedirectToURL", "(*OpenIDConnectClientConfig).CorsOriginAllowed", "(*RuntimeState).idpOpenIDCGenericIsCorsOriginAllowed"} {
		fn := c.MustFunc("R-C13-4", "cmd/keymasterd", sib)
		if fn == nil {
			continue
		}
		n := 0
		fns := append([]*ssa.Function{fn}, fn.AnonFuncs...)
		for _, f2 := range fns {
			for _, ci := range km.CallsIn(f2) {
				h0, d0, isHP := hpCall(s, hp, ci.Common())
				if !isHP {
					continue
				}
				n++
				a := []ssa.Value{h0, d0}
				hostOK := hostOfParsedParam(a[0], 0)
				domOK := isElemOfField(a[1], "AllowedRedirectDomains")
				// facts are judged where the decision is taken: at the call, or - for a matcher closure - where the
				// closure is handed to slices.ContainsFunc over the configured domains
				var sites []ssa.Instruction
				if f2 == fn {
					sites = append(sites, ci)
				} else if len(f2.Params) == 1 && km.Unwrap(a[1]) == ssa.Value(km.ParamAt(f2, 0)) {
					for _, c2 := range km.CallsIn(fn) {
						name := km.CalleeFull(c2.Common())
						if i := strings.Index(name, "["); i > 0 {
							name = name[:i]
						}
						if name == "slices.ContainsFunc" && len(c2.Common().Args) == 2 && mentionsField(c2.Common().Args[0], "AllowedRedirectDomains") {
							if mc, ok := km.Unwrap(c2.Common().Args[1]).(*ssa.MakeClosure); ok && mc.Fn == ssa.Value(f2) {
								domOK = true
								sites = append(sites, c2)
							}
						}
					}
				}
				schemeOK := len(sites) > 0
				for _, site := range sites {
					st := c.F.At(site)
					if !st.All(func(k km.Conj) bool { return s.Holds(k, https) && s.Holds(k, parseOK) }) {
						schemeOK = false
					}
				}
				r.Add("R-C13-4", km.FuncName(fn), "host decided by the shared predicate", posOf(c, ci), "hostnameInDomain(parse(param).Hostname(), configured domain) after parse ok ∧ scheme == https", sprintf("host=%v domain=%v https=%v", hostOK, domOK, schemeOK), hostOK && domOK && schemeOK)
			}
		}
		// ... or through a helper that runs the shared predicate over the configured domains for a host it is given
		for _, ci := range km.CallsIn(fn) {
			g := km.StaticCallee(ci.Common())
			if g == nil || g == hp || g.Blocks == nil || !c.InModule(g) {
				continue
			}
			if _, _, isW := hostPredWrapper(s, hp, g); isW {
				continue // judged as a call of the predicate itself
			}
			for _, c2 := range km.CallsIn(g) {
				h2, d2, isHP := hpCall(s, hp, c2.Common())
				if !isHP {
					continue
				}
				a2 := []ssa.Value{h2, d2}
				hostParam, isP := km.Unwrap(a2[0]).(*ssa.Parameter)
				if !isP || !isElemOfField(a2[1], "AllowedRedirectDomains") {
					continue
				}
				args := km.CallArgs(ci.Common())
				hostOK := false
				for i, q := range g.Params {
					if q == hostParam && i < len(args) {
						hostOK = hostOfParsedParam(args[i], 0)
					}
				}
				n++
				st := c.F.At(ci)
				schemeOK := st.All(func(k km.Conj) bool { return s.Holds(k, https) && s.Holds(k, parseOK) })
				r.Add("R-C13-4", km.FuncName(fn), "host decided by the shared predicate", posOf(c, ci), "hostnameInDomain(parse(param).Hostname(), configured domain) after parse ok ∧ scheme == https", sprintf("host=%v domain=true https=%v (through %s)", hostOK, schemeOK, km.NameOf(g)), hostOK && schemeOK)
			}
		}
		// ... or through a helper that runs the shared predicate over a list it is handed
		for _, ci := range km.CallsIn(fn) {
			g := km.StaticCallee(ci.Common())
			hi, li, isAny := anyDomainPredicate(s, hp, g)
			if !isAny {
				continue
			}
			args := km.CallArgs(ci.Common())
			if hi >= len(args) || li >= len(args) {
				continue
			}
			n++
			hostOK := hostOfParsedParam(args[hi], 0)
			domOK := mentionsField(args[li], "AllowedRedirectDomains")
			st := c.F.At(ci)
			schemeOK := st.All(func(k km.Conj) bool { return s.Holds(k, https) && s.Holds(k, parseOK) })
			r.Add("R-C13-4", km.FuncName(fn), "host decided by the shared predicate", posOf(c, ci), "hostnameInDomain(parse(param).Hostname(), configured domain) after parse ok ∧ scheme == https", sprintf("host=%v domain=%v https=%v (through %s)", hostOK, domOK, schemeOK, km.NameOf(g)), hostOK && domOK && schemeOK)
		}
		if n == 0 {
			r.Add("R-C13-4", km.FuncName(fn), "host decided by the shared predicate", c.P.Pos(fn.Pos()), "the sibling uses hostnameInDomain", "no call found", false)
		}
		// no other suffix/contains test on the host
		for _, ci := range km.CallsIn(fn) {
			n2 := km.CalleeFull(ci.Common())
			if (n2 == "strings.HasSuffix" || n2 == "strings.HasPrefix" || (n2 == "strings.Contains" && !isDotDotContains(ci))) && fn != hp {
				r.Add("R-C13-4", km.FuncName(fn), "ad-hoc host/URL string test", posOf(c, ci), "host matching goes through the shared predicate only", short(n2)+"("+clipS(km.ValStr(ci.Common().Args[0]), 60)+", …)", false)
			}
		}
	}

	// ---------- R-C13-5
	if ah := c.MustFunc("R-C13-5", "cmd/keymasterd", "(*RuntimeState).idpOpenIDCAuthorizationHandler"); ah != nil {
		var validated ssa.Value
		var vcall *ssa.Call
		for _, ci := range km.CallsIn(ah) {
			if km.StaticCallee(ci.Common()) == vf {
				validated = km.Unwrap(km.CallArgs(ci.Common())[1])
				vcall = ci.(*ssa.Call)
			}
		}
		if vcall == nil {
			r.AnchorLost("R-C13-5", "CanRedirectToURL call in the authorization handler")
		} else {
			okTrue := km.Prim{Name: "validator true", Direct: func(f km.Fact) bool {
				cl, idx := callRes(f.X)
				return f.Op == token.ILLEGAL && f.Pol && cl == vcall && idx == 0
			}}
			for _, ci := range km.CallsIn(ah) {
				if km.CalleeFull(ci.Common()) != "net/http.Redirect" {
					continue
				}
				st := c.F.At(ci)
				guarded := st.All(func(k km.Conj) bool { return s.Holds(k, okTrue) && s.Holds(k, primErrNilCall("no error", vcall, 2)) })
				target := km.Unwrap(ci.Common().Args[2])
				toValidated := false
				if sp, ok := target.(*ssa.Call); ok && km.CalleeFull(sp.Common()) == "fmt.Sprintf" {
					if f, ok := km.ConstString(sp.Common().Args[0]); ok && strings.HasPrefix(f, "%s?") {
						if first := sprintfArg(sp, 0); first != nil && km.Unwrap(first) == validated {
							toValidated = true
						}
					}
				}
				r.Add("R-C13-5", km.FuncName(ah), "authorization redirect", posOf(c, ci), "only on the validator's true edge, to the validated string followed by ?code=…", sprintf("guarded=%v to-validated=%v", guarded, toValidated), guarded && toValidated)
			}
		}
	}
}

func isDotDotContains(ci ssa.CallInstruction) bool {
	cs, ok := km.ConstString(ci.Common().Args[1])
	return ok && cs == ".."
}

// sprintfArg returns the i-th variadic argument of a fmt.Sprintf call.
func sprintfArg(sp *ssa.Call, i int) ssa.Value {
	sl, ok := km.Unwrap(sp.Common().Args[1]).(*ssa.Slice)
	if !ok {
		return nil
	}
	a, ok := sl.X.(*ssa.Alloc)
	if !ok {
		return nil
	}
	for _, ref := range *a.Referrers() {
		ia, ok := ref.(*ssa.IndexAddr)
		if !ok {
			continue
		}
		if k, isC := km.ConstInt(ia.Index); !isC || int(k) != i {
			continue
		}
		for _, r2 := range *ia.Referrers() {
			if st, ok := r2.(*ssa.Store); ok {
				return km.Unwrap(st.Val)
			}
		}
	}
	return nil
}

// isDotSuffixCall: v is strings.HasSuffix(host, "."+dom), or HasSuffix(host, dom) while HasPrefix(dom, ".") holds in k.
func isDotSuffixCall(v ssa.Value, host, dom ssa.Value, k km.Conj) bool {
	cl, ok := km.Unwrap(v).(*ssa.Call)
	if !ok || km.CalleeFull(cl.Common()) != "strings.HasSuffix" || km.Unwrap(cl.Common().Args[0]) != host {
		return false
	}
	return startsAtDot(cl.Common().Args[1], dom, k, 0)
}

// startsAtDot: the suffix value is "."+domain, or domain itself on a path where domain starts with a dot; a
// merged value is judged by the operand this path's provenance fact names.
func startsAtDot(suf ssa.Value, dom ssa.Value, k km.Conj, depth int) bool {
	suf = km.Unwrap(suf)
	if depth > 3 {
		return false
	}
	if b, ok := suf.(*ssa.BinOp); ok && b.Op == token.ADD {
		if cs, isC := km.ConstString(b.X); isC && cs == "." {
			y := km.Unwrap(b.Y)
			if y == dom {
				return true
			}
			// "." + x where this path says x is the domain
			for _, f := range k.List() {
				if f.Op == token.EQL && f.X == y && km.Unwrap(f.Y) == dom {
					return true
				}
			}
		}
	}
	if suf == dom {
		for _, f := range k.List() {
			// domain[0] == '.'
			if f.Op == token.EQL {
				if ix, isIx := f.X.(*ssa.Index); isIx && km.Unwrap(ix.X) == dom {
					i0, isI := km.ConstInt(ix.Index)
					ch, isC := km.ConstInt(f.Y)
					if isI && i0 == 0 && isC && ch == '.' {
						return true
					}
				}
			}
			if f.Op == token.ILLEGAL && f.Pol {
				if pc, ok := f.X.(*ssa.Call); ok && km.CalleeFull(pc.Common()) == "strings.HasPrefix" {
					arg := km.Unwrap(pc.Common().Args[0])
					same := arg == dom
					if !same {
						for _, g := range k.List() {
							if g.Op == token.EQL && g.X == arg && km.Unwrap(g.Y) == dom {
								same = true
							}
						}
					}
					if cs, isC := km.ConstString(pc.Common().Args[1]); same && isC && cs == "." {
						return true
					}
				}
			}
		}
	}
	if phi, ok := suf.(*ssa.Phi); ok {
		for _, f := range k.List() {
			if f.Op == token.EQL && f.X == ssa.Value(phi) && f.Y != nil {
				if startsAtDot(f.Y, dom, k, depth+1) {
					return true
				}
			}
		}
	}
	return false
}

// parsedArg: v is the URL result of net/url.Parse(x), directly or through a module helper that parses one of its
// parameters and hands the parsed URL back (nil on its refusals); returns x in the frame of v.
func parsedArg(v ssa.Value) (ssa.Value, bool) {
	pc, idx := callRes(km.Unwrap(v))
	if pc == nil || idx != 0 {
		return nil, false
	}
	if km.CalleeFull(pc.Common()) == "net/url.Parse" {
		return km.Unwrap(pc.Common().Args[0]), true
	}
	g := km.StaticCallee(pc.Common())
	if g == nil || g.Blocks == nil || g.Pkg == nil || !strings.HasPrefix(g.Pkg.Pkg.Path(), km.ModPath) {
		return nil, false
	}
	pi := -1
	for _, b := range g.Blocks {
		ret, ok := b.Instrs[len(b.Instrs)-1].(*ssa.Return)
		if !ok {
			continue
		}
		rv := km.ReturnValues(ret)
		if len(rv) == 0 {
			return nil, false
		}
		r0 := km.Unwrap(rv[0])
		if km.IsNilConst(r0) {
			continue
		}
		in, isIn := callRes(r0)
		if in == nil || isIn != 0 || km.CalleeFull(in.Common()) != "net/url.Parse" {
			return nil, false
		}
		q, isP := km.Unwrap(in.Common().Args[0]).(*ssa.Parameter)
		if !isP {
			return nil, false
		}
		for i, pp := range g.Params {
			if pp == q {
				if pi >= 0 && pi != i {
					return nil, false
				}
				pi = i
			}
		}
	}
	args := km.CallArgs(pc.Common())
	if pi < 0 || pi >= len(args) {
		return nil, false
	}
	return km.Unwrap(args[pi]), true
}

// hostOfParsedParam: v is parse(<param>).Hostname(), directly or through a local / captured variable
func hostOfParsedParam(v ssa.Value, depth int) bool {
	v = km.Unwrap(v)
	if depth > 3 {
		return false
	}
	if hc, ok := v.(*ssa.Call); ok && km.CalleeFull(hc.Common()) == "(*net/url.URL).Hostname" {
		if arg, ok := parsedArg(hc.Common().Args[0]); ok {
			_, isParam := arg.(*ssa.Parameter)
			return isParam
		}
		return false
	}
	if fv, ok := v.(*ssa.FreeVar); ok {
		if b := freeVarBinding(fv); b != nil {
			return hostOfParsedParam(b, depth+1)
		}
	}
	if u, ok := v.(*ssa.UnOp); ok && u.Op == token.MUL {
		// a captured variable cell: its single store
		var stored ssa.Value
		n := 0
		cell := km.Unwrap(u.X)
		if fv, ok := cell.(*ssa.FreeVar); ok {
			if b := freeVarBinding(fv); b != nil {
				cell = b
			}
		}
		if a, ok := cell.(*ssa.Alloc); ok {
			for _, ref := range *a.Referrers() {
				if st, ok := ref.(*ssa.Store); ok && st.Addr == ssa.Value(a) {
					stored = st.Val
					n++
				}
			}
		}
		if n == 1 {
			return hostOfParsedParam(stored, depth+1)
		}
	}
	return false
}

// freeVarBinding: the value bound to a closure's free variable where the closure is made
func freeVarBinding(fv *ssa.FreeVar) ssa.Value {
	fn := fv.Parent()
	idx := -1
	for i, v := range fn.FreeVars {
		if v == fv {
			idx = i
		}
	}
	if idx < 0 || fn.Parent() == nil {
		return nil
	}
	var out ssa.Value
	km.Instrs(fn.Parent(), func(in ssa.Instruction) {
		if mc, ok := in.(*ssa.MakeClosure); ok && mc.Fn == ssa.Value(fn) && idx < len(mc.Bindings) {
			out = mc.Bindings[idx]
		}
	})
	return out
}

// domainMatcherClosure: v is a closure func(domain string) bool whose every return is
// hostnameInDomain(<host of the parsed parameter>, domain)
func domainMatcherClosure(s *km.Sem, hp *ssa.Function, v ssa.Value) bool {
	mc, ok := km.Unwrap(v).(*ssa.MakeClosure)
	if !ok {
		return false
	}
	fn, ok := mc.Fn.(*ssa.Function)
	if !ok || len(fn.Params) != 1 {
		return false
	}
	n := 0
	for _, rc := range s.RetCases(fn) {
		cl, idx := callRes(km.Unwrap(rc.Results[0]))
		if cl == nil || idx != 0 {
			return false
		}
		h, d, isHP := hpCall(s, hp, cl.Common())
		if !isHP || !hostOfParsedParam(h, 0) || km.Unwrap(d) != ssa.Value(km.ParamAt(fn, 0)) {
			return false
		}
		n++
	}
	return n > 0
}

// domainMatchFact: the fact says the host of the parsed parameter is inside a configured domain
func domainMatchFact(s *km.Sem, hp *ssa.Function, f km.Fact) bool {
	return domainMatchFactR(s, hp, f, func(v ssa.Value) ssa.Value { return km.Unwrap(v) })
}

// domainMatchFactR: as above, with the host operand resolved to the frame the question was asked in (a predicate
// helper receives the host as a parameter).
func domainMatchFactR(s *km.Sem, hp *ssa.Function, f km.Fact, resolve func(ssa.Value) ssa.Value) bool {
	if f.Op != token.ILLEGAL || !f.Pol {
		return false
	}
	cl, idx := callRes(f.X)
	if cl == nil || idx != 0 {
		return false
	}
	if h, d, isHP := hpCall(s, hp, cl.Common()); isHP {
		return hostOfParsedParam(resolve(h), 0) && isElemOfField(d, "AllowedRedirectDomains")
	}
	name := km.CalleeFull(cl.Common())
	if i := strings.Index(name, "["); i > 0 {
		name = name[:i]
	}
	if name == "slices.ContainsFunc" && len(cl.Common().Args) == 2 {
		return mentionsField(cl.Common().Args[0], "AllowedRedirectDomains") && domainMatcherClosure(s, hp, cl.Common().Args[1])
	}
	// a helper that runs the shared predicate over a list it is given
	if hi, li, ok := anyDomainPredicate(s, hp, km.StaticCallee(cl.Common())); ok {
		a := km.CallArgs(cl.Common())
		if hi < len(a) && li < len(a) {
			return hostOfParsedParam(resolve(a[hi]), 0) && mentionsField(resolve(a[li]), "AllowedRedirectDomains")
		}
	}
	return false
}

// anyDomainPredicate recognises a module function g(..., host, ..., list, ...) bool (the list may be the receiver)
// that can return true only when the shared host predicate hp accepted (host parameter, an element of the list
// parameter): a loop over the list returning true under hp(host, element), or slices.ContainsFunc(list, closure)
// with a closure that returns hp(host, its parameter). Returns the indices of the host and list parameters.
func anyDomainPredicate(s *km.Sem, hp *ssa.Function, g *ssa.Function) (int, int, bool) {
	if g == nil || g == hp || g.Blocks == nil {
		return 0, 0, false
	}
	res := g.Signature.Results()
	if res.Len() != 1 || res.At(0).Type().String() != "bool" {
		return 0, 0, false
	}
	pidx := func(v ssa.Value) int {
		v = km.CellOrigin(km.Unwrap(v))
		for i, p := range g.Params {
			if ssa.Value(p) == v {
				return i
			}
		}
		return -1
	}
	hi, li := -1, -1
	set := func(h, l int) bool {
		if h < 0 || l < 0 || (hi >= 0 && (hi != h || li != l)) {
			return false
		}
		hi, li = h, l
		return true
	}
	nTrue := 0
	for _, rc := range s.RetCases(g) {
		v := km.Unwrap(rc.Results[0])
		if km.ValStr(v) == "false" {
			continue
		}
		nTrue++
		// library form: the result is ContainsFunc(list, closure{hp(host, p)})
		if cl, ok := v.(*ssa.Call); ok {
			name := km.CalleeFull(cl.Common())
			if i := strings.Index(name, "["); i > 0 {
				name = name[:i]
			}
			if name == "slices.ContainsFunc" && len(cl.Common().Args) == 2 {
				mc, isMC := km.Unwrap(cl.Common().Args[1]).(*ssa.MakeClosure)
				if !isMC {
					return 0, 0, false
				}
				h := mc.Fn.(*ssa.Function)
				if len(h.Params) != 1 {
					return 0, 0, false
				}
				okAll := false
				for _, hr := range s.RetCases(h) {
					hc, idx := callRes(km.Unwrap(hr.Results[0]))
					if hc == nil || idx != 0 {
						return 0, 0, false
					}
					hArg, dArg, isHP := hpCall(s, hp, hc.Common())
					if !isHP || km.Unwrap(dArg) != ssa.Value(km.ParamAt(h, 0)) {
						return 0, 0, false
					}
					// the host: a captured variable bound to a parameter of g
					hv := km.Unwrap(hArg)
					if u, isU := hv.(*ssa.UnOp); isU {
						hv = u.X
					}
					hostIdx := -1
					for fi, fv := range h.FreeVars {
						if ssa.Value(fv) == hv && fi < len(mc.Bindings) {
							hostIdx = pidx(mc.Bindings[fi])
						}
					}
					if !set(hostIdx, pidx(cl.Common().Args[0])) {
						return 0, 0, false
					}
					okAll = true
				}
				if !okAll {
					return 0, 0, false
				}
				continue
			}
		}
		// loop form: every path on which the result can be true carries hp(host param, element of list param)
		for _, k := range rc.State {
			kk, may := s.TrueFacts(k, v)
			if !may {
				continue
			}
			found := false
			for _, f := range kk.List() {
				if f.Op != token.ILLEGAL || !f.Pol {
					continue
				}
				hc, idx := callRes(f.X)
				if hc == nil || idx != 0 {
					continue
				}
				hArg, dArg, isHP := hpCall(s, hp, hc.Common())
				if !isHP {
					continue
				}
				u, isU := km.Unwrap(dArg).(*ssa.UnOp)
				if !isU {
					continue
				}
				ia, isIA := u.X.(*ssa.IndexAddr)
				if !isIA {
					continue
				}
				if set(pidx(hArg), pidx(ia.X)) {
					found = true
				}
			}
			if !found {
				return 0, 0, false
			}
		}
	}
	if nTrue == 0 || hi < 0 {
		return 0, 0, false
	}
	return hi, li, true
}

func lenZeroFact(f km.Fact, field string) bool {
	if cl, ok := f.X.(*ssa.Call); ok {
		if b, ok := cl.Common().Value.(*ssa.Builtin); ok && b.Name() == "len" && mentionsField(cl.Common().Args[0], field) {
			if i, isC := km.ConstInt(f.Y); isC && ((f.Op == token.LSS && i == 1) || (f.Op == token.LEQ && i == 0) || (f.Op == token.EQL && i == 0)) {
				return true
			}
		}
	}
	return false
}

// hostPredWrapper recognises a module function w(..., host, ..., domain, ...) bool that is at most as permissive as
// the shared host predicate: every path on which it can return true carries hp(host parameter, domain parameter).
var hostPredWrapperMemo = map[*ssa.Function][3]int{}

func hostPredWrapper(s *km.Sem, hp, g *ssa.Function) (int, int, bool) {
	if g == nil || g == hp || g.Blocks == nil {
		return 0, 0, false
	}
	if m, ok := hostPredWrapperMemo[g]; ok {
		return m[0], m[1], m[2] == 1
	}
	hostPredWrapperMemo[g] = [3]int{0, 0, 0}
	res := g.Signature.Results()
	if res.Len() != 1 || res.At(0).Type().String() != "bool" {
		return 0, 0, false
	}
	pidx := func(v ssa.Value) int {
		v = km.CellOrigin(km.Unwrap(v))
		for i, p := range g.Params {
			if ssa.Value(p) == v {
				return i
			}
		}
		return -1
	}
	hi, di, nTrue := -1, -1, 0
	for _, rc := range s.RetCases(g) {
		v := km.Unwrap(rc.Results[0])
		if km.ValStr(v) == "false" {
			continue
		}
		nTrue++
		for _, k := range rc.State {
			kk, may := s.TrueFacts(k, v)
			if !may {
				continue
			}
			found := false
			for _, f := range kk.List() {
				if f.Op != token.ILLEGAL || !f.Pol {
					continue
				}
				hc, idx := callRes(f.X)
				if hc == nil || idx != 0 || km.StaticCallee(hc.Common()) != hp {
					continue
				}
				h, d := pidx(hc.Common().Args[0]), pidx(hc.Common().Args[1])
				if h >= 0 && d >= 0 && (hi < 0 || (hi == h && di == d)) {
					hi, di, found = h, d, true
				}
			}
			if !found {
				return 0, 0, false
			}
		}
	}
	if nTrue == 0 || hi < 0 {
		return 0, 0, false
	}
	hostPredWrapperMemo[g] = [3]int{hi, di, 1}
	return hi, di, true
}

// hpCall: cl calls the shared host predicate, or a wrapper that is at most as permissive; returns the host and the
// domain operands.
func hpCall(s *km.Sem, hp *ssa.Function, cc *ssa.CallCommon) (ssa.Value, ssa.Value, bool) {
	g := km.StaticCallee(cc)
	if g == nil {
		return nil, nil, false
	}
	if g == hp {
		return cc.Args[0], cc.Args[1], true
	}
	if hi, di, ok := hostPredWrapper(s, hp, g); ok {
		a := km.CallArgs(cc)
		if hi < len(a) && di < len(a) {
			return a[hi], a[di], true
		}
	}
	return nil, nil, false
}

// isDotBeforeSuffix: v is host[len(host)-len(domain)-1] == '.', on a path that knows HasSuffix(host, domain) and
// host != domain: the byte in front of the matched suffix is a dot, which is HasSuffix(host, "."+domain) without
// the concatenation.
func isDotBeforeSuffix(v ssa.Value, host, dom ssa.Value, k km.Conj) bool {
	b, ok := km.Unwrap(v).(*ssa.BinOp)
	if !ok || b.Op != token.EQL {
		return false
	}
	ch, isC := km.ConstInt(b.Y)
	ix, isIx := b.X.(*ssa.Index)
	if !isC || ch != '.' || !isIx || km.Unwrap(ix.X) != host {
		return false
	}
	isLen := func(x ssa.Value, of ssa.Value) bool {
		cl, ok := km.Unwrap(x).(*ssa.Call)
		return ok && km.CalleeFull(cl.Common()) == "builtin:len" && km.Unwrap(cl.Common().Args[0]) == of
	}
	// (len(host) - len(domain)) - 1
	outer, ok := km.Unwrap(ix.Index).(*ssa.BinOp)
	if !ok || outer.Op != token.SUB {
		return false
	}
	one, isOne := km.ConstInt(outer.Y)
	inner, isIn := km.Unwrap(outer.X).(*ssa.BinOp)
	if !isOne || one != 1 || !isIn || inner.Op != token.SUB || !isLen(inner.X, host) || !isLen(inner.Y, dom) {
		return false
	}
	suffix, differ := false, false
	for _, f := range k.List() {
		if f.Op == token.ILLEGAL && f.Pol {
			if cl, ok := f.X.(*ssa.Call); ok && km.CalleeFull(cl.Common()) == "strings.HasSuffix" && km.Unwrap(cl.Common().Args[0]) == host && km.Unwrap(cl.Common().Args[1]) == dom {
				suffix = true
			}
		}
		if f.Op == token.NEQ && ((km.Unwrap(f.X) == host && km.Unwrap(f.Y) == dom) || (km.Unwrap(f.X) == dom && km.Unwrap(f.Y) == host)) {
			differ = true
		}
	}
	return suffix && differ
}
