package rules

import (
	"go/token"
	"go/types"
	"sort"
	"strings"

	"kmcheck/internal/km"

	"golang.org/x/tools/go/ssa"
)

func init() { km.Register("C20", checkC20) }

const (
	notifierT   = "(*" + km.ModPath + "/keymasterd/eventnotifier.EventNotifier)."
	recorderPkg = km.ModPath + "/eventmon/eventrecorder"
)

var signingCalls = map[string]string{
	certgenPkg + ".GenSSHCertFileString":    "ssh",
	certgenPkg + ".GenUserX509Cert":         "x509",
	certgenPkg + ".GenIPRestrictedX509Cert": "x509",
	"crypto/x509.CreateCertificate":         "x509",
}

// Reference list of login / authentication event publications (function -> method -> count), confirmed on the
// pinned tree; a publication that disappears from a success path lowers the count.
var eventReference = map[string]map[string]int{
	"loginHandler":                   {"PublishAuthEvent": 1, "PublishWebLoginEvent": 1},
	"VIPAuthHandler":                 {"PublishVIPAuthEvent": 1, "PublishWebLoginEvent": 1},
	"VIPPollCheckHandler":            {"PublishVIPAuthEvent": 1},
	"u2fSignResponse":                {"PublishAuthEvent": 2, "PublishWebLoginEvent": 2},
	"webauthnAuthFinish":             {"PublishAuthEvent": 1, "PublishWebLoginEvent": 1},
	"Okta2FAuthHandler":              {"PublishWebLoginEvent": 1},
	"BootstrapOtpAuthHandler":        {"PublishWebLoginEvent": 1},
	"oauth2RedirectPathHandler":      {"PublishWebLoginEvent": 1},
	"idpOpenIDCAuthorizationHandler": {"PublishServiceProviderLoginEvent": 1},
}

// derivesFromCallResult: v derives (loads, fields, conversions, Marshal of, PEM of) from result idx of call.
func derivesFromCallResult(v ssa.Value, call *ssa.Call, depth int) bool {
	if depth > 8 || v == nil {
		return false
	}
	v = km.Unwrap(v)
	if cl, _ := callRes(v); cl == call {
		return true
	}
	switch x := v.(type) {
	case *ssa.Call:
		for _, a := range km.CallArgs(x.Common()) {
			if derivesFromCallResult(a, call, depth+1) {
				return true
			}
		}
	case *ssa.Extract:
		return derivesFromCallResult(x.Tuple, call, depth+1)
	case *ssa.UnOp:
		return derivesFromCallResult(x.X, call, depth+1)
	case *ssa.Convert:
		return derivesFromCallResult(x.X, call, depth+1)
	case *ssa.FieldAddr:
		return derivesFromCallResult(x.X, call, depth+1)
	case *ssa.Alloc:
		for _, ref := range *x.Referrers() {
			switch r := ref.(type) {
			case *ssa.Store:
				if r.Addr == ssa.Value(x) && derivesFromCallResult(r.Val, call, depth+1) {
					return true
				}
			case *ssa.FieldAddr:
				for _, r2 := range *r.Referrers() {
					if st, ok := r2.(*ssa.Store); ok && derivesFromCallResult(st.Val, call, depth+1) {
						return true
					}
				}
			}
		}
	case *ssa.Slice:
		return derivesFromCallResult(x.X, call, depth+1)
	case *ssa.MakeInterface:
		return derivesFromCallResult(x.X, call, depth+1)
	}
	return false
}

func checkC20(c *km.Ctx) {
	r := c.R
	s := km.NewSem(c)
	r.Explain = "Static analysis of /repo: for every certificate signing call in keymasterd a PublishSSH/PublishX509 call in the same function is dominated by the signing call's success edge, takes bytes derived from that very signing result, and dominates every point where the certificate leaves the function (response write or return of the bytes); the login / service-provider / authentication event publications are enumerated and compared with the reference list; in the event notifier every fan-out send happens in a non-blocking select, the loop over subscribers is left only at its end, and subscriber channels are buffered; in the event recorder the loader's linking orientation agrees with the saver's walk (first saved = newest), loaded nodes are doubly linked, and load and expiry use the same retention constant. Decides structure; delivery to a given subscriber and file-system atomicity are not decided."
	r.NotDecided = []string{"delivery to a given subscriber (drops are by design)", "ordering between goroutines", "file-system atomicity of the renaming writer"}
	r.Assume = []string{"go/types + go/ssa model the source faithfully", "a non-blocking select never blocks the sender"}

	r.Rule("R-C20-1", "every signing call is followed, on its success path, by a publication of exactly the signed bytes that dominates every hand-out of the certificate", 2)
	r.Rule("R-C20-2", "login / authentication / service-provider events are published at every reference site; every field a publisher fills is read for that type, and each reported string reaches the field it is meant for", 5)
	r.Rule("R-C20-3", "fan-out never blocks and never skips: sends only inside non-blocking selects, the subscriber loop is left only at its end, subscriber channels are buffered", 2)
	r.Rule("R-C20-4", "history order and retention: the loader links successive saved events at the oldest end (first saved = newest, matching the saver's newest-first walk) with both links set; loader and expiry use the same retention constant; loader and saver keep each history under its own key", 2)

	// ---------- R-C20-1
	nSign := 0
	// only signing performed on behalf of requests: functions reachable from a route (plus the generator handed to
	// the AWS identity issuer); configuration generation (-generateConfig) signs with throw-away keys
	var roots []*ssa.Function
	for _, rt := range c.Routes {
		if rt.Handler != nil {
			roots = append(roots, rt.Handler)
		}
	}
	if g := c.P.Func("cmd/keymasterd", "(*RuntimeState).generateRoleCert"); g != nil {
		roots = append(roots, g)
	}
	served := reachableFrom(c, nil, roots...)
	for _, fn := range c.P.AllFuncs {
		if fn.Pkg == nil || !pkgIsKMD(fn.Pkg) || !served[fn] {
			continue
		}
		for _, ci := range km.CallsIn(fn) {
			kind, ok := signingCalls[km.CalleeFull(ci.Common())]
			if !ok {
				continue
			}
			sign, isCall := ci.(*ssa.Call)
			if !isCall {
				continue
			}
			nSign++
			errIdx := sign.Common().Signature().Results().Len() - 1
			signOK := primErrNilCall("signed", sign, errIdx)
			want := notifierT + map[string]string{"ssh": "PublishSSH", "x509": "PublishX509"}[kind]
			var pub ssa.CallInstruction
			for _, c2 := range km.CallsIn(fn) {
				if km.CalleeFull(c2.Common()) == want && km.InstrDominates(sign, c2) {
					a := km.CallArgs(c2.Common())
					if publishedIsCanonical(kind, a[1], sign) {
						pub = c2
					}
				}
			}
			if pub == nil && kind == "x509" && !c.P.IsRecorded(fn) && len(c.G.Callers[fn]) > 0 {
				// a signing stage new to the tree that hands the signed bytes back: the function it was cut out of
				// publishes them - at every call of the stage, on its success edge, before every hand-out
				ri := -1
				for _, rc := range s.RetCases(fn) {
					for i, rv := range rc.Results {
						if cl, idx := callRes(km.Unwrap(rv)); cl == sign && idx == 0 {
							ri = i
						}
					}
				}
				okAll, why := ri >= 0, "the stage does not hand back the signed bytes"
				for _, cs := range c.G.Callers[fn] {
					gcall, isCall := cs.Instr.(*ssa.Call)
					if !isCall || ri < 0 {
						okAll = false
						continue
					}
					var pub2 ssa.CallInstruction
					for _, c2 := range km.CallsIn(cs.Caller) {
						if km.CalleeFull(c2.Common()) == want && km.InstrDominates(gcall, c2) {
							if cl, idx := callRes(km.Unwrap(km.CallArgs(c2.Common())[1])); cl == gcall && idx == ri {
								pub2 = c2
							}
						}
					}
					if pub2 == nil {
						okAll, why = false, "no publication of the stage's result in "+km.FuncName(cs.Caller)
						continue
					}
					if !c.F.At(pub2).All(func(k km.Conj) bool { return s.Holds(k, signOK) }) {
						okAll, why = false, "publication in "+km.FuncName(cs.Caller)+" is not dominated by the signing call's err == nil edge"
					}
					for _, c3 := range km.CallsIn(cs.Caller) {
						n3 := km.CalleeFull(c3.Common())
						isBody := (n3 == "fmt.Fprintf" || (c3.Common().IsInvoke() && c3.Common().Method.Name() == "Write")) && len(c3.Common().Args) > 0
						if !isBody || !km.InstrDominates(gcall, c3) {
							continue
						}
						for _, a := range c3.Common().Args {
							if (derivesFromCallResult(a, gcall, 0) || derivesFromVariadic(a, gcall)) && !km.InstrDominates(pub2, c3) {
								okAll, why = false, "response written at "+posOf(c, c3)+" before/without the publication"
							}
						}
					}
				}
				if okAll {
					why = "published by the caller of the signing stage, on its success edge, before every hand-out"
				}
				r.Add("R-C20-1", km.FuncName(fn), "publish after "+short(km.CalleeFull(ci.Common())), posOf(c, ci), short(want)+"(bytes of the certificate just signed) dominated by err == nil and dominating every hand-out", why, okAll)
				continue
			}
			if pub == nil {
				r.Add("R-C20-1", km.FuncName(fn), "publish after "+short(km.CalleeFull(ci.Common())), posOf(c, ci), short(want)+"(bytes of the certificate just signed) on the success path", "no such publication in this function", false)
				continue
			}
			onSuccess := c.F.At(pub).All(func(k km.Conj) bool { return s.Holds(k, signOK) })
			// hand-outs: response writes and returns of data derived from the signing result
			handoutsOK := true
			why := ""
			for _, c3 := range km.CallsIn(fn) {
				n3 := km.CalleeFull(c3.Common())
				isBody := (n3 == "fmt.Fprintf" || (c3.Common().IsInvoke() && c3.Common().Method.Name() == "Write")) && len(c3.Common().Args) > 0
				if !isBody || !km.InstrDominates(sign, c3) {
					continue
				}
				for _, a := range c3.Common().Args {
					if derivesFromCallResult(a, sign, 0) || derivesFromVariadic(a, sign) {
						if !km.InstrDominates(pub, c3) {
							handoutsOK, why = false, "response written at "+posOf(c, c3)+" before/without the publication"
						}
					}
				}
			}
			for _, rc := range s.RetCases(fn) {
				for _, rv := range rc.Results {
					if derivesFromCallResult(rv, sign, 0) && !km.IsNilConst(rc.Results[len(rc.Results)-1]) == false {
						if !km.InstrDominates(pub, rc.Ret) {
							handoutsOK, why = false, "certificate returned at "+posOf(c, rc.Ret)+" without the publication"
						}
					}
				}
			}
			found := "published on the success path with the signed bytes, before every hand-out"
			if !onSuccess {
				found = "publication is not dominated by the signing call's err == nil edge"
			} else if !handoutsOK {
				found = why
			}
			r.Add("R-C20-1", km.FuncName(fn), "publish after "+short(km.CalleeFull(ci.Common())), posOf(c, ci), short(want)+"(bytes of the certificate just signed) dominated by err == nil and dominating every hand-out", found, onSuccess && handoutsOK)
		}
	}
	if nSign < 4 {
		r.AnchorLost("R-C20-1", sprintf("signing calls in cmd/keymasterd (found %d)", nSign))
	}

	// ---------- R-C20-2
	// publications reachable from a handler: in the handler itself (closures included) or in helpers it calls
	// (not other route handlers), each call site of a helper counting for what the helper publishes
	isHandler := map[*ssa.Function]bool{}
	for _, rt := range c.Routes {
		if rt.Handler != nil {
			isHandler[rt.Handler] = true
		}
	}
	pos := map[string]string{}
	var count func(fn *ssa.Function, top string, depth int) map[string]int
	count = func(fn *ssa.Function, top string, depth int) map[string]int {
		out := map[string]int{}
		fns := append([]*ssa.Function{fn}, fn.AnonFuncs...)
		for _, f2 := range fns {
			for _, ci := range km.CallsIn(f2) {
				n := km.CalleeFull(ci.Common())
				if strings.HasPrefix(n, notifierT+"Publish") && !strings.HasSuffix(n, "PublishSSH") && !strings.HasSuffix(n, "PublishX509") {
					m := strings.TrimPrefix(n, notifierT)
					out[m]++
					if pos[top+"."+m] == "" {
						pos[top+"."+m] = posOf(c, ci)
					}
					continue
				}
				if depth < 2 {
					if g := km.StaticCallee(ci.Common()); g != nil && g.Blocks != nil && g.Pkg != nil && pkgIsKMD(g.Pkg) && !isHandler[g] && g != fn {
						for m, k := range count(g, top, depth+1) {
							out[m] += k
						}
					}
				}
			}
		}
		return out
	}
	got := map[string]map[string]int{}
	for f := range eventReference {
		if fn := c.P.Func("cmd/keymasterd", "(*RuntimeState)."+f); fn != nil {
			got[f] = count(fn, f, 0)
		}
	}
	var fnNames []string
	for f := range eventReference {
		fnNames = append(fnNames, f)
	}
	sort.Strings(fnNames)
	for _, f := range fnNames {
		var ms []string
		for m := range eventReference[f] {
			ms = append(ms, m)
		}
		sort.Strings(ms)
		for _, m := range ms {
			want := eventReference[f][m]
			have := got[f][m]
			p := pos[f+"."+m]
			if p == "" {
				p = "-"
			}
			okN := have >= want
			found := sprintf("%d", have)
			if !okN && have >= 1 {
				// duplicated success blocks merged into one: fewer publication sites than in the reference is fine
				// when every point at which the handler raises or creates the session is followed by one
				if fn := c.P.Func("cmd/keymasterd", "(*RuntimeState)."+f); fn != nil {
					var succ, pubs []ssa.CallInstruction
					for _, ci := range km.CallsIn(fn) {
						switch n := km.CalleeFull(ci.Common()); {
						case n == RS+"updateAuthCookieAuthlevel" || n == RS+"setNewAuthCookie":
							succ = append(succ, ci)
						case n == notifierT+m:
							pubs = append(pubs, ci)
						}
					}
					all := len(succ) > 0
					for _, sc := range succ {
						one := false
						for _, pb := range pubs {
							// the publication goes with this success point: one dominates the other, or the
							// publication sits in a conditional (only for browser requests) right before / after it
							near := func(a, b ssa.Instruction) bool {
								if km.InstrDominates(a, b) {
									return true
								}
								d := a.Block().Idom()
								return d != nil && d.Dominates(b.Block()) && km.ReachableBlocks(a.Block(), nil)[b.Block()] && len(d.Succs) == 2
							}
							if near(sc, pb) || near(pb, sc) {
								one = true
							}
						}
						if !one {
							all = false
						}
					}
					if all {
						okN = true
						found = sprintf("%d, one after each of the %d points where the session is raised", have, len(succ))
					}
				}
			}
			r.Add("R-C20-2", "cmd/keymasterd."+f, m, p, sprintf("%d publication(s) of %s in %s (reference)", want, m, f), found, okN)
		}
	}

	// ---------- R-C20-3
	for _, name := range []string{"(*EventNotifier).publishCert", "(*EventNotifier).transmitEvent"} {
		fn := c.MustFunc("R-C20-3", "keymasterd/eventnotifier", name)
		if fn == nil {
			continue
		}
		nSel, okSel := 0, true
		var next *ssa.Next
		// the send may live in a small helper new to the tree (a method of the subscriber)
		instrsWithNewHelpers(c, fn, 2, func(in ssa.Instruction) {
			switch x := in.(type) {
			case *ssa.Select:
				nSel++
				if x.Blocking {
					okSel = false
				}
			case *ssa.Send:
				okSel = false // a bare send can block while the mutex is held
			case *ssa.Next:
				if in.Parent() == fn {
					next = x
				}
			}
		})
		if nSel > 0 || strings.HasSuffix(name, "transmitEvent") {
			r.Add("R-C20-3", km.FuncName(fn), "non-blocking sends", c.P.Pos(fn.Pos()), "every send to a subscriber is a select with a default arm", sprintf("selects=%d all-non-blocking=%v", nSel, okSel), nSel > 0 && okSel)
		}
		if next != nil {
			// loop left only at its end: every Return is dominated by the range's done edge
			var done *ssa.BasicBlock
			for _, ref := range *next.Referrers() {
				if ex, ok := ref.(*ssa.Extract); ok && ex.Index == 0 {
					for _, r2 := range *ex.Referrers() {
						if iff, ok := r2.(*ssa.If); ok {
							done = iff.Block().Succs[1]
						}
					}
				}
			}
			okLoop := done != nil
			km.Instrs(fn, func(in ssa.Instruction) {
				if ret, ok := in.(*ssa.Return); ok && done != nil && !done.Dominates(ret.Block()) && fnReachable(fn, ret.Block()) {
					okLoop = false
				}
				if _, ok := in.(*ssa.Panic); ok {
					okLoop = false
				}
			})
			r.Add("R-C20-3", km.FuncName(fn), "every subscriber is visited", c.P.Pos(fn.Pos()), "the loop over subscriber channels is left only when the range is exhausted (a full queue skips one subscriber, not the rest)", sprintf("%v", okLoop), okLoop)
		}
	}
	if fn := c.MustFunc("R-C20-3", "keymasterd/eventnotifier", "(*EventNotifier).publishCert"); fn != nil {
		// publishCert either fans out itself or delegates to transmitEvent
		has := false
		instrsWithNewHelpers(c, fn, 2, func(in ssa.Instruction) {
			if _, ok := in.(*ssa.Select); ok {
				has = true
			}
			if ci, ok := in.(ssa.CallInstruction); ok && strings.HasSuffix(km.CalleeFull(ci.Common()), "transmitEvent") {
				has = true
			}
		})
		r.Add("R-C20-3", km.FuncName(fn), "certificates are fanned out", c.P.Pos(fn.Pos()), "publishCert sends the event to the subscribers (directly or through transmitEvent)", sprintf("%v", has), has)
	}
	{
		n := 0
		for _, fn := range c.P.AllFuncs {
			if fn.Pkg == nil || fn.Pkg.Pkg.Path() != km.ModPath+"/keymasterd/eventnotifier" {
				continue
			}
			km.Instrs(fn, func(in ssa.Instruction) {
				if mk, ok := in.(*ssa.MakeChan); ok && strings.Contains(mk.Type().String(), "EventV0") {
					n++
					sz, isC := km.ConstInt(mk.Size)
					r.Add("R-C20-3", km.FuncName(fn), "subscriber channel capacity", posOf(c, in), "buffered (capacity >= 1)", sprintf("%d", sz), isC && sz >= 1)
				}
			})
		}
		if n == 0 {
			r.AnchorLost("R-C20-3", "subscriber channel creation in the event notifier")
		}
	}
	// every registration in the subscriber table is made under a key created for that one connection (a value
	// made in the registering call: the channel itself), and only that key is removed again: a key taken from
	// the request (peer address, name) lets two connections replace or unregister one another
	// the subscriber table: the map-typed field of the notifier that the fan-out ranges over (whatever its name)
	subsField := "transmitChannels"
	if te := c.P.Func("keymasterd/eventnotifier", "(*EventNotifier).transmitEvent"); te != nil {
		km.Instrs(te, func(in ssa.Instruction) {
			if rg, ok := in.(*ssa.Range); ok {
				if _, isMap := rg.X.Type().Underlying().(*types.Map); isMap {
					if root, path, ok := km.FieldPath(km.Unwrap(rg.X)); ok && !strings.Contains(path, ".") && strings.HasSuffix(km.NamedTypeOf(root.Type()), "eventnotifier.EventNotifier") {
						subsField = path
					}
				}
			}
		})
	}
	nReg := 0
	for _, fn := range c.P.AllFuncs {
		if fn.Pkg == nil || fn.Pkg.Pkg.Path() != km.ModPath+"/keymasterd/eventnotifier" {
			continue
		}
		top := fn
		for top.Parent() != nil {
			top = top.Parent()
		}
		var freshAt func(v ssa.Value, fn, top *ssa.Function, depth int) bool
		freshIn := func(v ssa.Value) bool { return freshAt(v, fn, top, 0) }
		freshAt = func(v ssa.Value, fn, top *ssa.Function, depth int) bool {
			v = km.Unwrap(v)
			for i := 0; i < 3; i++ {
				switch x := v.(type) {
				case *ssa.ChangeType:
					v = km.Unwrap(x.X)
					continue
				case *ssa.MakeInterface:
					v = km.Unwrap(x.X)
					continue
				case *ssa.UnOp:
					// a variable cell (captured by a closure, here or in the enclosing function): its single store
					cell := km.Unwrap(x.X)
					if fv, ok := cell.(*ssa.FreeVar); ok {
						if b := freeVarBinding(fv); b != nil {
							cell = km.Unwrap(b)
						}
					}
					if a, ok := cell.(*ssa.Alloc); ok {
						var stored ssa.Value
						nst := 0
						for _, ref := range *a.Referrers() {
							if st, ok := ref.(*ssa.Store); ok && st.Addr == ssa.Value(a) {
								stored, nst = st.Val, nst+1
							}
						}
						if nst == 1 {
							v = km.Unwrap(stored)
							continue
						}
					}
				case *ssa.FreeVar:
					if b := freeVarBinding(x); b != nil {
						v = km.Unwrap(b)
						continue
					}
				}
				break
			}
			switch x := v.(type) {
			case *ssa.MakeChan:
				return x.Parent() == top || x.Parent() == fn
			case *ssa.Alloc:
				return x.Heap && (x.Parent() == top || x.Parent() == fn)
			case *ssa.Call:
				// a constructor that makes the channel (and may register it) and hands it back
				g := km.StaticCallee(x.Common())
				if g == nil || g.Blocks == nil || !c.InModule(g) || depth >= 2 {
					return false
				}
				nRet := 0
				okAll := true
				km.Instrs(g, func(in ssa.Instruction) {
					if ret, ok := in.(*ssa.Return); ok {
						if g.Recover != nil && ret.Block() == g.Recover {
							return // the synthetic return after a recovered panic
						}
						nRet++
						rv := km.Unwrap(km.ReturnValues(ret)[0])
						if ct, ok := rv.(*ssa.ChangeType); ok {
							rv = km.Unwrap(ct.X)
						}
						if mk, ok := rv.(*ssa.MakeChan); !ok || mk.Parent() != g {
							okAll = false
						}
					}
				})
				return okAll && nRet > 0
			case *ssa.Parameter:
				// a registering helper: every caller hands in a value it created itself
				if depth >= 2 {
					return false
				}
				idx := -1
				for i, q := range fn.Params {
					if q == x {
						idx = i
					}
				}
				sites := c.G.Callers[fn]
				if idx < 0 || len(sites) == 0 {
					return false
				}
				for _, cs := range sites {
					ci, ok := cs.Instr.(ssa.CallInstruction)
					if !ok {
						return false
					}
					args := km.CallArgs(ci.Common())
					ctop := cs.Caller
					for ctop.Parent() != nil {
						ctop = ctop.Parent()
					}
					if idx >= len(args) || !freshAt(args[idx], cs.Caller, ctop, depth+1) {
						return false
					}
				}
				return true
			}
			return false
		}
		km.Instrs(fn, func(in ssa.Instruction) {
			if mu, ok := in.(*ssa.MapUpdate); ok && mentionsField(mu.Map, subsField) {
				nReg++
				r.Add("R-C20-3", km.FuncName(fn), "subscriber registered under a per-connection key", posOf(c, in), "the key is a value created by the registering call (the connection's own channel)", km.ValStr(mu.Key), freshIn(mu.Key))
			}
			if cl, ok := in.(*ssa.Call); ok {
				if b, ok := cl.Common().Value.(*ssa.Builtin); ok && b.Name() == "delete" && mentionsField(cl.Common().Args[0], subsField) {
					r.Add("R-C20-3", km.FuncName(fn), "subscriber unregistered by its own key", posOf(c, in), "the key is the value created by the registering call", km.ValStr(cl.Common().Args[1]), freshIn(cl.Common().Args[1]))
				}
			}
		})
	}
	if nReg == 0 {
		r.AnchorLost("R-C20-3", "registration into the subscriber table")
	}

	checkFlushPerEvent(c)
	checkEventFieldsAgree(c, "R-C20-2")
	// ---------- R-C20-4
	checkHistory(c, s)
	checkHistoryFileReplace(c)
	if fn := c.P.Func("eventmon/eventrecorder", "loadEvents"); fn != nil {
		// a history file that does not decode is an error the daemon reports, not an empty history it starts from
		// (the next save would overwrite what is left of the file)
		if n := checkErrorAborts(c, "R-C20-4", fn, "(*encoding/gob.Decoder).Decode", 0, "history file that does not decode"); n == 0 {
			r.AnchorLost("R-C20-4", "decoding of the history file in loadEvents")
		}
		// every saved event is looked at: an entry past retention is skipped, it does not end the scan (the saved
		// order is not an order by time after a clock step or in a file written by an earlier release)
		early := loopLeftEarly(c, fn)
		r.Add("R-C20-4", km.FuncName(fn), "every saved event is examined", c.P.Pos(fn.Pos()), "the loops over the saved history end only when exhausted or with an error", early, early == "")
	}
	// a user's history stays under that user's name: loader and saver copy each list under the key it had (the
	// recorder files new events under the name as reported, so a folded key splits or merges histories)
	for _, name := range []string{"loadEvents", "(*EventRecorder).getEventsList"} {
		fn := c.P.Func("eventmon/eventrecorder", name)
		if fn == nil {
			continue
		}
		nUpd, bad := 0, ""
		km.Instrs(fn, func(in ssa.Instruction) {
			mu, ok := in.(*ssa.MapUpdate)
			if !ok {
				return
			}
			if b, isB := mu.Key.Type().Underlying().(*types.Basic); !isB || b.Kind() != types.String {
				return
			}
			nUpd++
			ex, isEx := km.Unwrap(mu.Key).(*ssa.Extract)
			if isEx {
				if nx, isNx := ex.Tuple.(*ssa.Next); !isNx || nx.IsString || ex.Index != 1 {
					isEx = false
				}
			}
			if !isEx {
				bad = "filed under " + clipS(km.ValStr(mu.Key), 80) + " at " + posOf(c, in)
			}
		})
		if nUpd == 0 {
			r.AnchorLost("R-C20-4", "per-user map filled by "+name)
			continue
		}
		found := sprintf("%d map update(s), each under the key being iterated", nUpd)
		if bad != "" {
			found = bad
		}
		r.Add("R-C20-4", km.FuncName(fn), "history kept under the user's own name", c.P.Pos(fn.Pos()), "each list is copied under the key it was stored under, unmodified", found, bad == "")
	}
	checkSaveScheduled(c)
	checkEventsStamped(c)
}

// checkEventsStamped: retention drops entries by their creation time; an event filed without one (zero) is older
// than any retention and vanishes at the next save or expiry. Every event handed to recordEvent is stamped with
// the current time - by recordEvent itself, or by whoever built it.
func checkEventsStamped(c *km.Ctx) {
	re := c.MustFunc("R-C20-4", "eventmon/eventrecorder", "(*EventRecorder).recordEvent")
	if re == nil {
		return
	}
	rootOf := func(v ssa.Value) ssa.Value {
		for {
			switch x := v.(type) {
			case *ssa.FieldAddr:
				v = x.X
				continue
			case *ssa.UnOp:
				// a pointer kept in a cell
				if al, ok := x.X.(*ssa.Alloc); ok && x.Op == token.MUL {
					if o := km.CellOrigin(al); o != nil && o != ssa.Value(al) {
						v = km.Unwrap(o)
						continue
					}
				}
			}
			return km.Unwrap(v)
		}
	}
	isNow := func(v ssa.Value) bool {
		v = km.Unwrap(v)
		if cv, ok := v.(*ssa.Convert); ok {
			v = km.Unwrap(cv.X)
		}
		return isNowUnix(v)
	}
	// stamped: f stores now() into the CreateTime of obj, or into a local record that is then copied whole into obj
	stamped := func(f *ssa.Function, obj ssa.Value) bool {
		obj = km.Unwrap(obj)
		ok := false
		km.Instrs(f, func(in ssa.Instruction) {
			st, isSt := in.(*ssa.Store)
			if !isSt {
				return
			}
			fa, isFA := st.Addr.(*ssa.FieldAddr)
			if !isFA || fieldNameOf(fa) != "CreateTime" || !isNow(st.Val) {
				return
			}
			root := rootOf(fa)
			if root == obj {
				ok = true
				return
			}
			// the local record is loaded and stored into a field of obj afterwards
			if al, isAl := root.(*ssa.Alloc); isAl {
				for _, ref := range *al.Referrers() {
					if ld, isLd := ref.(*ssa.UnOp); isLd && ld.Op == token.MUL {
						for _, r2 := range *ld.Referrers() {
							if s2, isS2 := r2.(*ssa.Store); isS2 && s2.Val == ssa.Value(ld) && rootOf(s2.Addr) == obj && km.InstrDominates(st, s2) {
								ok = true
							}
						}
					}
				}
			}
		})
		return ok
	}
	evParam := km.ParamAt(re, 2)
	if evParam != nil && stamped(re, evParam) {
		c.R.Add("R-C20-4", km.FuncName(re), "every recorded event carries its creation time", c.P.Pos(re.Pos()), "CreateTime = now, set by recordEvent or by the builder of every event handed to it", "recordEvent stamps the event it is handed", true)
		return
	}
	n := 0
	for _, cs := range c.G.Callers[re] {
		ci, ok := cs.Instr.(ssa.CallInstruction)
		if !ok {
			continue
		}
		n++
		a := km.CallArgs(ci.Common())
		good, how := false, "not stamped"
		if len(a) > 2 && a[2] != nil {
			ev := km.Unwrap(a[2])
			if o := km.CellOrigin(ev); o != nil {
				ev = km.Unwrap(o)
			}
			if stamped(cs.Caller, ev) {
				good, how = true, "stamped by the caller"
			} else if cl, isC := ev.(*ssa.Call); isC {
				if g := km.StaticCallee(cl.Common()); g != nil && len(g.Blocks) > 0 && c.InModule(g) {
					all, nRet := true, 0
					km.Instrs(g, func(in ssa.Instruction) {
						if ret, isRet := in.(*ssa.Return); isRet && len(ret.Results) > 0 {
							nRet++
							if !stamped(g, ret.Results[0]) {
								all = false
							}
						}
					})
					if all && nRet > 0 {
						good, how = true, "stamped by "+km.NameOf(g)
					}
				}
			}
		}
		c.R.Add("R-C20-4", km.FuncName(cs.Caller), "every recorded event carries its creation time", posOf(c, cs.Instr), "CreateTime = now, set by recordEvent or by the builder of every event handed to it", how, good)
	}
	if n == 0 {
		c.R.AnchorLost("R-C20-4", "callers of recordEvent")
	}
}

func fnReachable(fn *ssa.Function, b *ssa.BasicBlock) bool {
	return km.ReachableBlocks(fn.Blocks[0], nil)[b]
}

func derivesFromVariadic(a ssa.Value, call *ssa.Call) bool {
	sl, ok := km.Unwrap(a).(*ssa.Slice)
	if !ok {
		return false
	}
	al, ok := sl.X.(*ssa.Alloc)
	if !ok {
		return false
	}
	for _, ref := range *al.Referrers() {
		if ia, ok := ref.(*ssa.IndexAddr); ok {
			for _, r2 := range *ia.Referrers() {
				if st, ok := r2.(*ssa.Store); ok && derivesFromCallResult(st.Val, call, 0) {
					return true
				}
			}
		}
	}
	return false
}

func checkHistory(c *km.Ctx, s *km.Sem) {
	r := c.R
	saver := c.MustFunc("R-C20-4", "eventmon/eventrecorder", "(*EventRecorder).getEventsList")
	loader := c.MustFunc("R-C20-4", "eventmon/eventrecorder", "loadEvents")
	expire := c.MustFunc("R-C20-4", "eventmon/eventrecorder", "(*EventRecorder).expireOldEvents")
	if saver == nil || loader == nil || expire == nil {
		return
	}
	listT := recorderPkg + ".eventsListType"
	evT := recorderPkg + ".eventType"
	// saver orientation: the walk starts at .newest and steps through .older  => newest first
	startsNewest, stepsOlder := false, false
	km.Instrs(saver, func(in ssa.Instruction) {
		if phi, ok := in.(*ssa.Phi); ok && km.NamedTypeOf(phi.Type()) == evT {
			for _, e := range phi.Edges {
				if fieldLoadOf(e, listT, "newest") {
					startsNewest = true
				}
				if fieldLoadOf(e, evT, "older") {
					stepsOlder = true
				}
			}
		}
	})
	r.Add("R-C20-4", km.FuncName(saver), "saver walks newest-first", c.P.Pos(saver.Pos()), "the saved slice starts at list.newest and follows .older", sprintf("starts-at-newest=%v steps-older=%v", startsNewest, stepsOlder), startsNewest && stepsOlder)

	// loader orientation
	var stNewest, stOldest []*ssa.Store
	var stNewerOfNew, stOlderOfPrev *ssa.Store
	// the loader together with the helpers of its own package it calls (the linking may live in a method of the
	// list type)
	loaderFam := []*ssa.Function{loader}
	for i := 0; i < len(loaderFam) && len(loaderFam) < 16; i++ {
		for _, ci := range km.CallsIn(loaderFam[i]) {
			g := km.StaticCallee(ci.Common())
			if g == nil || g.Blocks == nil || g.Pkg != loader.Pkg {
				continue
			}
			seen := false
			for _, h := range loaderFam {
				if h == g {
					seen = true
				}
			}
			if !seen {
				loaderFam = append(loaderFam, g)
			}
		}
	}
	inFam := func(fns []*ssa.Function, f func(ssa.Instruction)) {
		for _, fn := range fns {
			km.Instrs(fn, f)
		}
	}
	inFam(loaderFam, func(in ssa.Instruction) {
		st, ok := in.(*ssa.Store)
		if !ok {
			return
		}
		fa, ok := st.Addr.(*ssa.FieldAddr)
		if !ok {
			return
		}
		switch {
		case km.NamedTypeOf(fa.X.Type()) == listT && fieldNameOf(fa) == "newest":
			stNewest = append(stNewest, st)
		case km.NamedTypeOf(fa.X.Type()) == listT && fieldNameOf(fa) == "oldest":
			stOldest = append(stOldest, st)
		case km.NamedTypeOf(fa.X.Type()) == evT && fieldNameOf(fa) == "newer":
			if fieldLoadOf(st.Val, listT, "oldest") {
				stNewerOfNew = st
			}
		case km.NamedTypeOf(fa.X.Type()) == evT && fieldNameOf(fa) == "older":
			if fieldLoadOf(fa.X, listT, "oldest") || derivesFromFieldLoad(fa.X, listT, "oldest") {
				stOlderOfPrev = st
			}
		}
	})
	guardedByNil := func(st *ssa.Store, field string) bool {
		for _, f := range controllingFacts(c, st.Block()) {
			if f.Op == token.EQL && km.IsNilConst(f.Y) && fieldLoadOf(f.X, listT, field) {
				return true
			}
		}
		return false
	}
	orientOK := len(stOldest) >= 1 && len(stNewest) >= 1
	for _, st := range stNewest {
		if !guardedByNil(st, "newest") {
			orientOK = false // newest overwritten for every saved event: last saved (oldest) would become newest
		}
	}
	for _, st := range stOldest {
		if guardedByNil(st, "oldest") {
			orientOK = false // oldest set only once: the first saved (newest) would stay the oldest
		}
	}
	r.Add("R-C20-4", km.FuncName(loader), "loader appends at the oldest end", c.P.Pos(loader.Pos()), "for each successive saved event: list.oldest = event always; list.newest = event only when empty (first saved = newest, agreeing with the saver)", sprintf("stores newest=%d oldest=%d orientation-ok=%v", len(stNewest), len(stOldest), orientOK), orientOK)
	r.Add("R-C20-4", km.FuncName(loader), "loaded nodes are doubly linked", c.P.Pos(loader.Pos()), "event.newer = previous oldest and previous oldest.older = event (expiry walks the .newer links)", sprintf("newer-link=%v older-link=%v", stNewerOfNew != nil, stOlderOfPrev != nil), stNewerOfNew != nil && stOlderOfPrev != nil)

	// retention constant agreement
	retention := func(fns ...*ssa.Function) (int64, bool, bool) {
		var d int64
		found, cmp := false, false
		inFam(fns, func(in ssa.Instruction) {
			if add, ok := in.(*ssa.Call); ok && km.CalleeFull(add.Common()) == "(time.Time).Add" {
				if _, ok := isCall(add.Common().Args[0], "time.Now"); ok {
					if k, isC := km.ConstInt(add.Common().Args[1]); isC && k < 0 {
						d, found = -k, true
					}
				}
			}
			if b, ok := in.(*ssa.BinOp); ok && (b.Op == token.LSS || b.Op == token.GEQ) && mentionsField(b.X, "CreateTime") {
				cmp = true
			}
		})
		return d, found, cmp
	}
	dl, okl, cl := retention(loaderFam...)
	de, oke, ce := retention(expire)
	r.Add("R-C20-4", km.FuncName(loader), "retention on load", c.P.Pos(loader.Pos()), "drops entries with CreateTime < now - retention", sprintf("retention=%d ns found=%v compares-CreateTime=%v", dl, okl, cl), okl && cl)
	r.Add("R-C20-4", km.FuncName(expire), "retention on expiry", c.P.Pos(expire.Pos()), "same retention constant as the loader, compared with CreateTime", sprintf("retention=%d ns found=%v compares-CreateTime=%v same=%v", de, oke, ce, dl == de), oke && ce && dl == de && dl >= 28*24*3600*1e9)
}

func derivesFromFieldLoad(v ssa.Value, typ, field string) bool {
	v = km.Unwrap(v)
	if u, ok := v.(*ssa.UnOp); ok {
		return fieldLoadOf(u, typ, field) || derivesFromFieldLoad(u.X, typ, field)
	}
	if phi, ok := v.(*ssa.Phi); ok {
		for _, e := range phi.Edges {
			if derivesFromFieldLoad(e, typ, field) {
				return true
			}
		}
	}
	return false
}

// publishedIsCanonical: the published bytes are the certificate itself - for SSH the Marshal() of the certificate
// value returned by the signing call, for X.509 the DER slice the signing call returned.
func publishedIsCanonical(kind string, arg ssa.Value, sign *ssa.Call) bool {
	arg = km.Unwrap(arg)
	switch kind {
	case "ssh":
		cl, ok := arg.(*ssa.Call)
		if !ok || km.CalleeFull(cl.Common()) != "(*golang.org/x/crypto/ssh.Certificate).Marshal" {
			return false
		}
		return derivesFromCallResult(cl.Common().Args[0], sign, 0)
	default:
		cl, idx := callRes(arg)
		return cl == sign && idx == 0
	}
}

// checkHistoryFileReplace: the live history file is replaced only by the renaming writer (write a temporary
// file, rename over the old one on Close): nothing in the recorder moves, removes, truncates or re-creates the
// file that the renaming writer is about to replace, so a failed save leaves the previous history in place.
func checkHistoryFileReplace(c *km.Ctx) {
	r := c.R
	destructive := map[string]bool{"os.Rename": true, "os.Remove": true, "os.RemoveAll": true, "os.Truncate": true, "os.Create": true, "os.OpenFile": true, "os.WriteFile": true, "io/ioutil.WriteFile": true}
	n := 0
	for _, fn := range c.P.AllFuncs {
		if fn.Pkg == nil || fn.Pkg.Pkg.Path() != km.ModPath+"/eventmon/eventrecorder" {
			continue
		}
		var names []ssa.Value
		for _, ci := range km.CallsIn(fn) {
			if strings.HasSuffix(km.CalleeFull(ci.Common()), "fsutil.CreateRenamingWriter") {
				names = append(names, km.Unwrap(ci.Common().Args[0]))
				n++
			}
		}
		if len(names) == 0 {
			continue
		}
		bad := ""
		for _, ci := range km.CallsIn(fn) {
			cn := km.CalleeFull(ci.Common())
			if !destructive[cn] {
				continue
			}
			a0 := km.Unwrap(ci.Common().Args[0])
			for _, nm := range names {
				if a0 == nm {
					bad = short(cn) + " of the live file at " + posOf(c, ci)
				}
			}
		}
		found := "only the renaming writer touches the live file"
		if bad != "" {
			found = bad
		}
		r.Add("R-C20-4", km.FuncName(fn), "history file replaced atomically", c.P.Pos(fn.Pos()), "the file handed to the renaming writer is not moved, removed, truncated or re-created by anything else in the function", found, bad == "")
	}
	if n == 0 {
		r.AnchorLost("R-C20-4", "renaming writer in the event recorder's save path")
	}
}

// checkSaveScheduled: in the recorder's event loop every recorded event schedules a save of the history: on
// every trip round the loop that records an event (a record...Event call) the short save timer is re-armed,
// directly or through a local closure that does it. An event kind that is recorded without scheduling a save
// is lost if it is the last thing that happens before a restart.
func checkSaveScheduled(c *km.Ctx) {
	r := c.R
	loop := c.MustFunc("R-C20-4", "eventmon/eventrecorder", "(*EventRecorder).eventLoop")
	if loop == nil {
		return
	}
	isShortReset := func(in ssa.Instruction) bool {
		ci, ok := in.(ssa.CallInstruction)
		if !ok || km.CalleeFull(ci.Common()) != "(*time.Timer).Reset" {
			return false
		}
		d, isC := km.ConstInt(ci.Common().Args[1])
		return isC && d > 0 && d < 3600*1e9
	}
	rearming := map[*ssa.Function]bool{}
	for _, a := range loop.AnonFuncs {
		km.Instrs(a, func(in ssa.Instruction) {
			if isShortReset(in) {
				rearming[a] = true
			}
		})
	}
	schedules := func(in ssa.Instruction) bool {
		if isShortReset(in) {
			return true
		}
		if ci, ok := in.(ssa.CallInstruction); ok {
			if mc, ok := km.Unwrap(ci.Common().Value).(*ssa.MakeClosure); ok {
				if f, ok := mc.Fn.(*ssa.Function); ok && rearming[f] {
					return true
				}
			}
			if f := km.StaticCallee(ci.Common()); f != nil && rearming[f] {
				return true
			}
		}
		return false
	}
	sBlocks := map[*ssa.BasicBlock]bool{}
	var records []ssa.CallInstruction
	km.Instrs(loop, func(in ssa.Instruction) {
		if schedules(in) {
			sBlocks[in.Block()] = true
		}
		if ci, ok := in.(ssa.CallInstruction); ok {
			if f := km.StaticCallee(ci.Common()); f != nil && strings.HasPrefix(f.Name(), "record") && strings.HasSuffix(f.Name(), "Event") {
				records = append(records, ci)
			}
		}
	})
	if len(records) == 0 || len(sBlocks) == 0 {
		r.AnchorLost("R-C20-4", sprintf("record...Event calls (%d) / save re-arming (%d blocks) in eventLoop", len(records), len(sBlocks)))
		return
	}
	// the loop header: the block every record call's block can reach and that dominates it, with a back edge
	avoid := func(from *ssa.BasicBlock) map[*ssa.BasicBlock]bool {
		seen := map[*ssa.BasicBlock]bool{}
		var walk func(b *ssa.BasicBlock)
		walk = func(b *ssa.BasicBlock) {
			if seen[b] || sBlocks[b] {
				return
			}
			seen[b] = true
			for _, sc := range b.Succs {
				walk(sc)
			}
		}
		walk(from)
		return seen
	}
	for _, rc := range records {
		b := rc.Block()
		ok := true
		if !sBlocks[b] {
			// can the block be reached from itself (one full trip round the loop) without passing a re-arming block?
			for _, sc := range b.Succs {
				if avoid(sc)[b] {
					ok = false
				}
			}
		}
		r.Add("R-C20-4", km.FuncName(loop), "recorded event schedules a save", posOf(c, rc), "every trip round the event loop that records this event re-arms the save timer", sprintf("%v", ok), ok)
	}
	// the snapshot handed to the saver and to history requests is cached in a local variable (the one whose address
	// getEventsList receives): every trip that records an event has to drop it, on every path - otherwise the next
	// save writes the snapshot taken before the event and the event is missing after a restart
	var cell *ssa.Alloc
	km.Instrs(loop, func(in ssa.Instruction) {
		if ci, ok := in.(ssa.CallInstruction); ok {
			if f := km.StaticCallee(ci.Common()); f != nil && km.NameOf(f) == "getEventsList" {
				for _, a := range km.CallArgs(ci.Common()) {
					if al, isA := km.Unwrap(a).(*ssa.Alloc); isA {
						cell = al
					}
				}
			}
		}
	})
	if cell == nil {
		return // no cached snapshot: every request and save rebuilds the list
	}
	storesNil := func(in ssa.Instruction, addr ssa.Value) bool {
		st, ok := in.(*ssa.Store)
		return ok && st.Addr == addr && km.IsNilConst(st.Val)
	}
	// closures of the loop that drop the snapshot on every path from entry to return
	dropping := map[*ssa.Function]bool{}
	for _, a := range loop.AnonFuncs {
		var fv ssa.Value
		// the free variable bound to the cell: found through the MakeClosure that creates a
		km.Instrs(loop, func(in ssa.Instruction) {
			if mc, ok := in.(*ssa.MakeClosure); ok && mc.Fn == ssa.Value(a) {
				for i, b := range mc.Bindings {
					if b == ssa.Value(cell) && i < len(a.FreeVars) {
						fv = a.FreeVars[i]
					}
				}
			}
		})
		if fv == nil || len(a.Blocks) == 0 {
			continue
		}
		dropBlocks := map[*ssa.BasicBlock]bool{}
		km.Instrs(a, func(in ssa.Instruction) {
			if storesNil(in, fv) {
				dropBlocks[in.Block()] = true
			}
		})
		// a return reachable from the entry without passing a dropping block?
		escapes := false
		seen := map[*ssa.BasicBlock]bool{}
		var walk func(b *ssa.BasicBlock)
		walk = func(b *ssa.BasicBlock) {
			if seen[b] || dropBlocks[b] {
				return
			}
			seen[b] = true
			if _, isRet := b.Instrs[len(b.Instrs)-1].(*ssa.Return); isRet {
				escapes = true
			}
			for _, sc := range b.Succs {
				walk(sc)
			}
		}
		walk(a.Blocks[0])
		if !escapes && len(dropBlocks) > 0 {
			dropping[a] = true
		}
	}
	dBlocks := map[*ssa.BasicBlock]bool{}
	km.Instrs(loop, func(in ssa.Instruction) {
		if storesNil(in, cell) {
			dBlocks[in.Block()] = true
		}
		if ci, ok := in.(ssa.CallInstruction); ok {
			if mc, ok := km.Unwrap(ci.Common().Value).(*ssa.MakeClosure); ok {
				if f, ok := mc.Fn.(*ssa.Function); ok && dropping[f] {
					dBlocks[in.Block()] = true
				}
			}
			if f := km.StaticCallee(ci.Common()); f != nil && dropping[f] {
				dBlocks[in.Block()] = true
			}
		}
	})
	avoidD := func(from *ssa.BasicBlock) map[*ssa.BasicBlock]bool {
		seen := map[*ssa.BasicBlock]bool{}
		var walk func(b *ssa.BasicBlock)
		walk = func(b *ssa.BasicBlock) {
			if seen[b] || dBlocks[b] {
				return
			}
			seen[b] = true
			for _, sc := range b.Succs {
				walk(sc)
			}
		}
		walk(from)
		return seen
	}
	for _, rc := range records {
		b := rc.Block()
		ok := true
		if !dBlocks[b] {
			for _, sc := range b.Succs {
				if avoidD(sc)[b] {
					ok = false
				}
			}
		}
		r.Add("R-C20-4", km.FuncName(loop), "recorded event drops the cached snapshot", posOf(c, rc), "every trip round the event loop that records this event sets the cached event list to nil, on every path", sprintf("%v", ok), ok)
	}
}

// checkFlushPerEvent: the notifier's connection writer flushes after every event it writes, before it writes the
// next one. The monitor decodes with a fresh json.Decoder per event (receiveV0), which reads ahead: two events in
// one flush make the first decoder swallow the second, the stream desynchronises and the certificates that
// follow never reach the monitor. The obligation is only generated while the receiver has that shape.
func checkFlushPerEvent(c *km.Ctx) {
	r := c.R
	perEventDecoder := false
	if rf := c.P.Func("eventmon/monitord", "receiveV0"); rf != nil {
		for _, ci := range km.CallsIn(rf) {
			if km.CalleeFull(ci.Common()) == "encoding/json.NewDecoder" {
				perEventDecoder = true
			}
		}
	}
	if !perEventDecoder {
		return
	}
	n := 0
	for _, fn := range c.P.AllFuncs {
		if fn.Pkg == nil || fn.Pkg.Pkg.Path() != km.ModPath+"/keymasterd/eventnotifier" {
			continue
		}
		// writer loops: a call that encodes an event onto the connection, inside a loop
		flushBlocks := map[*ssa.BasicBlock]bool{}
		var writes []ssa.CallInstruction
		for _, ci := range km.CallsIn(fn) {
			name := km.CalleeFull(ci.Common())
			if strings.HasSuffix(name, ").Flush") && (strings.Contains(name, "bufio.ReadWriter") || strings.Contains(name, "bufio.Writer")) {
				flushBlocks[ci.Block()] = true
			}
			if g := km.StaticCallee(ci.Common()); g != nil && g.Blocks != nil && g.Pkg == fn.Pkg && encodesEvent(g) {
				writes = append(writes, ci)
			}
			// the encoder kept for the connection and used directly in the loop
			if name == "(*encoding/json.Encoder).Encode" && blockInCycle(ci.Block()) {
				writes = append(writes, ci)
			}
		}
		for _, w := range writes {
			b := w.Block()
			if !blockInCycle(b) {
				continue
			}
			n++
			ok := true
			if !flushBlocks[b] {
				seen := map[*ssa.BasicBlock]bool{}
				var walk func(x *ssa.BasicBlock)
				walk = func(x *ssa.BasicBlock) {
					if seen[x] || flushBlocks[x] {
						return
					}
					seen[x] = true
					for _, sc := range x.Succs {
						walk(sc)
					}
				}
				for _, sc := range b.Succs {
					walk(sc)
				}
				if seen[b] {
					ok = false
				}
			}
			r.Add("R-C20-3", km.FuncName(fn), "each event is flushed before the next is written", posOf(c, w), "every trip round the connection loop that writes an event passes Flush before it can write another (the monitor decodes one event per read)", sprintf("%v", ok), ok)
		}
	}
	if n == 0 {
		r.AnchorLost("R-C20-3", "event write inside the notifier's connection loop")
	}
}

// encodesEvent: g writes an event to a writer with a JSON encoder.
func encodesEvent(g *ssa.Function) bool {
	for _, ci := range km.CallsIn(g) {
		if km.CalleeFull(ci.Common()) == "(*encoding/json.Encoder).Encode" {
			return true
		}
	}
	return false
}

// checkEventFieldsAgree: writer and reader of the event stream agree per event type. The monitor dispatches on the
// type and reads, for each type, some fields of the event; a publisher that fills a field the reader of its type
// never looks at (the service provider's URL under the web-login type) has published a different event from the
// one it was asked to publish.
func checkEventFieldsAgree(c *km.Ctx, rule string) {
	notify := c.MustFunc(rule, "eventmon/monitord", "(*Monitor).notify")
	if notify == nil {
		return
	}
	reads := map[string]map[string]bool{}
	km.Instrs(notify, func(in ssa.Instruction) {
		var base ssa.Value
		var fld string
		switch x := in.(type) {
		case *ssa.FieldAddr:
			base, fld = x.X, fieldNameOf(x)
		case *ssa.Field:
			base, fld = x.X, km.RecordedField(x.X.Type(), structOf(x.X.Type()).Field(x.Field).Name())
		default:
			return
		}
		if !strings.HasSuffix(km.NamedTypeOf(base.Type()), "proto/eventmon.EventV0") || fld == "Type" {
			return
		}
		for _, k := range c.F.At(in) {
			for _, f := range k.List() {
				if f.Op != token.EQL || f.X == nil || !mentionsField(f.X, "Type") {
					continue
				}
				if cs, ok := km.ConstString(f.Y); ok {
					if reads[cs] == nil {
						reads[cs] = map[string]bool{}
					}
					reads[cs][fld] = true
				}
			}
		}
	})
	if len(reads) < 3 {
		c.R.AnchorLost(rule, sprintf("per-type field reads in the monitor's dispatch (found %d types)", len(reads)))
		return
	}
	n := 0
	for _, fn := range c.P.AllFuncs {
		if fn.Pkg == nil || fn.Pkg.Pkg.Path() != km.ModPath+"/keymasterd/eventnotifier" {
			continue
		}
		// event literals of this function: allocation -> field -> stored value
		lits := map[*ssa.Alloc]map[string]ssa.Value{}
		var order []*ssa.Alloc
		km.Instrs(fn, func(in ssa.Instruction) {
			st, ok := in.(*ssa.Store)
			if !ok {
				return
			}
			fa, ok := st.Addr.(*ssa.FieldAddr)
			if !ok || !strings.HasSuffix(km.NamedTypeOf(fa.X.Type()), "proto/eventmon.EventV0") {
				return
			}
			a, ok := fa.X.(*ssa.Alloc)
			if !ok {
				return
			}
			if lits[a] == nil {
				lits[a] = map[string]ssa.Value{}
				order = append(order, a)
			}
			lits[a][fieldNameOf(fa)] = st.Val
		})
		for _, a := range order {
			typ, ok := evalString(c, lits[a]["Type"], 0)
			if lits[a]["Type"] == nil || !ok {
				continue // the certificate publisher is handed its type
			}
			n++
			var stray []string
			for f := range lits[a] {
				if f != "Type" && !reads[typ][f] {
					stray = append(stray, f)
				}
			}
			sort.Strings(stray)
			c.R.Add(rule, km.FuncName(fn), "event of type "+typ, posOf(c, a), "every field the publisher fills is one the monitor reads for that type", sprintf("not read for this type: %v", stray), len(stray) == 0 && reads[typ] != nil)
		}
	}
	if n == 0 {
		c.R.AnchorLost(rule, "event literals with a constant type in the notifier")
	}
	// what the daemon reports under a name arrives under that name: each string the exported publisher is handed
	// ends in the event field it is meant for (two strings crossed between the wrapper and its worker compile and
	// publish a well-formed event with the user and the URL exchanged)
	want := map[string]map[int]string{
		"(*EventNotifier).PublishAuthEvent":                 {1: "AuthType", 2: "Username"},
		"(*EventNotifier).PublishServiceProviderLoginEvent": {1: "ServiceProviderUrl", 2: "Username"},
		"(*EventNotifier).PublishWebLoginEvent":             {1: "Username"},
		"(*EventNotifier).PublishVIPAuthEvent":              {1: "VIPAuthType", 2: "Username"},
	}
	var fieldsOf func(fn *ssa.Function, p *ssa.Parameter, depth int, out map[string]bool)
	fieldsOf = func(fn *ssa.Function, p *ssa.Parameter, depth int, out map[string]bool) {
		if depth > 3 || p.Referrers() == nil {
			return
		}
		vals := []ssa.Value{p}
		for _, ref := range *p.Referrers() {
			// a parameter spilled into a cell (captured, or address taken)
			if st, ok := ref.(*ssa.Store); ok && st.Val == ssa.Value(p) {
				if al, isA := st.Addr.(*ssa.Alloc); isA {
					for _, r2 := range *al.Referrers() {
						if ld, isLd := r2.(*ssa.UnOp); isLd {
							vals = append(vals, ld)
						}
					}
				}
			}
		}
		for _, v := range vals {
			for _, ref := range *v.Referrers() {
				switch x := ref.(type) {
				case *ssa.Store:
					if fa, ok := x.Addr.(*ssa.FieldAddr); ok && x.Val == v && strings.HasSuffix(km.NamedTypeOf(fa.X.Type()), "proto/eventmon.EventV0") {
						out[fieldNameOf(fa)] = true
					}
				case ssa.CallInstruction:
					g := km.StaticCallee(x.Common())
					if g == nil || len(g.Blocks) == 0 || g.Pkg != fn.Pkg {
						continue
					}
					for i, a := range x.Common().Args {
						if a == v && i < len(g.Params) {
							fieldsOf(g, g.Params[i], depth+1, out)
						}
					}
				}
			}
		}
	}
	names := make([]string, 0, len(want))
	for k := range want {
		names = append(names, k)
	}
	sort.Strings(names)
	for _, name := range names {
		w := c.MustFunc(rule, "keymasterd/eventnotifier", name)
		if w == nil {
			continue
		}
		for _, idx := range []int{1, 2} {
			fld, has := want[name][idx]
			if !has {
				continue
			}
			p := km.ParamAt(w, idx)
			if p == nil {
				c.R.AnchorLost(rule, sprintf("parameter %d of %s", idx, name))
				continue
			}
			got := map[string]bool{}
			fieldsOf(w, p, 0, got)
			var gl []string
			for f := range got {
				gl = append(gl, f)
			}
			sort.Strings(gl)
			c.R.Add(rule, km.FuncName(w), "reported "+fld+" arrives as "+fld, c.P.Pos(w.Pos()), "the parameter is stored in the event's "+fld+" field and in no other", sprintf("stored in %v", gl), len(gl) == 1 && gl[0] == fld)
		}
	}
}
