package rules

import (
	"go/token"
	"sort"
	"strings"

	"kmcheck/internal/km"

	"golang.org/x/tools/go/ssa"
)

func init() { km.Register("C05", checkC05) }

const (
	fnUpdateCookie = RS + "updateAuthCookieAuthlevel"
	fnUpdateJWT    = RS + "updateAuthJWTWithNewAuthLevel"
	fnSetCookie    = RS + "setNewAuthCookie"
	fnGenJWT       = RS + "genNewSerializedAuthJWT"
	vipPkg         = km.ModPath + "/lib/vip"
	oktaPkg        = km.ModPath + "/lib/authenticators/okta"
)

// session-creating sites: handler -> the single constant level it may mint a fresh session with
var sessionCreators = map[string]string{
	"loginHandler":              "AuthTypePassword",
	"oauth2RedirectPathHandler": "AuthTypeFederated",
	"SendAuthDocumentHandler":   "AuthTypeWebauthForCLI",
}

func checkC05(c *km.Ctx) {
	r := c.R
	s := km.NewSem(c)
	r.Explain = "Static analysis of /repo: every site that raises or creates a session level is located by its resolved callee. An upgrade's level operand must be (level of the authenticated session) OR constant bits; each added bit must be dominated on every path by the success edge of the verifier that proves that factor, called with the authenticated user's own name (or, where the verifier takes no user, on a record bound to that user); the cookie that is re-signed is bound to the authenticated user; one-time values are consumed (stored counter / cleared OTP / deleted challenge) before the upgrade and expired ones are refused. Decides code shape on all paths, not multi-user histories."
	r.NotDecided = []string{"the multi-step, multi-user history space", "replay across several servers", "the external VIP / Okta services"}
	r.Assume = []string{"go/types + go/ssa model the source faithfully", "the verifier libraries (tstranex/u2f, duo-labs/webauthn, pquerna/otp, lib/vip, okta) verify what they claim"}

	r.Rule("R-C05-1", "a session level only ever grows by OR-ing constant factor bits onto the authenticated session's own level; fresh sessions are minted only at the three creating sites with their single constant level", 5)
	r.Rule("R-C05-2", "each added factor bit is dominated by the success edge of that factor's verifier, applied to the authenticated user (or to a record bound to that user)", 3)
	r.Rule("R-C05-3", "the cookie that is re-signed belongs to the authenticated user: the upgrade is called with authUser and the re-signing function compares the cookie's verified subject with it; checkAuth and the upgrade pick the same one of several session cookies", 4)
	r.Rule("R-C05-4", "one-time values are consumed before they take effect and expired ones are refused (TOTP counter stored; bootstrap OTP cleared and saved; challenge deleted in the lookup's critical section and unexpired)", 3)

	consts := authTypeConsts(c)
	byVal := map[int64]string{}
	for n, v := range consts {
		if n != "AuthTypeAny" && n != "AuthTypeNone" {
			byVal[v] = n
		}
	}
	isAuthUser := func(v ssa.Value) bool { return s.Is(v, km.RoleAuthUser) }
	isAuthLevel := func(v ssa.Value) bool { return s.Is(v, km.RoleAuthLevel) }

	// ---- R-C05-1 / R-C05-2 / R-C05-3: upgrade sites
	upd := c.MustFunc("R-C05-1", "cmd/keymasterd", "(*RuntimeState).updateAuthCookieAuthlevel")
	if upd == nil {
		return
	}
	sites := c.G.Callers[upd]
	sort.Slice(sites, func(i, j int) bool { return posOf(c, sites[i].Instr) < posOf(c, sites[j].Instr) })
	for _, cs := range sites {
		ci := cs.Instr.(ssa.CallInstruction)
		args := km.CallArgs(ci.Common()) // state, w, r, username, level
		if len(args) != 5 {
			r.Add("R-C05-3", km.FuncName(cs.Caller), "updateAuthCookieAuthlevel signature", posOf(c, cs.Instr), "upgrade takes (w, r, username, level)", sprintf("%d args", len(args)), false)
			continue
		}
		fn := cs.Caller
		// R-C05-3: user operand
		r.Add("R-C05-3", km.FuncName(fn), "upgrade user operand", posOf(c, cs.Instr), "the user the factor was proven for is the authenticated user (authInfo.Username)", km.ValStr(args[3]), isAuthUser(args[3]))
		// R-C05-1: level operand
		base, bits, ok := levelShape(args[4], isAuthLevel)
		names := bitNames(bitList(bits), byVal)
		r.Add("R-C05-1", km.FuncName(fn), "upgrade level operand", posOf(c, cs.Instr), "authLevel | constant factor bits (never a bare constant, never a foreign level)", sprintf("base=%v bits=%v ok=%v expr=%s", base, names, ok, clipS(km.ValStr(args[4]), 120)), ok && base && bits != 0)
		// R-C05-2
		alts := verifierAlternatives(c, s, fn, bits, consts, isAuthUser)
		if len(alts) == 0 {
			r.Add("R-C05-2", km.FuncName(fn), "verifier for "+strings.Join(names, "|"), posOf(c, cs.Instr), "a known verifier exists for every added bit", "no verifier known for these bits", false)
			continue
		}
		var altNames []string
		for _, a := range alts {
			altNames = append(altNames, a.Name)
		}
		okV, why := s.HoldsOnAllPaths(cs.Instr, func(st km.DNF, at ssa.Instruction) bool {
			return st.All(func(k km.Conj) bool {
				for _, a := range alts {
					if s.Holds(k, a) {
						return true
					}
				}
				return false
			})
		}, rootSet(km.ServiceRoots(c.Routes)), 4)
		found := "dominated by a verifier success for the authenticated user"
		if !okV {
			found = why
		}
		r.Add("R-C05-2", km.FuncName(fn), "verifier for "+strings.Join(names, "|"), posOf(c, cs.Instr), "one of: "+strings.Join(altNames, " ; "), clipS(found, 700), okV)
	}

	// session creating sites: setNewAuthCookie / genNewSerializedAuthJWT callers outside the two helpers
	for _, name := range []string{"(*RuntimeState).setNewAuthCookie", "(*RuntimeState).genNewSerializedAuthJWT"} {
		f := c.MustFunc("R-C05-1", "cmd/keymasterd", name)
		if f == nil {
			continue
		}
		for _, cs := range c.G.Callers[f] {
			caller := cs.Caller
			if km.NameOf(caller) == "setNewAuthCookie" {
				// pass-through of its own parameters
				ci := cs.Instr.(ssa.CallInstruction)
				a := km.CallArgs(ci.Common())
				ok := km.Unwrap(a[1]) == ssa.Value(km.ParamAt(caller, 2)) && km.Unwrap(a[2]) == ssa.Value(km.ParamAt(caller, 3))
				r.Add("R-C05-1", km.FuncName(caller), "setNewAuthCookie passes user and level through", posOf(c, cs.Instr), "genNewSerializedAuthJWT(username param, authlevel param, …)", km.ValStr(a[1])+", "+km.ValStr(a[2]), ok)
				continue
			}
			ci := cs.Instr.(ssa.CallInstruction)
			a := km.CallArgs(ci.Common())
			lvlIdx := 3
			if strings.HasSuffix(name, "genNewSerializedAuthJWT") {
				lvlIdx = 2
			}
			want, known := sessionCreators[km.NameOf(caller)]
			lv, isConst := km.ConstInt(a[lvlIdx])
			got := km.ValStr(a[lvlIdx])
			if isConst {
				got = byVal[lv]
			}
			req := "session-creating site mints exactly " + want
			if !known {
				req = "only the login, federated-callback and CLI-document handlers create sessions"
			}
			r.Add("R-C05-1", km.FuncName(caller), "fresh session level", posOf(c, cs.Instr), req, got, known && isConst && got == want)
			if km.NameOf(caller) == "SendAuthDocumentHandler" {
				// the CLI session is minted from a token presented by a logged-in browser: only when the token
				// names the very user the browser session belongs to (otherwise one user's session turns
				// another user's token into a session of its own)
				sameUser := km.Prim{Name: "token user == authenticated user", Rel: func(f km.Fact, resolve func(ssa.Value) ssa.Value) bool {
					if f.Op != token.EQL || f.X == nil || f.Y == nil {
						return false
					}
					for _, pr := range [][2]ssa.Value{{f.X, f.Y}, {f.Y, f.X}} {
						if !isAuthUser(resolve(pr[0])) {
							continue
						}
						o := resolve(pr[1])
						base, fld, ok := km.FieldOfLoad(km.Unwrap(o))
						if ok && km.RecordedField(base.Type(), fld) == "Username" && km.NamedTypeOf(base.Type()) == KMD+".authInfo" && !isAuthUser(o) {
							return true
						}
					}
					return false
				}}
				st := c.F.At(cs.Instr)
				okU := st.All(func(k km.Conj) bool { return s.Holds(k, sameUser) })
				r.Add("R-C05-3", km.FuncName(caller), "CLI session for the token's own user", posOf(c, cs.Instr), "the presented token names the authenticated user (compared before the session is minted)", clipS(st.String(), 240), okU)
			}
		}
	}

	// R-C05-3: inside the re-signing function
	if uj := c.MustFunc("R-C05-3", "cmd/keymasterd", "(*RuntimeState).updateAuthJWTWithNewAuthLevel"); uj != nil && km.ParamAt(uj, 2) == nil {
		// the re-signing function no longer takes the user: whoever calls it has compared the subject of the very
		// token it hands over with the user the factor was proven for
		nCall := 0
		for _, cs := range c.G.Callers[uj] {
			ci := cs.Instr.(ssa.CallInstruction)
			a := km.CallArgs(ci.Common())
			if len(a) < 2 || a[1] == nil {
				continue
			}
			nCall++
			tok := km.Unwrap(a[1])
			sameToken := func(v ssa.Value) bool {
				v = km.Unwrap(v)
				if v == tok {
					return true
				}
				b1, f1, ok1 := km.FieldOfLoad(v)
				b2, f2, ok2 := km.FieldOfLoad(tok)
				return ok1 && ok2 && f1 == f2 && km.CellOrigin(km.Unwrap(b1)) == km.CellOrigin(km.Unwrap(b2))
			}
			caller := cs.Caller
			bound := km.Prim{Name: "subject of the handed token == user", Direct: func(f km.Fact) bool {
				if f.Op != token.EQL || f.X == nil || f.Y == nil {
					return false
				}
				for _, pr := range [][2]ssa.Value{{f.X, f.Y}, {f.Y, f.X}} {
					base, fld, ok := km.FieldOfLoad(km.Unwrap(pr[0]))
					if !ok || (fld != "Username" && fld != "Subject") {
						continue
					}
					cl, idx := callRes(km.CellOrigin(km.Unwrap(base)))
					if cl == nil || idx != 0 || !strings.Contains(km.CalleeFull(cl.Common()), "getAuthInfoFrom") {
						continue
					}
					ta := km.CallArgs(cl.Common())
					if len(ta) < 2 || !sameToken(ta[1]) {
						continue
					}
					o := km.Unwrap(pr[1])
					if p, isP := o.(*ssa.Parameter); isP && p.Parent() == caller {
						return true
					}
					if isAuthUser(o) {
						return true
					}
				}
				return false
			}}
			st := c.F.At(cs.Instr)
			ok := st.All(func(k km.Conj) bool { return s.Holds(k, bound) })
			r.Add("R-C05-3", km.FuncName(caller), "re-sign existing cookie", posOf(c, cs.Instr), "the subject of the token handed to the re-signing function was compared with the user the factor was proven for", clipS(st.String(), 240), ok)
		}
		if nCall == 0 {
			r.AnchorLost("R-C05-3", "calls of updateAuthJWTWithNewAuthLevel")
		}
	} else if uj != nil && len(uj.Params) >= 4 {
		subjectBound := km.Prim{Name: "subject==username", Direct: func(f km.Fact) bool {
			if f.Op != token.EQL {
				return false
			}
			return (mentionsField(f.X, "Subject") && km.Unwrap(f.Y) == ssa.Value(km.ParamAt(uj, 2))) || (mentionsField(f.Y, "Subject") && km.Unwrap(f.X) == ssa.Value(km.ParamAt(uj, 2)))
		}}
		claimsOK := primErrNil("claims verified", RS+"JWTClaims", 0)
		n := 0
		for _, rc := range s.RetCases(uj) {
			if !km.IsNilConst(rc.Results[1]) {
				if cl, idx := callRes(km.Unwrap(rc.Results[1])); cl == nil || idx != 1 {
					continue
				}
			}
			if cs, ok := km.ConstString(rc.Results[0]); ok && cs == "" {
				continue
			}
			n++
			ok := rc.State.All(func(k km.Conj) bool { return s.Holds(k, subjectBound) && s.Holds(k, claimsOK) })
			r.Add("R-C05-3", km.FuncName(uj), "re-sign existing cookie", posOf(c, rc.Ret), "claims verified ∧ cookie subject == user the factor was proven for", clipS(rc.State.String(), 300), ok)
		}
		if n == 0 {
			r.AnchorLost("R-C05-3", "success return of updateAuthJWTWithNewAuthLevel")
		}
		// pass-through in updateAuthCookieAuthlevel
		for _, cs := range c.G.Callers[uj] {
			ci := cs.Instr.(ssa.CallInstruction)
			a := km.CallArgs(ci.Common())
			ok := cs.Caller == upd && km.Unwrap(a[2]) == ssa.Value(km.ParamAt(upd, 3)) && km.Unwrap(a[3]) == ssa.Value(km.ParamAt(upd, 4))
			r.Add("R-C05-3", km.FuncName(cs.Caller), "updateAuthCookieAuthlevel passes user and level through", posOf(c, cs.Instr), "updateAuthJWTWithNewAuthLevel(cookie, username param, authlevel param)", km.ValStr(a[2])+", "+km.ValStr(a[3]), ok)
		}
	}

	// the cookie that is raised is the cookie that authenticated the request: with several cookies of that name in
	// one request, checkAuth and the upgrade must pick the same one
	if ca := c.MustFunc("R-C05-3", "cmd/keymasterd", "(*RuntimeState).checkAuth"); ca != nil {
		a, b := authCookieSelection(c, ca), authCookieSelection(c, upd)
		r.Add("R-C05-3", km.FuncName(upd), "the raised cookie is the authenticating cookie", c.P.Pos(upd.Pos()), "checkAuth and updateAuthCookieAuthlevel select the session cookie the same way (both the last, both the first of that name, or both through one helper)", sprintf("checkAuth=%s upgrade=%s", a, b), a == b && (a == "last" || a == "first" || (strings.HasPrefix(a, "via ") && !strings.Contains(a, " and "))))
	}

	checkOneTime(c, s, upd, isAuthUser)
	// the stored TOTP counter, the cleared bootstrap OTP and the disabled flag of a token are consumed only if
	// they reach the stored profile: gob drops unexported fields without a word
	checkGobStructs(c, "R-C05-4")
	checkChallengeFresh(c, "R-C05-4")
	// one presentation of a TOTP code raises one session: the read-test-update of the per-user validation slot is
	// one critical section (C14's obligations on the gate, as this property's own)
	if r.Remap == nil {
		r.Remap = func(rule, fn, construct string) (string, bool) {
			if rule == "R-C14-3" && (strings.Contains(construct, "one critical section") || strings.HasPrefix(construct, "last-check time updated") || construct == "spacing constant") {
				return "R-C05-4", true
			}
			return "", false
		}
		saveExplain, saveND, saveAs := r.Explain, r.NotDecided, r.Assume
		checkC14(c)
		r.Explain, r.NotDecided, r.Assume = saveExplain, saveND, saveAs
		r.Remap = nil
	}
	checkPushRecords(c)
	checkFreshDecodeTargets(c, "R-C05-2")
	checkChallengeAtomic(c, km.NewLockSets(), "R-C05-4")
}

func bitList(bits int64) []int64 {
	var out []int64
	for b := int64(1); b <= bits; b <<= 1 {
		if bits&b != 0 {
			out = append(out, b)
		}
	}
	return out
}

// levelShape decomposes a level expression into: has-a-base (authenticated level) and the OR of constants.
func levelShape(v ssa.Value, isAuthLevel func(ssa.Value) bool) (base bool, bits int64, ok bool) {
	v = km.Unwrap(v)
	if isAuthLevel(v) {
		return true, 0, true
	}
	if i, isC := km.ConstInt(v); isC {
		return false, i, true
	}
	switch x := v.(type) {
	case *ssa.BinOp:
		if x.Op == token.OR {
			b1, k1, o1 := levelShape(x.X, isAuthLevel)
			b2, k2, o2 := levelShape(x.Y, isAuthLevel)
			return b1 || b2, k1 | k2, o1 && o2
		}
	case *ssa.Phi:
		ok = true
		for _, e := range x.Edges {
			b, k, o := levelShape(e, isAuthLevel)
			base = base || b
			bits |= k
			ok = ok && o
		}
		return base, bits, ok
	}
	return false, 0, false
}

// verifierAlternatives returns the acceptable verifier-success propositions for the added bits.
func verifierAlternatives(c *km.Ctx, s *km.Sem, fn *ssa.Function, bits int64, consts map[string]int64, isAuthUser func(ssa.Value) bool) []km.Prim {
	var out []km.Prim
	// helper: bool result #0 true and err result #errIdx nil of callee, with user argument userIdx being authUser
	okCall := func(name, callee string, userIdx int) km.Prim {
		return km.Prim{Name: name, Direct: func(f km.Fact) bool {
			if f.Op != token.ILLEGAL || !f.Pol {
				return false
			}
			cl, idx := callRes(f.X)
			if cl == nil || idx != 0 || km.CalleeFull(cl.Common()) != callee {
				return false
			}
			a := km.CallArgs(cl.Common())
			return userIdx < len(a) && isAuthUser(a[userIdx])
		}}
	}
	if bits&consts["AuthTypeSymantecVIP"] != 0 {
		out = append(out, okCall("VIP ValidateUserOTP(authUser) ok", "(*"+vipPkg+".Client).ValidateUserOTP", 1))
		// push: approved ∧ transaction bound to the authenticated user
		out = append(out, km.Prim{Name: "VIP push approved for a transaction of authUser", Direct: func(f km.Fact) bool {
			if f.Op != token.ILLEGAL || !f.Pol {
				return false
			}
			cl, idx := callRes(f.X)
			if cl == nil || idx != 0 || km.CalleeFull(cl.Common()) != "(*"+vipPkg+".Client).VipPushHasBeenApproved" {
				return false
			}
			// the transaction id must be a field of a record whose Username was compared with authUser on this path
			tx := km.Unwrap(km.CallArgs(cl.Common())[1])
			rec, fld, ok := km.FieldOfLoad(tx)
			if !ok || fld != "TransactionID" {
				return false
			}
			return recordBoundToUser(c, s, cl, rec, isAuthUser)
		}})
	}
	if bits&consts["AuthTypeOkta2FA"] != 0 {
		out = append(out, okCall("Okta ValidateUserOTP(authUser) ok", "(*"+oktaPkg+".PasswordAuthenticator).ValidateUserOTP", 1))
		out = append(out, km.Prim{Name: "Okta ValidateUserPush(authUser) == Approved", Direct: func(f km.Fact) bool {
			if f.Op != token.EQL {
				return false
			}
			cl, idx := callRes(f.X)
			if cl == nil || idx != 0 || km.CalleeFull(cl.Common()) != "(*"+oktaPkg+".PasswordAuthenticator).ValidateUserPush" {
				return false
			}
			if !isAuthUser(km.CallArgs(cl.Common())[1]) {
				return false
			}
			want := namedConstValue(c, "lib/authenticators/okta", "PushResponseApproved")
			got, ok := km.ConstInt(f.Y)
			return ok && want >= 0 && got == want
		}})
	}
	if bits&consts["AuthTypeTOTP"] != 0 {
		out = append(out, okCall("validateUserTOTP(authUser) ok", RS+"validateUserTOTP", 1))
	}
	if bits&consts["AuthTypeBootstrapOTP"] != 0 {
		out = append(out, km.Prim{Name: "ConstantTimeCompare(input hash, authUser's stored OTP hash) == 1", Direct: func(f km.Fact) bool {
			if f.Op != token.EQL {
				return false
			}
			if i, ok := km.ConstInt(f.Y); !ok || i != 1 {
				return false
			}
			cl, ok := f.X.(*ssa.Call)
			if !ok || km.CalleeFull(cl.Common()) != "crypto/subtle.ConstantTimeCompare" {
				return false
			}
			// one operand comes from userBootstrapOtpHash(profile of authUser)
			for _, a := range cl.Common().Args {
				if h, ok := km.Unwrap(a).(*ssa.Call); ok && km.CalleeFull(h.Common()) == RS+"userBootstrapOtpHash" {
					prof := km.Unwrap(km.CallArgs(h.Common())[1])
					if lc, idx := callRes(prof); lc != nil && idx == 0 && km.CalleeFull(lc.Common()) == RS+"LoadUserProfile" && isAuthUser(km.CallArgs(lc.Common())[1]) {
						return true
					}
				}
			}
			return false
		}})
	}
	if bits&(consts["AuthTypeU2F"]|consts["AuthTypeFIDO2"]) != 0 {
		out = append(out, km.Prim{Name: "u2f Registration.Authenticate(response, authUser's challenge) err==nil", Direct: func(f km.Fact) bool {
			if f.Op != token.EQL || !km.IsNilConst(f.Y) {
				return false
			}
			cl, idx := callRes(f.X)
			if cl == nil || idx != 1 || km.CalleeFull(cl.Common()) != "(*github.com/tstranex/u2f.Registration).Authenticate" {
				return false
			}
			a := km.CallArgs(cl.Common())
			return derivesFromUserRecord(c, s, a[2], "localAuthData", isAuthUser, 0) && derivesFromUserProfile(a[0], isAuthUser, 0)
		}})
		out = append(out, km.Prim{Name: "webauthn ValidateLogin(authUser's profile, authUser's session) err==nil", Direct: func(f km.Fact) bool {
			if f.Op != token.EQL || !km.IsNilConst(f.Y) {
				return false
			}
			cl, idx := callRes(f.X)
			if cl == nil || idx != 1 || km.CalleeFull(cl.Common()) != "(*github.com/duo-labs/webauthn/webauthn.WebAuthn).ValidateLogin" {
				return false
			}
			a := km.CallArgs(cl.Common())
			return derivesFromUserProfile(a[1], isAuthUser, 0) && derivesFromUserRecord(c, s, a[2], "localAuthData", isAuthUser, 0)
		}})
		out = append(out, km.Prim{Name: "webauthn assertion Verify(authUser's challenge, authUser's credential) == nil", Direct: func(f km.Fact) bool {
			if f.Op != token.EQL || !km.IsNilConst(f.Y) {
				return false
			}
			cl, ok := f.X.(*ssa.Call)
			if !ok || km.CalleeFull(cl.Common()) != "(*github.com/duo-labs/webauthn/protocol.ParsedCredentialAssertionData).Verify" {
				return false
			}
			a := km.CallArgs(cl.Common())
			return derivesFromUserRecord(c, s, a[1], "localAuthData", isAuthUser, 0) && derivesFromUserProfile(a[6], isAuthUser, 0)
		}})
	}
	return out
}

func namedConstValue(c *km.Ctx, rel, name string) int64 {
	pk := c.P.Pkg(rel)
	if pk == nil {
		return -1
	}
	if nc, ok := pk.Members[name].(*ssa.NamedConst); ok {
		if i, ok := km.ConstInt(nc.Value); ok {
			return i
		}
	}
	return -1
}

// derivesFromUserRecord: v is computed (through loads, fields, extracts, phis, conversions) from a lookup in
// state.<mapField>[key] with key = authUser.
func derivesFromUserRecord(c *km.Ctx, s *km.Sem, v ssa.Value, mapField string, isAuthUser func(ssa.Value) bool, depth int) bool {
	if depth > 12 || v == nil {
		return false
	}
	v = km.Unwrap(v)
	switch x := v.(type) {
	case *ssa.Lookup:
		return mentionsField(x.X, mapField) && isAuthUser(x.Index)
	case *ssa.Extract:
		return derivesFromUserRecord(c, s, x.Tuple, mapField, isAuthUser, depth+1)
	case *ssa.UnOp:
		return derivesFromUserRecord(c, s, x.X, mapField, isAuthUser, depth+1)
	case *ssa.Field:
		return derivesFromUserRecord(c, s, x.X, mapField, isAuthUser, depth+1)
	case *ssa.FieldAddr:
		return derivesFromUserRecord(c, s, x.X, mapField, isAuthUser, depth+1)
	case *ssa.Alloc:
		// local copy: all stores into it must derive from the record
		n := 0
		for _, ref := range *x.Referrers() {
			if st, ok := ref.(*ssa.Store); ok && st.Addr == x {
				// `return named, results` with a deferred call stores each result cell back into itself
				if ld, isLd := st.Val.(*ssa.UnOp); isLd && ld.X == ssa.Value(x) {
					continue
				}
				if !derivesFromUserRecord(c, s, st.Val, mapField, isAuthUser, depth+1) {
					return false
				}
				n++
			}
		}
		return n > 0
	case *ssa.Phi:
		for _, e := range x.Edges {
			if !derivesFromUserRecord(c, s, e, mapField, isAuthUser, depth+1) {
				return false
			}
		}
		return len(x.Edges) > 0
	case *ssa.Call:
		// a getter / consumer helper such as consumeChallenge(user): every record it returns is the map's entry for
		// its key parameter (or the zero value), and the key argument here is the authenticated user
		g := km.StaticCallee(x.Common())
		if g == nil || g.Blocks == nil || !c.InModule(g) {
			return false
		}
		args := km.CallArgs(x.Common())
		n := 0
		for _, rc := range s.RetCases(g) {
			rv := km.Unwrap(rc.Results[0])
			if cst, isC := rv.(*ssa.Const); isC {
				_ = cst
				continue // zero value
			}
			if u, isU := rv.(*ssa.UnOp); isU {
				if a, isA := u.X.(*ssa.Alloc); isA && len(storesInto(a)) == 0 {
					continue // zero composite literal
				}
			}
			keyIsParam := func(k ssa.Value) bool {
				p, ok := km.Unwrap(k).(*ssa.Parameter)
				if !ok {
					return false
				}
				for i, q := range g.Params {
					if q == p && i < len(args) {
						return isAuthUser(args[i])
					}
				}
				return false
			}
			if !derivesFromUserRecord(c, s, rv, mapField, keyIsParam, depth+1) {
				return false
			}
			n++
		}
		return n > 0
	}
	return false
}

func storesInto(a *ssa.Alloc) []*ssa.Store {
	var out []*ssa.Store
	var walk func(v ssa.Value)
	walk = func(v ssa.Value) {
		if v.Referrers() == nil {
			return
		}
		for _, ref := range *v.Referrers() {
			switch x := ref.(type) {
			case *ssa.Store:
				if x.Addr == v {
					out = append(out, x)
				}
			case *ssa.FieldAddr:
				walk(x)
			case *ssa.IndexAddr:
				walk(x)
			}
		}
	}
	walk(a)
	return out
}

// challengeConsume: where a handler looks up and deletes the pending hardware-token challenge - in the handler
// itself or in a helper it calls with the user as key.
type challengeConsume struct {
	fn     *ssa.Function // function holding the lookup and the delete
	lookup *ssa.Lookup
	del    *ssa.Call
	call   ssa.CallInstruction // the helper call in the handler (nil when inline)
}

func findChallengeConsume(c *km.Ctx, handler *ssa.Function) *challengeConsume {
	scan := func(fn *ssa.Function) *challengeConsume {
		cc := &challengeConsume{fn: fn}
		km.Instrs(fn, func(in ssa.Instruction) {
			if lk, ok := in.(*ssa.Lookup); ok && mentionsField(lk.X, "localAuthData") {
				cc.lookup = lk
			}
			if cl, ok := in.(*ssa.Call); ok {
				if b, ok := cl.Common().Value.(*ssa.Builtin); ok && b.Name() == "delete" && mentionsField(cl.Common().Args[0], "localAuthData") {
					cc.del = cl
				}
			}
		})
		if cc.lookup != nil && cc.del != nil {
			return cc
		}
		return nil
	}
	if cc := scan(handler); cc != nil {
		return cc
	}
	for _, ci := range km.CallsIn(handler) {
		if g := km.StaticCallee(ci.Common()); g != nil && g.Blocks != nil && g.Pkg != nil && pkgIsKMD(g.Pkg) {
			if cc := scan(g); cc != nil {
				cc.call = ci
				return cc
			}
		}
	}
	return nil
}

// keyIs: the map key used inside the consume site is the handler's value satisfying pred
func (cc *challengeConsume) keyIs(key ssa.Value, pred func(ssa.Value) bool) bool {
	if cc.call == nil {
		return pred(key)
	}
	p, ok := km.Unwrap(key).(*ssa.Parameter)
	if !ok {
		return false
	}
	args := km.CallArgs(cc.call.Common())
	for i, q := range cc.fn.Params {
		if q == p && i < len(args) {
			return pred(args[i])
		}
	}
	return false
}

// dominatesIn: the consume happens before `at` in the handler
func (cc *challengeConsume) dominatesIn(at ssa.Instruction) bool {
	if cc.call == nil {
		return km.InstrDominates(cc.del, at) && km.InstrDominates(cc.lookup, at)
	}
	if !km.InstrDominates(cc.call, at) {
		return false
	}
	// inside the helper the delete precedes every return the lookup precedes
	ok := true
	km.Instrs(cc.fn, func(in ssa.Instruction) {
		if ret, isRet := in.(*ssa.Return); isRet && km.InstrDominates(cc.lookup, ret) && !km.InstrDominates(cc.del, ret) {
			ok = false
		}
	})
	return ok
}

// derivesFromUserProfile: v is computed from the profile returned by LoadUserProfile(authUser).
func derivesFromUserProfile(v ssa.Value, isAuthUser func(ssa.Value) bool, depth int) bool {
	if depth > 14 || v == nil {
		return false
	}
	v = km.Unwrap(v)
	if lc, idx := callRes(v); lc != nil {
		if idx == 0 && km.CalleeFull(lc.Common()) == RS+"LoadUserProfile" {
			return isAuthUser(km.CallArgs(lc.Common())[1])
		}
		// helper taking a value derived from the profile (e.g. webauthnRegistrationToU2fRegistration(*webauthnData))
		for _, a := range km.CallArgs(lc.Common()) {
			if derivesFromUserProfile(a, isAuthUser, depth+1) {
				return true
			}
		}
		return false
	}
	switch x := v.(type) {
	case *ssa.UnOp:
		return derivesFromUserProfile(x.X, isAuthUser, depth+1)
	case *ssa.Field:
		return derivesFromUserProfile(x.X, isAuthUser, depth+1)
	case *ssa.FieldAddr:
		return derivesFromUserProfile(x.X, isAuthUser, depth+1)
	case *ssa.IndexAddr:
		return derivesFromUserProfile(x.X, isAuthUser, depth+1)
	case *ssa.Extract:
		return derivesFromUserProfile(x.Tuple, isAuthUser, depth+1)
	case *ssa.Next:
		return derivesFromUserProfile(x.Iter, isAuthUser, depth+1)
	case *ssa.Range:
		return derivesFromUserProfile(x.X, isAuthUser, depth+1)
	case *ssa.Lookup:
		return derivesFromUserProfile(x.X, isAuthUser, depth+1)
	case *ssa.Alloc:
		n := 0
		for _, ref := range *x.Referrers() {
			if st, ok := ref.(*ssa.Store); ok && st.Addr == x {
				if !derivesFromUserProfile(st.Val, isAuthUser, depth+1) {
					return false
				}
				n++
			}
		}
		return n > 0
	case *ssa.Phi:
		n := 0
		for _, e := range x.Edges {
			if c, ok := e.(*ssa.Const); ok && c.Value == nil {
				continue
			}
			if !derivesFromUserProfile(e, isAuthUser, depth+1) {
				return false
			}
			n++
		}
		return n > 0
	}
	return false
}

// recordBoundToUser: on the path to `at`, record rec (a pushPollTransaction value) has been compared equal to
// the authenticated user: a fact rec.Username == authUser holds at the call.
func recordBoundToUser(c *km.Ctx, s *km.Sem, at ssa.Instruction, rec ssa.Value, isAuthUser func(ssa.Value) bool) bool {
	st := c.F.At(at)
	if st == nil {
		return true
	}
	// record.Username == authUser, compared here or inside a method the record was handed to (startedBy(user))
	bound := km.Prim{Name: "record.Username == authUser", Rel: func(f km.Fact, resolve func(ssa.Value) ssa.Value) bool {
		if f.Op != token.EQL {
			return false
		}
		for _, pair := range [][2]ssa.Value{{f.X, f.Y}, {f.Y, f.X}} {
			b, fld, ok := km.FieldOfLoad(km.Unwrap(pair[0]))
			if !ok || fld != "Username" {
				continue
			}
			base := resolve(b)
			// a value receiver is spilled to a local cell inside the method: the cell's single store
			if a, isA := km.Unwrap(b).(*ssa.Alloc); isA {
				for _, ref := range *a.Referrers() {
					if st, isSt := ref.(*ssa.Store); isSt && st.Addr == ssa.Value(a) {
						base = resolve(st.Val)
					}
				}
			}
			if (b == rec || base == rec || base == km.Unwrap(rec) || cellOrigin(base) == cellOrigin(rec) || cellIsResultOf(rec, km.Unwrap(b))) && (isAuthUser(pair[1]) || isAuthUser(resolve(pair[1]))) {
				return true
			}
		}
		return false
	}}
	return st.All(func(k km.Conj) bool { return s.Holds(k, bound) })
}

func checkOneTime(c *km.Ctx, s *km.Sem, upd *ssa.Function, isAuthUser func(ssa.Value) bool) {
	r := c.R
	// ---- TOTP
	if fn := c.MustFunc("R-C05-4", "cmd/keymasterd", "(*RuntimeState).validateUserTOTP"); fn != nil {
		notSeen := km.Prim{Name: "LastSuccessfullTOTPCounter != current step", Direct: func(f km.Fact) bool {
			return f.Op == token.NEQ && (mentionsField(f.X, "LastSuccessfullTOTPCounter") || mentionsField(f.Y, "LastSuccessfullTOTPCounter"))
		}}
		saved := primErrNil("counter saved", RS+"SaveUserProfile", 0)
		fromCache := km.Prim{Name: "profile from cache (no write possible)", Direct: func(f km.Fact) bool {
			cl, idx := callRes(f.X)
			return f.Op == token.ILLEGAL && f.Pol && cl != nil && idx == 2 && km.CalleeFull(cl.Common()) == RS+"LoadUserProfile"
		}}
		totpOK := km.Prim{Name: "totp.Validate ok", Direct: func(f km.Fact) bool {
			cl, ok := f.X.(*ssa.Call)
			return f.Op == token.ILLEGAL && f.Pol && ok && km.CalleeFull(cl.Common()) == "github.com/pquerna/otp/totp.Validate"
		}}
		n := 0
		for _, rc := range s.RetCases(fn) {
			if km.ValStr(rc.Results[0]) != "true" {
				continue
			}
			n++
			var missing []string
			if !rc.State.All(func(k km.Conj) bool { return s.Holds(k, notSeen) }) {
				missing = append(missing, notSeen.Name)
			}
			if !rc.State.All(func(k km.Conj) bool { return s.Holds(k, totpOK) }) {
				missing = append(missing, totpOK.Name)
			}
			if !rc.State.All(func(k km.Conj) bool { return s.Holds(k, saved) || s.Holds(k, fromCache) }) {
				missing = append(missing, "counter saved ∨ profile from cache")
			}
			r.Add("R-C05-4", km.FuncName(fn), "TOTP accepted", posOf(c, rc.Ret), "code valid ∧ step not yet used ∧ (used step persisted ∨ read-only cache)", sprintf("missing=%v", missing), len(missing) == 0)
		}
		if n == 0 {
			r.AnchorLost("R-C05-4", "accepting return of validateUserTOTP")
		}
		// the stored value is the current step and the store precedes the save
		nStore := 0
		km.Instrs(fn, func(in ssa.Instruction) {
			st, ok := in.(*ssa.Store)
			if !ok {
				return
			}
			fa, ok := st.Addr.(*ssa.FieldAddr)
			if !ok || fieldNameOf(fa) != "LastSuccessfullTOTPCounter" {
				return
			}
			nStore++
			// same value that was compared
			same := false
			km.Instrs(fn, func(i2 ssa.Instruction) {
				if iff, ok := i2.(*ssa.If); ok {
					if b, ok := iff.Cond.(*ssa.BinOp); ok && (b.Op == token.EQL || b.Op == token.NEQ) {
						if (mentionsField(b.X, "LastSuccessfullTOTPCounter") && km.Unwrap(b.Y) == km.Unwrap(st.Val)) || (mentionsField(b.Y, "LastSuccessfullTOTPCounter") && km.Unwrap(b.X) == km.Unwrap(st.Val)) {
							same = true
						}
					}
				}
			})
			// a SaveUserProfile call follows in the same block or a dominated block
			followed := false
			for _, ci := range km.CallsIn(fn) {
				if km.CalleeFull(ci.Common()) == RS+"SaveUserProfile" && km.InstrDominates(in, ci) {
					followed = true
				}
			}
			r.Add("R-C05-4", km.FuncName(fn), "store used TOTP step", posOf(c, in), "the stored step is the value the replay test compares against, and it is saved", sprintf("same value=%v saved afterwards=%v", same, followed), same && followed)
			// the step is the period the code belongs to - the time divided by the period, rounded down: a step
			// rounded to the nearest period changes half-way through the life of a code, which can then be replayed
			floorOK, why := totpStepIsFloor(st.Val, 0)
			r.Add("R-C05-4", km.FuncName(fn), "TOTP step of the presented code", posOf(c, in), "time.Unix() / period rounded down (never rounded to the nearest period)", why, floorOK)
		})
		if nStore == 0 {
			r.AnchorLost("R-C05-4", "store of LastSuccessfullTOTPCounter")
		}
	}
	// ---- bootstrap OTP
	if fn := c.MustFunc("R-C05-4", "cmd/keymasterd", "(*RuntimeState).BootstrapOtpAuthHandler"); fn != nil {
		saved := primErrNil("cleared profile saved", RS+"SaveUserProfile", 0)
		notCached := km.Prim{Name: "profile not from cache", Direct: func(f km.Fact) bool {
			cl, idx := callRes(f.X)
			return f.Op == token.ILLEGAL && !f.Pol && cl != nil && idx == 2 && km.CalleeFull(cl.Common()) == RS+"LoadUserProfile"
		}}
		for _, ci := range km.CallsIn(fn) {
			if km.StaticCallee(ci.Common()) != upd {
				continue
			}
			st := c.F.At(ci)
			ok := st.All(func(k km.Conj) bool { return s.Holds(k, saved) && s.Holds(k, notCached) })
			// a store clearing BootstrapOTP dominates the save
			cleared := false
			km.Instrs(fn, func(in ssa.Instruction) {
				if sto, ok := in.(*ssa.Store); ok {
					if fa, ok := sto.Addr.(*ssa.FieldAddr); ok && fieldNameOf(fa) == "BootstrapOTP" {
						for _, c2 := range km.CallsIn(fn) {
							if km.CalleeFull(c2.Common()) == RS+"SaveUserProfile" && km.InstrDominates(in, c2) && km.InstrDominates(c2, ci) {
								cleared = true
							}
						}
					}
				}
			})
			r.Add("R-C05-4", km.FuncName(fn), "bootstrap OTP consumed before upgrade", posOf(c, ci), "OTP cleared, profile saved without error (primary store) before the level is raised", sprintf("saved-fact=%v cleared-before-save=%v", ok, cleared), ok && cleared)
		}
	}
	if fn := c.MustFunc("R-C05-4", "cmd/keymasterd", "(*RuntimeState).userBootstrapOtpHash"); fn != nil {
		notExpired := km.Prim{Name: "not expired", Direct: func(f km.Fact) bool {
			// time.Since(ExpiresAt) < 0   or  ExpiresAt.After(now)
			if f.Op == token.LSS {
				if cl, ok := f.X.(*ssa.Call); ok && km.CalleeFull(cl.Common()) == "time.Since" && mentionsField(cl.Common().Args[0], "ExpiresAt") {
					i, ok := km.ConstInt(f.Y)
					return ok && i == 0
				}
			}
			if f.Op == token.ILLEGAL {
				if cl, ok := f.X.(*ssa.Call); ok {
					n := km.CalleeFull(cl.Common())
					if n == "(time.Time).After" && f.Pol && mentionsField(cl.Common().Args[0], "ExpiresAt") {
						return true
					}
					if n == "(time.Time).Before" && !f.Pol && mentionsField(cl.Common().Args[0], "ExpiresAt") {
						return true
					}
				}
			}
			return false
		}}
		notCached := km.Prim{Name: "not from cache", Direct: func(f km.Fact) bool {
			cp := km.ParamAt(fn, 2)
			return cp != nil && f.Op == token.ILLEGAL && !f.Pol && km.Unwrap(f.X) == ssa.Value(cp)
		}}
		for _, rc := range s.RetCases(fn) {
			if km.IsNilConst(rc.Results[0]) {
				continue
			}
			ok := rc.State.All(func(k km.Conj) bool { return s.Holds(k, notExpired) && s.Holds(k, notCached) })
			r.Add("R-C05-4", km.FuncName(fn), "usable bootstrap OTP hash", posOf(c, rc.Ret), "a hash is handed out only when unexpired and when the profile can be written back", clipS(rc.State.String(), 300), ok)
		}
	}
	// ---- hardware token challenge: consumed in the lookup's critical section, unexpired
	for _, hn := range []string{"(*RuntimeState).u2fSignResponse", "(*RuntimeState).webauthnAuthFinish"} {
		fn := c.MustFunc("R-C05-4", "cmd/keymasterd", hn)
		if fn == nil {
			continue
		}
		cc := findChallengeConsume(c, fn)
		if cc == nil {
			r.Add("R-C05-4", km.FuncName(fn), "challenge consumed", c.P.Pos(fn.Pos()), "lookup and delete of localAuthData[authUser], here or in a helper called with the user", "none found", false)
			continue
		}
		keyOK := cc.keyIs(cc.lookup.Index, isAuthUser) && cc.keyIs(cc.del.Common().Args[1], isAuthUser)
		notExpired := km.Prim{Name: "challenge unexpired", Direct: func(f km.Fact) bool {
			cl, ok := f.X.(*ssa.Call)
			return f.Op == token.ILLEGAL && !f.Pol && ok && km.CalleeFull(cl.Common()) == "(time.Time).Before" && mentionsField(cl.Common().Args[0], "ExpiresAt")
		}}
		for _, ci := range km.CallsIn(fn) {
			if km.StaticCallee(ci.Common()) != upd {
				continue
			}
			dom := cc.dominatesIn(ci)
			st := c.F.At(ci)
			unexp := st.All(func(k km.Conj) bool { return s.Holds(k, notExpired) })
			r.Add("R-C05-4", km.FuncName(fn), "challenge consumed before upgrade", posOf(c, ci), "challenge of authUser looked up, deleted (consumed) and unexpired before the level is raised", sprintf("key=authUser:%v delete-dominates=%v unexpired=%v", keyOK, dom, unexp), keyOK && dom && unexp)
		}
	}
}

// checkPushRecords: every record stored into the pending-push table pairs a transaction id with the very user
// the push was started for: the record is built in the storing function (not taken over from the table), its
// TransactionID is the result of StartUserVIPPush(U) and its Username is that same U. The poll handler compares
// record.Username with the polling session's user; that comparison means something only if the pair is coherent.
func checkPushRecords(c *km.Ctx) {
	r := c.R
	n := 0
	for _, fn := range c.P.AllFuncs {
		if fn.Pkg == nil || !pkgIsKMD(fn.Pkg) {
			continue
		}
		km.Instrs(fn, func(in ssa.Instruction) {
			mu, ok := in.(*ssa.MapUpdate)
			if !ok || !mentionsField(mu.Map, "vipPushCookie") {
				return
			}
			n++
			var problems []string
			var cell *ssa.Alloc
			if u, ok := km.Unwrap(mu.Value).(*ssa.UnOp); ok {
				cell, _ = u.X.(*ssa.Alloc)
			}
			if cell == nil {
				problems = append(problems, "stored record is not a value built in this function: "+km.ValStr(mu.Value))
			} else {
				var users, txs []ssa.Value
				for _, ref := range *cell.Referrers() {
					switch x := ref.(type) {
					case *ssa.Store:
						if x.Addr == ssa.Value(cell) {
							if _, zero := km.Unwrap(x.Val).(*ssa.Const); !zero {
								problems = appendUniq(problems, "the record is taken over whole from "+km.ValStr(x.Val))
							}
						}
					case *ssa.FieldAddr:
						for _, r2 := range *x.Referrers() {
							if st, ok := r2.(*ssa.Store); ok && st.Addr == ssa.Value(x) {
								switch fieldNameOf(x) {
								case "Username":
									users = append(users, km.Unwrap(st.Val))
								case "TransactionID":
									txs = append(txs, km.Unwrap(st.Val))
								}
							}
						}
					}
				}
				if len(users) == 0 || len(txs) == 0 {
					problems = appendUniq(problems, "Username / TransactionID are not both set here")
				}
				for _, tx := range txs {
					cl, idx := callRes(tx)
					if cl == nil || idx != 0 || !strings.HasSuffix(km.CalleeFull(cl.Common()), ".StartUserVIPPush") {
						problems = appendUniq(problems, "transaction id is not the result of StartUserVIPPush: "+km.ValStr(tx))
						continue
					}
					a := km.CallArgs(cl.Common())
					started := km.Unwrap(a[len(a)-1])
					for _, u := range users {
						if u != started {
							problems = appendUniq(problems, "record names "+km.ValStr(u)+" but the push was started for "+km.ValStr(started))
						}
					}
				}
			}
			sort.Strings(problems)
			r.Add("R-C05-2", km.FuncName(fn), "pending push record binds transaction and user", posOf(c, in), "a record built here with TransactionID = StartUserVIPPush(U) and Username = U", sprintf("%v", problems), len(problems) == 0)
		})
	}
	if n == 0 {
		r.AnchorLost("R-C05-2", "stores into the pending VIP push table")
	}
}

func cellOrigin(v ssa.Value) ssa.Value { return km.CellOrigin(v) }

// checkChallengeFresh: a challenge record put into the pending table is built in the call that stores it - new
// challenge, new deadline. A record taken from the table and stored again with a later deadline keeps an old
// challenge answerable for as long as somebody keeps asking.
func checkChallengeFresh(c *km.Ctx, rule string) {
	n := 0
	for _, fn := range c.P.AllFuncs {
		if fn.Pkg == nil || !pkgIsKMD(fn.Pkg) {
			continue
		}
		km.Instrs(fn, func(in ssa.Instruction) {
			mu, ok := in.(*ssa.MapUpdate)
			if !ok || !mentionsField(mu.Map, "localAuthData") {
				return
			}
			n++
			seen := map[ssa.Value]bool{}
			old := ""
			var walk func(v ssa.Value, d int)
			walk = func(v ssa.Value, d int) {
				if v == nil || seen[v] || d > 8 {
					return
				}
				seen[v] = true
				switch x := v.(type) {
				case *ssa.Lookup:
					if mentionsField(x.X, "localAuthData") {
						old = posOf(c, x)
					}
				case *ssa.Extract:
					walk(x.Tuple, d+1)
				case *ssa.Phi:
					for _, e := range x.Edges {
						walk(e, d+1)
					}
				case *ssa.UnOp:
					walk(x.X, d+1)
				case *ssa.MakeInterface:
					walk(x.X, d+1)
				case *ssa.Alloc:
					for _, ref := range *x.Referrers() {
						if st, ok := ref.(*ssa.Store); ok && st.Addr == ssa.Value(x) {
							walk(st.Val, d+1)
						}
					}
				}
			}
			walk(mu.Value, 0)
			c.R.Add(rule, km.FuncName(fn), "pending challenge record stored", posOf(c, in), "the record is built by this call (new challenge and deadline), not an earlier record re-stamped", "earlier record read at "+old, old == "")
		})
	}
	if n == 0 {
		c.R.AnchorLost(rule, "stores into the pending challenge table")
	}
}

// totpStepIsFloor: v is computed from Unix() of a time parameter (possibly truncated) by division, conversions and
// math.Floor only.
func totpStepIsFloor(v ssa.Value, depth int) (bool, string) {
	if depth > 8 {
		return false, "too deep"
	}
	v = km.Unwrap(v)
	switch x := v.(type) {
	case *ssa.Const:
		return true, "constant"
	case *ssa.Convert:
		return totpStepIsFloor(x.X, depth+1)
	case *ssa.BinOp:
		if x.Op != token.QUO && x.Op != token.MUL {
			return false, "operator " + x.Op.String()
		}
		if ok, why := totpStepIsFloor(x.X, depth+1); !ok {
			return false, why
		}
		return totpStepIsFloor(x.Y, depth+1)
	case *ssa.Call:
		switch n := km.CalleeFull(x.Common()); n {
		case "math.Floor":
			return totpStepIsFloor(x.Common().Args[0], depth+1)
		case "(time.Time).Unix":
			r := km.Unwrap(x.Common().Args[0])
			for i := 0; i < 3; i++ {
				if cl, ok := r.(*ssa.Call); ok {
					switch km.CalleeFull(cl.Common()) {
					case "(time.Time).Truncate", "(time.Time).UTC":
						r = km.Unwrap(cl.Common().Args[0])
						continue
					}
					return false, "time derived through " + short(km.CalleeFull(cl.Common()))
				}
				break
			}
			if _, isP := km.CellOrigin(r).(*ssa.Parameter); isP {
				return true, "floor(t.Unix() / period)"
			}
			return false, "time value " + km.ValStr(r)
		default:
			return false, "call of " + short(n)
		}
	}
	return false, km.ValStr(v)
}

// authCookieSelection: how fn picks the session cookie out of the request: "first" (Request.Cookie, element 0 of
// Request.CookiesNamed, or a loop over Request.Cookies() that stops at the first match), "last" (a loop over
// Request.Cookies() that runs to the end, each match replacing the previous; the last element of CookiesNamed),
// "via <helper>" when the choice is made by a module function that takes the request and returns a cookie and whose
// own choice cannot be classified (two callers of one such helper agree by construction), "none", or the list when
// several occur.
func authCookieSelection(c *km.Ctx, fn *ssa.Function) string {
	classes := map[string]bool{}
	var scan func(f *ssa.Function, depth int) map[string]bool
	scan = func(f *ssa.Function, depth int) map[string]bool {
		out := map[string]bool{}
		for _, ci := range km.CallsIn(f) {
			name := km.CalleeFull(ci.Common())
			switch name {
			case "(*net/http.Request).Cookie":
				if n, ok := km.ConstString(ci.Common().Args[1]); ok && n == "auth_cookie" {
					out["first"] = true
				}
			case "(*net/http.Request).CookiesNamed":
				cl, isCall := ci.(*ssa.Call)
				if n, ok := km.ConstString(ci.Common().Args[1]); !ok || n != "auth_cookie" || !isCall {
					continue
				}
				for _, ref := range *cl.Referrers() {
					ia, isIA := ref.(*ssa.IndexAddr)
					if !isIA {
						continue
					}
					if k, isK := km.ConstInt(ia.Index); isK && k == 0 {
						out["first"] = true
					} else if b, isB := km.Unwrap(ia.Index).(*ssa.BinOp); isB && b.Op == token.SUB {
						one, isOne := km.ConstInt(b.Y)
						lc, isL := km.Unwrap(b.X).(*ssa.Call)
						if isOne && one == 1 && isL && km.CalleeFull(lc.Common()) == "builtin:len" && km.Unwrap(lc.Common().Args[0]) == ssa.Value(cl) {
							out["last"] = true
						} else {
							out["element "+km.ValStr(ia.Index)] = true
						}
					} else {
						out["element "+km.ValStr(ia.Index)] = true
					}
				}
			case "(*net/http.Request).Cookies":
				cl, isCall := ci.(*ssa.Call)
				if !isCall {
					continue
				}
				// the range loop over this slice
				for _, b := range f.Blocks {
					if b.Comment != "rangeindex.loop" || len(b.Succs) != 2 {
						continue
					}
					body, done := b.Succs[0], b.Succs[1]
					inLoop := km.ReachableBlocks(body, map[*ssa.BasicBlock]bool{b: true, done: true})
					overCookies, namesAuth := false, false
					for blk := range inLoop {
						for _, in := range blk.Instrs {
							if ia, ok := in.(*ssa.IndexAddr); ok && km.Unwrap(ia.X) == ssa.Value(cl) {
								overCookies = true
							}
							if bo, ok := in.(*ssa.BinOp); ok && (bo.Op == token.EQL || bo.Op == token.NEQ) {
								for _, side := range []ssa.Value{bo.X, bo.Y} {
									if n, isC := km.ConstString(side); isC && n == "auth_cookie" {
										namesAuth = true
									}
								}
							}
						}
					}
					if !overCookies || !namesAuth {
						continue
					}
					early := false
					for _, p := range done.Preds {
						if p != b {
							early = true
						}
					}
					for blk := range inLoop {
						if _, isRet := blk.Instrs[len(blk.Instrs)-1].(*ssa.Return); isRet {
							early = true
						}
					}
					if early {
						out["first"] = true
					} else {
						out["last"] = true
					}
				}
			default:
				// a module function that gives back a cookie (handed the request, or a method of a record that holds it)
				g := km.StaticCallee(ci.Common())
				if g == nil || len(g.Blocks) == 0 || !c.InModule(g) || depth > 2 {
					continue
				}
				res := g.Signature.Results()
				if res.Len() == 0 || res.At(0).Type().String() != "*net/http.Cookie" {
					continue
				}
				inner := scan(g, depth+1)
				if len(inner) == 0 {
					out["via "+km.FuncName(g)] = true
				}
				for k := range inner {
					out[k] = true
				}
			}
		}
		return out
	}
	classes = scan(fn, 0)
	if len(classes) == 0 {
		return "none"
	}
	var l []string
	for k := range classes {
		l = append(l, k)
	}
	sort.Strings(l)
	return strings.Join(l, " and ")
}

// checkFreshDecodeTargets: what the Okta authenticator learns about one user's login (state token, enrolled
// factors, push status) is decoded into a value made for that call. A decoder leaves fields that are absent from
// the reply as they were: a target taken from a pool, a field or a package variable carries the previous user's
// state token into this user's session.
func checkFreshDecodeTargets(c *km.Ctx, rule string) {
	n, bad := 0, ""
	for _, fn := range c.P.AllFuncs {
		if fn.Pkg == nil || fn.Pkg.Pkg.Path() != km.ModPath+"/lib/authenticators/okta" {
			continue
		}
		for _, ci := range km.CallsIn(fn) {
			var target ssa.Value
			switch km.CalleeFull(ci.Common()) {
			case "(*encoding/json.Decoder).Decode":
				target = ci.Common().Args[1]
			case "encoding/json.Unmarshal":
				target = ci.Common().Args[1]
			default:
				continue
			}
			n++
			t := km.Unwrap(target)
			al, isAl := t.(*ssa.Alloc)
			fresh := isAl && al.Parent() == fn
			if fresh {
				// a local that is not itself filled from somewhere else before the decode
				for _, ref := range *al.Referrers() {
					if st, isSt := ref.(*ssa.Store); isSt && st.Addr == ssa.Value(al) && km.InstrDominates(st, ci) {
						if _, isC := km.Unwrap(st.Val).(*ssa.Const); !isC {
							fresh = false
						}
					}
				}
			}
			if !fresh {
				bad = "decoded into " + clipS(km.ValStr(target), 80) + " at " + posOf(c, ci)
			}
		}
	}
	if n == 0 {
		c.R.AnchorLost(rule, "JSON decoding of Okta replies")
		return
	}
	found := sprintf("%d decode sites, each into a variable declared in the call", n)
	if bad != "" {
		found = bad
	}
	c.R.Add(rule, "lib/authenticators/okta", "replies are decoded into fresh values", "-", "every decode target is a local variable of the call (not pooled, not shared)", found, bad == "")
}
