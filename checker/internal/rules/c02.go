package rules

import (
	"go/token"
	"strings"

	"kmcheck/internal/km"

	"golang.org/x/tools/go/ssa"
)

func init() { km.Register("C02", checkC02) }

var standardSSHExtensions = map[string]bool{
	"permit-X11-forwarding": true, "permit-agent-forwarding": true, "permit-port-forwarding": true, "permit-pty": true, "permit-user-rc": true,
}

func checkC02(c *km.Ctx) {
	r := c.R
	s := km.NewSem(c)
	r.Explain = "Static analysis of /repo: provenance of every field of the certificate templates that reach a signing call (SSH: principals = [user parameter], key = parse of the submitted key string, type = user certificate, extensions = a fresh map holding the five standard names plus copies of the caller's map, no critical options; X.509: common name = name parameter, non-CA, client-auth usage, no cert-sign usage, public key = the function's key parameter); call-site binding in keymasterd (user argument is the authenticated name, the key that is certified is the very value that was parsed from the request's pubkeyfile and strength-checked, extension templates substitute only USERNAME by the user parameter); signer and CA certificate are a pair (the CA certificate is generated from the value stored as signer, and the last published CA is the one used for signing). Decides provenance structurally; byte-level certificate content is not inspected."
	r.NotDecided = []string{"byte-level content of issued certificates", "reprocessUsername's behaviour on all strings"}
	r.Assume = []string{"go/types + go/ssa model the source faithfully", "x/crypto/ssh and crypto/x509 encode the templates they are given"}

	r.Rule("R-C02-1", "SSH template: ValidPrincipals=[username param], Key=parse(userPubKey param), CertType=UserCert, extensions=fresh map of the five standard names + copies of customExtensions, CriticalOptions unset", 2)
	r.Rule("R-C02-2", "X.509 templates: CommonName=name parameter, IsCA=false, BasicConstraintsValid, ExtKeyUsage has ClientAuth, KeyUsage lacks CertSign, public key argument = key parameter", 6)
	r.Rule("R-C02-3", "call sites: user argument is the authenticated user; the certified key is the value parsed from the request's pubkeyfile and strength-checked; extension templates substitute only USERNAME with the user parameter", 2)
	r.Rule("R-C02-4", "signer/CA pairing: getSignerX509CAForPublic returns state.Signer with the last CA certificate; the loader appends last the CA generated from the value it stores as Signer; the handler signs with that pair", 1)
	r.Rule("R-C02-5", "the authenticated name is the normalised, verified name (inside checkAuth)", 5)

	// ---------------- R-C02-1
	if fn := c.MustFunc("R-C02-1", "lib/certgen", "GenSSHCertFileString"); fn != nil {
		sshT := "golang.org/x/crypto/ssh.Certificate"
		st := storesByField(fn, sshT)
		user, keyStr, custom := km.ParamAt(fn, 0), km.ParamAt(fn, 1), km.ParamAt(fn, 5)
		one := func(field, req string, pred func(v ssa.Value) bool) {
			ss := st[field]
			if len(ss) == 0 {
				r.Add("R-C02-1", km.FuncName(fn), "ssh template "+field, c.P.Pos(fn.Pos()), req, "not set", false)
				return
			}
			for _, x := range ss {
				r.Add("R-C02-1", km.FuncName(fn), "ssh template "+field, posOf(c, x), req, clipS(km.ValStr(x.Val), 140), pred(x.Val))
			}
		}
		one("ValidPrincipals", "[]string{username param}", func(v ssa.Value) bool { return isSingletonSliceOf(v, user) })
		one("Key", "result of ssh.ParseAuthorizedKey([]byte(userPubKey param))", func(v ssa.Value) bool {
			cl, idx := callRes(km.Unwrap(v))
			if cl == nil || idx != 0 || km.CalleeFull(cl.Common()) != "golang.org/x/crypto/ssh.ParseAuthorizedKey" {
				return false
			}
			cv, ok := km.Unwrap(cl.Common().Args[0]).(*ssa.Convert)
			return ok && km.Unwrap(cv.X) == ssa.Value(keyStr)
		})
		one("CertType", "ssh.UserCert", func(v ssa.Value) bool { i, ok := km.ConstInt(v); return ok && i == 1 })
		if len(st["CriticalOptions"]) > 0 {
			r.Add("R-C02-1", km.FuncName(fn), "ssh template CriticalOptions", posOf(c, st["CriticalOptions"][0]), "never set", "set", false)
		}
		// extensions: Permissions.Extensions store
		var extMap ssa.Value
		km.Instrs(fn, func(in ssa.Instruction) {
			if sto, ok := in.(*ssa.Store); ok {
				if fa, ok := sto.Addr.(*ssa.FieldAddr); ok && fieldNameOf(fa) == "Extensions" {
					extMap = km.Unwrap(sto.Val)
				}
			}
		})
		if extMap == nil {
			r.AnchorLost("R-C02-1", "Permissions.Extensions store in GenSSHCertFileString")
		} else {
			// the map is created in this call, or by a constructor of the module every return of which is a map made there
			var maps_ []*ssa.MakeMap
			fresh := false
			customAliases := []ssa.Value{custom}
			if mk, ok := extMap.(*ssa.MakeMap); ok {
				fresh = true
				maps_ = append(maps_, mk)
			} else if cl, idx := callRes(extMap); cl != nil && idx == 0 {
				g := km.StaticCallee(cl.Common())
				// a constructor without parameters, or one that is handed the caller's custom extensions to copy in
				okParams := g != nil && len(g.Params) == 0
				if g != nil && len(g.Params) == 1 && len(cl.Common().Args) == 1 && km.Unwrap(cl.Common().Args[0]) == ssa.Value(custom) {
					okParams = true
					customAliases = append(customAliases, g.Params[0])
				}
				if g != nil && g.Blocks != nil && c.InModule(g) && okParams {
					fresh = true
					for _, rc := range s.RetCases(g) {
						mk, ok := km.Unwrap(rc.Results[0]).(*ssa.MakeMap)
						if !ok || mk.Parent() != g {
							fresh = false
							break
						}
						maps_ = append(maps_, mk)
					}
				}
			}
			r.Add("R-C02-1", km.FuncName(fn), "extension map is private to the call", c.P.Pos(extMap.Pos()), "a map created in this call, directly or by a parameterless constructor that returns a map it made (never a shared/package-level map)", km.ValStr(extMap), fresh)
			nStd, okAll := 0, true
			bad := ""
			// copy from customExtensions: key and value are the extracts of Next(Range(customExtensions))
			fromCustom := func(v ssa.Value) bool {
				ex, ok := km.Unwrap(v).(*ssa.Extract)
				if !ok {
					return false
				}
				nx, ok := ex.Tuple.(*ssa.Next)
				if !ok {
					return false
				}
				rg, ok := nx.Iter.(*ssa.Range)
				if !ok {
					return false
				}
				for _, al := range customAliases {
					if km.Unwrap(rg.X) == al {
						return true
					}
				}
				return false
			}
			// every use of the map (in the constructor and here) is classified
			var holders []ssa.Value
			for _, mk := range maps_ {
				holders = append(holders, mk)
			}
			if len(maps_) > 0 && ssa.Value(maps_[0]) != extMap {
				holders = append(holders, extMap)
			}
			nStdPerMap := map[ssa.Value]int{}
			for _, h := range holders {
				for _, ref := range *h.Referrers() {
					switch x := ref.(type) {
					case *ssa.MapUpdate:
						if km.Unwrap(x.Map) != h {
							okAll, bad = false, "map used as key/value at "+posOf(c, x)
							continue
						}
						if ks, ok := km.ConstString(x.Key); ok {
							vs, okv := km.ConstString(x.Value)
							if standardSSHExtensions[ks] && okv && vs == "" {
								nStdPerMap[h]++
							} else {
								okAll, bad = false, "constant extension "+ks
							}
							continue
						}
						// the standard names kept in a package-level array and copied in by a loop over all of it
						var arrG *ssa.Global
						var arrIdx ssa.Value
						if u, isU := km.Unwrap(x.Key).(*ssa.UnOp); isU && u.Op == token.MUL {
							if ia, isIA := u.X.(*ssa.IndexAddr); isIA {
								if g, isG := ia.X.(*ssa.Global); isG {
									arrG, arrIdx = g, ia.Index
								}
							}
						}
						// "for _, name := range array": the array value is loaded once and indexed
						if ix, isIx := km.Unwrap(x.Key).(*ssa.Index); isIx {
							if u, isU := ix.X.(*ssa.UnOp); isU && u.Op == token.MUL {
								if g, isG := u.X.(*ssa.Global); isG {
									arrG, arrIdx = g, ix.Index
								}
							}
						}
						if arrG != nil {
							{
								{
									g, ia := arrG, struct{ Index ssa.Value }{arrIdx}
									names, okN := globalArrayStrings(c, g)
									vs, okv := km.ConstString(x.Value)
									distinct := map[string]bool{}
									for _, nm := range names {
										if standardSSHExtensions[nm] {
											distinct[nm] = true
										} else {
											okN = false
										}
									}
									if okN && okv && vs == "" && isWholeRangeIndex(ia.Index) {
										nStdPerMap[h] += len(distinct)
										continue
									}
								}
							}
						}
						if !fromCustom(x.Key) || !fromCustom(x.Value) {
							okAll, bad = false, "extension from "+km.ValStr(x.Key)
							continue
						}
						// every configured entry is copied: the only entries an iteration may skip are those with an
						// empty name (no test on the entry's value decides whether it is copied)
						for _, k := range c.F.At(x) {
							for _, f := range k.List() {
								for _, side := range []ssa.Value{f.X, f.Y} {
									if side == nil || !fromCustom(side) {
										continue
									}
									ex := km.Unwrap(side).(*ssa.Extract)
									if ex.Index == 0 {
										continue // the iterator's own "more entries" flag
									}
									emptyName := false
									if cs, isC := km.ConstString(f.Y); isC && cs == "" && f.Op == token.NEQ && ex.Index == 1 {
										emptyName = true
									}
									if !emptyName {
										okAll, bad = false, "a configured entry is copied only when "+f.String()
									}
								}
							}
						}
					case *ssa.Call:
						name := km.CalleeFull(x.Common())
						if i := strings.Index(name, "["); i > 0 {
							name = name[:i]
						}
						switch {
						case name == "maps.Copy" && len(x.Common().Args) == 2 && km.Unwrap(x.Common().Args[0]) == h && km.Unwrap(x.Common().Args[1]) == ssa.Value(custom):
							// copies of the caller's entries
						case name == "builtin:delete":
							if ks, ok := km.ConstString(x.Common().Args[1]); !ok || standardSSHExtensions[ks] {
								okAll, bad = false, "removes "+km.ValStr(x.Common().Args[1])
							}
						case name == "builtin:len":
						default:
							okAll, bad = false, "map handed to "+name
						}
					case *ssa.Return, *ssa.Lookup, *ssa.Range, *ssa.DebugRef:
					case *ssa.Store:
						if fa, ok := x.Addr.(*ssa.FieldAddr); !ok || fieldNameOf(fa) != "Extensions" {
							okAll, bad = false, "map stored at "+posOf(c, x)
						}
					case *ssa.Phi, *ssa.MakeInterface, *ssa.ChangeType:
						if km.Unwrap(x.(ssa.Value)) != extMap && x.(ssa.Value) != extMap {
							okAll, bad = false, "map flows into "+km.ValStr(x.(ssa.Value))
						}
					default:
						okAll, bad = false, sprintf("map used by %T at %s", ref, posOf(c, ref))
					}
				}
			}
			// each constructor return must carry all five standard names
			nStd = -1
			for _, mk := range maps_ {
				if nStd < 0 || nStdPerMap[mk] < nStd {
					nStd = nStdPerMap[mk]
				}
			}
			r.Add("R-C02-1", km.FuncName(fn), "extension entries", c.P.Pos(extMap.Pos()), "exactly the five standard names (empty value) plus entries copied from the customExtensions parameter", sprintf("standard=%d other-ok=%v %s", nStd, okAll, bad), nStd == 5 && okAll)
		}
	}

	// ---------------- R-C02-2
	type xf struct {
		rel, name string
		nameParam int
		keyParam  int // -1: the template function does not sign
	}
	for _, f := range []xf{{"lib/certgen", "GenUserX509Cert", 0, 1}, {"lib/certgen", "GenIPRestrictedX509Cert", 0, 1}, {"lib/server/aws_identity_cert", "makeCertificateTemplate", -1, -1}} {
		fn := c.MustFunc("R-C02-2", f.rel, f.name)
		if fn == nil {
			continue
		}
		st := templateStores(c, fn, "crypto/x509.Certificate", "crypto/x509.Certificate")
		chk := func(field, req string, pred func(v ssa.Value) bool) {
			ss := st[field]
			if len(ss) == 0 {
				r.Add("R-C02-2", km.FuncName(fn), "x509 template "+field, c.P.Pos(fn.Pos()), req, "not set", false)
				return
			}
			for _, x := range ss {
				r.Add("R-C02-2", km.FuncName(fn), "x509 template "+field, posOf(c, x.At), req, clipS(km.ValStr(x.Val), 120), pred(x.Val))
			}
		}
		chk("IsCA", "false", func(v ssa.Value) bool { return km.ValStr(v) == "false" })
		chk("BasicConstraintsValid", "true", func(v ssa.Value) bool { return km.ValStr(v) == "true" })
		chk("KeyUsage", "constant without KeyUsageCertSign", func(v ssa.Value) bool { i, ok := km.ConstInt(v); return ok && i&32 == 0 && i != 0 })
		chk("ExtKeyUsage", "contains ExtKeyUsageClientAuth", func(v ssa.Value) bool { return sliceLiteralHasConst(v, 2) })
		if f.nameParam >= 0 {
			// Subject.CommonName: pkix.Name composite whose CommonName is the name parameter
			cnOK := false
			for _, x := range templateStores(c, fn, "crypto/x509/pkix.Name", "crypto/x509.Certificate")["CommonName"] {
				if km.Unwrap(x.Val) == ssa.Value(fn.Params[f.nameParam]) {
					cnOK = true
				} else {
					cnOK = false
					break
				}
			}
			r.Add("R-C02-2", km.FuncName(fn), "x509 template Subject.CommonName", c.P.Pos(fn.Pos()), "the name parameter", sprintf("%v", cnOK), cnOK)
		}
		if f.keyParam >= 0 {
			n := 0
			for _, ci := range km.CallsIn(fn) {
				if km.CalleeFull(ci.Common()) == "crypto/x509.CreateCertificate" {
					n++
					a := ci.Common().Args
					ok := km.Unwrap(a[3]) == ssa.Value(fn.Params[f.keyParam])
					r.Add("R-C02-2", km.FuncName(fn), "certified public key", posOf(c, ci), "CreateCertificate(…, pub = the function's key parameter, …)", km.ValStr(a[3]), ok)
				}
			}
			if n == 0 {
				r.AnchorLost("R-C02-2", "CreateCertificate call in "+f.name)
			}
		}
	}

	// ---------------- R-C02-3
	isAuthUser := func(v ssa.Value) bool { return s.Is(v, km.RoleAuthUser) }
	if fn := c.MustFunc("R-C02-3", "cmd/keymasterd", "(*RuntimeState).postAuthSSHCertHandler"); fn != nil {
		for _, ci := range km.CallsIn(fn) {
			if km.CalleeFull(ci.Common()) != certgenPkg+".GenSSHCertFileString" {
				continue
			}
			a := ci.Common().Args
			r.Add("R-C02-3", km.FuncName(fn), "ssh: certified user", posOf(c, ci), "the authenticated user name", km.ValStr(a[0]), isAuthUser(a[0]))
			keyStr := km.Unwrap(a[1])
			fromFile := derivesFromFormFile(c, fn, keyStr, "pubkeyfile", 0)
			validated := false
			for _, c2 := range km.CallsIn(fn) {
				if km.CalleeFull(c2.Common()) == KMD+".getValidSSHPublicKey" && km.Unwrap(c2.Common().Args[0]) == keyStr && km.InstrDominates(c2, ci) {
					validated = true
				}
			}
			r.Add("R-C02-3", km.FuncName(fn), "ssh: certified key", posOf(c, ci), "the string read from the request's pubkeyfile, the same value that getValidSSHPublicKey validated", sprintf("from-pubkeyfile=%v same-value-validated=%v", fromFile, validated), fromFile && validated)
			ec, idx := callRes(km.Unwrap(a[5]))
			extOK := ec != nil && idx == 0 && km.CalleeFull(ec.Common()) == RS+"expandSSHExtensions" && isAuthUser(km.CallArgs(ec.Common())[1])
			r.Add("R-C02-3", km.FuncName(fn), "ssh: extensions", posOf(c, ci), "expandSSHExtensions(authenticated user)", km.ValStr(a[5]), extOK)
		}
	}
	if fn := c.P.Func("cmd/keymasterd", "(*RuntimeState).expandSSHExtensions"); fn != nil {
		// the certificate carries every configured extension or is not issued: a template that does not expand
		// is an error, not an entry to skip
		if n := checkErrorAborts(c, "R-C02-3", fn, "mvdan.cc/sh/v3/shell.Expand", 1, "configured extension that does not expand"); n == 0 {
			r.AnchorLost("R-C02-3", "expansion of the configured extensions in expandSSHExtensions")
		}
	}
	if fn := c.MustFunc("R-C02-3", "cmd/keymasterd", "(*RuntimeState).expandSSHExtensions"); fn != nil && len(fn.AnonFuncs) == 1 {
		mapper := fn.AnonFuncs[0]
		ok := true
		desc := "USERNAME -> user parameter; everything else -> \"\""
		for _, rc := range s.RetCases(mapper) {
			v := km.Unwrap(rc.Results[0])
			if cs, isC := km.ConstString(v); isC {
				if cs != "" {
					ok, desc = false, "constant substitution "+cs
				}
				continue
			}
			// must be the captured username under placeholder == "USERNAME"
			_, isFV := v.(*ssa.FreeVar)
			if !isFV {
				if u, isU := v.(*ssa.UnOp); isU {
					_, isFV = u.X.(*ssa.FreeVar)
				}
			}
			under := rc.State.All(func(k km.Conj) bool {
				for _, f := range k.List() {
					if cs, isC := km.ConstString(f.Y); isC && f.Op == token.EQL && cs == "USERNAME" && km.Unwrap(f.X) == ssa.Value(km.ParamAt(mapper, 0)) {
						return true
					}
				}
				return false
			})
			if !isFV || !under {
				ok, desc = false, "substitutes "+km.ValStr(v)
			}
		}
		// the captured variable is the username parameter
		bound := false
		for _, cs := range c.G.Callers[mapper] {
			if mc, isMC := cs.Instr.(*ssa.MakeClosure); isMC && len(mc.Bindings) == 1 {
				b := mc.Bindings[0]
				if a, isA := b.(*ssa.Alloc); isA {
					for _, ref := range *a.Referrers() {
						if st, isS := ref.(*ssa.Store); isS && st.Val == ssa.Value(km.ParamAt(fn, 1)) {
							bound = true
						}
					}
				} else if km.Unwrap(b) == ssa.Value(km.ParamAt(fn, 1)) {
					bound = true
				}
			}
		}
		r.Add("R-C02-3", km.FuncName(fn), "extension placeholder mapper", c.P.Pos(mapper.Pos()), "only USERNAME is substituted, by the user parameter", sprintf("%s; captures-user-param=%v", desc, bound), ok && bound)
	} else if fn != nil {
		r.AnchorLost("R-C02-3", "mapper closure of expandSSHExtensions")
	}
	if fn := c.MustFunc("R-C02-3", "cmd/keymasterd", "(*RuntimeState).postAuthX509CertHandler"); fn != nil {
		for _, ci := range km.CallsIn(fn) {
			if km.CalleeFull(ci.Common()) != certgenPkg+".GenUserX509Cert" {
				continue
			}
			a := ci.Common().Args
			r.Add("R-C02-3", km.FuncName(fn), "x509: certified user", posOf(c, ci), "the authenticated user name", km.ValStr(a[0]), isAuthUser(a[0]))
			pub := km.Unwrap(a[1])
			// the key value, followed through a validating helper that hands it back
			fromPEM, validated := true, true
			nLeaves := 0
			for _, k := range c.F.At(ci) {
				for _, lf := range s.Leaves(k, fn, nil, pub, nil, 2) {
					nLeaves++
					lv := km.Unwrap(lf.Val)
					pc, idx := callRes(lv)
					okPEM := false
					if pc != nil && idx == 0 && km.CalleeFull(pc.Common()) == "crypto/x509.ParsePKIXPublicKey" {
						if base, fld, ok := km.FieldOfLoad(km.Unwrap(pc.Common().Args[0])); ok && fld == "Bytes" {
							if dc, di := callRes(km.Unwrap(base)); dc != nil && di == 0 && km.CalleeFull(dc.Common()) == "encoding/pem.Decode" {
								src := km.Unwrap(dc.Common().Args[0])
								// inside a helper the PEM text is its parameter: what the handler passed for it
								if p, isP := src.(*ssa.Parameter); isP && lf.Fn != fn {
									for _, c2 := range km.CallsIn(fn) {
										if km.StaticCallee(c2.Common()) == lf.Fn {
											for i, q := range lf.Fn.Params {
												if q == p && i < len(km.CallArgs(c2.Common())) {
													src = km.Unwrap(km.CallArgs(c2.Common())[i])
												}
											}
										}
									}
								}
								okPEM = derivesFromFormFile(c, fn, src, "pubkeyfile", 0)
							}
						}
					}
					if !okPEM {
						fromPEM = false
					}
					okVal := false
					if lf.Fn != nil {
						for _, c2 := range km.CallsIn(lf.Fn) {
							if km.CalleeFull(c2.Common()) == certgenPkg+".ValidatePublicKeyStrength" && km.Unwrap(c2.Common().Args[0]) == lv {
								if (lf.Fn == fn && km.InstrDominates(c2, ci)) || (lf.Fn != fn && lf.Ret != nil && km.InstrDominates(c2, lf.Ret)) {
									okVal = true
								}
							}
						}
					}
					if !okVal {
						// a parsing helper hands the key back and the handler checks the strength of what it got:
						// the value the handler holds (the one it certifies) is the checked one
						for _, c2 := range km.CallsIn(fn) {
							if km.CalleeFull(c2.Common()) == certgenPkg+".ValidatePublicKeyStrength" && km.Unwrap(c2.Common().Args[0]) == pub && km.InstrDominates(c2, ci) {
								okVal = true
							}
						}
					}
					if !okVal {
						validated = false
					}
				}
			}
			if nLeaves == 0 {
				fromPEM, validated = false, false
			}
			r.Add("R-C02-3", km.FuncName(fn), "x509: certified key", posOf(c, ci), "the key parsed from the request's pubkeyfile PEM, the same value that was strength-checked", sprintf("from-pubkeyfile=%v same-value-validated=%v", fromPEM, validated), fromPEM && validated)
			// signer + CA pair
			sc, si := callRes(km.Unwrap(a[3]))
			pairOK := sc != nil && si == 0 && km.CalleeFull(sc.Common()) == RS+"getSignerX509CAForPublic"
			caOK := false
			if cc, ci2 := callRes(km.Unwrap(a[2])); cc != nil && ci2 == 0 && km.CalleeFull(cc.Common()) == "crypto/x509.ParseCertificate" {
				if dc, di := callRes(km.Unwrap(cc.Common().Args[0])); dc == sc && di == 1 {
					caOK = true
				}
			}
			if !pairOK {
				// signer and CA certificate handed back as one record: both are read from the record one call returned
				recOf := func(v ssa.Value) *ssa.Call {
					v = km.Unwrap(v)
					if o := km.CellOrigin(v); o != nil {
						v = km.Unwrap(o)
					}
					if u, isU := v.(*ssa.UnOp); isU && u.Op == token.MUL {
						if o := km.CellOrigin(u.X); o != nil {
							v = km.Unwrap(o)
						}
					}
					rc2, ri := callRes(v)
					if rc2 != nil && ri == 0 && km.CalleeFull(rc2.Common()) == RS+"getSignerX509CAForPublic" {
						return rc2
					}
					return nil
				}
				if base, _, isF := km.FieldOfLoad(km.Unwrap(a[3])); isF && km.NamedTypeOf(a[3].Type()) == "crypto.Signer" {
					if prov := recOf(base); prov != nil {
						sc, pairOK = prov, true
						// the CA: ParseCertificate of the record's DER field, directly or in a method of the record
						if cc, ci2 := callRes(km.Unwrap(a[2])); cc != nil && ci2 == 0 {
							if km.CalleeFull(cc.Common()) == "crypto/x509.ParseCertificate" {
								if b2, _, isF2 := km.FieldOfLoad(km.Unwrap(cc.Common().Args[0])); isF2 && recOf(b2) == prov {
									caOK = true
								}
							} else if g := km.StaticCallee(cc.Common()); g != nil && len(g.Blocks) > 0 && c.InModule(g) && len(cc.Common().Args) == 1 && recOf(cc.Common().Args[0]) == prov {
								all, nRet := true, 0
								km.Instrs(g, func(in ssa.Instruction) {
									if ret, isRet := in.(*ssa.Return); isRet && len(ret.Results) > 0 {
										nRet++
										pc, pi := callRes(km.Unwrap(ret.Results[0]))
										good := pc != nil && pi == 0 && km.CalleeFull(pc.Common()) == "crypto/x509.ParseCertificate"
										if good {
											b3, _, isF3 := km.FieldOfLoad(km.Unwrap(pc.Common().Args[0]))
											if !isF3 {
												good = false
											} else {
												bb := km.Unwrap(b3)
												if o := km.CellOrigin(bb); o != nil {
													bb = km.Unwrap(o)
												}
												_, isPar := bb.(*ssa.Parameter)
												good = isPar
											}
										}
										if !good {
											all = false
										}
									}
								})
								caOK = all && nRet > 0
							}
						}
					}
				}
			}
			r.Add("R-C02-4", km.FuncName(fn), "x509: signer and CA certificate are the published pair", posOf(c, ci), "signer and CA both come from one getSignerX509CAForPublic call", sprintf("signer=%v ca=%v", pairOK, caOK), pairOK && caOK)
		}
	}

	// ---------------- R-C02-4
	if fn := c.MustFunc("R-C02-4", "cmd/keymasterd", "(*RuntimeState).getSignerX509CAForPublic"); fn != nil {
		for _, rc := range s.RetCases(fn) {
			sgV, caV := km.Unwrap(rc.Results[0]), ssa.Value(nil)
			if len(rc.Results) > 1 {
				caV = km.Unwrap(rc.Results[1])
			}
			// the pair handed back as one record: the values stored into its signer and DER fields
			if ld, isLd := sgV.(*ssa.UnOp); isLd && ld.Op == token.MUL && len(rc.Results) == 2 {
				if al, isAl := ld.X.(*ssa.Alloc); isAl {
					for _, ref := range *al.Referrers() {
						fa, isFA := ref.(*ssa.FieldAddr)
						if !isFA {
							continue
						}
						for _, r2 := range *fa.Referrers() {
							if st, isSt := r2.(*ssa.Store); isSt && st.Addr == ssa.Value(fa) {
								switch km.NamedTypeOf(st.Val.Type()) {
								case "crypto.Signer":
									sgV = km.Unwrap(st.Val)
								default:
									if st.Val.Type().String() == "[]byte" {
										caV = km.Unwrap(st.Val)
									}
								}
							}
						}
					}
				}
			}
			if cst, isC := sgV.(*ssa.Const); isC && cst.Value == nil && len(rc.Results) == 2 && !km.IsNilConst(rc.Results[1]) {
				continue // the zero record of a failing return
			}
			sg := isSignerLoadV(sgV)
			caLast := false
			if caV == nil {
				caV = sgV
			}
			if u, ok := caV.(*ssa.UnOp); ok {
				if ia, ok := u.X.(*ssa.IndexAddr); ok && mentionsField(ia.X, "caCertDer") {
					if b, ok := km.Unwrap(ia.Index).(*ssa.BinOp); ok && b.Op == token.SUB {
						if one, ok := km.ConstInt(b.Y); ok && one == 1 {
							if l, ok := km.Unwrap(b.X).(*ssa.Call); ok {
								if bi, ok := l.Common().Value.(*ssa.Builtin); ok && bi.Name() == "len" && mentionsField(l.Common().Args[0], "caCertDer") {
									caLast = true
								}
							}
						}
					}
				}
			}
			r.Add("R-C02-4", km.FuncName(fn), "signer with the last CA certificate", posOf(c, rc.Ret), "(state.Signer, state.caCertDer[len-1])", sprintf("signer=%v last-ca=%v", sg, caLast), sg && caLast)
		}
	}
	if fn := c.MustFunc("R-C02-4", "cmd/keymasterd", "(*RuntimeState).loadSignersFromPemData"); fn != nil {
		var signerVal ssa.Value
		var lastAppend *ssa.Store
		km.Instrs(fn, func(in ssa.Instruction) {
			st, ok := in.(*ssa.Store)
			if !ok {
				return
			}
			fa, ok := st.Addr.(*ssa.FieldAddr)
			if !ok || km.NamedTypeOf(fa.X.Type()) != KMD+".RuntimeState" {
				return
			}
			switch fieldNameOf(fa) {
			case "Signer":
				signerVal = km.Unwrap(st.Val)
			case "caCertDer":
				if lastAppend == nil || km.ReachableBlocks(lastAppend.Block(), nil)[st.Block()] {
					lastAppend = st
				}
			}
		})
		ok := false
		desc := "no append / signer store found"
		if signerVal != nil && lastAppend != nil {
			// the appended element: append(state.caCertDer, X) where X = generateCADer(state, signerVal)#0
			if ap, isC := km.Unwrap(lastAppend.Val).(*ssa.Call); isC {
				if bi, isB := ap.Common().Value.(*ssa.Builtin); isB && bi.Name() == "append" {
					elem := appendedSingle(ap)
					if gc, gi := callRes(elem); gc != nil && gi == 0 && km.CalleeFull(gc.Common()) == KMD+".generateCADer" {
						ok = km.Unwrap(gc.Common().Args[1]) == signerVal
						desc = sprintf("last CA generated from the stored signer value=%v", ok)
					}
				}
			}
		}
		r.Add("R-C02-4", km.FuncName(fn), "last CA certificate belongs to the stored signer", c.P.Pos(fn.Pos()), "the CA certificate appended last is generateCADer(state, <value stored into state.Signer>)", desc, ok)
	}

	// ---------------- R-C02-5
	checkNormaliser(c, s)
	if ca := c.MustFunc("R-C02-5", "cmd/keymasterd", "(*RuntimeState).checkAuth"); ca != nil {
		checkAuthBits(c, s, ca, "R-C02-5")
		// who counts as the authenticated user of a client certificate: not the holder of a role certificate (the role
		// CA shares the user CA's key) - the CA-separation obligations of C06, as this property's own
		checkKeymasterSigned(c, s, "R-C02-5")
	}
	_ = strings.Contains

	// "... and verifies under the CA keys the server publishes": the key that signs is among the published keys
	// when every installed signer is published after every successful load - C09's publication obligations,
	// borrowed here
	r.Rule("R-C02-6", "the certificate verifies under the published CA keys: every installed signer's public key is published after every successful load (C09's publication obligations)", 2)
	r.Remap = func(rule, fn, construct string) (string, bool) {
		if rule == "R-C09-6" && !strings.HasPrefix(construct, "published key") && !strings.Contains(construct, "JSONWebKey") && !strings.Contains(construct, "published key set") {
			return "R-C02-6", true // the token key set is not about certificates
		}
		return "", false
	}
	saveExplain, saveND, saveAs := r.Explain, r.NotDecided, r.Assume
	checkC09(c)
	r.Explain, r.NotDecided, r.Assume = saveExplain, saveND, saveAs
	r.Remap = nil
}

// isSingletonSliceOf: v = []T{elem}
func isSingletonSliceOf(v ssa.Value, elem ssa.Value) bool {
	sl, ok := km.Unwrap(v).(*ssa.Slice)
	if !ok {
		return false
	}
	a, ok := sl.X.(*ssa.Alloc)
	if !ok {
		return false
	}
	n, good := 0, true
	for _, ref := range *a.Referrers() {
		if ia, ok := ref.(*ssa.IndexAddr); ok {
			for _, r2 := range *ia.Referrers() {
				if st, ok := r2.(*ssa.Store); ok {
					n++
					if km.Unwrap(st.Val) != elem {
						good = false
					}
				}
			}
		}
	}
	return n == 1 && good
}

func sliceLiteralHasConst(v ssa.Value, want int64) bool {
	sl, ok := km.Unwrap(v).(*ssa.Slice)
	if !ok {
		return false
	}
	a, ok := sl.X.(*ssa.Alloc)
	if !ok {
		return false
	}
	for _, ref := range *a.Referrers() {
		if ia, ok := ref.(*ssa.IndexAddr); ok {
			for _, r2 := range *ia.Referrers() {
				if st, ok := r2.(*ssa.Store); ok {
					if i, ok := km.ConstInt(st.Val); ok && i == want {
						return true
					}
				}
			}
		}
	}
	return false
}

// appendedSingle: append(s, x) lowered as append(s, slice(new [1]T{x})...) -> x
func appendedSingle(ap *ssa.Call) ssa.Value {
	if len(ap.Common().Args) != 2 {
		return nil
	}
	sl, ok := km.Unwrap(ap.Common().Args[1]).(*ssa.Slice)
	if !ok {
		return nil
	}
	a, ok := sl.X.(*ssa.Alloc)
	if !ok {
		return nil
	}
	var out ssa.Value
	for _, ref := range *a.Referrers() {
		if ia, ok := ref.(*ssa.IndexAddr); ok {
			for _, r2 := range *ia.Referrers() {
				if st, ok := r2.(*ssa.Store); ok {
					out = km.Unwrap(st.Val)
				}
			}
		}
	}
	return out
}

// bufferFilledFromFormFile: buf is a *bytes.Buffer whose only writer in fn is buf.ReadFrom(file) with
// file = r.FormFile(key)#0
func bufferFilledFromFormFile(fn *ssa.Function, buf ssa.Value, key string) bool {
	n, good := 0, false
	for _, ci := range km.CallsIn(fn) {
		name := km.CalleeFull(ci.Common())
		if !strings.HasPrefix(name, "(*bytes.Buffer).") {
			continue
		}
		a := km.CallArgs(ci.Common())
		if km.Unwrap(a[0]) != buf {
			continue
		}
		switch name {
		case "(*bytes.Buffer).ReadFrom":
			n++
			src := km.Unwrap(a[1])
			if fc, idx := callRes(src); fc != nil && idx == 0 && km.CalleeFull(fc.Common()) == "(*net/http.Request).FormFile" {
				if k, ok := km.ConstString(fc.Common().Args[1]); ok && k == key {
					good = true
				}
			}
		case "(*bytes.Buffer).String", "(*bytes.Buffer).Bytes", "(*bytes.Buffer).Len":
		default:
			n += 100 // another writer
		}
	}
	return n == 1 && good
}

// derivesFromFormFile: v (text or bytes, in fn's frame) is the content of the uploaded form file `key`: the
// Bytes()/String() of a buffer filled only from r.FormFile(key), a conversion of that, or the result of a reader
// helper every successful return of which is such content.
func derivesFromFormFile(c *km.Ctx, fn *ssa.Function, v ssa.Value, key string, depth int) bool {
	v = km.Unwrap(v)
	if depth > 4 {
		return false
	}
	switch x := v.(type) {
	case *ssa.Convert:
		return derivesFromFormFile(c, fn, x.X, key, depth+1)
	case *ssa.Extract:
		if x.Index != 0 {
			return false
		}
		return derivesFromFormFile(c, fn, x.Tuple, key, depth+1)
	case *ssa.Call:
		name := km.CalleeFull(x.Common())
		if name == "(*bytes.Buffer).Bytes" || name == "(*bytes.Buffer).String" {
			return bufferFilledFromFormFile(fn, km.Unwrap(x.Common().Args[0]), key)
		}
		// io.ReadAll(file) / io.ReadAll(io.LimitReader(file, n)) of the uploaded file
		if name == "io.ReadAll" || name == "io/ioutil.ReadAll" {
			src := km.Unwrap(x.Common().Args[0])
			for i := 0; i < 2; i++ {
				if lc, ok := src.(*ssa.Call); ok && (km.CalleeFull(lc.Common()) == "io.LimitReader" || km.CalleeFull(lc.Common()) == "net/http.MaxBytesReader") {
					a := lc.Common().Args
					src = km.Unwrap(a[len(a)-2])
				}
			}
			if fc, idx := callRes(src); fc != nil && idx == 0 && km.CalleeFull(fc.Common()) == "(*net/http.Request).FormFile" {
				k, ok := km.ConstString(fc.Common().Args[1])
				return ok && k == key
			}
			return false
		}
		g := km.StaticCallee(x.Common())
		if g == nil || g.Blocks == nil || !c.InModule(g) {
			return false
		}
		n, okAll := 0, true
		km.Instrs(g, func(in ssa.Instruction) {
			ret, isRet := in.(*ssa.Return)
			if !isRet || (g.Recover != nil && ret.Block() == g.Recover) {
				return
			}
			rv := km.ReturnValues(ret)[0]
			if km.IsNilConst(rv) {
				return
			}
			if cs, isC := km.ConstString(rv); isC && cs == "" {
				return
			}
			n++
			if !derivesFromFormFile(c, g, rv, key, depth+1) {
				okAll = false
			}
		})
		return n > 0 && okAll
	}
	return false
}

func isBufferStringOfFormFile(fn *ssa.Function, v ssa.Value, key string) bool {
	cl, ok := v.(*ssa.Call)
	if !ok || km.CalleeFull(cl.Common()) != "(*bytes.Buffer).String" {
		return false
	}
	return bufferFilledFromFormFile(fn, km.Unwrap(cl.Common().Args[0]), key)
}

// checkNormaliser: reprocessUsername applies each configured step on its own: the name is lower-cased unless
// normalisation is disabled, and it passes through the Okta user-name filter whenever a filter is configured -
// whatever the other setting says. (The name certificates carry and the name the request path is compared
// with are both outputs of this function.)
func checkNormaliser(c *km.Ctx, s *km.Sem) {
	fn := c.MustFunc("R-C02-5", "cmd/keymasterd", "(*RuntimeState).reprocessUsername")
	if fn == nil {
		return
	}
	var through func(k km.Conj, v ssa.Value, pred func(*ssa.Call) bool, depth int) bool
	through = func(k km.Conj, v ssa.Value, pred func(*ssa.Call) bool, depth int) bool {
		v = km.Unwrap(v)
		if depth > 8 {
			return false
		}
		switch x := v.(type) {
		case *ssa.Call:
			if pred(x) {
				return true
			}
			for _, a := range x.Common().Args {
				if through(k, a, pred, depth+1) {
					return true
				}
			}
		case *ssa.Convert:
			return through(k, x.X, pred, depth+1)
		case *ssa.Phi:
			// the operand this path took, when the path says so; otherwise every operand
			for _, f := range k.List() {
				if f.Op == token.EQL && f.X == ssa.Value(x) && f.Y != nil {
					if _, isC := f.Y.(*ssa.Const); !isC {
						return through(k, f.Y, pred, depth+1)
					}
				}
			}
			for _, e := range x.Edges {
				if !through(k, e, pred, depth+1) {
					return false
				}
			}
			return len(x.Edges) > 0
		}
		return false
	}
	isFilter := func(cl *ssa.Call) bool {
		return strings.HasPrefix(km.CalleeFull(cl.Common()), "(*regexp.Regexp).ReplaceAll") && mentionsField(cl.Common().Args[0], "oktaUsernameFilterRE")
	}
	isLower := func(cl *ssa.Call) bool { return km.CalleeFull(cl.Common()) == "strings.ToLower" }
	n := 0
	for _, rc := range s.RetCases(fn) {
		n++
		v := rc.Results[0]
		var problems []string
		for _, k := range rc.State {
			noFilter, disabled := false, false
			val := km.Unwrap(v)
			for _, f := range k.List() {
				if f.Op == token.EQL && km.IsNilConst(f.Y) && mentionsField(f.X, "oktaUsernameFilterRE") {
					noFilter = true
				}
				if f.Op == token.ILLEGAL && f.Pol && mentionsField(f.X, "DisableUsernameNormalization") {
					disabled = true
				}
			}
			if !noFilter && !through(k, val, isFilter, 0) {
				problems = appendUniq(problems, "a configured Okta user-name filter is not applied on some path")
			}
			if !disabled && !through(k, val, isLower, 0) {
				problems = appendUniq(problems, "the name is not lower-cased although normalisation is enabled")
			}
		}
		c.R.Add("R-C02-5", km.FuncName(fn), "normaliser applies each configured step", posOf(c, rc.Ret), "every returned name is lower-cased unless normalisation is disabled, and filtered whenever a filter is configured", sprintf("%v", problems), len(problems) == 0)
	}
	if n == 0 {
		c.R.AnchorLost("R-C02-5", "returns of reprocessUsername")
	}
}

// isWholeRangeIndex: idx is the index of a `for ... range` loop (the rangeindex phi plus one, starting from -1).
func isWholeRangeIndex(idx ssa.Value) bool {
	b, ok := km.Unwrap(idx).(*ssa.BinOp)
	if !ok || b.Op != token.ADD {
		return false
	}
	if k, isC := km.ConstInt(b.Y); !isC || k != 1 {
		return false
	}
	p, ok := b.X.(*ssa.Phi)
	if !ok || p.Comment != "rangeindex" {
		return false
	}
	for _, e := range p.Edges {
		if k, isC := km.ConstInt(e); isC && k == -1 {
			return true
		}
	}
	return false
}
