package rules

import (
	"go/token"
	"sort"
	"strings"

	"kmcheck/internal/km"

	"golang.org/x/tools/go/ssa"
)

func init() { km.Register("C07", checkC07) }

const (
	ldapPkg     = km.ModPath + "/lib/pwauth/ldap"
	authutilPkg = km.ModPath + "/lib/authutil"
	ldapPA      = "(*" + ldapPkg + ".PasswordAuthenticator)."
	storeIface  = "iface:(" + km.ModPath + "/lib/simplestorage.SimpleStore)."
)

func checkC07(c *km.Ctx) {
	r := c.R
	s := km.NewSem(c)
	r.Explain = "Static analysis of /repo: in the LDAP authenticator the directory's answer is returned unmodified on the answered edge, the cache refresh/evict helper runs on that edge, and the cache-consulting block is CFG-unreachable from it; the helper upserts on acceptance with the 96 h constant and deletes only a cached hash that matches the rejected password; the cache accepts only a record that GetSigned returned for the same user (signature/kind/issuer/audience/not-before/expiry facts and subject==user) whose hash matches the submitted password; both password entry points normalise the name before the backend call and mint the session for that same value; checkUserPassword and every PasswordAuthenticator implementation return true only from their verifier's success edge. Decides structure, not outage/tamper histories."
	r.NotDecided = []string{"LDAP protocol behaviour", "outage / password-change / tampering histories as executions"}
	r.Assume = []string{"go/types + go/ssa model the source faithfully", "argon2/bcrypt comparisons and go-jose verification are correct"}

	r.Rule("R-C07-1", "LDAP verdict is final: on the answered edge the directory's boolean is returned as is, after the refresh/evict helper ran with it; the cache block is unreachable from that edge", 2)
	r.Rule("R-C07-2", "refresh/evict: acceptance upserts (user, password type, now + 96 h, new hash); rejection deletes only a cached hash that matches the rejected password; the lifetime is only ever the 96 h constant", 2)
	r.Rule("R-C07-3", "the cache accepts only a record GetSigned returned for this user and type whose hash matches the submitted password; GetSigned returns a record only after signature, kind, issuer, audience, not-before, expiry and subject==user tests", 1)
	r.Rule("R-C07-4", "both password entry points pass the normalised name to the backend and use the same value for the session; checkUserPassword returns the backend verdict unmodified; every backend returns true only from its verifier's success edge", 5)

	pa := c.MustFunc("R-C07-1", "lib/pwauth/ldap", "(*PasswordAuthenticator).passwordAuthenticate")
	upd := c.P.Func("lib/pwauth/ldap", "(*PasswordAuthenticator).updateOrDeletePasswordHash")
	if upd == nil && pa != nil {
		// renamed or split: the function of the package that takes the directory's boolean and (itself or through
		// its own helpers) both refreshes and evicts the stored hash
		for _, fn := range c.P.AllFuncs {
			if fn.Pkg == nil || fn.Pkg.Pkg.Path() != ldapPkg || fn == pa || fn.Parent() != nil {
				continue
			}
			hasBool := false
			for _, p := range fn.Params {
				if p.Type().String() == "bool" {
					hasBool = true
				}
			}
			if !hasBool {
				continue
			}
			up, del := false, false
			for f2 := range reachableFrom(c, nil, fn) {
				for _, ci := range km.CallsIn(f2) {
					switch km.CalleeFull(ci.Common()) {
					case storeIface + "UpsertSigned":
						up = true
					case storeIface + "DeleteSigned":
						del = true
					}
				}
			}
			if up && del && len(c.G.Callers[fn]) > 0 {
				upd = fn
			}
		}
	}
	if upd == nil && pa != nil {
		r.AnchorLost("R-C07-2", "the function that refreshes / evicts the stored hash on a directory verdict (updateOrDeletePasswordHash)")
	}
	if pa == nil || upd == nil {
		checkPasswordDispatch(c, s)
		return
	}
	checkLDAPVerdict(c, s, pa, upd)

	// ---------- R-C07-2
	// the verdict / user / password parameters of the recorder, and the parameters of its own helpers bound to them
	var verdictP, userP, pwP *ssa.Parameter
	for _, p := range upd.Params[1:] {
		switch p.Type().String() {
		case "bool":
			if verdictP == nil {
				verdictP = p
			}
		case "string":
			if userP == nil {
				userP = p
			}
		case "[]byte":
			if pwP == nil {
				pwP = p
			}
		}
	}
	if verdictP == nil || userP == nil || pwP == nil {
		r.AnchorLost("R-C07-2", "verdict / user / password parameters of "+km.NameOf(upd))
		checkPasswordDispatch(c, s)
		return
	}
	ufam := map[*ssa.Function]bool{}
	for f2 := range reachableFrom(c, nil, upd) {
		if f2.Pkg != nil && f2.Pkg.Pkg.Path() == ldapPkg {
			ufam[f2] = true
		}
	}
	utags := map[*ssa.Parameter]string{userP: "user", pwP: "password"}
	utagOf := func(v ssa.Value) string {
		v = km.Unwrap(v)
		for i := 0; i < 3; i++ {
			switch x := v.(type) {
			case *ssa.Parameter:
				return utags[x]
			case *ssa.Convert:
				v = km.Unwrap(x.X)
			default:
				return ""
			}
		}
		return ""
	}
	for changed := true; changed; {
		changed = false
		for f2 := range ufam {
			for _, ci := range km.CallsIn(f2) {
				g := km.StaticCallee(ci.Common())
				if g == nil || !ufam[g] {
					continue
				}
				args := km.CallArgs(ci.Common())
				for i, p := range g.Params {
					if i < len(args) && utags[p] == "" {
						if t := utagOf(args[i]); t != "" {
							utags[p] = t
							changed = true
						}
					}
				}
			}
		}
	}
	uroots := map[*ssa.Function]bool{upd: true}
	validTrue := km.Prim{Name: "valid", Direct: func(f km.Fact) bool {
		return f.Op == token.ILLEGAL && f.Pol && km.Unwrap(f.X) == ssa.Value(verdictP)
	}}
	validFalse := km.Prim{Name: "!valid", Direct: func(f km.Fact) bool {
		return f.Op == token.ILLEGAL && !f.Pol && km.Unwrap(f.X) == ssa.Value(verdictP)
	}}
	nUp, nDel := 0, 0
	for _, ufn := range sortedFuncs(ufam) {
		for _, ci := range km.CallsIn(ufn) {
			n := km.CalleeFull(ci.Common())
			a := km.CallArgs(ci.Common())
			switch n {
			case storeIface + "UpsertSigned":
				nUp++
				onValid, _ := s.HoldsOnPathsWithin(ci, allPrims(s, validTrue), uroots, ufam, 3)
				userOK := utagOf(a[1]) == "user"
				typ, tOK := km.ConstInt(a[2])
				expOK := isNowPlusField(a[3], "expirationDuration")
				hc, hidx := callRes(km.Unwrap(a[4]))
				hashOK := hc != nil && hidx == 0 && km.CalleeFull(hc.Common()) == authutilPkg+".Argon2MakeNewHash" && utagOf(hc.Common().Args[0]) == "password"
				r.Add("R-C07-2", km.FuncName(ufn), "refresh on acceptance", posOf(c, ci), "under valid: UpsertSigned(user, passwordDataType, now + expirationDuration, Argon2 hash of the accepted password)", sprintf("on-valid=%v user=%v type=%d/%v expiry=%v hash=%v", onValid, userOK, typ, tOK, expOK, hashOK), onValid && userOK && tOK && typ == 1 && expOK && hashOK)
			case storeIface + "DeleteSigned":
				nDel++
				cmp := km.Prim{Name: "cached hash matches the rejected password", Direct: func(f km.Fact) bool {
					cl, ok := f.X.(*ssa.Call)
					if f.Op != token.EQL || !km.IsNilConst(f.Y) || !ok || km.CalleeFull(cl.Common()) != authutilPkg+".Argon2CompareHashAndPassword" {
						return false
					}
					gc, gi := callRes(km.Unwrap(cl.Common().Args[0]))
					return gc != nil && gi == 1 && km.CalleeFull(gc.Common()) == storeIface+"GetSigned" && utagOf(cl.Common().Args[1]) == "password"
				}}
				ok1, _ := s.HoldsOnPathsWithin(ci, allPrims(s, validFalse), uroots, ufam, 3)
				ok2, _ := s.HoldsOnPathsWithin(ci, allPrims(s, cmp), uroots, ufam, 3)
				userOK := utagOf(a[1]) == "user"
				r.Add("R-C07-2", km.FuncName(ufn), "evict on rejection", posOf(c, ci), "under !valid and only when the cached hash matches the rejected password: DeleteSigned(user, passwordDataType)", sprintf("facts=%v user=%v", ok1 && ok2, userOK), ok1 && ok2 && userOK)
			}
		}
	}
	if nUp == 0 || nDel == 0 {
		r.AnchorLost("R-C07-2", sprintf("UpsertSigned (%d) / DeleteSigned (%d) in updateOrDeletePasswordHash", nUp, nDel))
	}
	// acceptance always refreshes: the recorder reports success for an accepted password only after the upsert was
	// made and succeeded (a shortcut that skips the write when the stored hash already matches leaves the old
	// expiry in place: the 96 h would count from the first login instead of the latest one)
	upsertOK := km.Prim{Name: "UpsertSigned succeeded", Direct: func(f km.Fact) bool {
		if f.Op != token.EQL || !km.IsNilConst(f.Y) {
			return false
		}
		cl, _ := callRes(f.X)
		return cl != nil && km.CalleeFull(cl.Common()) == storeIface+"UpsertSigned"
	}}
	hashFailed := km.Prim{Name: "Argon2MakeNewHash failed", Direct: func(f km.Fact) bool {
		if f.Op != token.NEQ || !km.IsNilConst(f.Y) {
			return false
		}
		cl, idx := callRes(f.X)
		return cl != nil && idx == 1 && km.CalleeFull(cl.Common()) == authutilPkg+".Argon2MakeNewHash"
	}}
	nAcc := 0
	for _, rc := range s.RetCases(upd) {
		last := rc.Results[len(rc.Results)-1]
		if !isErrorType(last.Type()) {
			continue
		}
		if !km.IsNilConst(last) {
			continue // an error handed on (the upsert's own result included) is not a success report
		}
		okAll := true
		for _, k := range rc.State {
			if s.Holds(k, validFalse) || s.Holds(k, hashFailed) {
				continue // a rejection, or no hash could be computed (nothing to store)
			}
			nAcc++
			if !s.Holds(k, upsertOK) {
				okAll = false
			}
		}
		r.Add("R-C07-2", km.FuncName(upd), "success reported for an accepted password", posOf(c, rc.Ret), "only after UpsertSigned was made and returned nil", clipS(rc.State.String(), 300), okAll)
	}
	_ = nAcc
	nLife := 0
	for _, fn := range c.P.AllFuncs {
		if fn.Pkg == nil || fn.Pkg.Pkg.Path() != ldapPkg {
			continue
		}
		km.Instrs(fn, func(in ssa.Instruction) {
			if st, ok := in.(*ssa.Store); ok {
				if fa, ok := st.Addr.(*ssa.FieldAddr); ok && fieldNameOf(fa) == "expirationDuration" {
					nLife++
					d, isC := km.ConstInt(st.Val)
					r.Add("R-C07-2", km.FuncName(fn), "cache lifetime", posOf(c, in), "the constant 96 h", sprintf("%d ns const=%v", d, isC), isC && d == 96*3600*1e9)
				}
			}
		})
	}
	if nLife == 0 {
		r.AnchorLost("R-C07-2", "assignment of expirationDuration")
	}

	checkLDAPBindVerdict(c, s)
	// the eviction and the refresh reach the row they mean: bound arguments in the statement's column order
	checkSQLArgKinds(c, "R-C07-2")
	checkStmtTableKeys(c, "R-C07-2")
	checkEvictionReachesPrimary(c, "R-C07-2")
	checkLocalCopyOnlyOnSilence(c, "R-C07-2")
	// an eviction reaches the offline copy through the synchronisation: the copy is replaced by the primary's
	// content at every run (C15's mirror obligations, as this property's own) - otherwise a hash evicted from the
	// primary keeps deciding in the next outage
	if c.R.Remap == nil {
		c.R.Remap = func(rule, fn, construct string) (string, bool) {
			if rule == "R-C15-3" {
				return "R-C07-2", true
			}
			return "", false
		}
		saveExplain, saveND, saveAs := c.R.Explain, c.R.NotDecided, c.R.Assume
		checkC15(c)
		c.R.Explain, c.R.NotDecided, c.R.Assume = saveExplain, saveND, saveAs
		c.R.Remap = nil
	}
	checkUpsertStatements(c, "R-C07-2", "expiring_signed_user_data", []string{"jws_data", "expiration_epoch"}, 2)
	// ---------- R-C07-3 (the acceptance of a cached record is judged in checkLDAPVerdict)
	if gs := c.MustFunc("R-C07-3", "cmd/keymasterd", "(*RuntimeState).GetSigned"); gs != nil {
		verified := primErrNil("record verified", RS+"getStorageDataFromStorageStringDataJWT", 1)
		// the requested user: GetSigned's parameter, or a helper's parameter GetSigned binds to it
		isUser := func(v ssa.Value) bool {
			v = km.Unwrap(v)
			if v == ssa.Value(km.ParamAt(gs, 1)) {
				return true
			}
			p, ok := v.(*ssa.Parameter)
			if !ok {
				return false
			}
			g := p.Parent()
			idx := -1
			for i, q := range g.Params {
				if q == p {
					idx = i
				}
			}
			n := 0
			for _, cs := range c.G.Callers[g] {
				ci, ok := cs.Instr.(ssa.CallInstruction)
				if !ok || cs.Caller != gs {
					return false
				}
				a := km.CallArgs(ci.Common())
				if idx < 0 || idx >= len(a) || km.Unwrap(a[idx]) != ssa.Value(km.ParamAt(gs, 1)) {
					return false
				}
				n++
			}
			return n > 0
		}
		subject := km.Prim{Name: "subject == user", Direct: func(f km.Fact) bool {
			if f.Op != token.EQL {
				return false
			}
			return (mentionsField(f.X, "Subject") && isUser(f.Y)) || (mentionsField(f.Y, "Subject") && isUser(f.X))
		}}
		n := 0
		for _, rc := range s.RetCases(gs) {
			// every way this return can yield true (directly, or as the result of a helper for one of the two
			// storage paths) carries the verification and the subject test
			nTrue := 0
			okFacts, dataOK := true, true
			for _, k := range rc.State {
				for _, lf := range s.Leaves(k, gs, rc.Ret, rc.Results[0], nil, 2) {
					if km.ValStr(km.Unwrap(lf.Val)) != "true" {
						if _, isC := km.Unwrap(lf.Val).(*ssa.Const); isC {
							continue
						}
						okFacts = false // a computed verdict
						nTrue++
						continue
					}
					nTrue++
					if !s.Holds(lf.K, verified) || !s.Holds(lf.K, subject) {
						okFacts = false
					}
				}
				for _, lf := range s.Leaves(k, gs, rc.Ret, rc.Results[1], nil, 2) {
					if cs, isC := km.ConstString(lf.Val); isC && cs == "" {
						continue
					}
					if !fieldLoadOf(lf.Val, KMD+".storageStringDataJWT", "Data") {
						dataOK = false
					}
				}
			}
			if nTrue == 0 {
				continue
			}
			n++
			r.Add("R-C07-3", km.FuncName(gs), "signed record returned", posOf(c, rc.Ret), "record verified (signature, kind, issuer, audience, nbf, exp) ∧ subject == requested user; returns that record's data", sprintf("facts=%v data-of-record=%v", okFacts, dataOK), okFacts && dataOK)
		}
		if n == 0 {
			r.AnchorLost("R-C07-3", "successful return of GetSigned")
		}
	}
	if gd := c.MustFunc("R-C07-3", "cmd/keymasterd", "(*RuntimeState).getStorageDataFromStorageStringDataJWT"); gd != nil {
		typ := KMD + ".storageStringDataJWT"
		claims := primErrNil("claims verified", RS+"JWTClaims", 0)
		kind := km.Prim{Name: "token_type == storage_data", Rel: func(f km.Fact, resolve func(ssa.Value) ssa.Value) bool {
			if f.Op != token.EQL {
				return false
			}
			for _, pair := range [][2]ssa.Value{{f.X, f.Y}, {f.Y, f.X}} {
				if cs, ok := km.ConstString(resolve(pair[1])); ok && cs == "storage_data" && fieldLoadOf(resolve(pair[0]), typ, "TokenType") {
					return true
				}
			}
			return false
		}}
		exp := primNotExpiredEpoch(typ)
		for _, rc := range s.RetCases(gd) {
			if !km.IsNilConst(rc.Results[1]) {
				continue
			}
			var missing []string
			for _, p := range []km.Prim{claims, kind, exp} {
				if !rc.State.All(func(k km.Conj) bool { return s.Holds(k, p) }) {
					missing = append(missing, p.Name)
				}
			}
			r.Add("R-C07-3", km.FuncName(gd), "storage record accepted", posOf(c, rc.Ret), "signature verified ∧ kind == storage_data ∧ signed expiry not passed (issuer/audience/nbf are C04's R-C04-3)", sprintf("missing=%v", missing), len(missing) == 0)
		}
	}

	// ---------- R-C07-4
	checkPasswordDispatch(c, s)
}

// isNowPlusField: v = time.Now().Add(load of field).Unix()
func isNowPlusField(v ssa.Value, field string) bool {
	cl, ok := km.Unwrap(v).(*ssa.Call)
	if !ok || km.CalleeFull(cl.Common()) != "(time.Time).Unix" {
		return false
	}
	add, ok := km.Unwrap(cl.Common().Args[0]).(*ssa.Call)
	if !ok || km.CalleeFull(add.Common()) != "(time.Time).Add" {
		return false
	}
	now, ok := km.Unwrap(add.Common().Args[0]).(*ssa.Call)
	if !ok || km.CalleeFull(now.Common()) != "time.Now" {
		return false
	}
	return mentionsField(add.Common().Args[1], field)
}

func checkPasswordDispatch(c *km.Ctx, s *km.Sem) {
	r := c.R
	cup := c.MustFunc("R-C07-4", "cmd/keymasterd", "checkUserPassword")
	if cup == nil {
		return
	}
	// entry points
	for _, cs := range c.G.Callers[cup] {
		cl, ok := cs.Instr.(*ssa.Call)
		if !ok {
			continue
		}
		u := km.Unwrap(cl.Common().Args[0])
		norm := false
		if nc, ok := u.(*ssa.Call); ok && km.CalleeFull(nc.Common()) == RS+"reprocessUsername" {
			norm = true
		}
		r.Add("R-C07-4", km.FuncName(cs.Caller), "normalised name to the backend", posOf(c, cl), "checkUserPassword(reprocessUsername(submitted name), …)", km.ValStr(u), norm)
		// the session is minted / the credential is issued for the same value - in this function, or in a caller
		// that receives the verified name as this function's result
		same := false
		frames := []*ssa.Function{cs.Caller}
		for _, up := range c.G.Callers[cs.Caller] {
			frames = append(frames, up.Caller)
		}
		isVerified := func(at ssa.Instruction, v ssa.Value) bool {
			st := c.F.At(at)
			if len(st) == 0 {
				return false
			}
			return st.All(func(k km.Conj) bool {
				stopAt := func(cl *ssa.Call) bool {
					return ssa.Value(cl) == u || km.CalleeFull(cl.Common()) == RS+"reprocessUsername"
				}
				for _, lf := range s.Leaves(k, at.Parent(), nil, v, stopAt, 2) {
					if lf.Val != u {
						return false
					}
				}
				return true
			})
		}
		for _, fr := range frames {
			km.Instrs(fr, func(in ssa.Instruction) {
				if ci, ok := in.(ssa.CallInstruction); ok && km.CalleeFull(ci.Common()) == fnSetCookie {
					if isVerified(in, km.CallArgs(ci.Common())[2]) {
						same = true
					}
				}
				if st, ok := in.(*ssa.Store); ok {
					if fa, ok := st.Addr.(*ssa.FieldAddr); ok && fieldNameOf(fa) == "Username" && km.NamedTypeOf(fa.X.Type()) == KMD+".authInfo" && isVerified(in, st.Val) {
						same = true
					}
				}
			})
		}
		r.Add("R-C07-4", km.FuncName(cs.Caller), "session for the verified name", posOf(c, cl), "the session / credential is created for the very value whose password was checked", sprintf("%v", same), same)
	}
	// checkUserPassword returns the backend's verdict
	backend := "iface:(" + km.ModPath + "/lib/pwauth.PasswordAuthenticator).PasswordAuthenticate"
	var bcall *ssa.Call
	for _, ci := range km.CallsIn(cup) {
		if cl, ok := ci.(*ssa.Call); ok && km.CalleeFull(cl.Common()) == backend {
			bcall = cl
		}
	}
	if bcall == nil {
		r.AnchorLost("R-C07-4", "PasswordAuthenticate call in checkUserPassword")
	} else {
		argsOK := km.Unwrap(km.CallArgs(bcall.Common())[1]) == ssa.Value(km.ParamAt(cup, 0))
		r.Add("R-C07-4", km.FuncName(cup), "backend asked about the given user", posOf(c, bcall), "PasswordAuthenticate(username param, password)", km.ValStr(km.CallArgs(bcall.Common())[1]), argsOK)
		for _, rc := range s.RetCases(cup) {
			v := km.Unwrap(rc.Results[0])
			if cst, ok := v.(*ssa.Const); ok {
				r.Add("R-C07-4", km.FuncName(cup), "constant verdict", posOf(c, rc.Ret), "constant verdicts are false", km.ValStr(cst), km.ValStr(cst) == "false")
				continue
			}
			cl, idx := callRes(v)
			ok := cl == bcall && idx == 0 && rc.State.All(func(k km.Conj) bool { return s.Holds(k, primErrNilCall("backend ok", bcall, 1)) })
			r.Add("R-C07-4", km.FuncName(cup), "verdict returned", posOf(c, rc.Ret), "the backend's boolean, returned only when the backend reported no error", km.ValStr(v), ok)
		}
	}
	// sibling backends: true only from the verifier's success edge
	type sib struct{ rel, fn, verifier, how string }
	for _, sb := range []sib{
		{"lib/authutil", "CheckHtpasswdUserPassword", "golang.org/x/crypto/bcrypt.CompareHashAndPassword", "errnil"},
		{"lib/pwauth/command", "(*PasswordAuthenticator).passwordAuthenticate", "(*os/exec.Cmd).Output", "errnil1"},
		{"lib/authenticators/okta", "(*PasswordAuthenticator).passwordAuthenticate", "", "okta"},
	} {
		fn := c.MustFunc("R-C07-4", sb.rel, sb.fn)
		if fn == nil {
			continue
		}
		for _, rc := range s.RetCases(fn) {
			if km.ValStr(rc.Results[0]) != "true" {
				continue
			}
			ok := false
			switch sb.how {
			case "errnil":
				ok = rc.State.All(func(k km.Conj) bool {
					for _, f := range k.List() {
						if cl, isC := f.X.(*ssa.Call); isC && f.Op == token.EQL && km.IsNilConst(f.Y) && km.CalleeFull(cl.Common()) == sb.verifier {
							return true
						}
					}
					return false
				})
			case "errnil1":
				ok = rc.State.All(func(k km.Conj) bool { return s.Holds(k, primErrNil("exit 0", sb.verifier, 1)) })
			case "okta":
				ok = rc.State.All(func(k km.Conj) bool {
					st200, status := false, false
					for _, f := range k.List() {
						if f.Op == token.EQL {
							if i, isI := km.ConstInt(f.Y); isI && i == 200 && mentionsField(f.X, "StatusCode") {
								st200 = true
							}
							if cs, isS := km.ConstString(f.Y); isS && (cs == "SUCCESS" || cs == "MFA_REQUIRED") && mentionsField(f.X, "Status") {
								status = true
							}
						}
					}
					return st200 && status
				})
			}
			r.Add("R-C07-4", km.FuncName(fn), "backend accepts", posOf(c, rc.Ret), "true only from the verifier's success edge ("+strings.TrimPrefix(sb.how, "err")+")", clipS(rc.State.String(), 200), ok)
		}
	}
	// htpassword and command wrappers return their verifier's result
	if fn := c.MustFunc("R-C07-4", "lib/pwauth/htpassword", "(*PasswordAuthenticator).passwordAuthenticate"); fn != nil {
		for _, rc := range s.RetCases(fn) {
			v := km.Unwrap(rc.Results[0])
			if cst, ok := v.(*ssa.Const); ok {
				r.Add("R-C07-4", km.FuncName(fn), "constant verdict", posOf(c, rc.Ret), "constant verdicts are false", km.ValStr(cst), km.ValStr(cst) == "false")
				continue
			}
			cl, idx := callRes(v)
			ok := cl != nil && idx == 0 && km.CalleeFull(cl.Common()) == authutilPkg+".CheckHtpasswdUserPassword" && km.Unwrap(cl.Common().Args[0]) == ssa.Value(km.ParamAt(fn, 1))
			r.Add("R-C07-4", km.FuncName(fn), "verdict returned", posOf(c, rc.Ret), "CheckHtpasswdUserPassword(user param, …) result", km.ValStr(v), ok)
			// ... judged on the password file as it is now: the content handed to the verifier was read from the
			// file in this very call (a copy remembered from an earlier request keeps a changed or removed
			// password working)
			if ok {
				src, si := callRes(km.Unwrap(cl.Common().Args[2]))
				fresh := src != nil && si == 0 && (km.CalleeFull(src.Common()) == "io/ioutil.ReadFile" || km.CalleeFull(src.Common()) == "os.ReadFile") && src.Parent() == fn
				r.Add("R-C07-4", km.FuncName(fn), "password file read for this request", posOf(c, cl), "the content checked is the result of ReadFile in the same call", clipS(km.ValStr(cl.Common().Args[2]), 100), fresh)
			}
		}
	}
}

// checkLDAPVerdict decides R-C07-1 and the LDAP half of R-C07-3 by tracing where each returned verdict of the
// LDAP authenticator comes from, through whatever helpers the code is split into: a verdict is the directory's
// own boolean (on the edge where the directory answered, with the refresh/evict helper run), or a refusal, or an
// acceptance carried by a cached record - and the cache is never consulted once a server answered.
func checkLDAPVerdict(c *km.Ctx, s *km.Sem, pa, upd *ssa.Function) {
	r := c.R
	checkLDAP := authutilPkg + ".CheckLDAPUserPassword"
	argon := authutilPkg + ".Argon2CompareHashAndPassword"
	// functions of the package reachable from the entry point, the refresh helper excluded
	reach := reachableFrom(c, map[*ssa.Function]bool{upd: true}, pa)
	var fns []*ssa.Function
	for _, fn := range sortedFuncs(reach) {
		if fn != upd && fn.Pkg != nil && fn.Pkg.Pkg.Path() == ldapPkg {
			fns = append(fns, fn)
		}
	}
	// which parameters carry the submitted user name / password
	tags := map[*ssa.Parameter]string{km.ParamAt(pa, 1): "user", km.ParamAt(pa, 2): "password"}
	var tagOf func(v ssa.Value) string
	tagOf = func(v ssa.Value) string {
		v = km.Unwrap(v)
		switch x := v.(type) {
		case *ssa.Parameter:
			return tags[x]
		case *ssa.Convert:
			return tagOf(x.X)
		}
		return ""
	}
	for changed := true; changed; {
		changed = false
		for _, fn := range fns {
			for _, ci := range km.CallsIn(fn) {
				g := km.StaticCallee(ci.Common())
				if g == nil || !reach[g] || g.Pkg == nil || g.Pkg.Pkg.Path() != ldapPkg {
					continue
				}
				args := km.CallArgs(ci.Common())
				for i, p := range g.Params {
					if i < len(args) && tags[p] == "" {
						if t := tagOf(args[i]); t != "" {
							tags[p] = t
							changed = true
						}
					}
				}
			}
		}
	}
	var ldapCalls, updCalls, getCalls []*ssa.Call
	for _, fn := range fns {
		for _, ci := range km.CallsIn(fn) {
			cl, ok := ci.(*ssa.Call)
			if !ok {
				continue
			}
			if km.StaticCallee(cl.Common()) == upd {
				updCalls = append(updCalls, cl)
				continue
			}
			switch km.CalleeFull(cl.Common()) {
			case checkLDAP:
				ldapCalls = append(ldapCalls, cl)
			case storeIface + "GetSigned":
				getCalls = append(getCalls, cl)
			}
		}
	}
	if len(ldapCalls) == 0 || len(updCalls) == 0 || len(getCalls) == 0 {
		r.AnchorLost("R-C07-1", sprintf("CheckLDAPUserPassword (%d) / updateOrDeletePasswordHash (%d) / GetSigned (%d) calls reachable from passwordAuthenticate", len(ldapCalls), len(updCalls), len(getCalls)))
		return
	}
	isLDAP := func(cl *ssa.Call) bool {
		for _, l := range ldapCalls {
			if l == cl {
				return true
			}
		}
		return false
	}
	// answeredBy: the directory calls whose err == nil is among the facts
	answeredBy := func(k km.Conj) []*ssa.Call {
		var out []*ssa.Call
		for _, f := range k.List() {
			if f.Op == token.EQL && km.IsNilConst(f.Y) {
				if cl, idx := callRes(f.X); cl != nil && idx == 1 && isLDAP(cl) {
					out = append(out, cl)
				}
			}
		}
		return out
	}
	cacheAccepts := func(k km.Conj) (bool, string) {
		for _, g := range getCalls {
			getOK := primErrNilCall("GetSigned err==nil", g, 2)
			found := km.Prim{Name: "record found", Direct: func(f km.Fact) bool {
				cl, idx := callRes(f.X)
				return f.Op == token.ILLEGAL && f.Pol && cl == g && idx == 0
			}}
			match := km.Prim{Name: "hash matches", Direct: func(f km.Fact) bool {
				cl, ok := f.X.(*ssa.Call)
				if f.Op != token.EQL || !km.IsNilConst(f.Y) || !ok || km.CalleeFull(cl.Common()) != argon {
					return false
				}
				gc, gi := callRes(km.Unwrap(cl.Common().Args[0]))
				return gc == g && gi == 1 && tagOf(cl.Common().Args[1]) == "password"
			}}
			ga := km.CallArgs(g.Common())
			typ, tOK := km.ConstInt(ga[2])
			if s.Holds(k, getOK) && s.Holds(k, found) && s.Holds(k, match) && tagOf(ga[1]) == "user" && tOK && typ == 1 {
				return true, ""
			}
		}
		return false, "no GetSigned(user, passwordDataType) record found without error whose hash matches the submitted password"
	}
	union := func(a, b km.Conj) km.Conj {
		for _, f := range b.List() {
			a = a.With(f)
		}
		return a
	}
	type leaf struct {
		val   ssa.Value
		k     km.Conj // facts of every frame on the way
		frame *ssa.Function
		ret   ssa.Instruction // the return of the frame that produced val
	}
	// leaves: where a verdict value comes from, followed through helper returns
	var leaves func(k km.Conj, fn *ssa.Function, ret ssa.Instruction, v ssa.Value, depth int) []leaf
	leaves = func(k km.Conj, fn *ssa.Function, ret ssa.Instruction, v ssa.Value, depth int) []leaf {
		v = km.Unwrap(v)
		if cl, _ := callRes(v); cl != nil && !isLDAP(cl) && depth < 4 {
			if cases, ok := s.ResultCases(k, v); ok {
				var out []leaf
				for _, rc := range cases {
					out = append(out, leaves(union(k, rc.K), rc.Fn, rc.Ret, rc.Val, depth+1)...)
				}
				return out
			}
		}
		return []leaf{{v, k, fn, ret}}
	}
	helperRanBefore := func(at ssa.Instruction) bool {
		for _, u := range updCalls {
			if u.Parent() == at.Parent() && km.InstrDominates(u, at) {
				return true
			}
		}
		return false
	}
	// ---- every returned verdict
	nDir, nCache := 0, 0
	for _, rc := range s.RetCases(pa) {
		type verdict struct{ dir, cache, refuse int }
		var vd verdict
		var problems []string
		for _, k := range rc.State {
			for _, lf := range leaves(k, pa, rc.Ret, rc.Results[0], 0) {
				ans := answeredBy(lf.k)
				cl, idx := callRes(lf.val)
				switch {
				case cl != nil && isLDAP(cl) && idx == 0:
					// the directory's own boolean
					okAns := false
					for _, a := range ans {
						if a == cl {
							okAns = true
						}
					}
					if !okAns {
						problems = appendUniq(problems, "directory boolean returned without err == nil of that call")
					}
					if !helperRanBefore(rc.Ret) && !(lf.ret != nil && helperRanBefore(lf.ret)) {
						problems = appendUniq(problems, "the refresh/evict helper does not run before the directory verdict is returned")
					}
					vd.dir++
				case km.ValStr(lf.val) == "false":
					if len(ans) > 0 {
						problems = appendUniq(problems, "a constant refusal replaces the verdict of a directory that answered")
					}
					vd.refuse++
				default:
					// constant true, or a comparison that is the acceptance condition itself
					kk := lf.k
					if _, isC := lf.val.(*ssa.Const); !isC {
						for _, f := range c.F.CondFacts(lf.val, true) {
							kk = kk.With(f)
						}
					}
					if len(ans) > 0 {
						problems = appendUniq(problems, "an acceptance other than the directory's boolean is returned although a directory answered")
					}
					if ok, why := cacheAccepts(kk); !ok {
						problems = appendUniq(problems, why+" (verdict "+km.ValStr(lf.val)+")")
					}
					vd.cache++
				}
			}
		}
		sort.Strings(problems)
		switch {
		case vd.dir > 0:
			nDir++
			r.Add("R-C07-1", km.FuncName(pa), "return of the directory's verdict", posOf(c, rc.Ret), "returns exactly CheckLDAPUserPassword's boolean on its err == nil edge, after updateOrDeletePasswordHash ran", sprintf("directory=%d cache=%d refusals=%d %v", vd.dir, vd.cache, vd.refuse, problems), len(problems) == 0)
		case vd.cache > 0:
			nCache++
			r.Add("R-C07-3", km.FuncName(pa), "cache acceptance", posOf(c, rc.Ret), "GetSigned(user, passwordDataType) returned a record without error and its hash matches the submitted password; no directory answered", sprintf("cache=%d refusals=%d %v", vd.cache, vd.refuse, problems), len(problems) == 0)
		default:
			if len(problems) > 0 {
				r.Add("R-C07-1", km.FuncName(pa), "refusal", posOf(c, rc.Ret), "a refusal never replaces the verdict of a directory that answered", sprintf("%v", problems), false)
			}
		}
	}
	if nDir == 0 {
		r.Add("R-C07-1", km.FuncName(pa), "return of the directory's verdict", c.P.Pos(pa.Pos()), "a return carrying the directory's boolean exists", "none", false)
	}
	if nCache == 0 {
		r.AnchorLost("R-C07-3", "a return of passwordAuthenticate that accepts from the cache")
	}
	// ---- the refresh/evict helper only ever runs with a directory verdict about the submitted credentials
	for _, u := range updCalls {
		a := km.CallArgs(u.Common())
		var problems []string
		for _, k := range c.F.At(u) {
			for _, lf := range leaves(k, u.Parent(), nil, a[1], 0) {
				cl, idx := callRes(lf.val)
				good := false
				if cl != nil && isLDAP(cl) && idx == 0 {
					for _, an := range answeredBy(lf.k) {
						if an == cl {
							good = true
						}
					}
				}
				if !good {
					problems = appendUniq(problems, "verdict argument "+km.ValStr(lf.val)+" is not a directory boolean on its err == nil edge")
				}
			}
		}
		nu, np := 0, 0
		for _, arg := range a[2:] {
			switch tagOf(arg) {
			case "user":
				nu++
			case "password":
				np++
			}
		}
		if nu != 1 || np != 1 {
			problems = appendUniq(problems, "user/password arguments are not the submitted ones")
		}
		sort.Strings(problems)
		r.Add("R-C07-1", km.FuncName(u.Parent()), "refresh/evict runs only on a directory verdict", posOf(c, u), "updateOrDeletePasswordHash(directory boolean, submitted user, submitted password) on the directory's err == nil edge", sprintf("%v", problems), len(problems) == 0)
	}
	// ---- the directory is asked about the submitted credentials
	for _, l := range ldapCalls {
		la := km.CallArgs(l.Common())
		bindOK := false
		isBindDN := func(v ssa.Value) bool {
			bc, ok := km.Unwrap(v).(*ssa.Call)
			return ok && km.CalleeFull(bc.Common()) == ldapPkg+".convertToBindDN" && tagOf(bc.Common().Args[0]) == "user"
		}
		if isBindDN(la[1]) {
			bindOK = true
		} else if elems, known := localSliceElems(la[1]); known && len(elems) > 0 {
			// the bind DNs computed once, before the loop over the servers: every element of the list is one
			bindOK = true
			for _, e := range elems {
				if !isBindDN(e) {
					bindOK = false
				}
			}
		}
		pwOK := tagOf(la[2]) == "password"
		r.Add("R-C07-1", km.FuncName(l.Parent()), "directory asked about the submitted credentials", posOf(c, l), "bind DN built from the submitted user; password is the submitted password", sprintf("bindDN-from-user=%v password=%v", bindOK, pwOK), bindOK && pwOK)
	}
	// ---- the cache is never consulted once a server answered
	for _, l := range ldapCalls {
		fl := l.Parent()
		// blocks of fl reachable from the err == nil edge of l
		answered := map[*ssa.BasicBlock]bool{}
		for _, ref := range *l.Referrers() {
			ex, ok := ref.(*ssa.Extract)
			if !ok || ex.Index != 1 {
				continue
			}
			for _, r2 := range *ex.Referrers() {
				b, ok := r2.(*ssa.BinOp)
				if !ok || (b.Op != token.NEQ && b.Op != token.EQL) || !km.IsNilConst(b.Y) {
					continue
				}
				for _, r3 := range *b.Referrers() {
					if iff, ok := r3.(*ssa.If); ok {
						okEdge := iff.Block().Succs[1]
						if b.Op == token.EQL {
							okEdge = iff.Block().Succs[0]
						}
						for bb := range km.ReachableBlocks(okEdge, nil) {
							answered[bb] = true
						}
					}
				}
			}
		}
		if len(answered) == 0 {
			r.Add("R-C07-1", km.FuncName(fl), "cache unreachable once a server answered", posOf(c, l), "the error of CheckLDAPUserPassword is tested", "no err == nil test found", false)
			continue
		}
		for _, g := range getCalls {
			okG, found := true, "cache consulted only after every server failed to answer"
			// the instruction(s) leading to the cache lookup in the frame that (directly or through one helper) holds l
			leadsTo := func(fn *ssa.Function) []ssa.Instruction {
				var out []ssa.Instruction
				if g.Parent() == fn {
					out = append(out, g)
				}
				for _, ci := range km.CallsIn(fn) {
					if callee := km.StaticCallee(ci.Common()); callee != nil && callee != upd {
						if reachableFrom(c, map[*ssa.Function]bool{upd: true}, callee)[g.Parent()] {
							out = append(out, ci)
						}
					}
				}
				return out
			}
			for _, site := range leadsTo(fl) {
				if answered[site.Block()] {
					okG, found = false, "the cache lookup (or the call leading to it) at "+posOf(c, site)+" is reachable from the edge on which the directory answered"
				}
			}
			// callers of fl: at a site leading to the cache, the facts must exclude every answered return of fl
			for _, cs := range c.G.Callers[fl] {
				if !reach[cs.Caller] {
					continue
				}
				call, isCall := cs.Instr.(*ssa.Call)
				if !isCall {
					continue
				}
				for _, site := range leadsTo(cs.Caller) {
					if site == cs.Instr {
						continue
					}
					for _, k := range c.F.At(site) {
						cases, _ := s.ResultCases(k, call)
						for _, rc := range cases {
							if answered[rc.Ret.Block()] {
								okG, found = false, "at "+posOf(c, site)+" the cache can be consulted after "+km.NameOf(fl)+" returned from the edge on which the directory answered ("+posOf(c, rc.Ret)+")"
							}
						}
					}
				}
			}
			r.Add("R-C07-1", km.FuncName(fl), "cache unreachable once a server answered", posOf(c, g), "no path from the err == nil edge of CheckLDAPUserPassword to the cache lookup, in this function or through its callers", found, okG)
		}
	}
}

// checkLDAPBindVerdict: lib/authutil.CheckLDAPUserPassword turns the directory's answer into the verdict the
// authenticator treats as final: (true, nil) only after a bind that returned no error; (false, nil) - "the
// directory rejected this password" - only when the bind error is the invalid-credentials answer, recognised
// either by its text (which survives wrapping) or by ldap.IsErrorWithCode applied to the bind's own error value
// (IsErrorWithCode asserts the concrete *ldap.Error type: a wrapped error never matches, and the rejection would
// be reported as "no answer", letting the cache decide).
func checkLDAPBindVerdict(c *km.Ctx, s *km.Sem) {
	r := c.R
	fn := c.MustFunc("R-C07-1", "lib/authutil", "CheckLDAPUserPassword")
	if fn == nil {
		return
	}
	const bind = "(*gopkg.in/ldap.v2.Conn).Bind"
	bindOK := primErrNil("bind returned no error", bind, 0)
	fromBind := func(k km.Conj, e ssa.Value, allowWrap bool) bool {
		lfs := s.Leaves(k, fn, nil, e, nil, 3)
		if len(lfs) == 0 {
			return false
		}
		for _, lf := range lfs {
			v := km.Unwrap(lf.Val)
			if km.IsNilConst(v) {
				continue
			}
			cl, _ := callRes(v)
			if cl == nil {
				return false
			}
			switch km.CalleeFull(cl.Common()) {
			case bind:
			case "fmt.Errorf":
				if !allowWrap {
					return false
				}
			default:
				return false
			}
		}
		return true
	}
	invalidCreds := func(k km.Conj) bool {
		for _, f := range k.List() {
			cl, ok := f.X.(*ssa.Call)
			if f.Op != token.ILLEGAL || !f.Pol || !ok {
				continue
			}
			switch km.CalleeFull(cl.Common()) {
			case "strings.Contains":
				if cs, isC := km.ConstString(cl.Common().Args[1]); isC && cs == "Invalid Credentials" {
					if ec, isE := km.Unwrap(cl.Common().Args[0]).(*ssa.Call); isE && ec.Common().IsInvoke() && ec.Common().Method.Name() == "Error" {
						if fromBind(k, ec.Common().Value, true) {
							return true
						}
					}
				}
			case "gopkg.in/ldap.v2.IsErrorWithCode":
				if code, isC := km.ConstInt(cl.Common().Args[1]); isC && code == 49 && fromBind(k, cl.Common().Args[0], false) {
					return true
				}
			}
		}
		return false
	}
	nRej, nAcc := 0, 0
	for _, rc := range s.RetCases(fn) {
		if len(rc.Results) != 2 || !km.IsNilConst(rc.Results[1]) {
			continue
		}
		switch km.ValStr(km.Unwrap(rc.Results[0])) {
		case "true":
			nAcc++
			ok := rc.State.All(func(k km.Conj) bool { return s.Holds(k, bindOK) })
			r.Add("R-C07-1", km.FuncName(fn), "directory accepts", posOf(c, rc.Ret), "(true, nil) only after a bind that returned no error", clipS(rc.State.String(), 240), ok)
		case "false":
			nRej++
			ok := len(rc.State) > 0 && rc.State.All(invalidCreds)
			r.Add("R-C07-1", km.FuncName(fn), "directory rejects", posOf(c, rc.Ret), "(false, nil) only for the invalid-credentials answer of the bind (by its text, or by IsErrorWithCode on the bind's own error value)", clipS(rc.State.String(), 240), ok)
		default:
			r.Add("R-C07-1", km.FuncName(fn), "computed verdict", posOf(c, rc.Ret), "verdicts are the constants chosen by the bind outcome", km.ValStr(rc.Results[0]), false)
		}
	}
	if nRej == 0 || nAcc == 0 {
		r.AnchorLost("R-C07-1", sprintf("accepting (%d) / rejecting (%d) verdict returns of CheckLDAPUserPassword", nAcc, nRej))
	}
}

// checkEvictionReachesPrimary: DeleteSigned - the eviction of a rejected cached password - acts on the primary
// store before anything else can make it give up: every return of the function is dominated by the first
// operation on the primary database (state.db), directly or through a helper that is handed it. A deletion that
// first does something else that may fail (and whose failure the caller, who drops the error, never sees) leaves
// the rejected password in the store.
func checkEvictionReachesPrimary(c *km.Ctx, rule string) {
	fn := c.MustFunc(rule, "cmd/keymasterd", "(*RuntimeState).DeleteSigned")
	if fn == nil {
		return
	}
	// firstPrimary: the first operation on state.db in f, and the first return (if any) that it does not dominate
	firstPrimary := func(f *ssa.Function) (ssa.CallInstruction, string) {
		var first ssa.CallInstruction
		for _, ci := range km.CallsIn(f) {
			onPrimary := false
			for _, a := range km.CallArgs(ci.Common()) {
				if a != nil && mentionsField(a, "db") {
					onPrimary = true
				}
			}
			if onPrimary && (first == nil || km.InstrDominates(ci, first)) {
				first = ci
			}
		}
		if first == nil {
			return nil, ""
		}
		early := ""
		km.Instrs(f, func(in ssa.Instruction) {
			if ret, ok := in.(*ssa.Return); ok && !km.InstrDominates(first, ret) && fnReachable(f, ret.Block()) {
				early = posOf(c, ret)
			}
		})
		return first, early
	}
	first, early := firstPrimary(fn)
	if first == nil {
		// the body moved into a helper new to the tree that is handed the state: the helper's first operation on
		// the primary precedes its returns, and the call of the helper precedes the returns here
		for _, ci := range km.CallsIn(fn) {
			g := km.StaticCallee(ci.Common())
			if g == nil || len(g.Blocks) == 0 || !c.InModule(g) || c.P.IsRecorded(g) {
				continue
			}
			if f2, e2 := firstPrimary(g); f2 != nil {
				first, early = ci, e2
				km.Instrs(fn, func(in ssa.Instruction) {
					if ret, ok := in.(*ssa.Return); ok && !km.InstrDominates(ci, ret) && fnReachable(fn, ret.Block()) {
						early = posOf(c, ret)
					}
				})
				break
			}
		}
	}
	if first == nil {
		c.R.AnchorLost(rule, "operation on the primary database in DeleteSigned")
		return
	}
	c.R.Add(rule, km.FuncName(fn), "eviction reaches the primary store", posOf(c, first), "no return before the first operation on the primary database", "return at "+early, early == "")
}

// checkLocalCopyOnlyOnSilence: an eviction removes the record from the primary; the local copy keeps it until the
// next synchronisation. GetSigned may therefore read the local copy only when the primary did not answer (the
// timeout arm of its select): if "the primary answered: no such record" also falls through to the local copy,
// the evicted hash is back for as long as the copy is stale.
func checkLocalCopyOnlyOnSilence(c *km.Ctx, rule string) {
	gs := c.MustFunc(rule, "cmd/keymasterd", "(*RuntimeState).GetSigned")
	if gs == nil {
		return
	}
	sem := km.NewSem(c)
	n := 0
	fam := callsWithNewHelpersFuncs(c, gs, 2)
	// the select between the primary's answer and the timer, and the function it lives in
	var sel *ssa.Select
	var selFn *ssa.Function
	timeoutIdx := -1
	for _, f := range fam {
		km.Instrs(f, func(in ssa.Instruction) {
			sl, ok := in.(*ssa.Select)
			if !ok || len(sl.States) != 2 {
				return
			}
			for i, st := range sl.States {
				if cl, isC := km.Unwrap(st.Chan).(*ssa.Call); isC && km.CalleeFull(cl.Common()) == "time.After" {
					sel, selFn, timeoutIdx = sl, f, i
				}
			}
		})
	}
	silent := km.Prim{Name: "primary did not answer", Direct: func(fc km.Fact) bool {
		ex, ok := fc.X.(*ssa.Extract)
		if !ok || sel == nil || ex.Tuple != ssa.Value(sel) || ex.Index != 0 || fc.Y == nil {
			return false
		}
		k, isK := km.ConstInt(fc.Y)
		return isK && ((fc.Op == token.EQL && int(k) == timeoutIdx) || (fc.Op == token.NEQ && int(k) == 1-timeoutIdx))
	}}
	reaches := func(from, to *ssa.Function) bool {
		if from == to {
			return true
		}
		for _, g := range c.G.Callees[from] {
			if g == to {
				return true
			}
			for _, h := range c.G.Callees[g] {
				if h == to {
					return true
				}
			}
		}
		return false
	}
	for _, f := range fam {
		for _, ci := range km.CallsIn(f) {
			if km.CalleeFull(ci.Common()) != "(*database/sql.DB).Prepare" || !mentionsField(ci.Common().Args[0], "cacheDB") {
				continue
			}
			n++
			if sel == nil {
				c.R.Add(rule, km.FuncName(f), "local copy read only when the primary is silent", posOf(c, ci), "the read of cacheDB lies on the timeout arm of the select over the primary's answer", "no select between the primary's answer and a timer in GetSigned", false)
				continue
			}
			// where the decision to read the copy is taken: here, or - the read moved into a helper - at the calls
			// in the select's function that lead to it
			var sites []ssa.Instruction
			if f == selFn {
				sites = append(sites, ci)
			} else {
				for _, c2 := range km.CallsIn(selFn) {
					if g := km.StaticCallee(c2.Common()); g != nil && c.InModule(g) && reaches(g, f) {
						sites = append(sites, c2)
					}
				}
			}
			ok := len(sites) > 0
			desc := ""
			for _, site := range sites {
				st := c.F.At(site)
				if len(st) == 0 || !st.All(func(k km.Conj) bool { return sem.Holds(k, silent) }) {
					ok = false
					desc = clipS(st.String(), 200)
				}
			}
			if ok {
				desc = sprintf("%d site(s), each on the timer arm", len(sites))
			} else if len(sites) == 0 {
				desc = "the read is not reached from the function that waits for the primary"
			}
			c.R.Add(rule, km.FuncName(f), "local copy read only when the primary is silent", posOf(c, ci), "the read of cacheDB lies on the timeout arm of the select over the primary's answer", desc, ok)
		}
	}
	if n == 0 {
		c.R.AnchorLost(rule, "read of cacheDB in GetSigned")
	}
}
