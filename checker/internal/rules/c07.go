package rules

import (
	"go/token"
	"strings"

	"kmcheck/internal/km"

	"golang.org/x/tools/go/ssa"
)

func init() { km.Register("C07", checkC07) }

const (
	ldapPkg     = km.ModPath + "/lib/pwauth/ldap"
	authutilPkg = km.ModPath + "/lib/authutil"
	ldapPA      = "(*" + ldapPkg + ".PasswordAuthenticator)."
	storeIface  = "iface:(" + km.ModPath + "/lib/simplestorage.SimpleStore)."
)

func checkC07(c *km.Ctx) {
	r := c.R
	s := km.NewSem(c)
	r.Explain = "Static analysis of /repo: in the LDAP authenticator the directory's answer is returned unmodified on the answered edge, the cache refresh/evict helper runs on that edge, and the cache-consulting block is CFG-unreachable from it; the helper upserts on acceptance with the 96 h constant and deletes only a cached hash that matches the rejected password; the cache accepts only a record that GetSigned returned for the same user (signature/kind/issuer/audience/not-before/expiry facts and subject==user) whose hash matches the submitted password; both password entry points normalise the name before the backend call and mint the session for that same value; checkUserPassword and every PasswordAuthenticator implementation return true only from their verifier's success edge. Decides structure, not outage/tamper histories."
	r.NotDecided = []string{"LDAP protocol behaviour", "outage / password-change / tampering histories as executions"}
	r.Assume = []string{"go/types + go/ssa model the source faithfully", "argon2/bcrypt comparisons and go-jose verification are correct"}

	r.Rule("R-C07-1", "LDAP verdict is final: on the answered edge the directory's boolean is returned as is, after the refresh/evict helper ran with it; the cache block is unreachable from that edge", 3)
	r.Rule("R-C07-2", "refresh/evict: acceptance upserts (user, password type, now + 96 h, new hash); rejection deletes only a cached hash that matches the rejected password; the lifetime is only ever the 96 h constant", 3)
	r.Rule("R-C07-3", "the cache accepts only a record GetSigned returned for this user and type whose hash matches the submitted password; GetSigned returns a record only after signature, kind, issuer, audience, not-before, expiry and subject==user tests", 3)
	r.Rule("R-C07-4", "both password entry points pass the normalised name to the backend and use the same value for the session; checkUserPassword returns the backend verdict unmodified; every backend returns true only from its verifier's success edge", 8)

	pa := c.MustFunc("R-C07-1", "lib/pwauth/ldap", "(*PasswordAuthenticator).passwordAuthenticate")
	upd := c.MustFunc("R-C07-2", "lib/pwauth/ldap", "(*PasswordAuthenticator).updateOrDeletePasswordHash")
	if pa == nil || upd == nil {
		return
	}
	checkLDAP := authutilPkg + ".CheckLDAPUserPassword"
	var ldapCall *ssa.Call
	var updCall *ssa.Call
	var cacheGet *ssa.Call
	for _, ci := range km.CallsIn(pa) {
		cl, ok := ci.(*ssa.Call)
		if !ok {
			continue
		}
		switch km.CalleeFull(cl.Common()) {
		case checkLDAP:
			ldapCall = cl
		case ldapPA + "updateOrDeletePasswordHash":
			updCall = cl
		case storeIface + "GetSigned":
			cacheGet = cl
		}
	}
	if ldapCall == nil || updCall == nil || cacheGet == nil {
		r.AnchorLost("R-C07-1", "CheckLDAPUserPassword / updateOrDeletePasswordHash / GetSigned calls in passwordAuthenticate")
		return
	}
	answered := primErrNilCall("directory answered", ldapCall, 1)
	// (a) answered edge returns the directory's boolean after the helper ran with it
	nAns := 0
	for _, rc := range s.RetCases(pa) {
		if !rc.State.All(func(k km.Conj) bool { return s.Holds(k, answered) }) {
			// a return that may be reached on the answered edge without the fact is handled by (b)
			continue
		}
		nAns++
		cl, idx := callRes(km.Unwrap(rc.Results[0]))
		same := cl == ldapCall && idx == 0
		helperRan := km.InstrDominates(updCall, rc.Ret)
		a := km.CallArgs(updCall.Common())
		hc, hidx := callRes(km.Unwrap(a[1]))
		helperArgs := hc == ldapCall && hidx == 0 && km.Unwrap(a[2]) == ssa.Value(pa.Params[1]) && km.Unwrap(a[3]) == ssa.Value(pa.Params[2])
		r.Add("R-C07-1", km.FuncName(pa), "return on the answered edge", posOf(c, rc.Ret), "returns exactly CheckLDAPUserPassword's boolean, after updateOrDeletePasswordHash(thatBoolean, user, password)", sprintf("same-boolean=%v helper-dominates=%v helper-args-ok=%v", same, helperRan, helperArgs), same && helperRan && helperArgs)
	}
	if nAns == 0 {
		r.Add("R-C07-1", km.FuncName(pa), "return on the answered edge", c.P.Pos(pa.Pos()), "a return dominated by err == nil of CheckLDAPUserPassword exists", "none", false)
	}
	// (b) the cache block is unreachable from the answered edge
	unreach := true
	found := "cache consulted only after every server failed to answer"
	for _, ref := range *ldapCall.Referrers() {
		ex, ok := ref.(*ssa.Extract)
		if !ok || ex.Index != 1 {
			continue
		}
		for _, r2 := range *ex.Referrers() {
			b, ok := r2.(*ssa.BinOp)
			if !ok || (b.Op != token.NEQ && b.Op != token.EQL) || !km.IsNilConst(b.Y) {
				continue
			}
			for _, r3 := range *b.Referrers() {
				iff, ok := r3.(*ssa.If)
				if !ok {
					continue
				}
				okEdge := iff.Block().Succs[1] // err != nil is false
				if b.Op == token.EQL {
					okEdge = iff.Block().Succs[0]
				}
				if km.ReachableBlocks(okEdge, nil)[cacheGet.Block()] {
					unreach = false
					found = "the cache lookup at " + posOf(c, cacheGet) + " is reachable from the edge on which the directory answered (" + posOf(c, iff) + ")"
				}
			}
		}
	}
	r.Add("R-C07-1", km.FuncName(pa), "cache unreachable once a server answered", posOf(c, cacheGet), "no CFG path from the err == nil edge of CheckLDAPUserPassword to the cache lookup", found, unreach)
	// the directory is asked about the submitted user and password
	la := ldapCall.Common().Args
	bindOK := false
	if bc, ok := km.Unwrap(la[1]).(*ssa.Call); ok && km.CalleeFull(bc.Common()) == ldapPkg+".convertToBindDN" && km.Unwrap(bc.Common().Args[0]) == ssa.Value(pa.Params[1]) {
		bindOK = true
	}
	pwOK := false
	if cv, ok := km.Unwrap(la[2]).(*ssa.Convert); ok && km.Unwrap(cv.X) == ssa.Value(pa.Params[2]) {
		pwOK = true
	}
	r.Add("R-C07-1", km.FuncName(pa), "directory asked about the submitted credentials", posOf(c, ldapCall), "bind DN built from the user parameter; password is the password parameter", sprintf("bindDN-from-user=%v password-param=%v", bindOK, pwOK), bindOK && pwOK)

	// ---------- R-C07-2
	validTrue := km.Prim{Name: "valid", Direct: func(f km.Fact) bool {
		return f.Op == token.ILLEGAL && f.Pol && km.Unwrap(f.X) == ssa.Value(upd.Params[1])
	}}
	validFalse := km.Prim{Name: "!valid", Direct: func(f km.Fact) bool {
		return f.Op == token.ILLEGAL && !f.Pol && km.Unwrap(f.X) == ssa.Value(upd.Params[1])
	}}
	nUp, nDel := 0, 0
	for _, ci := range km.CallsIn(upd) {
		n := km.CalleeFull(ci.Common())
		a := km.CallArgs(ci.Common())
		switch n {
		case storeIface + "UpsertSigned":
			nUp++
			st := c.F.At(ci)
			onValid := st.All(func(k km.Conj) bool { return s.Holds(k, validTrue) })
			userOK := km.Unwrap(a[1]) == ssa.Value(upd.Params[2])
			typ, tOK := km.ConstInt(a[2])
			expOK := isNowPlusField(a[3], "expirationDuration")
			hc, hidx := callRes(km.Unwrap(a[4]))
			hashOK := hc != nil && hidx == 0 && km.CalleeFull(hc.Common()) == authutilPkg+".Argon2MakeNewHash" && km.Unwrap(hc.Common().Args[0]) == ssa.Value(upd.Params[3])
			r.Add("R-C07-2", km.FuncName(upd), "refresh on acceptance", posOf(c, ci), "under valid: UpsertSigned(user, passwordDataType, now + expirationDuration, Argon2 hash of the accepted password)", sprintf("on-valid=%v user=%v type=%d/%v expiry=%v hash=%v", onValid, userOK, typ, tOK, expOK, hashOK), onValid && userOK && tOK && typ == 1 && expOK && hashOK)
		case storeIface + "DeleteSigned":
			nDel++
			st := c.F.At(ci)
			cmp := km.Prim{Name: "cached hash matches the rejected password", Direct: func(f km.Fact) bool {
				cl, ok := f.X.(*ssa.Call)
				if f.Op != token.EQL || !km.IsNilConst(f.Y) || !ok || km.CalleeFull(cl.Common()) != authutilPkg+".Argon2CompareHashAndPassword" {
					return false
				}
				gc, gi := callRes(km.Unwrap(cl.Common().Args[0]))
				return gc != nil && gi == 1 && km.CalleeFull(gc.Common()) == storeIface+"GetSigned" && km.Unwrap(cl.Common().Args[1]) == ssa.Value(upd.Params[3])
			}}
			ok := st.All(func(k km.Conj) bool { return s.Holds(k, validFalse) && s.Holds(k, cmp) })
			userOK := km.Unwrap(a[1]) == ssa.Value(upd.Params[2])
			r.Add("R-C07-2", km.FuncName(upd), "evict on rejection", posOf(c, ci), "under !valid and only when the cached hash matches the rejected password: DeleteSigned(user, passwordDataType)", sprintf("facts=%v user=%v", ok, userOK), ok && userOK)
		}
	}
	if nUp == 0 || nDel == 0 {
		r.AnchorLost("R-C07-2", sprintf("UpsertSigned (%d) / DeleteSigned (%d) in updateOrDeletePasswordHash", nUp, nDel))
	}
	nLife := 0
	for _, fn := range c.P.AllFuncs {
		if fn.Pkg == nil || fn.Pkg.Pkg.Path() != ldapPkg {
			continue
		}
		km.Instrs(fn, func(in ssa.Instruction) {
			if st, ok := in.(*ssa.Store); ok {
				if fa, ok := st.Addr.(*ssa.FieldAddr); ok && fieldNameOf(fa) == "expirationDuration" {
					nLife++
					d, isC := km.ConstInt(st.Val)
					r.Add("R-C07-2", km.FuncName(fn), "cache lifetime", posOf(c, in), "the constant 96 h", sprintf("%d ns const=%v", d, isC), isC && d == 96*3600*1e9)
				}
			}
		})
	}
	if nLife == 0 {
		r.AnchorLost("R-C07-2", "assignment of expirationDuration")
	}

	// ---------- R-C07-3 cache acceptance
	for _, rc := range s.RetCases(pa) {
		if km.ValStr(rc.Results[0]) != "true" {
			continue
		}
		getOK := primErrNilCall("GetSigned err==nil", cacheGet, 2)
		found := km.Prim{Name: "record found", Direct: func(f km.Fact) bool {
			cl, idx := callRes(f.X)
			return f.Op == token.ILLEGAL && f.Pol && cl == cacheGet && idx == 0
		}}
		match := km.Prim{Name: "hash matches the submitted password", Direct: func(f km.Fact) bool {
			cl, ok := f.X.(*ssa.Call)
			if f.Op != token.EQL || !km.IsNilConst(f.Y) || !ok || km.CalleeFull(cl.Common()) != authutilPkg+".Argon2CompareHashAndPassword" {
				return false
			}
			gc, gi := callRes(km.Unwrap(cl.Common().Args[0]))
			return gc == cacheGet && gi == 1 && km.Unwrap(cl.Common().Args[1]) == ssa.Value(pa.Params[2])
		}}
		ok := rc.State.All(func(k km.Conj) bool { return s.Holds(k, getOK) && s.Holds(k, found) && s.Holds(k, match) })
		ga := km.CallArgs(cacheGet.Common())
		typ, tOK := km.ConstInt(ga[2])
		argsOK := km.Unwrap(ga[1]) == ssa.Value(pa.Params[1]) && tOK && typ == 1
		r.Add("R-C07-3", km.FuncName(pa), "cache acceptance", posOf(c, rc.Ret), "GetSigned(user, passwordDataType) returned a record without error and its hash matches the submitted password", sprintf("facts=%v lookup-args=%v", ok, argsOK), ok && argsOK)
	}
	if gs := c.MustFunc("R-C07-3", "cmd/keymasterd", "(*RuntimeState).GetSigned"); gs != nil {
		verified := primErrNil("record verified", RS+"getStorageDataFromStorageStringDataJWT", 1)
		subject := km.Prim{Name: "subject == user", Direct: func(f km.Fact) bool {
			if f.Op != token.EQL {
				return false
			}
			return (mentionsField(f.X, "Subject") && km.Unwrap(f.Y) == ssa.Value(gs.Params[1])) || (mentionsField(f.Y, "Subject") && km.Unwrap(f.X) == ssa.Value(gs.Params[1]))
		}}
		n := 0
		for _, rc := range s.RetCases(gs) {
			if km.ValStr(rc.Results[0]) != "true" {
				continue
			}
			n++
			ok := rc.State.All(func(k km.Conj) bool { return s.Holds(k, verified) && s.Holds(k, subject) })
			// returned data is the verified record's
			dataOK := fieldLoadOf(rc.Results[1], KMD+".storageStringDataJWT", "Data")
			r.Add("R-C07-3", km.FuncName(gs), "signed record returned", posOf(c, rc.Ret), "record verified (signature, kind, issuer, audience, nbf, exp) ∧ subject == requested user; returns that record's data", sprintf("facts=%v data-of-record=%v", ok, dataOK), ok && dataOK)
		}
		if n == 0 {
			r.AnchorLost("R-C07-3", "successful return of GetSigned")
		}
	}
	if gd := c.MustFunc("R-C07-3", "cmd/keymasterd", "(*RuntimeState).getStorageDataFromStorageStringDataJWT"); gd != nil {
		typ := KMD + ".storageStringDataJWT"
		claims := primErrNil("claims verified", RS+"JWTClaims", 0)
		kind := km.Prim{Name: "token_type == storage_data", Rel: func(f km.Fact, resolve func(ssa.Value) ssa.Value) bool {
			if f.Op != token.EQL {
				return false
			}
			for _, pair := range [][2]ssa.Value{{f.X, f.Y}, {f.Y, f.X}} {
				if cs, ok := km.ConstString(resolve(pair[1])); ok && cs == "storage_data" && fieldLoadOf(resolve(pair[0]), typ, "TokenType") {
					return true
				}
			}
			return false
		}}
		exp := primNotExpiredEpoch(typ)
		for _, rc := range s.RetCases(gd) {
			if !km.IsNilConst(rc.Results[1]) {
				continue
			}
			var missing []string
			for _, p := range []km.Prim{claims, kind, exp} {
				if !rc.State.All(func(k km.Conj) bool { return s.Holds(k, p) }) {
					missing = append(missing, p.Name)
				}
			}
			r.Add("R-C07-3", km.FuncName(gd), "storage record accepted", posOf(c, rc.Ret), "signature verified ∧ kind == storage_data ∧ signed expiry not passed (issuer/audience/nbf are C04's R-C04-3)", sprintf("missing=%v", missing), len(missing) == 0)
		}
	}

	// ---------- R-C07-4
	checkPasswordDispatch(c, s)
}

// isNowPlusField: v = time.Now().Add(load of field).Unix()
func isNowPlusField(v ssa.Value, field string) bool {
	cl, ok := km.Unwrap(v).(*ssa.Call)
	if !ok || km.CalleeFull(cl.Common()) != "(time.Time).Unix" {
		return false
	}
	add, ok := km.Unwrap(cl.Common().Args[0]).(*ssa.Call)
	if !ok || km.CalleeFull(add.Common()) != "(time.Time).Add" {
		return false
	}
	now, ok := km.Unwrap(add.Common().Args[0]).(*ssa.Call)
	if !ok || km.CalleeFull(now.Common()) != "time.Now" {
		return false
	}
	return mentionsField(add.Common().Args[1], field)
}

func checkPasswordDispatch(c *km.Ctx, s *km.Sem) {
	r := c.R
	cup := c.MustFunc("R-C07-4", "cmd/keymasterd", "checkUserPassword")
	if cup == nil {
		return
	}
	// entry points
	for _, cs := range c.G.Callers[cup] {
		cl, ok := cs.Instr.(*ssa.Call)
		if !ok {
			continue
		}
		u := km.Unwrap(cl.Common().Args[0])
		norm := false
		if nc, ok := u.(*ssa.Call); ok && km.CalleeFull(nc.Common()) == RS+"reprocessUsername" {
			norm = true
		}
		r.Add("R-C07-4", km.FuncName(cs.Caller), "normalised name to the backend", posOf(c, cl), "checkUserPassword(reprocessUsername(submitted name), …)", km.ValStr(u), norm)
		// the session is minted / the credential is issued for the same value
		same := false
		km.Instrs(cs.Caller, func(in ssa.Instruction) {
			if ci, ok := in.(ssa.CallInstruction); ok && km.CalleeFull(ci.Common()) == fnSetCookie {
				if km.Unwrap(km.CallArgs(ci.Common())[2]) == u {
					same = true
				}
			}
			if st, ok := in.(*ssa.Store); ok {
				if fa, ok := st.Addr.(*ssa.FieldAddr); ok && fieldNameOf(fa) == "Username" && km.NamedTypeOf(fa.X.Type()) == KMD+".authInfo" && km.Unwrap(st.Val) == u {
					same = true
				}
			}
		})
		r.Add("R-C07-4", km.FuncName(cs.Caller), "session for the verified name", posOf(c, cl), "the session / credential is created for the very value whose password was checked", sprintf("%v", same), same)
	}
	// checkUserPassword returns the backend's verdict
	backend := "iface:(" + km.ModPath + "/lib/pwauth.PasswordAuthenticator).PasswordAuthenticate"
	var bcall *ssa.Call
	for _, ci := range km.CallsIn(cup) {
		if cl, ok := ci.(*ssa.Call); ok && km.CalleeFull(cl.Common()) == backend {
			bcall = cl
		}
	}
	if bcall == nil {
		r.AnchorLost("R-C07-4", "PasswordAuthenticate call in checkUserPassword")
	} else {
		argsOK := km.Unwrap(km.CallArgs(bcall.Common())[1]) == ssa.Value(cup.Params[0])
		r.Add("R-C07-4", km.FuncName(cup), "backend asked about the given user", posOf(c, bcall), "PasswordAuthenticate(username param, password)", km.ValStr(km.CallArgs(bcall.Common())[1]), argsOK)
		for _, rc := range s.RetCases(cup) {
			v := km.Unwrap(rc.Results[0])
			if cst, ok := v.(*ssa.Const); ok {
				r.Add("R-C07-4", km.FuncName(cup), "constant verdict", posOf(c, rc.Ret), "constant verdicts are false", km.ValStr(cst), km.ValStr(cst) == "false")
				continue
			}
			cl, idx := callRes(v)
			ok := cl == bcall && idx == 0 && rc.State.All(func(k km.Conj) bool { return s.Holds(k, primErrNilCall("backend ok", bcall, 1)) })
			r.Add("R-C07-4", km.FuncName(cup), "verdict returned", posOf(c, rc.Ret), "the backend's boolean, returned only when the backend reported no error", km.ValStr(v), ok)
		}
	}
	// sibling backends: true only from the verifier's success edge
	type sib struct{ rel, fn, verifier, how string }
	for _, sb := range []sib{
		{"lib/authutil", "CheckHtpasswdUserPassword", "golang.org/x/crypto/bcrypt.CompareHashAndPassword", "errnil"},
		{"lib/pwauth/command", "(*PasswordAuthenticator).passwordAuthenticate", "(*os/exec.Cmd).Output", "errnil1"},
		{"lib/authenticators/okta", "(*PasswordAuthenticator).passwordAuthenticate", "", "okta"},
	} {
		fn := c.MustFunc("R-C07-4", sb.rel, sb.fn)
		if fn == nil {
			continue
		}
		for _, rc := range s.RetCases(fn) {
			if km.ValStr(rc.Results[0]) != "true" {
				continue
			}
			ok := false
			switch sb.how {
			case "errnil":
				ok = rc.State.All(func(k km.Conj) bool {
					for _, f := range k.List() {
						if cl, isC := f.X.(*ssa.Call); isC && f.Op == token.EQL && km.IsNilConst(f.Y) && km.CalleeFull(cl.Common()) == sb.verifier {
							return true
						}
					}
					return false
				})
			case "errnil1":
				ok = rc.State.All(func(k km.Conj) bool { return s.Holds(k, primErrNil("exit 0", sb.verifier, 1)) })
			case "okta":
				ok = rc.State.All(func(k km.Conj) bool {
					st200, status := false, false
					for _, f := range k.List() {
						if f.Op == token.EQL {
							if i, isI := km.ConstInt(f.Y); isI && i == 200 && mentionsField(f.X, "StatusCode") {
								st200 = true
							}
							if cs, isS := km.ConstString(f.Y); isS && (cs == "SUCCESS" || cs == "MFA_REQUIRED") && mentionsField(f.X, "Status") {
								status = true
							}
						}
					}
					return st200 && status
				})
			}
			r.Add("R-C07-4", km.FuncName(fn), "backend accepts", posOf(c, rc.Ret), "true only from the verifier's success edge ("+strings.TrimPrefix(sb.how, "err")+")", clipS(rc.State.String(), 200), ok)
		}
	}
	// htpassword and command wrappers return their verifier's result
	if fn := c.MustFunc("R-C07-4", "lib/pwauth/htpassword", "(*PasswordAuthenticator).passwordAuthenticate"); fn != nil {
		for _, rc := range s.RetCases(fn) {
			v := km.Unwrap(rc.Results[0])
			if cst, ok := v.(*ssa.Const); ok {
				r.Add("R-C07-4", km.FuncName(fn), "constant verdict", posOf(c, rc.Ret), "constant verdicts are false", km.ValStr(cst), km.ValStr(cst) == "false")
				continue
			}
			cl, idx := callRes(v)
			ok := cl != nil && idx == 0 && km.CalleeFull(cl.Common()) == authutilPkg+".CheckHtpasswdUserPassword" && km.Unwrap(cl.Common().Args[0]) == ssa.Value(fn.Params[1])
			r.Add("R-C07-4", km.FuncName(fn), "verdict returned", posOf(c, rc.Ret), "CheckHtpasswdUserPassword(user param, …) result", km.ValStr(v), ok)
		}
	}
}
