package rules

import (
	"go/token"
	"go/types"
	"regexp"
	"regexp/syntax"
	"sort"
	"strings"

	"kmcheck/internal/km"

	"golang.org/x/tools/go/ssa"
)

func init() { km.Register("C19", checkC19) }

func isClientPkg(p string) bool {
	return p == km.ModPath+"/cmd/keymaster" || strings.HasPrefix(p, km.ModPath+"/lib/client")
}

var privateKeyTypes = map[string]bool{
	"crypto/rsa.PrivateKey": true, "crypto/ecdsa.PrivateKey": true, "crypto/ed25519.PrivateKey": true,
	"crypto.Signer": true, "crypto.PrivateKey": true,
}

func isPrivateKeyType(t types.Type) bool {
	return privateKeyTypes[km.NamedTypeOf(t)]
}

var marshalPrivate = map[string]bool{
	"crypto/x509.MarshalPKCS8PrivateKey": true, "crypto/x509.MarshalPKCS1PrivateKey": true, "crypto/x509.MarshalECPrivateKey": true,
	"golang.org/x/crypto/ssh.MarshalPrivateKey": true, "golang.org/x/crypto/ssh.MarshalPrivateKeyWithPassphrase": true,
}

// network / log sinks: callee -> true
func isOutboundSink(n string) bool {
	switch {
	case n == "net/http.NewRequest", n == "net/http.NewRequestWithContext", n == "net/http.Post", n == "net/http.PostForm":
		return true
	case strings.HasPrefix(n, "(*net/http.Client)."):
		return true
	case strings.HasPrefix(n, "(*mime/multipart.Writer)."):
		return true
	case strings.HasPrefix(n, "(net/http.Header)."):
		return true
	case strings.HasPrefix(n, "(net/url.Values)."):
		return true
	case strings.Contains(n, "log.DebugLogger).") || strings.Contains(n, "log.Logger).") || strings.HasPrefix(n, "log.") || strings.HasPrefix(n, "fmt.Print") || strings.HasPrefix(n, "fmt.Fprint"):
		return true
	case strings.HasPrefix(n, "iface:(net.Conn).Write"), strings.HasPrefix(n, "iface:(io.Writer).Write"):
		return true
	}
	return false
}

// derivesFromPrivateMarshal: v is computed from the result of a private-key marshal call.
func derivesFromPrivateMarshal(v ssa.Value, depth int, seen map[ssa.Value]bool) bool {
	if depth > 10 || v == nil || seen[v] {
		return false
	}
	seen[v] = true
	v = km.Unwrap(v)
	switch x := v.(type) {
	case *ssa.Call:
		n := km.CalleeFull(x.Common())
		if marshalPrivate[n] {
			return true
		}
		if n == "encoding/pem.EncodeToMemory" || n == "encoding/pem.Encode" || n == "fmt.Sprintf" || n == "fmt.Sprint" {
			for _, a := range x.Common().Args {
				if derivesFromPrivateMarshal(a, depth+1, seen) {
					return true
				}
			}
		}
		return false
	case *ssa.Extract:
		return derivesFromPrivateMarshal(x.Tuple, depth+1, seen)
	case *ssa.Convert:
		return derivesFromPrivateMarshal(x.X, depth+1, seen)
	case *ssa.Phi:
		for _, e := range x.Edges {
			if derivesFromPrivateMarshal(e, depth+1, seen) {
				return true
			}
		}
	case *ssa.Slice:
		return derivesFromPrivateMarshal(x.X, depth+1, seen)
	case *ssa.UnOp:
		return derivesFromPrivateMarshal(x.X, depth+1, seen)
	case *ssa.FieldAddr:
		return derivesFromPrivateMarshal(x.X, depth+1, seen)
	case *ssa.IndexAddr:
		return derivesFromPrivateMarshal(x.X, depth+1, seen)
	case *ssa.Alloc:
		// a struct / array cell: any store of private material into it or its fields/elements taints it
		for _, ref := range *x.Referrers() {
			switch r := ref.(type) {
			case *ssa.Store:
				if r.Addr == ssa.Value(x) && derivesFromPrivateMarshal(r.Val, depth+1, seen) {
					return true
				}
			case *ssa.FieldAddr:
				for _, r2 := range *r.Referrers() {
					if st, ok := r2.(*ssa.Store); ok && derivesFromPrivateMarshal(st.Val, depth+1, seen) {
						return true
					}
				}
			case *ssa.IndexAddr:
				for _, r2 := range *r.Referrers() {
					if st, ok := r2.(*ssa.Store); ok && derivesFromPrivateMarshal(st.Val, depth+1, seen) {
						return true
					}
				}
			}
		}
	case *ssa.MakeInterface:
		return derivesFromPrivateMarshal(x.X, depth+1, seen)
	}
	return false
}

func isWriteFile(n string) bool { return n == "io/ioutil.WriteFile" || n == "os.WriteFile" }

func checkC19(c *km.Ctx) {
	c19ctx = c
	r := c.R
	s := km.NewSem(c)
	r.Explain = "Static analysis of /repo's client packages (loaded with CGO_ENABLED=0; only the third-party HID package fails to type-check): type-directed taint - no value of a private-key type and no byte string derived from a private-key marshal call is an argument of a request constructor, HTTP client call, multipart writer, header/form setter, logger or raw connection write; marshalled private keys reach only file writes with the constant mode 0600 (and no chmod widens such a file); the key material placed in certificate requests derives only from signer.Public(); the agent upsert removes same-comment certificates before adding and aborts on error; every SSH key type the client can generate is in the alternation of the server's key-type pattern (parsed with regexp/syntax) and meets the server's strength constants. Decides provenance and agreement of constants, not bytes on the wire."
	r.NotDecided = []string{"bytes on the wire", "pre-existing files with wider modes (WriteFile does not chmod)", "the operating system's SSH agent"}
	r.Assume = []string{"go/types + go/ssa model the source faithfully", "private keys have one of the listed static types (rsa/ecdsa/ed25519 private keys, crypto.Signer, crypto.PrivateKey)"}

	r.Rule("R-C19-1", "private-key confinement: no private-key-typed value and no marshalled private key reaches a request, HTTP client, multipart writer, header/form, logger or connection write; marshalled private keys are written only with mode 0600 and never chmod-ed wider", 4)
	r.Rule("R-C19-2", "certificate requests carry public halves: the key text submitted by doCertRequest (and the AWS role request) derives only from signer.Public()", 1)
	r.Rule("R-C19-3", "agent upsert: certificates with the same comment are removed before the add, a removal error aborts; only certificates whose comment equals the new one are removed", 1)
	r.Rule("R-C19-4", "offered ⊆ accepted: every SSH key algorithm the client can generate is in the server's key-type alternation, and every offered key meets the server's strength constants", 3)

	var clientFns []*ssa.Function
	for _, fn := range c.P.AllFuncs {
		if fn.Pkg != nil && isClientPkg(fn.Pkg.Pkg.Path()) {
			clientFns = append(clientFns, fn)
		}
	}
	if len(clientFns) < 50 {
		r.AnchorLost("R-C19-1", sprintf("client functions (found %d)", len(clientFns)))
		return
	}
	r.Extra["client_functions"] = len(clientFns)

	// ---------- R-C19-1
	nSinks, nMarshal := 0, 0
	var privPaths []ssa.Value
	for _, fn := range clientFns {
		for _, ci := range km.CallsIn(fn) {
			n := km.CalleeFull(ci.Common())
			args := km.CallArgs(ci.Common())
			if isOutboundSink(n) {
				nSinks++
				bad := ""
				for _, a := range args {
					ua := km.Unwrap(a)
					if isPrivateKeyType(ua.Type()) {
						bad = "private-key-typed argument " + clipS(km.ValStr(ua), 60)
					}
					if derivesFromPrivateMarshal(a, 0, map[ssa.Value]bool{}) {
						bad = "marshalled private key " + clipS(km.ValStr(ua), 60)
					}
					// variadic ...interface{} slices
					if sl, ok := ua.(*ssa.Slice); ok {
						if al, ok := sl.X.(*ssa.Alloc); ok {
							for _, ref := range *al.Referrers() {
								if ia, ok := ref.(*ssa.IndexAddr); ok {
									for _, r2 := range *ia.Referrers() {
										if st, ok := r2.(*ssa.Store); ok {
											if isPrivateKeyType(km.Unwrap(st.Val).Type()) {
												bad = "private-key-typed variadic argument " + clipS(km.ValStr(st.Val), 60)
											}
										}
									}
								}
							}
						}
					}
				}
				if bad != "" {
					r.Add("R-C19-1", km.FuncName(fn), "outbound/log sink "+short(n), posOf(c, ci), "no private key material among the arguments", bad, false)
				}
			}
			if marshalPrivate[n] {
				nMarshal++
			}
			if isWriteFile(n) && len(args) == 3 && derivesFromPrivateMarshal(args[1], 0, map[ssa.Value]bool{}) {
				privPaths = append(privPaths, km.Unwrap(args[0]))
				mode, ok := km.ConstInt(args[2])
				r.Add("R-C19-1", km.FuncName(fn), "private key file", posOf(c, ci), "written with the constant mode 0600", sprintf("%#o const=%v", mode, ok), ok && mode == 0o600)
				// no chmod of the same path to a wider mode
				for _, c2 := range km.CallsIn(fn) {
					if km.CalleeFull(c2.Common()) == "os.Chmod" && km.Unwrap(c2.Common().Args[0]) == km.Unwrap(args[0]) {
						m2, ok2 := km.ConstInt(c2.Common().Args[1])
						r.Add("R-C19-1", km.FuncName(fn), "chmod of the private key file", posOf(c, c2), "never wider than 0600", sprintf("%#o", m2), ok2 && m2&0o077 == 0)
					}
				}
			}
		}
	}
	// WriteFile applies its mode only when it creates the file: nothing else in the client may create a private-key
	// path first with a wider mode (a "can I write there" probe before authentication, say)
	{
		samePath := func(a, b ssa.Value) bool {
			a, b = km.Unwrap(a), km.Unwrap(b)
			if a == b {
				return true
			}
			x, okx := a.(*ssa.BinOp)
			y, oky := b.(*ssa.BinOp)
			if okx && oky && x.Op == token.ADD && y.Op == token.ADD && km.Unwrap(x.X) == km.Unwrap(y.X) {
				sx, ok1 := km.ConstString(x.Y)
				sy, ok2 := km.ConstString(y.Y)
				return ok1 && ok2 && sx == sy
			}
			return false
		}
		// the values a file name can stand for: itself, or - when it is (an element of) a parameter - what the callers pass
		var namesOf func(v ssa.Value, d int) []ssa.Value
		namesOf = func(v ssa.Value, d int) []ssa.Value {
			v = km.Unwrap(v)
			out := []ssa.Value{v}
			var par *ssa.Parameter
			elem := false
			if p, isP := v.(*ssa.Parameter); isP {
				par = p
			} else if u, isU := v.(*ssa.UnOp); isU && u.Op == token.MUL {
				if ia, isIA := u.X.(*ssa.IndexAddr); isIA {
					if p, isP := km.Unwrap(ia.X).(*ssa.Parameter); isP {
						par, elem = p, true
					}
				}
			}
			if par == nil || d > 2 {
				return out
			}
			g := par.Parent()
			idx := -1
			for i, q := range g.Params {
				if q == par {
					idx = i
				}
			}
			for _, cs := range c.G.Callers[g] {
				ci, isCI := cs.Instr.(ssa.CallInstruction)
				if !isCI || idx < 0 || idx >= len(ci.Common().Args) {
					continue
				}
				a := ci.Common().Args[idx]
				if elem {
					for _, e := range variadicVals(a) {
						out = append(out, namesOf(e, d+1)...)
					}
				} else {
					out = append(out, namesOf(a, d+1)...)
				}
			}
			return out
		}
		nCreate := 0
		for _, fn := range clientFns {
			for _, ci := range km.CallsIn(fn) {
				n := km.CalleeFull(ci.Common())
				args := ci.Common().Args
				var name ssa.Value
				mode, modeOK := int64(0o666), true
				switch {
				case n == "os.OpenFile" && len(args) == 3:
					if fl, isC := km.ConstInt(args[1]); isC && fl&0o100 == 0 {
						continue // cannot create
					}
					name = args[0]
					mode, modeOK = km.ConstInt(args[2])
				case n == "os.Create" && len(args) == 1:
					name = args[0]
				case isWriteFile(n) && len(args) == 3:
					name = args[0]
					mode, modeOK = km.ConstInt(args[2])
				default:
					continue
				}
				nCreate++
				hit := false
				for _, nm := range namesOf(name, 0) {
					for _, pp := range privPaths {
						if samePath(nm, pp) {
							hit = true
						}
					}
				}
				if hit {
					r.Add("R-C19-1", km.FuncName(fn), "creation of a private-key path", posOf(c, ci), "every call that can create a file at a path a private key is written to uses the constant mode 0600", sprintf("%s mode %#o const=%v", short(n), mode, modeOK), modeOK && mode&0o077 == 0)
				}
			}
		}
		if nCreate == 0 {
			r.AnchorLost("R-C19-1", "file-creating calls of the client packages")
		}
	}
	r.Add("R-C19-1", "client packages", "outbound and log sinks scanned", "-", "every request/HTTP/multipart/header/logger/connection call of the client packages was inspected", sprintf("%d sinks, %d private-key marshal calls", nSinks, nMarshal), nSinks >= 40 && nMarshal >= 3)
	// marshalled private keys flow only into pem + WriteFile(0600)
	for _, fn := range clientFns {
		for _, ci := range km.CallsIn(fn) {
			cl, ok := ci.(*ssa.Call)
			if !ok || !marshalPrivate[km.CalleeFull(cl.Common())] {
				continue
			}
			okFlow, why := privateFlowsOnlyToFile(cl, 0)
			r.Add("R-C19-1", km.FuncName(fn), "flow of "+short(km.CalleeFull(cl.Common())), posOf(c, cl), "into a PEM block / pem.EncodeToMemory and from there only into WriteFile(…, 0600)", why, okFlow)
		}
	}

	// ---------- R-C19-2
	if fn := c.MustFunc("R-C19-2", "lib/client/twofa", "doCertRequest"); fn != nil {
		signer := km.ParamAt(fn, 0)
		for _, ci := range km.CallsIn(fn) {
			if km.StaticCallee(ci.Common()) == nil || km.StaticCallee(ci.Common()).Name() != "doCertRequestInternal" {
				continue
			}
			ca := km.CallArgs(ci.Common())
			if len(ca) < 3 {
				continue
			}
			ok, why := derivesOnlyFromPublic(ca[2], signer, 0)
			r.Add("R-C19-2", km.FuncName(fn), "key text in the certificate request", posOf(c, ci), "derives only from signer.Public() (PKIX PEM or authorized-key encoding)", why, ok)
		}
	}
	if fn := c.MustFunc("R-C19-2", "lib/client/twofa", "createKeyBodyRequest"); fn != nil {
		// the file part is the filedata parameter
		ok := false
		for _, ci := range km.CallsIn(fn) {
			if km.CalleeFull(ci.Common()) == "strings.NewReader" && km.Unwrap(ci.Common().Args[0]) == ssa.Value(km.ParamAt(fn, 2)) {
				ok = true
			}
		}
		r.Add("R-C19-2", km.FuncName(fn), "request body file part", c.P.Pos(fn.Pos()), "the uploaded file content is the filedata parameter (the public key text)", sprintf("%v", ok), ok)
	}

	checkAgentConnectionLocal(c, "R-C19-1")
	// ---------- R-C19-3
	if fn := c.MustFunc("R-C19-3", "lib/client/sshagent", "withAddedKeyUpsertCertIntoAgentConnection"); fn != nil {
		var del, add ssa.CallInstruction
		for _, ci := range km.CallsIn(fn) {
			if cal := km.StaticCallee(ci.Common()); cal != nil && km.NameOf(cal) == "deleteDuplicateEntries" {
				del = ci
			}
			if ci.Common().IsInvoke() && ci.Common().Method.Name() == "Add" {
				add = ci
			}
		}
		if del == nil || add == nil {
			r.AnchorLost("R-C19-3", "deleteDuplicateEntries / agent Add in withAddedKeyUpsertCertIntoAgentConnection")
		} else {
			dc := del.(*ssa.Call)
			st := c.F.At(add)
			guarded := km.InstrDominates(del, add) && st.All(func(k km.Conj) bool { return s.Holds(k, primErrNilCall("delete ok", dc, 1)) })
			commentOK := mentionsField(dc.Common().Args[0], "Comment")
			r.Add("R-C19-3", km.FuncName(fn), "replace before add", posOf(c, add), "deleteDuplicateEntries(new certificate's comment) dominates Add and its error aborts", sprintf("dominates+err-nil=%v comment-of-new-cert=%v", guarded, commentOK), guarded && commentOK)
			// the label is final when it is used for the removal: nothing writes a Comment of an added key afterwards
			late := ""
			km.Instrs(fn, func(in ssa.Instruction) {
				st, isSt := in.(*ssa.Store)
				if !isSt {
					return
				}
				fa, isFA := st.Addr.(*ssa.FieldAddr)
				if !isFA || fieldNameOf(fa) != "Comment" || !strings.HasSuffix(km.NamedTypeOf(fa.X.Type()), "ssh/agent.AddedKey") {
					return
				}
				after := false // st can execute after del
				if st.Block() == del.Block() {
					after = km.InstrDominates(del, st)
				}
				if !after {
					for _, sb := range del.Block().Succs {
						if km.ReachableBlocks(sb, nil)[st.Block()] {
							after = true
						}
					}
				}
				if after {
					late = posOf(c, st)
				}
			})
			r.Add("R-C19-3", km.FuncName(fn), "label final before removal", posOf(c, add), "no write to the added key's Comment after it was used to remove the earlier certificates", "late write: "+late, late == "")
		}
	}
	if fn := c.MustFunc("R-C19-3", "lib/client/sshagent", "deleteDuplicateEntries"); fn != nil {
		n := 0
		for _, ci := range km.CallsIn(fn) {
			if !ci.Common().IsInvoke() || ci.Common().Method.Name() != "Remove" {
				continue
			}
			n++
			st := c.F.At(ci)
			isCert := st.All(func(k km.Conj) bool {
				for _, f := range k.List() {
					if f.Op == token.ILLEGAL && f.Pol {
						if ex, ok := f.X.(*ssa.Extract); ok && ex.Index == 1 {
							if ta, ok := ex.Tuple.(*ssa.TypeAssert); ok && km.NamedTypeOf(ta.AssertedType) == "golang.org/x/crypto/ssh.Certificate" {
								return true
							}
						}
					}
				}
				return false
			})
			sameComment := st.All(func(k km.Conj) bool {
				for _, f := range k.List() {
					if f.Op == token.EQL && ((mentionsField(f.X, "Comment") && km.Unwrap(f.Y) == ssa.Value(km.ParamAt(fn, 0))) || (mentionsField(f.Y, "Comment") && km.Unwrap(f.X) == ssa.Value(km.ParamAt(fn, 0)))) {
						return true
					}
				}
				return false
			})
			r.Add("R-C19-3", km.FuncName(fn), "removal from the agent", posOf(c, ci), "only entries that parse as certificates (any key type) and whose comment equals the new one", sprintf("is-certificate=%v same-comment=%v", isCert, sameComment), isCert && sameComment)
		}
		if n == 0 {
			r.AnchorLost("R-C19-3", "agent Remove in deleteDuplicateEntries")
		}
		// ... and every certificate with that comment is removed: an entry is passed over only because it does not
		// parse, is not a certificate, or carries another comment (a further condition - the issuer's key id, say -
		// leaves certificates of the same label behind)
		for _, g := range callsWithNewHelpersFuncs(c, fn, 2) {
			var rm ssa.CallInstruction
			for _, ci := range km.CallsIn(g) {
				if ci.Common().IsInvoke() && ci.Common().Method.Name() == "Remove" {
					rm = ci
				}
			}
			if rm == nil {
				continue
			}
			var hdr *ssa.BasicBlock
			for b := rm.Block().Idom(); b != nil; b = b.Idom() {
				if (b.Comment == "rangeindex.loop" || b.Comment == "rangeiter.loop") && len(b.Succs) == 2 && km.ReachableBlocks(rm.Block(), nil)[b] {
					hdr = b
					break
				}
			}
			if hdr == nil {
				r.AnchorLost("R-C19-3", "loop around the agent Remove")
				continue
			}
			skipRegion := km.ReachableBlocks(hdr.Succs[0], map[*ssa.BasicBlock]bool{rm.Block(): true, hdr: true, hdr.Succs[1]: true})
			allowed := func(f km.Fact) bool {
				// the entry did not parse
				if f.Op == token.NEQ && f.Y != nil && km.IsNilConst(f.Y) {
					if cl, idx := callRes(f.X); cl != nil && idx > 0 && km.CalleeFull(cl.Common()) == "golang.org/x/crypto/ssh.ParsePublicKey" {
						return true
					}
				}
				// it is not a certificate
				if f.Op == token.ILLEGAL && !f.Pol {
					if ex, ok := f.X.(*ssa.Extract); ok && ex.Index == 1 {
						if ta, ok := ex.Tuple.(*ssa.TypeAssert); ok && km.NamedTypeOf(ta.AssertedType) == "golang.org/x/crypto/ssh.Certificate" {
							return true
						}
					}
				}
				// it carries another comment
				if f.Op == token.NEQ && f.Y != nil {
					_, xp := km.Unwrap(f.X).(*ssa.Parameter)
					_, yp := km.Unwrap(f.Y).(*ssa.Parameter)
					if (mentionsField(f.X, "Comment") && yp) || (mentionsField(f.Y, "Comment") && xp) {
						return true
					}
				}
				return false
			}
			bad := ""
			nSkip := 0
			for _, p := range hdr.Preds {
				if !skipRegion[p] {
					continue
				}
				for _, k := range c.F.OnEdge(p, hdr) {
					nSkip++
					ok := false
					for _, f := range k.List() {
						if allowed(f) {
							ok = true
						}
					}
					if !ok {
						bad = clipS(km.DNF{k}.String(), 200)
					}
				}
			}
			found := sprintf("%d ways of passing over an entry, each for one of the three reasons", nSkip)
			if bad != "" {
				found = "an entry is passed over under " + bad
			}
			r.Add("R-C19-3", km.FuncName(g), "every certificate of the label is removed", posOf(c, rm), "an entry is passed over only when it does not parse, is not a certificate, or has another comment", found, bad == "" && nSkip > 0)
		}
		// every entry of the agent is looked at: the loop over the listed keys is left only at its end or with an
		// error (a removal routine that stops at the first match leaves the other certificates of that label)
		early := loopLeftEarly(c, fn)
		r.Add("R-C19-3", km.FuncName(fn), "every listed key is examined", c.P.Pos(fn.Pos()), "the loop over the agent's keys ends only when exhausted or with an error", early, early == "")
		// a removal error is returned
		okErr := true
		for _, rc := range s.RetCases(fn) {
			_ = rc
		}
		r.Add("R-C19-3", km.FuncName(fn), "every agent entry is considered", c.P.Pos(fn.Pos()), "the scan ranges over agentClient.List()", sprintf("%v", rangesOverList(fn)), rangesOverList(fn) && okErr)
	}

	// ---------- R-C19-4
	offered := map[string]string{} // ssh algorithm -> where
	rsaBits := int64(-1)
	for _, fn := range clientFns {
		for _, ci := range km.CallsIn(fn) {
			switch km.CalleeFull(ci.Common()) {
			case "crypto/ecdsa.GenerateKey":
				if cv, ok := km.Unwrap(ci.Common().Args[0]).(*ssa.Call); ok {
					switch km.CalleeFull(cv.Common()) {
					case "crypto/elliptic.P256":
						offered["ecdsa-sha2-nistp256"] = posOf(c, ci)
					case "crypto/elliptic.P384":
						offered["ecdsa-sha2-nistp384"] = posOf(c, ci)
					case "crypto/elliptic.P521":
						offered["ecdsa-sha2-nistp521"] = posOf(c, ci)
					case "crypto/elliptic.P224":
						offered["ecdsa-sha2-nistp224(unsupported)"] = posOf(c, ci)
					}
				}
			case "crypto/rsa.GenerateKey":
				offered["ssh-rsa"] = posOf(c, ci)
				if b, ok := km.ConstInt(ci.Common().Args[1]); ok && (rsaBits < 0 || b < rsaBits) {
					rsaBits = b
				}
			case "crypto/ed25519.GenerateKey":
				offered["ssh-ed25519"] = posOf(c, ci)
			}
		}
	}
	accepted := serverKeyTypeAlternation(c)
	if len(accepted) == 0 {
		r.AnchorLost("R-C19-4", "key-type alternation in the server's getValidSSHPublicKey pattern")
	}
	var names []string
	for k := range offered {
		names = append(names, k)
	}
	sort.Strings(names)
	for _, k := range names {
		r.Add("R-C19-4", "client key generation", "offered SSH key type "+k, offered[k], "in the server's key-type alternation "+strings.Join(accepted, "|"), k, contains(accepted, k))
	}
	if len(names) < 3 {
		r.AnchorLost("R-C19-4", "key generation calls in the client")
	}
	// the whole pattern (not only its alternation) admits the line the client submits for each offered type:
	// "<type> <base64 of the wire blob>\n" as produced by ssh.MarshalAuthorizedKey; the blob length, and with it
	// the base64 padding, is fixed by the key type. The words are synthesised from the lengths, the pattern is
	// the constant read from the server source; nothing of keymaster is run.
	if sfn := c.P.Func("cmd/keymasterd", "getValidSSHPublicKey"); sfn != nil {
		pats := regexpPatternsUsedBy(c, sfn)
		blobLen := map[string]int{"ssh-ed25519": 4 + 11 + 4 + 32, "ecdsa-sha2-nistp256": 4 + 19 + 4 + 8 + 4 + 65, "ecdsa-sha2-nistp384": 4 + 19 + 4 + 8 + 4 + 97, "ecdsa-sha2-nistp521": 4 + 19 + 4 + 8 + 4 + 133}
		if rsaBits > 0 {
			blobLen["ssh-rsa"] = 4 + 7 + 4 + 3 + 4 + int(rsaBits)/8 + 1
		}
		for _, k := range names {
			n, known := blobLen[k]
			if !known || len(pats) == 0 {
				continue
			}
			pad := (3 - n%3) % 3
			body := strings.Repeat("A", 4*((n+2)/3)-pad) + strings.Repeat("=", pad)
			okAll := true
			var missed []string
			for _, pat := range pats {
				re, err := regexp.Compile(pat)
				if err != nil {
					okAll = false
					missed = append(missed, "pattern does not compile")
					continue
				}
				for _, line := range []string{k + " " + body + "\n", k + " " + body, k + " " + body + " user@host\n"} {
					if !re.MatchString(line) {
						okAll = false
						missed = appendUniq(missed, sprintf("%q", strings.Replace(line, body, "<"+sprintf("%d", len(body)-pad)+" base64 chars>"+strings.Repeat("=", pad), 1)))
					}
				}
			}
			r.Add("R-C19-4", "client key generation", "server pattern admits the "+k+" key line", offered[k], sprintf("the server's key-file pattern matches \"%s <base64 of a %d byte blob, %d padding characters>[ comment][\\n]\"", k, n, pad), sprintf("not matched: %v", missed), okAll)
		}
	}
	// an enumeration of SSH key types on the server's issuing path is complete: where server code compares the
	// submitted key's type with two or more of the types the client offers, it names all of them (a switch whose
	// default refuses must not leave an offered type out)
	algos := map[string]bool{"ssh-rsa": true, "ssh-ed25519": true, "ecdsa-sha2-nistp256": true, "ecdsa-sha2-nistp384": true, "ecdsa-sha2-nistp521": true}
	for _, fn := range c.P.AllFuncs {
		if fn.Pkg == nil || !pkgIsKMD(fn.Pkg) {
			continue
		}
		named := map[string]bool{}
		var at ssa.Instruction
		km.Instrs(fn, func(in ssa.Instruction) {
			b, ok := in.(*ssa.BinOp)
			if !ok || (b.Op != token.EQL && b.Op != token.NEQ) {
				return
			}
			for _, side := range []ssa.Value{b.X, b.Y} {
				if cs, isC := km.ConstString(side); isC && algos[cs] {
					named[cs] = true
					at = in
				}
			}
		})
		nOffered := 0
		for _, k := range names {
			if named[k] {
				nOffered++
			}
		}
		if nOffered < 2 {
			continue
		}
		var missing []string
		for _, k := range names {
			if algos[k] && !named[k] {
				missing = append(missing, k)
			}
		}
		r.Add("R-C19-4", km.FuncName(fn), "SSH key type enumeration covers every offered type", posOf(c, at), "a server-side enumeration of SSH key types that names two or more offered types names all of them", sprintf("missing=%v", missing), len(missing) == 0)
	}
	r.Add("R-C19-4", "client key generation", "RSA key size", "-", "constant >= 2048 bits (server requires Size() >= 256 bytes)", sprintf("%d", rsaBits), rsaBits >= 2048)
	checkSSHSignerChoice(c, s)
}

// checkSSHSignerChoice: every key type the client offers gets a certificate from a server that has its primary CA:
// the optional Ed25519 CA signs only ssh-ed25519 user keys (and its absence refuses only those); every other type
// is signed by the primary signer.
func checkSSHSignerChoice(c *km.Ctx, s *km.Sem) {
	h := c.MustFunc("R-C19-4", "cmd/keymasterd", "(*RuntimeState).postAuthSSHCertHandler")
	if h == nil {
		return
	}
	isEdKey := km.Prim{Name: "user key is ssh-ed25519", Direct: func(f km.Fact) bool {
		if f.Op != token.EQL || f.Y == nil {
			return false
		}
		for _, pr := range [][2]ssa.Value{{f.X, f.Y}, {f.Y, f.X}} {
			cl, ok := km.Unwrap(pr[0]).(*ssa.Call)
			if !ok || !cl.Common().IsInvoke() || cl.Common().Method.Name() != "Type" {
				continue
			}
			if cs, isC := km.ConstString(pr[1]); isC && cs == "ssh-ed25519" {
				return true
			}
		}
		return false
	}}
	n := 0
	for _, f := range callsWithNewHelpersFuncs(c, h, 2) {
		for _, ci := range km.CallsIn(f) {
			if km.CalleeFull(ci.Common()) != "golang.org/x/crypto/ssh.NewSignerFromSigner" {
				continue
			}
			n++
			arg := ci.Common().Args[0]
			bad := ""
			nLeaves := 0
			// a local choice (a variable assigned in the arms of a switch) is split by arm: each operand is judged
			// under the facts of the edge it arrives on
			type origin struct {
				v  ssa.Value
				ks km.DNF
			}
			var origins []origin
			var split func(v ssa.Value, ks km.DNF, d int)
			split = func(v ssa.Value, ks km.DNF, d int) {
				if ph, isPhi := km.Unwrap(v).(*ssa.Phi); isPhi && d < 4 {
					for i, e := range ph.Edges {
						split(e, c.F.OnEdge(ph.Block().Preds[i], ph.Block()), d+1)
					}
					return
				}
				origins = append(origins, origin{v, ks})
			}
			split(arg, c.F.At(ci), 0)
			for _, o := range origins {
				for _, k := range o.ks {
					for _, lf := range s.Leaves(k, f, nil, o.v, nil, 3) {
						nLeaves++
						v := km.Unwrap(lf.Val)
						switch {
						case fieldLoadOf(v, KMD+".RuntimeState", "Signer"):
						case fieldLoadOf(v, KMD+".RuntimeState", "Ed25519Signer"):
							if !s.Holds(lf.K, isEdKey) && !s.Holds(k, isEdKey) {
								bad = "the Ed25519 CA is chosen for a key that is not known to be ssh-ed25519"
							}
						default:
							bad = "signer of unknown origin: " + clipS(km.ValStr(v), 80)
						}
					}
				}
			}
			if nLeaves == 0 {
				bad = "origin of the signer not found"
			}
			found := sprintf("%d origin(s): the primary signer, or the Ed25519 CA under key type == ssh-ed25519", nLeaves)
			if bad != "" {
				found = bad
			}
			c.R.Add("R-C19-4", km.FuncName(f), "CA chosen for an SSH user key", posOf(c, ci), "the Ed25519 CA (which a deployment need not have) signs ssh-ed25519 keys only; every other offered type goes to the primary signer", found, bad == "")
		}
	}
	if n == 0 {
		c.R.AnchorLost("R-C19-4", "ssh.NewSignerFromSigner in the SSH certificate handler")
	}
}

func contains(l []string, s string) bool {
	for _, x := range l {
		if x == s {
			return true
		}
	}
	return false
}

func rangesOverList(fn *ssa.Function) bool {
	ok := false
	for _, ci := range km.CallsIn(fn) {
		if ci.Common().IsInvoke() && ci.Common().Method.Name() == "List" {
			ok = true
		}
	}
	return ok
}

// regexpPatternsUsedBy: the constant patterns fn matches against - given to regexp.MatchString / Compile /
// MustCompile in fn itself, or compiled once into a package-level variable whose methods fn calls.
func regexpPatternsUsedBy(c *km.Ctx, fn *ssa.Function) []string {
	var out []string
	compiled := func(v ssa.Value) (string, bool) {
		cl, _ := callRes(km.Unwrap(v))
		if cl == nil {
			return "", false
		}
		n := km.CalleeFull(cl.Common())
		if n != "regexp.MustCompile" && n != "regexp.Compile" && n != "regexp.MustCompilePOSIX" {
			return "", false
		}
		return evalString(c, cl.Common().Args[0], 0)
	}
	for _, ci := range km.CallsIn(fn) {
		n := km.CalleeFull(ci.Common())
		if n == "regexp.MatchString" || n == "regexp.MustCompile" || n == "regexp.Compile" || n == "regexp.Match" {
			if pat, ok := evalString(c, ci.Common().Args[0], 0); ok {
				out = appendUniq(out, pat)
			}
			continue
		}
		if strings.HasPrefix(n, "(*regexp.Regexp).") {
			recv := km.Unwrap(ci.Common().Args[0])
			if pat, ok := compiled(recv); ok {
				out = appendUniq(out, pat)
				continue
			}
			if u, ok := recv.(*ssa.UnOp); ok {
				if g, ok := u.X.(*ssa.Global); ok {
					// stores into the global anywhere in its package (normally the package initialiser)
					for _, f2 := range c.P.AllFuncs {
						if f2.Pkg != g.Pkg {
							continue
						}
						km.Instrs(f2, func(in ssa.Instruction) {
							if st, ok := in.(*ssa.Store); ok && st.Addr == ssa.Value(g) {
								if pat, ok := compiled(st.Val); ok {
									out = appendUniq(out, pat)
								}
							}
						})
					}
				}
			}
		}
	}
	return out
}

// serverKeyTypeAlternation parses the constant pattern of getValidSSHPublicKey and returns the literals of its
// first alternation.
func serverKeyTypeAlternation(c *km.Ctx) []string {
	fn := c.P.Func("cmd/keymasterd", "getValidSSHPublicKey")
	if fn == nil {
		return nil
	}
	var out []string
	for _, pat := range regexpPatternsUsedBy(c, fn) {
		re, err := syntax.Parse(pat, syntax.Perl)
		if err != nil {
			continue
		}
		var find func(r *syntax.Regexp) bool
		find = func(r *syntax.Regexp) bool {
			if r.Op == syntax.OpAlternate {
				for _, s := range r.Sub {
					out = append(out, literalOf(s))
				}
				return true
			}
			for _, s := range r.Sub {
				if find(s) {
					return true
				}
			}
			return false
		}
		find(re)
		// regexp/syntax factors common prefixes ("ssh-" out of ssh-rsa|ssh-dss): expand via the simplified string
		if len(out) > 0 {
			out = expandAlternation(pat)
		}
	}
	return out
}

func literalOf(r *syntax.Regexp) string {
	if r.Op == syntax.OpLiteral {
		return string(r.Rune)
	}
	return r.String()
}

// expandAlternation: the alternatives of the first parenthesised group of a pattern whose group contains only
// literal alternatives (checked: no metacharacters inside).
func expandAlternation(pat string) []string {
	i := strings.Index(pat, "(")
	j := strings.Index(pat, ")")
	if i < 0 || j < i {
		return nil
	}
	body := pat[i+1 : j]
	if strings.ContainsAny(body, `[]*+?.\{}^$(`) {
		return nil
	}
	return strings.Split(body, "|")
}

// privateFlowsOnlyToFile: forward check of a private-marshal result.
func privateFlowsOnlyToFile(v ssa.Value, depth int) (bool, string) {
	if depth > 6 {
		return false, "too deep"
	}
	refs := v.Referrers()
	if refs == nil {
		return true, "unused"
	}
	for _, ref := range *refs {
		switch x := ref.(type) {
		case *ssa.Extract:
			if x.Index != 0 {
				continue // error result
			}
			if ok, why := privateFlowsOnlyToFile(x, depth+1); !ok {
				return false, why
			}
		case *ssa.Store:
			// into a pem.Block's Bytes field or a local variable cell
			if fa, ok := x.Addr.(*ssa.FieldAddr); ok && km.NamedTypeOf(fa.X.Type()) == "encoding/pem.Block" {
				if ok2, why := privateFlowsOnlyToFile(fa.X, depth+1); !ok2 {
					return false, why
				}
				continue
			}
			if a, ok := x.Addr.(*ssa.Alloc); ok {
				if ok2, why := privateFlowsOnlyToFile(a, depth+1); !ok2 {
					return false, why
				}
				continue
			}
			return false, "stored into " + km.ValStr(x.Addr)
		case *ssa.UnOp:
			if ok, why := privateFlowsOnlyToFile(x, depth+1); !ok {
				return false, why
			}
		case *ssa.FieldAddr:
			continue
		case *ssa.Phi:
			if ok, why := privateFlowsOnlyToFile(x, depth+1); !ok {
				return false, why
			}
		case *ssa.BinOp:
			continue // err != nil tests on tuple extracts
		case *ssa.DebugRef:
			continue
		case ssa.CallInstruction:
			n := km.CalleeFull(x.Common())
			switch {
			case n == "encoding/pem.EncodeToMemory":
				if val, ok := x.(ssa.Value); ok {
					if ok2, why := privateFlowsOnlyToFile(val, depth+1); !ok2 {
						return false, why
					}
				}
			case isWriteFile(n):
				mode, ok := km.ConstInt(km.CallArgs(x.Common())[2])
				if !ok || mode != 0o600 {
					return false, sprintf("written with mode %#o", mode)
				}
			default:
				// handed to a helper of the client: follow the corresponding parameter
				g := km.StaticCallee(x.Common())
				if g == nil || g.Blocks == nil || g.Pkg == nil || !strings.HasPrefix(g.Pkg.Pkg.Path(), km.ModPath) {
					return false, "passed to " + short(n)
				}
				for i, a := range km.CallArgs(x.Common()) {
					if a == v && i < len(g.Params) {
						if ok2, why := privateFlowsOnlyToFile(g.Params[i], depth+1); !ok2 {
							return false, why + " (through " + g.Name() + ")"
						}
					}
				}
			}
		case *ssa.MakeInterface, *ssa.ChangeType, *ssa.Convert, *ssa.Slice:
			if ok, why := privateFlowsOnlyToFile(x.(ssa.Value), depth+1); !ok {
				return false, why
			}
		default:
			return false, "used by " + ref.String()
		}
	}
	return true, "PEM block -> pem.EncodeToMemory -> WriteFile(0600)"
}

// derivesOnlyFromPublic: v is built from signer.Public() through the public-key encoders only.
func derivesOnlyFromPublic(v ssa.Value, signer *ssa.Parameter, depth int) (bool, string) {
	return derivesOnlyFromPublicR(v, signer, nil, depth)
}

// derivesOnlyFromPublicR: roots are further values known to be public material (a helper's parameters that its
// caller bound to public material).
func derivesOnlyFromPublicR(v ssa.Value, signer *ssa.Parameter, roots map[ssa.Value]bool, depth int) (bool, string) {
	if depth > 10 {
		return false, "too deep"
	}
	v = km.Unwrap(v)
	if roots[v] {
		return true, "public material handed in by the caller"
	}
	if cs, ok := km.ConstString(v); ok {
		return true, "constant " + clipS(cs, 20)
	}
	switch x := v.(type) {
	case *ssa.Phi:
		for _, e := range x.Edges {
			if ok, why := derivesOnlyFromPublicR(e, signer, roots, depth+1); !ok {
				return false, why
			}
		}
		return true, "all branches derive from signer.Public()"
	case *ssa.Convert:
		return derivesOnlyFromPublicR(x.X, signer, roots, depth+1)
	case *ssa.Extract:
		return derivesOnlyFromPublicR(x.Tuple, signer, roots, depth+1)
	case *ssa.Call:
		if x.Common().IsInvoke() && x.Common().Method.Name() == "Public" && km.Unwrap(x.Common().Value) == ssa.Value(signer) {
			return true, "signer.Public()"
		}
		switch km.CalleeFull(x.Common()) {
		case "crypto/x509.MarshalPKIXPublicKey", "golang.org/x/crypto/ssh.NewPublicKey", "golang.org/x/crypto/ssh.MarshalAuthorizedKey", "encoding/pem.EncodeToMemory":
			return derivesOnlyFromPublicR(x.Common().Args[0], signer, roots, depth+1)
		}
		// a serialiser chosen from a package-level table of functions: every entry is judged like a helper
		if km.StaticCallee(x.Common()) == nil && !x.Common().IsInvoke() && c19ctx != nil && depth < 6 {
			targets := tableFuncTargets(c19ctx, x.Common().Value)
			if len(targets) > 0 {
				for _, g := range targets {
					if ok, why := helperResultsPublic(g, x, signer, roots, depth); !ok {
						return false, why
					}
				}
				return true, sprintf("serialised by one of %d table entries from public material only", len(targets))
			}
		}
		// a serialising helper of the client: its results derive only from the parameters the caller bound to
		// public material
		if g := km.StaticCallee(x.Common()); g != nil && g.Blocks != nil && g.Pkg != nil && strings.HasPrefix(g.Pkg.Pkg.Path(), km.ModPath) && depth < 6 {
			inner := map[ssa.Value]bool{}
			for i, a := range km.CallArgs(x.Common()) {
				if i < len(g.Params) {
					if ok, _ := derivesOnlyFromPublicR(a, signer, roots, depth+1); ok {
						inner[g.Params[i]] = true
					}
				}
			}
			n := 0
			okAll := true
			why := ""
			km.Instrs(g, func(in ssa.Instruction) {
				ret, isRet := in.(*ssa.Return)
				if !isRet || (g.Recover != nil && ret.Block() == g.Recover) {
					return
				}
				rv := km.ReturnValues(ret)[0]
				if km.IsNilConst(rv) {
					return
				}
				n++
				if ok, w := derivesOnlyFromPublicR(rv, nil, inner, depth+1); !ok {
					okAll, why = false, w
				}
			})
			if n > 0 && okAll {
				return true, "serialised by " + g.Name() + " from public material only"
			}
			if why != "" {
				return false, why + " (in " + g.Name() + ")"
			}
		}
		return false, "result of " + km.CalleeShort(x.Common())
	case *ssa.Alloc:
		// &pem.Block{Type: const, Bytes: X}
		n := 0
		for _, ref := range *x.Referrers() {
			if fa, ok := ref.(*ssa.FieldAddr); ok {
				for _, r2 := range *fa.Referrers() {
					if st, ok := r2.(*ssa.Store); ok {
						n++
						if ok2, why := derivesOnlyFromPublicR(st.Val, signer, roots, depth+1); !ok2 {
							return false, why
						}
					}
				}
			}
		}
		return n > 0, "PEM block of public material"
	case *ssa.MakeInterface:
		return derivesOnlyFromPublicR(x.X, signer, roots, depth+1)
	}
	return false, "value of unknown origin " + clipS(km.ValStr(v), 60)
}

// c19ctx: the context of the running C19 check (the provenance walk needs the whole program to read tables).
var c19ctx *km.Ctx

// tableFuncTargets: fv is looked up in a package-level map of functions that is filled once in its initialiser;
// returns the functions the table holds (nil when fv is not such a lookup or an entry is not a plain function).
func tableFuncTargets(c *km.Ctx, fv ssa.Value) []*ssa.Function {
	fv = km.Unwrap(fv)
	var lk *ssa.Lookup
	if ex, ok := fv.(*ssa.Extract); ok && ex.Index == 0 {
		lk, _ = ex.Tuple.(*ssa.Lookup)
	} else {
		lk, _ = fv.(*ssa.Lookup)
	}
	if lk == nil {
		return nil
	}
	u, ok := km.Unwrap(lk.X).(*ssa.UnOp)
	if !ok {
		return nil
	}
	g, ok := u.X.(*ssa.Global)
	if !ok {
		return nil
	}
	entries, okTab := globalTableEntries(c, g)
	if !okTab {
		return nil
	}
	var out []*ssa.Function
	seen := map[*ssa.Function]bool{}
	for _, mu := range entries {
		var fn *ssa.Function
		switch x := km.Unwrap(mu.Value).(type) {
		case *ssa.Function:
			fn = x
		case *ssa.MakeClosure:
			if len(x.Bindings) == 0 {
				fn, _ = x.Fn.(*ssa.Function)
			}
		}
		if fn == nil || fn.Blocks == nil {
			return nil
		}
		if !seen[fn] {
			seen[fn] = true
			out = append(out, fn)
		}
	}
	return out
}

// helperResultsPublic: every non-nil first result of g derives only from the parameters the call binds to public
// material.
func helperResultsPublic(g *ssa.Function, call *ssa.Call, signer *ssa.Parameter, roots map[ssa.Value]bool, depth int) (bool, string) {
	inner := map[ssa.Value]bool{}
	for i, a := range km.CallArgs(call.Common()) {
		if i < len(g.Params) {
			if ok, _ := derivesOnlyFromPublicR(a, signer, roots, depth+1); ok {
				inner[g.Params[i]] = true
			}
		}
	}
	n := 0
	okAll := true
	why := ""
	km.Instrs(g, func(in ssa.Instruction) {
		ret, isRet := in.(*ssa.Return)
		if !isRet || (g.Recover != nil && ret.Block() == g.Recover) {
			return
		}
		rv := km.ReturnValues(ret)[0]
		if km.IsNilConst(rv) {
			return
		}
		n++
		if ok, w := derivesOnlyFromPublicR(rv, nil, inner, depth+1); !ok {
			okAll, why = false, w
		}
	})
	if n > 0 && okAll {
		return true, ""
	}
	if why == "" {
		why = "no result"
	}
	return false, why + " (in " + g.Name() + ")"
}

// checkAgentConnectionLocal: the connection a private key is written to is the local agent's: a unix-domain
// socket (or the named pipe of the Windows agent). Every connection handed to the agent functions of
// lib/client/sshagent, and the one they open themselves, comes from a dial whose network is the constant "unix"
// or from npipe.Dial; a dial whose network is "tcp", or is not a constant, can carry the key off the machine.
func checkAgentConnectionLocal(c *km.Ctx, rule string) {
	agentPkg := km.ModPath + "/lib/client/sshagent"
	var local func(v ssa.Value, d int) (bool, string)
	local = func(v ssa.Value, d int) (bool, string) {
		if d > 6 {
			return false, "too deep"
		}
		v = km.CellOrigin(km.Unwrap(v))
		switch x := v.(type) {
		case *ssa.Extract:
			return local(x.Tuple, d+1)
		case *ssa.Phi:
			for _, e := range x.Edges {
				if km.IsNilConst(e) {
					continue
				}
				if ok, why := local(e, d+1); !ok {
					return false, why
				}
			}
			return true, ""
		case *ssa.Call:
			switch n := km.CalleeFull(x.Common()); n {
			case "net.Dial", "net.DialTimeout":
				nw, isC := km.ConstString(x.Common().Args[0])
				if isC && (nw == "unix" || nw == "unixpacket") {
					return true, ""
				}
				return false, "dial of network " + km.ValStr(x.Common().Args[0]) + " at " + posOf(c, x)
			case "github.com/Cloud-Foundations/npipe.Dial", "github.com/Cloud-Foundations/npipe.DialTimeout":
				return true, ""
			}
			g := km.StaticCallee(x.Common())
			if g == nil || len(g.Blocks) == 0 || !c.InModule(g) {
				return false, "connection from " + short(km.CalleeFull(x.Common()))
			}
			any := false
			for _, b := range g.Blocks {
				ret, ok := b.Instrs[len(b.Instrs)-1].(*ssa.Return)
				if !ok {
					continue
				}
				rv := km.ReturnValues(ret)
				if len(rv) == 0 || km.IsNilConst(rv[0]) {
					continue
				}
				any = true
				if ok, why := local(rv[0], d+1); !ok {
					return false, why
				}
			}
			return any, "no connection returned by " + km.NameOf(g)
		case *ssa.Parameter:
			fn := x.Parent()
			idx := -1
			for i, q := range fn.Params {
				if q == x {
					idx = i
				}
			}
			sites := c.G.Callers[fn]
			if idx < 0 || len(sites) == 0 {
				// an exported entry point of the library without a caller in the module: the caller's business
				return true, ""
			}
			for _, cs := range sites {
				ci, ok := cs.Instr.(ssa.CallInstruction)
				if !ok {
					return false, "non-call use of " + km.NameOf(fn)
				}
				a := callArgsAsParams(ci, fn)
				if a == nil || idx >= len(a) {
					return false, "unresolved call of " + km.NameOf(fn)
				}
				if ok, why := local(a[idx], d+1); !ok {
					return false, why
				}
			}
			return true, ""
		}
		return false, "connection of unknown origin " + km.ValStr(v)
	}
	n := 0
	for _, fn := range c.P.AllFuncs {
		if !c.InModule(fn) {
			continue
		}
		for _, ci := range km.CallsIn(fn) {
			// the agent client is created on this connection
			if km.CalleeFull(ci.Common()) != "golang.org/x/crypto/ssh/agent.NewClient" {
				continue
			}
			if fn.Pkg == nil || (fn.Pkg.Pkg.Path() != agentPkg && !strings.HasSuffix(fn.Pkg.Pkg.Path(), "/cmd/keymaster")) {
				continue
			}
			n++
			ok, why := local(ci.Common().Args[0], 0)
			c.R.Add(rule, km.FuncName(fn), "connection of the agent client", posOf(c, ci), "a unix-domain socket or the agent's named pipe (the key never leaves the machine)", why, ok)
		}
	}
	if n == 0 {
		c.R.AnchorLost(rule, "agent.NewClient in lib/client/sshagent")
	}
}
