package rules

import (
	"go/constant"
	"go/token"
	"sort"
	"strings"

	"kmcheck/internal/km"

	"golang.org/x/tools/go/ssa"
)

// Route kinds: which credential fact a route's protected sinks must be dominated by. Keyed by the handler
// function; a route that is not in the table is auth-gated (the strictest generic kind).
var routeKinds = map[string]struct{ kind, reason string }{
	"loginHandler":                       {"password", "the password entry point: effects need limiter + accepted password"},
	"oauth2RedirectPathHandler":          {"federated", "OAuth2 callback: effects need pending-state match and a successful code exchange"},
	"oauth2DoRedirectoToProviderHandler": {"public", "starts the federated flow; only stores the pending request and redirects to the configured provider"},
	"idpOpenIDCTokenHandler":             {"bearer-code", "consumes a signed authorization code + client authentication (C12)"},
	"idpOpenIDCUserinfoHandler":          {"public", "consumes a signed access token (C04/C12); reaches no protected sink"},
	"VerifyAuthTokenHandler":             {"public", "verifies a CLI token and answers OK; reaches no protected sink"},
	"requestAwsRoleCertificateHandler":   {"aws", "AWS presigned caller identity"},
	"publicPathHandler":                  {"public", "CA keys and login form"},
	"logoutHandler":                      {"public", "clears the cookie"},
	"idpOpenIDCDiscoveryHandler":         {"public", "discovery document"},
	"idpOpenIDCJWKSHandler":              {"public", "JWKS"},
	"serveClientConfHandler":             {"public", "client configuration text"},
	"defaultPathHandler":                 {"public", "landing page / redirect to profile"},
}

// reviewedRouteMasks: per service route handler, the admission masks with which checkAuth is reached from it
// (whatever helpers the calls go through; a parameter is resolved through the callers on the route, a mask
// helper through its return expression). WEBUI = getRequiredWebUIAuthLevel(), the default for every handler not
// listed: a handler that takes certificates or accepts any level is listed with the reason.
var reviewedRouteMasks = map[string]string{
	// second-factor and certificate endpoints: any established level, the handler itself decides what it adds
	"certGenHandler":          "ANY",
	"BootstrapOtpAuthHandler": "ANY",
	"Okta2FAuthHandler":       "ANY",
	"TOTPAuthHandler":         "ANY",
	"VIPAuthHandler":          "ANY",
	"VIPPollCheckHandler":     "ANY",
	"vipPushStartHandler":     "ANY",
	"oktaPollCheckHandler":    "ANY",
	"oktaPushStartHandler":    "ANY",
	"u2fSignRequest":          "ANY",
	"u2fSignResponse":         "ANY",
	"webauthnAuthFinish":      "ANY",
	"webauthnAuthLogin":       "ANY",
	// administration: web-UI level or a keymaster client certificate
	"addUserHandler":              "WEBUI|AuthTypeKeymasterX509",
	"deleteUserHandler":           "WEBUI|AuthTypeKeymasterX509",
	"generateBootstrapOTP":        "WEBUI|AuthTypeKeymasterX509",
	"usersHandler":                "WEBUI|AuthTypeKeymasterX509",
	"roleRequetingCertGenHandler": "WEBUI|AuthTypeKeymasterX509",
	// refresh of a role-requesting certificate: the IP-restricted certificate itself
	"refreshRoleRequestingCertGenHandler": "AuthTypeIPCertificate",
}

func init() { km.Register("C06", checkC06) }

func checkC06(c *km.Ctx) {
	r := c.R
	s := km.NewSem(c)
	r.Explain = "Static analysis of /repo: the route table is extracted from main.main's SSA; for every service-mux route the module functions reachable from its handler are enumerated (static calls, closures, interface calls by CHA inside the module; the credential evaluators checkAuth/checkUserPassword are stop nodes) and every protected sink (profile store, signing/minting, second-factor transaction start, e-mail) must be dominated - on every CFG path, through wrapper summaries and callers - by the credential fact the route's kind requires. Further rules fix the admission masks, the CSRF clause, the deny list and the CA separation inside checkAuth's helpers. Decides the guard structure, not the behaviour of crypto/tls, go-jose or the HTTP mux."
	r.NotDecided = []string{"TLS chain verification (crypto/tls)", "the cross product of concrete requests: only the dominance of each effect by the guard is decided", "content of configuration"}
	r.Assume = []string{"go/types + go/ssa (x/tools v0.50.0) model the source faithfully", "net/http serves only the handlers registered in main.main", "an effect is 'protected' iff it is in the checker's sink table (profile store, minting/signing, 2FA transaction start, e-mail)"}

	r.Rule("R-C06-0", "every service-mux registration resolves to a handler (unresolved handler values fail); the route table has not collapsed", 16)
	r.Rule("R-C06-1", "every protected sink reachable from a service route is dominated by the credential fact its route kind requires (auth-gated: checkAuth err==nil; password: limiter ok and password accepted; federated: state match and exchange ok; bearer-code: verified code; aws: verified caller identity and allowed account; public: no protected sink at all)", 31)
	r.Rule("R-C06-2", "the admission mask passed to checkAuth by each caller equals the reviewed reference (certificate kinds only where the endpoint takes them)", 11)
	r.Rule("R-C06-3", "every success return of checkAuth is preceded on every path by the CSRF test: method GET, or no Origin/Referer, or no Host, or Origin/Referer host equal to the request host", 1)
	r.Rule("R-C06-4", "getUsernameIfKeymasterSigned admits a chain only after the deny-list comparison of the leaf key and after refusing chains anchored at the role-requesting CA certificate; the fingerprint has the form the deny list is written in (hex SHA-256 of the SSH wire form)", 1)
	r.Rule("R-C06-6", "the netblocks an IP-restricted certificate is checked against are the ones it was minted with: encoder and decoder of the address extension agree (bit length, byte count, mask, family constant) and the verifier accepts only on Contains(peer)", 3)
	r.Rule("R-C06-5", "checkAuth sets each credential bit only under the success of the matching verifier (shared with R-C01-3)", 4)

	checkAuth := c.MustFunc("R-C06-1", "cmd/keymasterd", "(*RuntimeState).checkAuth")
	checkUserPassword := c.MustFunc("R-C06-1", "cmd/keymasterd", "checkUserPassword")
	if checkAuth == nil || checkUserPassword == nil {
		return
	}
	stop := map[*ssa.Function]bool{checkAuth: true, checkUserPassword: true}

	// R-C06-0
	for _, rt := range c.Routes {
		if rt.Mux != "service" {
			continue
		}
		h := rt.HandlerV
		if rt.Handler != nil {
			h = km.FuncName(rt.Handler)
		}
		ok := rt.Handler != nil || strings.Contains(rt.HandlerV, "net/http.FileServer")
		r.Add("R-C06-0", "cmd/keymasterd.main", "route "+rt.Pattern, rt.Pos, "handler resolves to a module function or a static file server", h, ok)
	}

	prAuthed := s.PrimAuthed()
	prLimiter := primErrNil("LimiterOK", RS+"checkPasswordAttemptLimit", 0)
	prPassword := km.Prim{Name: "PasswordOK", Direct: func(f km.Fact) bool {
		if f.Op != token.ILLEGAL || !f.Pol {
			return false
		}
		cl, idx := callRes(f.X)
		return cl != nil && idx == 0 && km.CalleeFull(cl.Common()) == KMD+".checkUserPassword"
	}}
	prExchange := primErrNil("ExchangeOK", "(*golang.org/x/oauth2.Config).Exchange", 1)
	prStateMatch := km.Prim{Name: "StateMatch", Direct: func(f km.Fact) bool {
		if f.Op != token.EQL {
			return false
		}
		for _, v := range []ssa.Value{f.X, f.Y} {
			if x, fld, ok := km.FieldOfLoad(v); ok && fld == "state" && km.NamedTypeOf(x.Type()) == KMD+".pendingAuth2Request" {
				return true
			}
		}
		return false
	}}
	prCodeVerified := primErrNil("CodeVerified", RS+"JWTClaims", 0)
	prCallerID := primErrNil("CallerIdentityOK", km.ModPath+"/lib/server/aws_identity_cert.getCallerIdentity", 1)

	prAccount := km.Prim{Name: "AccountAllowed", Direct: func(f km.Fact) bool {
		if f.Op != token.ILLEGAL || !f.Pol {
			return false
		}
		cl, ok := f.X.(*ssa.Call)
		if !ok || cl.Common().IsInvoke() {
			return false
		}
		_, fld, ok2 := km.FieldPath(cl.Common().Value)
		return ok2 && strings.HasSuffix(fld, "AccountIdValidator")
	}}

	required := map[string][]km.Prim{
		"aws":         {prCallerID, prAccount},
		"auth":        {prAuthed},
		"password":    {prLimiter, prPassword},
		"federated":   {prStateMatch, prExchange},
		"bearer-code": {prCodeVerified},
	}

	seenHandlers := map[*ssa.Function]bool{}
	kindCount := map[string]int{}
	for _, rt := range c.Routes {
		if rt.Mux != "service" || rt.Handler == nil || seenHandlers[rt.Handler] {
			continue
		}
		seenHandlers[rt.Handler] = true
		if !strings.HasPrefix(km.FuncFull(rt.Handler), "(*"+KMD) && !strings.HasPrefix(km.FuncFull(rt.Handler), KMD) {
			continue
		}
		hname := km.NameOf(rt.Handler)
		kind := "auth"
		if k, ok := routeKinds[hname]; ok {
			kind = k.kind
		}
		kindCount[kind]++
		reach := reachableFrom(c, stop, rt.Handler)
		roots := map[*ssa.Function]bool{rt.Handler: true}
		nSinks := 0
		for _, fn := range sortedFuncs(reach) {
			if stop[fn] {
				continue
			}
			for _, sk := range sinksIn(c, fn) {
				nSinks++
				construct := "route " + rt.Pattern + " -> " + sk.name
				switch kind {
				case "public":
					r.Add("R-C06-1", km.FuncName(fn), construct, posOf(c, sk.in), "public route: no protected sink may be reachable", "protected sink ("+sk.class+") reachable from public handler "+hname, false)
				default:
					ok := true
					why := ""
					var names []string
					for _, p := range required[kind] {
						names = append(names, p.Name)
						if o, w := s.HoldsOnPathsWithin(sk.in, allPrims(s, p), roots, reach, 6); !o {
							ok = false
							why += p.Name + " not established: " + w + "; "
						}
					}
					found := "dominated by " + strings.Join(names, " ∧ ")
					if !ok {
						found = why
					}
					r.Add("R-C06-1", km.FuncName(fn), construct, posOf(c, sk.in), kind+" route: sink ("+sk.class+") requires "+strings.Join(names, " ∧ "), found, ok)
				}
			}
		}
		if kind == "public" {
			o := r.Add("R-C06-1", km.FuncName(rt.Handler), "route "+rt.Pattern+" (public)", rt.Pos, "public route reaches no protected sink", sprintf("%d protected sinks in %d reachable functions", nSinks, len(reach)), nSinks == 0)
			o.Trivial = false
		}
	}
	r.Extra["route_kinds"] = kindCount

	// AWS path: the generator is invoked dynamically inside the issuer; require verified identity + allowed account
	{
		reqH := c.MustFunc("R-C06-1", "lib/server/aws_identity_cert", "(*Issuer).requestHandler")
		n := 0
		// wherever in the issuer's package the configured generator is invoked
		var gens []*ssa.Function
		for _, fn := range c.P.AllFuncs {
			if fn.Pkg != nil && fn.Pkg.Pkg.Path() == km.ModPath+"/lib/server/aws_identity_cert" {
				gens = append(gens, fn)
			}
		}
		for _, gen := range gens {
			gen := gen
			km.Instrs(gen, func(in ssa.Instruction) {
				cl, ok := in.(*ssa.Call)
				if !ok || cl.Common().IsInvoke() || km.StaticCallee(cl.Common()) != nil {
					return
				}
				_, fld, ok2 := km.FieldPath(cl.Common().Value)
				if !ok2 || !strings.HasSuffix(fld, "CertificateGenerator") {
					return
				}
				n++
				roots := map[*ssa.Function]bool{reqH: true}
				ok1, w1 := s.HoldsOnAllPaths(in, allPrims(s, prCallerID), roots, 4)
				ok2b, w2 := s.HoldsOnAllPaths(in, allPrims(s, prAccount), roots, 4)
				found := "dominated by CallerIdentityOK ∧ AccountAllowed"
				if !ok1 || !ok2b {
					found = w1 + " " + w2
				}
				r.Add("R-C06-1", km.FuncName(gen), "route aws -> params.CertificateGenerator", posOf(c, in), "aws route: certificate generator requires CallerIdentityOK ∧ AccountAllowed", found, ok1 && ok2b)
			})
		}
		if n == 0 {
			r.AnchorLost("R-C06-1", "call of params.CertificateGenerator in aws_identity_cert.(*Issuer).generateRoleCert")
		}
		// and the generator wired in config.go must be keymasterd's generateRoleCert, reachable only that way
		if grc := c.MustFunc("R-C06-1", "cmd/keymasterd", "(*RuntimeState).generateRoleCert"); grc != nil {
			nCallers := len(c.G.Callers[grc])
			nTaken := len(c.G.AddrTaken[grc])
			r.Add("R-C06-1", km.FuncName(grc), "who-may-call generateRoleCert", c.P.Pos(grc.Pos()), "only handed to the AWS identity issuer as its CertificateGenerator (one method value, no direct callers)", sprintf("direct callers=%d method values=%d", nCallers, nTaken), nCallers == 0 && nTaken == 1)
		}
	}

	checkMasks(c, s, checkAuth)
	checkWebUIMask(c, s)
	checkCSRF(c, s, checkAuth)
	checkKeymasterSigned(c, s, "R-C06-4")
	checkConfigKeys(c, "R-C06-4", "the key deny list", "denytrustdata")
	checkAuthBits(c, s, checkAuth, "R-C06-5")
	checkIPCodec(c, s, "R-C06-6")
	checkExtractRequiresExtension(c, s, "R-C06-6")
	// "... the verifier accepts only on Contains(peer)": C11's obligations on the verdict of
	// VerifyIPRestrictedX509CertIP, borrowed
	if r.Remap == nil {
		r.Remap = func(rule, fn, construct string) (string, bool) {
			if rule == "R-C11-1" && (construct == "accepting return" || construct == "computed verdict" || strings.Contains(construct, "accepting return of VerifyIPRestrictedX509CertIP")) {
				return "R-C06-6", true
			}
			// the refresh endpoint re-issues an automation credential: only for the netblocks and the name of the
			// certificate that was accepted (a certificate whose netblocks cannot be read is refused, not
			// re-issued for whatever address it came from)
			if rule == "R-C11-3" && (construct == "refreshed netblocks" || construct == "refreshed identity" || construct == "refresh admission mask") {
				return "R-C06-6", true
			}
			return "", false
		}
		saveExplain, saveND, saveAs := r.Explain, r.NotDecided, r.Assume
		checkC11(c)
		r.Explain, r.NotDecided, r.Assume = saveExplain, saveND, saveAs
		r.Remap = nil
	}
}

// authTypeConsts reads the AuthType* constants of package main.
func authTypeConsts(c *km.Ctx) map[string]int64 {
	out := map[string]int64{}
	pk := c.P.Pkg("cmd/keymasterd")
	if pk == nil {
		return out
	}
	for name, m := range pk.Members {
		if nc, ok := m.(*ssa.NamedConst); ok && strings.HasPrefix(name, "AuthType") {
			if v, ok := constant.Int64Val(nc.Value.Value); ok {
				out[name] = v
			}
		}
	}
	return out
}

// maskExpr renders the admission mask expression symbolically.
func maskExpr(c *km.Ctx, v ssa.Value, consts map[string]int64) string {
	v = km.Unwrap(v)
	switch x := v.(type) {
	case *ssa.Const:
		i, ok := km.ConstInt(x)
		if !ok {
			return "?const"
		}
		if i == consts["AuthTypeAny"] {
			return "ANY"
		}
		var names []string
		for n, b := range consts {
			if n != "AuthTypeAny" && n != "AuthTypeNone" && b != 0 && i&b == b {
				names = append(names, n)
				i &^= b
			}
		}
		sort.Strings(names)
		if i != 0 {
			names = append(names, sprintf("%#x", i))
		}
		if len(names) == 0 {
			return "NONE"
		}
		return strings.Join(names, "|")
	case *ssa.Call:
		if km.CalleeFull(x.Common()) == RS+"getRequiredWebUIAuthLevel" {
			return "WEBUI"
		}
		return "call:" + km.CalleeShort(x.Common())
	case *ssa.BinOp:
		if x.Op == token.OR {
			parts := []string{maskExpr(c, x.X, consts), maskExpr(c, x.Y, consts)}
			sort.Slice(parts, func(i, j int) bool { // WEBUI first
				if parts[i] == "WEBUI" {
					return true
				}
				if parts[j] == "WEBUI" {
					return false
				}
				return parts[i] < parts[j]
			})
			return strings.Join(parts, "|")
		}
		return "expr:" + km.ValStr(x)
	case *ssa.Parameter:
		return "PARAM"
	}
	return "expr:" + km.ValStr(v)
}

func checkMasks(c *km.Ctx, s *km.Sem, checkAuth *ssa.Function) {
	consts := authTypeConsts(c)
	if len(consts) < 10 {
		c.R.AnchorLost("R-C06-2", "AuthType* constants of cmd/keymasterd")
		return
	}
	// mask expression of a value, looking through a parameter (all callers inside `within`) and through a mask
	// helper (its return expression)
	var exprs func(v ssa.Value, fn *ssa.Function, within map[*ssa.Function]bool, depth int) []string
	exprs = func(v ssa.Value, fn *ssa.Function, within map[*ssa.Function]bool, depth int) []string {
		e := maskExpr(c, v, consts)
		if depth > 3 {
			return []string{e}
		}
		if e == "PARAM" {
			p := km.Unwrap(v).(*ssa.Parameter)
			idx := -1
			for i, q := range fn.Params {
				if q == p {
					idx = i
				}
			}
			var out []string
			for _, cs := range c.G.Callers[fn] {
				if !within[cs.Caller] {
					continue
				}
				ci, ok := cs.Instr.(ssa.CallInstruction)
				if !ok || idx < 0 {
					continue
				}
				a := km.CallArgs(ci.Common())
				for _, x := range exprs(a[idx], cs.Caller, within, depth+1) {
					out = appendUniq(out, x)
				}
			}
			if len(out) == 0 {
				return []string{"PARAM"}
			}
			return out
		}
		if strings.HasPrefix(e, "call:") {
			if cl, ok := km.Unwrap(v).(*ssa.Call); ok {
				if g := km.StaticCallee(cl.Common()); g != nil && g.Blocks != nil && c.InModule(g) {
					var out []string
					for _, rc := range s.RetCases(g) {
						for _, x := range exprs(rc.Results[0], g, within, depth+1) {
							out = appendUniq(out, x)
						}
					}
					if len(out) > 0 {
						return out
					}
				}
			}
		}
		return []string{e}
	}
	// per route: the masks with which checkAuth can be reached from the handler
	seen := map[*ssa.Function]bool{}
	for _, rt := range c.Routes {
		if rt.Mux != "service" || rt.Handler == nil || seen[rt.Handler] || !strings.Contains(km.FuncFull(rt.Handler), KMD) {
			continue
		}
		seen[rt.Handler] = true
		reach := reachableFrom(c, map[*ssa.Function]bool{checkAuth: true}, rt.Handler)
		var masks []string
		var pos string
		for _, fn := range sortedFuncs(reach) {
			for _, ci := range km.CallsIn(fn) {
				if km.StaticCallee(ci.Common()) != checkAuth {
					continue
				}
				args := km.CallArgs(ci.Common())
				if len(args) < 4 {
					continue
				}
				if pos == "" {
					pos = posOf(c, ci)
				}
				for _, x := range exprs(args[3], fn, reach, 0) {
					masks = appendUniq(masks, x)
				}
			}
		}
		if len(masks) == 0 {
			continue
		}
		sort.Strings(masks)
		got := strings.Join(masks, " , ")
		want, known := reviewedRouteMasks[km.NameOf(rt.Handler)]
		req := "masks reachable from " + km.NameOf(rt.Handler) + " = " + want
		if !known {
			req = "handler not in the reviewed mask table: a new credential consumer must be reviewed (default WEBUI)"
			want = "WEBUI"
		}
		c.R.Add("R-C06-2", km.FuncName(rt.Handler), "checkAuth masks reachable from the route", pos, req, got, got == want)
	}
}

// checkWebUIMask: the symbolic WEBUI mask (getRequiredWebUIAuthLevel) is built only from factor bits; a
// certificate-kind bit in it would open checkAuth's certificate gate on every web endpoint, which does not look
// at the credential kind afterwards.
func checkWebUIMask(c *km.Ctx, s *km.Sem) {
	fn := c.MustFunc("R-C06-2", "cmd/keymasterd", "(*RuntimeState).getRequiredWebUIAuthLevel")
	if fn == nil {
		return
	}
	consts := authTypeConsts(c)
	byVal := map[int64]string{}
	for n, v := range consts {
		if n != "AuthTypeAny" && n != "AuthTypeNone" {
			byVal[v] = n
		}
	}
	forbidden := consts["AuthTypeIPCertificate"] | consts["AuthTypeKeymasterX509"]
	var bits []string
	ok := true
	// a bit enters the mask because the operator listed the method of that name - never by default (a mask that is
	// non-zero for an empty or unknown list admits sessions the operator did not ask for)
	protoByVal, mainByVal := constNameTables(c)
	unlicensed := ""
	isWebListed := func(v ssa.Value) bool {
		u, isU := km.Unwrap(v).(*ssa.UnOp)
		if !isU || u.Op != token.MUL {
			return false
		}
		ia, isIA := u.X.(*ssa.IndexAddr)
		if !isIA {
			return false
		}
		_, path, okP := km.FieldPath(ia.X)
		return okP && strings.HasSuffix(path, "Base.AllowedAuthBackendsForWebUI")
	}
	licensed := func(k int64, st km.DNF, where string) {
		if k == 0 {
			return
		}
		good := len(st) > 0
		for _, cj := range st {
			found := false
			for _, f := range cj.List() {
				if f.Op != token.EQL || f.Y == nil {
					continue
				}
				for _, pr := range [][2]ssa.Value{{f.X, f.Y}, {f.Y, f.X}} {
					if name, isS := km.ConstString(pr[1]); isS && isWebListed(pr[0]) && protoByVal[name] != "" && protoByVal[name] == mainByVal[k] {
						found = true
					}
				}
			}
			if !found {
				good = false
			}
		}
		if !good {
			n := mainByVal[k]
			if n == "" {
				n = sprintf("%#x", k)
			}
			unlicensed = n + " enters the mask at " + where + " without the operator having listed it"
		}
	}
	seen := map[ssa.Value]bool{}
	var walk func(v ssa.Value)
	walk = func(v ssa.Value) {
		v = km.Unwrap(v)
		if seen[v] {
			return
		}
		seen[v] = true
		switch x := v.(type) {
		case *ssa.Phi:
			for i, e := range x.Edges {
				if k, isK := km.ConstInt(e); isK && k != 0 {
					licensed(k, c.F.OnEdge(x.Block().Preds[i], x.Block()), posOf(c, x))
				}
			}
		case *ssa.BinOp:
			if x.Op == token.OR {
				for _, e := range []ssa.Value{x.X, x.Y} {
					if k, isK := km.ConstInt(e); isK && k != 0 {
						licensed(k, c.F.At(x), posOf(c, x))
					}
				}
			}
		}
		switch x := v.(type) {
		case *ssa.Const:
			k, isK := km.ConstInt(x)
			if !isK || k&forbidden != 0 || k < 0 {
				ok = false
			}
			if k != 0 {
				if n, has := byVal[k]; has {
					bits = appendUniq(bits, n)
				} else {
					bits = appendUniq(bits, sprintf("%#x", k))
				}
			}
		case *ssa.Phi:
			for _, e := range x.Edges {
				walk(e)
			}
		case *ssa.BinOp:
			if x.Op != token.OR {
				ok = false
				bits = appendUniq(bits, "expr:"+km.ValStr(x))
				return
			}
			walk(x.X)
			walk(x.Y)
		case *ssa.Extract:
			// the value half of a comma-ok table lookup
			if lk, isLk := x.Tuple.(*ssa.Lookup); isLk && x.Index == 0 {
				walk(lk)
				return
			}
			ok = false
			bits = appendUniq(bits, "expr:"+km.ValStr(v))
		case *ssa.Lookup:
			// a bit looked up in a package-level table: every value the table can hold is judged
			vals, tabOK := globalIntTableValues(c, x)
			if !tabOK {
				ok = false
				bits = appendUniq(bits, "expr:"+km.ValStr(v))
				return
			}
			for _, k := range vals {
				if k&forbidden != 0 || k < 0 {
					ok = false
				}
				if k != 0 {
					if n, has := byVal[k]; has {
						bits = appendUniq(bits, n)
					} else {
						bits = appendUniq(bits, sprintf("%#x", k))
					}
				}
			}
		default:
			ok = false
			bits = appendUniq(bits, "expr:"+km.ValStr(v))
		}
	}
	n := 0
	for _, rc := range s.RetCases(fn) {
		n++
		walk(rc.Results[0])
	}
	sort.Strings(bits)
	if n == 0 {
		c.R.AnchorLost("R-C06-2", "returns of getRequiredWebUIAuthLevel")
		return
	}
	c.R.Add("R-C06-2", km.FuncName(fn), "content of the web-UI admission mask", c.P.Pos(fn.Pos()), "an OR of factor-bit constants only: neither AuthTypeIPCertificate nor AuthTypeKeymasterX509 (nor any computed value) can enter the mask the web endpoints pass to checkAuth", strings.Join(bits, "|"), ok)
	found := "every constant bit is OR-ed in under listed == the method of the same name"
	if unlicensed != "" {
		found = unlicensed
	}
	c.R.Add("R-C06-2", km.FuncName(fn), "web-UI admission mask: a bit per listed method", c.P.Pos(fn.Pos()), "a non-zero constant enters the mask only where an entry of allowed_auth_backends_for_webui equals the proto name of that very bit", found, unlicensed == "")
}

func checkCSRF(c *km.Ctx, s *km.Sem, checkAuth *ssa.Function) {
	isReqField := func(v ssa.Value, field string) bool {
		x, f, ok := km.FieldOfLoad(v)
		return ok && f == field && km.NamedTypeOf(x.Type()) == "net/http.Request"
	}
	isLenOf := func(v ssa.Value, pred func(ssa.Value) bool) bool {
		cl, ok := v.(*ssa.Call)
		if !ok {
			return false
		}
		if b, ok := cl.Common().Value.(*ssa.Builtin); !ok || b.Name() != "len" {
			return false
		}
		return pred(cl.Common().Args[0])
	}
	isReferer := func(v ssa.Value) bool {
		cl, ok := v.(*ssa.Call)
		return ok && km.CalleeFull(cl.Common()) == KMD+".getOriginOrReferrer"
	}
	isURLHost := func(v ssa.Value) bool {
		x, f, ok := km.FieldOfLoad(v)
		if !ok || f != "Host" || km.NamedTypeOf(x.Type()) != "net/url.URL" {
			return false
		}
		// the URL must be the parse of the referer
		cl, idx := callRes(km.Unwrap(x))
		if cl == nil || idx != 0 || km.CalleeFull(cl.Common()) != "net/url.Parse" {
			return false
		}
		return isReferer(cl.Common().Args[0])
	}
	cleared := km.Prim{Name: "CSRFCleared", Direct: func(f km.Fact) bool {
		switch f.Op {
		case token.EQL:
			if cs, ok := km.ConstString(f.Y); ok && cs == "GET" && isReqField(f.X, "Method") {
				return true
			}
			if (isURLHost(f.X) && isReqField(f.Y, "Host")) || (isURLHost(f.Y) && isReqField(f.X, "Host")) {
				return true
			}
			if i, ok := km.ConstInt(f.Y); ok && i == 0 && (isLenOf(f.X, isReferer) || isLenOf(f.X, func(v ssa.Value) bool { return isReqField(v, "Host") })) {
				return true
			}
			if cs, ok := km.ConstString(f.Y); ok && cs == "" && (isReferer(f.X) || isReqField(f.X, "Host")) {
				return true
			}
		case token.LEQ, token.LSS:
			if i, ok := km.ConstInt(f.Y); ok && ((f.Op == token.LEQ && i == 0) || (f.Op == token.LSS && i == 1)) &&
				(isLenOf(f.X, isReferer) || isLenOf(f.X, func(v ssa.Value) bool { return isReqField(v, "Host") })) {
				return true
			}
		}
		return false
	}}
	n := 0
	for _, rc := range s.RetCases(checkAuth) {
		if len(rc.Results) != 2 || !km.IsNilConst(rc.Results[1]) {
			continue // not a success return
		}
		n++
		ok := rc.State.All(func(k km.Conj) bool { return s.Holds(k, cleared) })
		found := "CSRF test passed on every path"
		if !ok {
			found = "a path reaches this success return without the CSRF test: " + clipS(rc.State.String(), 400)
		}
		c.R.Add("R-C06-3", km.FuncName(checkAuth), "success return", posOf(c, rc.Ret), "GET ∨ no Origin/Referer ∨ no Host ∨ referer host == request host", found, ok)
	}
	if n == 0 {
		c.R.AnchorLost("R-C06-3", "success returns of checkAuth")
	}
}

func clipS(s string, n int) string {
	if len(s) > n {
		return s[:n] + "…"
	}
	return s
}

func checkKeymasterSigned(c *km.Ctx, s *km.Sem, rule string) {
	c06ctx = c
	fn := c.MustFunc(rule, "cmd/keymasterd", "(*RuntimeState).getUsernameIfKeymasterSigned")
	if fn == nil {
		return
	}
	// success returns: result 0 is not the empty-string constant
	var succ []*ssa.Return
	for _, rc := range s.RetCases(fn) {
		if cs, ok := km.ConstString(rc.Results[0]); ok && cs == "" {
			continue
		}
		succ = append(succ, rc.Ret)
	}
	if len(succ) == 0 {
		c.R.AnchorLost(rule, "success return of getUsernameIfKeymasterSigned")
		return
	}
	checkFingerprintFormat(c, rule)
	// (a) deny list: a comparison between the leaf key fingerprint and an element of KeyDenyFPsshSha256 whose
	// true edge cannot reach a success return, and the load of the deny list dominates every success return.
	var denyLoadBlock *ssa.BasicBlock
	var denyCmp *ssa.If
	km.Instrs(fn, func(in ssa.Instruction) {
		if u, ok := in.(*ssa.UnOp); ok && u.Op == token.MUL {
			if _, path, ok := km.FieldPath(u); ok && strings.HasSuffix(path, "DenyTrustData.KeyDenyFPsshSha256") && denyLoadBlock == nil {
				denyLoadBlock = in.Block()
			}
		}
		if iff, ok := in.(*ssa.If); ok {
			if b, ok := iff.Cond.(*ssa.BinOp); ok && b.Op == token.EQL {
				if (isLeafFingerprint(b.X) && isDenyElem(b.Y)) || (isLeafFingerprint(b.Y) && isDenyElem(b.X)) {
					denyCmp = iff
				}
			}
		}
	})
	notDenied := km.Prim{Name: "leaf key not in the deny list", Direct: func(f km.Fact) bool {
		list, elem, ok := nonMembership(f)
		if !ok || !isLeafFingerprint(elem) {
			return false
		}
		_, path, ok2 := km.FieldPath(list)
		return ok2 && strings.HasSuffix(path, "DenyTrustData.KeyDenyFPsshSha256")
	}}
	for _, ret := range succ {
		// library form: the return is reached only with "fingerprint not in list" established
		if st := c.F.At(ret); len(st) > 0 && st.All(func(k km.Conj) bool { return s.Holds(k, notDenied) }) {
			c.R.Add(rule, km.FuncName(fn), "deny list before success return", posOf(c, ret), "leaf key fingerprint compared with every KeyDenyFPsshSha256 entry; match => refusal", "membership test of the leaf key fingerprint is false on every path to the return", true)
			continue
		}
		ok := denyLoadBlock != nil && denyCmp != nil && denyLoadBlock.Dominates(ret.Block())
		found := "deny list consulted before admission; a match cannot reach the success return"
		if ok {
			reach := km.ReachableBlocks(denyCmp.Block().Succs[0], nil)
			if reach[ret.Block()] {
				ok = false
				found = "the match edge of the deny-list comparison can still reach the success return"
			}
		} else {
			found = "no dominating deny-list comparison of the leaf key fingerprint (chain[0].PublicKey) found"
		}
		c.R.Add(rule, km.FuncName(fn), "deny list before success return", posOf(c, ret), "leaf key fingerprint compared with every KeyDenyFPsshSha256 entry; match => refusal", found, ok)
	}
	// (b) CA separation: on every path to a success return the chain anchor was compared with selfRoleCaCertDer
	notRole := km.Prim{Name: "NotRoleCA", Rel: func(f km.Fact, _ func(ssa.Value) ssa.Value) bool {
		if f.Op == token.ILLEGAL && !f.Pol {
			if cl, ok := f.X.(*ssa.Call); ok && km.CalleeFull(cl.Common()) == "bytes.Equal" {
				a, b := cl.Common().Args[0], cl.Common().Args[1]
				return (mentionsField(a, "selfRoleCaCertDer") && isIssuerRaw(b)) || (mentionsField(b, "selfRoleCaCertDer") && isIssuerRaw(a))
			}
		}
		// no role CA configured at all
		if f.Op == token.LEQ || f.Op == token.EQL || f.Op == token.LSS {
			if cl, ok := f.X.(*ssa.Call); ok {
				if bi, ok := cl.Common().Value.(*ssa.Builtin); ok && bi.Name() == "len" && mentionsField(cl.Common().Args[0], "selfRoleCaCertDer") {
					if i, ok := km.ConstInt(f.Y); ok && ((f.Op == token.LEQ && i == 0) || (f.Op == token.EQL && i == 0) || (f.Op == token.LSS && i == 1)) {
						return true
					}
				}
			}
		}
		return false
	}}
	for _, ret := range succ {
		st := c.F.At(ret)
		ok := st.All(func(k km.Conj) bool { return s.Holds(k, notRole) })
		found := "chain anchor compared with the role-requesting CA certificate (mismatch edge) on every path"
		if !ok {
			found = "a path admits the chain without telling the user CA from the role-requesting CA (they share one key): " + clipS(st.String(), 300)
		}
		c.R.Add(rule, km.FuncName(fn), "role CA separation before success return", posOf(c, ret), "¬bytes.Equal(chain[1].Raw, state.selfRoleCaCertDer) (or no role CA configured)", found, ok)
	}
}

func mentionsField(v ssa.Value, field string) bool {
	v = km.Unwrap(v)
	if _, path, ok := km.FieldPath(v); ok {
		parts := strings.Split(path, ".")
		return parts[len(parts)-1] == field
	}
	return false
}

// isLeafFingerprint: getKeyFingerprint(chain[0].PublicKey) result
// checkFingerprintFormat: the deny list is written by operators as lower-case hexadecimal SHA-256 digests of the
// SSH wire form of a key; the fingerprint function the comparison uses has to produce that form, or no entry of an
// existing configuration ever matches again.
func checkFingerprintFormat(c *km.Ctx, rule string) {
	fn := c.MustFunc(rule, "cmd/keymasterd", "getKeyFingerprint")
	if fn == nil {
		return
	}
	isWire := func(v ssa.Value) bool {
		cl, ok := km.Unwrap(v).(*ssa.Call)
		if !ok || !cl.Common().IsInvoke() || cl.Common().Method.Name() != "Marshal" {
			return false
		}
		src, idx := callRes(km.Unwrap(cl.Common().Value))
		return src != nil && idx == 0 && km.CalleeFull(src.Common()) == "golang.org/x/crypto/ssh.NewPublicKey" && km.Unwrap(src.Common().Args[0]) == ssa.Value(fn.Params[0])
	}
	isDigest := func(v ssa.Value) bool {
		v = km.Unwrap(v)
		// sum := sha256.Sum256(wire); sum[:]
		if sl, ok := v.(*ssa.Slice); ok && sl.Low == nil && sl.High == nil {
			if al, ok := sl.X.(*ssa.Alloc); ok {
				n, good := 0, true
				for _, ref := range *al.Referrers() {
					if st, isSt := ref.(*ssa.Store); isSt && st.Addr == ssa.Value(al) {
						n++
						cl, isC := km.Unwrap(st.Val).(*ssa.Call)
						if !isC || km.CalleeFull(cl.Common()) != "crypto/sha256.Sum256" || !isWire(cl.Common().Args[0]) {
							good = false
						}
					}
				}
				return n == 1 && good
			}
			return false
		}
		// h := sha256.New(); h.Write(wire); h.Sum(nil)
		cl, ok := v.(*ssa.Call)
		if !ok || !cl.Common().IsInvoke() || cl.Common().Method.Name() != "Sum" || !km.IsNilConst(cl.Common().Args[0]) {
			return false
		}
		h, ok := km.Unwrap(cl.Common().Value).(*ssa.Call)
		if !ok || km.CalleeFull(h.Common()) != "crypto/sha256.New" {
			return false
		}
		nW, good := 0, true
		for _, ref := range *h.Referrers() {
			w, isC := ref.(*ssa.Call)
			if !isC || !w.Common().IsInvoke() || w.Common().Value != ssa.Value(h) {
				continue
			}
			switch w.Common().Method.Name() {
			case "Write":
				nW++
				if !isWire(w.Common().Args[0]) || !km.InstrDominates(w, cl) {
					good = false
				}
			case "Sum":
			default:
				good = false
			}
		}
		return nW == 1 && good
	}
	n, bad := 0, ""
	km.Instrs(fn, func(in ssa.Instruction) {
		ret, ok := in.(*ssa.Return)
		if !ok || len(ret.Results) != 2 || !km.IsNilConst(ret.Results[1]) {
			return
		}
		n++
		v := km.Unwrap(ret.Results[0])
		cl, isC := v.(*ssa.Call)
		hexed := false
		if isC {
			switch km.CalleeFull(cl.Common()) {
			case "encoding/hex.EncodeToString":
				hexed = isDigest(cl.Common().Args[0])
			case "fmt.Sprintf":
				if f, isS := km.ConstString(cl.Common().Args[0]); isS && f == "%x" {
					if sl, isSl := cl.Common().Args[1].(*ssa.Slice); isSl {
						if al, isA := sl.X.(*ssa.Alloc); isA {
							for _, ref := range *al.Referrers() {
								if ia, isIA := ref.(*ssa.IndexAddr); isIA {
									for _, r2 := range *ia.Referrers() {
										if st, isSt := r2.(*ssa.Store); isSt && isDigest(st.Val) {
											hexed = true
										}
									}
								}
							}
						}
					}
				}
			}
		}
		if !hexed {
			bad = "returns " + clipS(km.ValStr(v), 100) + " at " + posOf(c, ret)
		}
	})
	if n == 0 {
		c.R.AnchorLost(rule, "success return of getKeyFingerprint")
		return
	}
	found := sprintf("%d success return(s) in that form", n)
	if bad != "" {
		found = bad
	}
	c.R.Add(rule, km.FuncName(fn), "fingerprint form the deny list is written in", c.P.Pos(fn.Pos()), "lower-case hexadecimal of the SHA-256 digest of ssh.NewPublicKey(key).Marshal()", found, bad == "")
}

func isLeafFingerprint(v ssa.Value) bool {
	cl, idx := callRes(km.Unwrap(v))
	if cl == nil || idx != 0 || km.CalleeFull(cl.Common()) != KMD+".getKeyFingerprint" {
		return false
	}
	arg := km.Unwrap(cl.Common().Args[0])
	base, f, ok := km.FieldOfLoad(arg)
	if !ok || f != "PublicKey" {
		return false
	}
	// base is a load of &chain[0]
	u, ok := base.(*ssa.UnOp)
	if !ok {
		return false
	}
	ia, ok := u.X.(*ssa.IndexAddr)
	if !ok {
		return false
	}
	i, ok := km.ConstInt(ia.Index)
	return ok && i == 0
}

func isDenyElem(v ssa.Value) bool {
	// element of the range over Config.DenyTrustData.KeyDenyFPsshSha256: load of IndexAddr(slice, idx)
	u, ok := km.Unwrap(v).(*ssa.UnOp)
	if !ok || u.Op != token.MUL {
		return false
	}
	ia, ok := u.X.(*ssa.IndexAddr)
	if !ok {
		return false
	}
	_, path, ok := km.FieldPath(ia.X)
	return ok && strings.HasSuffix(path, "KeyDenyFPsshSha256")
}

// globalIntTableValues: the integer values a package-level map can hold, when the map is assigned once (in its
// package initialiser), filled there with constant values only, and neither written nor emptied anywhere else.
func globalIntTableValues(c *km.Ctx, lk *ssa.Lookup) ([]int64, bool) {
	u, ok := km.Unwrap(lk.X).(*ssa.UnOp)
	if !ok {
		return nil, false
	}
	g, ok := u.X.(*ssa.Global)
	if !ok || g.Pkg == nil {
		return nil, false
	}
	st := singleStoreTo(c, g)
	initFn := g.Pkg.Func("init")
	if st == nil || initFn == nil || st.Parent() != initFn {
		return nil, false
	}
	m := km.Unwrap(st.Val)
	var vals []int64
	good := true
	for _, fn := range c.P.AllFuncs {
		km.Instrs(fn, func(in ssa.Instruction) {
			switch x := in.(type) {
			case *ssa.MapUpdate:
				mm := km.Unwrap(x.Map)
				fromG := false
				if l, isU := mm.(*ssa.UnOp); isU && l.X == ssa.Value(g) {
					fromG = true
				}
				if mm != m && !fromG {
					return
				}
				k, isC := km.ConstInt(x.Value)
				if fn != initFn || !isC {
					good = false
					return
				}
				vals = append(vals, k)
			case ssa.CallInstruction:
				n := km.CalleeFull(x.Common())
				if n == "builtin:delete" || n == "builtin:clear" || strings.HasPrefix(n, "maps.") {
					for _, a := range x.Common().Args {
						if l, isU := km.Unwrap(a).(*ssa.UnOp); isU && l.X == ssa.Value(g) {
							good = false
						}
					}
				}
			}
		})
	}
	return vals, good && len(vals) > 0
}

// isIssuerRaw: v is the Raw bytes of the certificate that signed the leaf - chain[1] of a verified chain (directly,
// through a local variable, or the certificate parameter of a helper whose callers pass chain[1]) - never the leaf's
// own certificate chain[0]: the role-requesting CA is recognised by the issuer.
func isIssuerRaw(v ssa.Value) bool {
	base, fld, ok := km.FieldOfLoad(km.Unwrap(v))
	if !ok || fld != "Raw" {
		return false
	}
	return isChainElem(base, 1, 0)
}

func isChainElem(v ssa.Value, want int64, depth int) bool {
	v = km.CellOrigin(km.Unwrap(v))
	if depth > 3 {
		return false
	}
	switch x := v.(type) {
	case *ssa.UnOp:
		if ia, ok := x.X.(*ssa.IndexAddr); ok {
			i, isC := km.ConstInt(ia.Index)
			return isC && i == want
		}
		return isChainElem(x.X, want, depth+1)
	case *ssa.Parameter:
		// a helper handed the certificate: judged by what its callers pass
		fn := x.Parent()
		idx := -1
		for i, p := range fn.Params {
			if p == x {
				idx = i
			}
		}
		if idx < 0 || c06ctx == nil {
			return false
		}
		sites := c06ctx.G.Callers[fn]
		if len(sites) == 0 {
			return false
		}
		for _, cs := range sites {
			ci, ok := cs.Instr.(ssa.CallInstruction)
			if !ok {
				return false
			}
			a := km.CallArgs(ci.Common())
			if idx >= len(a) || !isChainElem(a[idx], want, depth+1) {
				return false
			}
		}
		return true
	}
	return false
}

// c06ctx: the context of the running check (isChainElem follows a helper's parameter to its callers).
var c06ctx *km.Ctx
