package rules

import (
	"go/constant"
	"go/token"
	"go/types"
	"sort"
	"strings"

	"kmcheck/internal/km"

	"golang.org/x/tools/go/ssa"
)

func init() { km.Register("C01", checkC01) }

const certgenPkg = km.ModPath + "/lib/certgen"

// userCertSinks: signing calls of the user certificate endpoint, with the index of the user-name argument.
var userCertSinks = map[string]int{
	certgenPkg + ".GenSSHCertFileString": 0,
	certgenPkg + ".GenUserX509Cert":      0,
}

func checkC01(c *km.Ctx) {
	r := c.R
	s := km.NewSem(c)
	r.Explain = "Static analysis of /repo: every signing call reachable from the /certgen/ route must be dominated on every CFG path (through callers and wrapper summaries) by the sealed gate, a successful checkAuth, the sufficient-level flag, the target==authenticated-user comparison and the POST test; the decision structure of the level flag is checked assignment by assignment (each `true` is controlled by exactly one listed-method test paired with the matching credential bit, constant names derived from the two packages' declarations); and the inside of checkAuth is checked so that 'authenticated' means what the property says. Decides structure on all paths, not the truth table over concrete requests."
	r.NotDecided = []string{"the 2^9 x 40 x 3 request matrix as executions", "go-jose signature verification and crypto/tls chain verification", "liveness beyond reachability of the signing call"}
	r.Assume = []string{"go/types + go/ssa model the source faithfully", "go-jose rejects forged tokens; crypto/tls verifies client chains"}

	r.Rule("R-C01-6", "the admit-any mask covers every credential bit the server can put into a session (a credential the operator lists is not refused at the door)", 1)
	r.Rule("R-C01-1", "every user-certificate signing call reachable from the certgen route is dominated by Unsealed ∧ Authed ∧ Sufficient ∧ target==auth user ∧ POST, and its user argument is the authenticated user name", 2)
	r.Rule("R-C01-2", "the sufficient-level flag starts false and every assignment of true is controlled by exactly: listed=='password'; or listed==K ∧ session has bit K (same constant name in proto and main); or session has the U2F bit", 3)
	r.Rule("R-C01-3", "inside checkAuth every success return / credential bit is dominated by the verifier of its branch (cookie: verified, unexpired, level accepted; basic: limiter, password accepted; certificate: verified chain, helper success)", 5)
	r.Rule("R-C01-4", "the certgen route is registered once on the service mux and its handler slices the target user off the route pattern's length", 1)

	h := c.MustFunc("R-C01-1", "cmd/keymasterd", "(*RuntimeState).certGenHandler")
	checkAuth := c.MustFunc("R-C01-3", "cmd/keymasterd", "(*RuntimeState).checkAuth")
	if h == nil || checkAuth == nil {
		return
	}
	// route
	var pattern string
	nReg := 0
	for _, rt := range c.Routes {
		if rt.Handler == h {
			nReg++
			pattern = rt.Pattern
			r.Add("R-C01-4", "cmd/keymasterd.main", "route "+rt.Pattern, rt.Pos, "certGenHandler registered on the service mux", rt.Mux, rt.Mux == "service")
		}
	}
	if nReg == 0 {
		r.AnchorLost("R-C01-4", "route registration of certGenHandler")
		return
	}

	// the level decision: in the handler, or in a stage of it that is new to the tree (the handler split up)
	var flag *ssa.Phi
	var decision *ssa.Call
	frames := callsWithNewHelpersFuncs(c, h, 2)
	for _, fr := range frames {
		if flag = findLevelFlag(fr); flag != nil {
			break
		}
	}
	if flag == nil {
		for _, fr := range frames {
			if decision = findLevelDecision(c, s, fr); decision != nil {
				break
			}
		}
		if decision == nil {
			r.AnchorLost("R-C01-2", "level decision of certGenHandler (a boolean flag tested before issuing, or a helper given the session level and the configured list)")
		} else {
			checkLevelDecision(c, s, decision)
		}
	} else {
		checkLevelFlag(c, s, flag.Parent(), flag)
	}
	checkAnyMask(c, "R-C01-6")
	checkConfigListsNotRewritten(c, "R-C01-6")
	checkConfigKeys(c, "R-C01-6", "the factors the operator requires", "base.allowed_auth_backends_for_")
	if flag == nil && decision == nil {
		checkAuthBits(c, s, checkAuth, "R-C01-3")
		checkKeymasterSigned(c, s, "R-C01-3")
		return
	}

	prUnsealed := s.PrimUnsealed()
	prAuthed := s.PrimAuthed()
	prPost := s.PrimMethod("POST")
	prSufficient := km.Prim{Name: "Sufficient", Direct: func(f km.Fact) bool {
		if f.Op != token.ILLEGAL || !f.Pol {
			return false
		}
		if flag != nil {
			return f.X == ssa.Value(flag)
		}
		return f.X == ssa.Value(decision)
	}}
	if flag == nil && isErrorType(decision.Type()) {
		// the decision helper reports a refusal as an error: sufficient means it returned nil
		prSufficient.Direct = func(f km.Fact) bool {
			return f.Op == token.EQL && km.IsNilConst(f.Y) && km.Unwrap(f.X) == ssa.Value(decision)
		}
	}
	prTarget := km.Prim{Name: "target==authUser", Rel: func(f km.Fact, resolve func(ssa.Value) ssa.Value) bool {
		if f.Op != token.EQL {
			return false
		}
		isUser := func(v ssa.Value) bool {
			if s.Is(v, km.RoleAuthUser) {
				return true
			}
			// inside a helper: the Username field of the parameter bound to the authenticated session
			if base, fld, ok := km.FieldOfLoad(km.Unwrap(v)); ok && fld == "Username" {
				if rb := resolve(base); rb != km.Unwrap(base) && s.Is(rb, km.RoleAuthInfo) {
					return true
				}
			}
			return false
		}
		return (isUser(f.X) && isURLTargetR(f.Y, pattern, resolve)) || (isUser(f.Y) && isURLTargetR(f.X, pattern, resolve))
	}}

	stop := map[*ssa.Function]bool{checkAuth: true}
	reach := reachableFrom(c, stop, h)
	roots := map[*ssa.Function]bool{h: true}
	for _, fn := range sortedFuncs(reach) {
		for _, ci := range km.CallsIn(fn) {
			name := km.CalleeFull(ci.Common())
			uidx, ok := userCertSinks[name]
			if !ok {
				continue
			}
			var missing []string
			for _, p := range []km.Prim{prUnsealed, prAuthed, prSufficient, prTarget, prPost} {
				if o, w := s.HoldsOnPathsWithin(ci, allPrims(s, p), roots, reach, 6); !o {
					missing = append(missing, p.Name+" ("+w+")")
				}
			}
			found := "all five gates dominate the signing call"
			if len(missing) > 0 {
				found = "missing: " + strings.Join(missing, "; ")
			}
			r.Add("R-C01-1", km.FuncName(fn), "gates before "+short(name), posOf(c, ci), "Unsealed ∧ Authed ∧ Sufficient ∧ target==authUser ∧ POST", clipS(found, 900), len(missing) == 0)
			ua := ci.Common().Args[uidx]
			okU := s.Is(ua, km.RoleAuthUser)
			r.Add("R-C01-1", km.FuncName(fn), "user argument of "+short(name), posOf(c, ci), "the certified user name is the authenticated user name (authInfo.Username) on every call path", km.ValStr(ua), okU)
		}
	}
	checkAuthBits(c, s, checkAuth, "R-C01-3")
	// a certificate of the wrong kind (one issued by the role-requesting CA, which shares the user CA's key) must
	// not pass as a keymaster user certificate: the deny-list and CA-separation obligations of the certificate
	// verifier (C06's R-C06-4) belong to "the credential is valid" here as well
	checkKeymasterSigned(c, s, "R-C01-3")

	// a session cookie counts as a credential only while its signed claims say so: issuer, audience, kind,
	// not-before and expiry are the obligations of C04's consumers of the session token type, borrowed here
	// (forged / foreign-issuer / other-kind / not-yet-valid / expired cookies must be refused by this endpoint)
	r.Rule("R-C01-5", "the session cookie is honoured only with issuer == this server, audience[0] == this server, its own kind, not-before <= now and expiry not passed (C04's obligations for the session token consumers)", 3)
	r.Remap = func(rule, fn, construct string) (string, bool) {
		// the list of accepted signature algorithms has to follow the published keys: a list remembered from before
		// an unseal makes every later session cookie unverifiable (a user who completed a factor is not served)
		if rule == "R-C04-1" && (construct == "verifier list computed at call time" || strings.Contains(construct, "getJoseKeymastedVerifierList")) {
			return "R-C01-5", true
		}
		if rule != "R-C04-2" && rule != "R-C04-3" && rule != "R-C04-4" {
			return "", false
		}
		if c04CurrentType == KMD+".authInfoJWT" {
			return "R-C01-5", true
		}
		return "", false
	}
	saveExplain, saveND, saveAs := r.Explain, r.NotDecided, r.Assume
	checkC04(c)
	r.Explain, r.NotDecided, r.Assume = saveExplain, saveND, saveAs
	r.Remap = nil
}

// isURLTarget: v is r.URL.Path[len(pattern):]
func isURLTarget(v ssa.Value, pattern string) bool {
	sl, ok := km.Unwrap(v).(*ssa.Slice)
	if !ok || sl.Low == nil || sl.High != nil {
		return false
	}
	lo, ok := km.ConstInt(sl.Low)
	if !ok || int(lo) != len(pattern) {
		return false
	}
	_, path, ok := km.FieldPath(sl.X)
	return ok && path == "URL.Path"
}

// isURLTargetR: isURLTarget for a value of a helper's frame (the sliced string may be a parameter bound to the path).
func isURLTargetR(v ssa.Value, pattern string, resolve func(ssa.Value) ssa.Value) bool {
	v = resolve(v)
	if isURLTarget(v, pattern) {
		return true
	}
	sl, ok := km.Unwrap(v).(*ssa.Slice)
	if !ok || sl.Low == nil || sl.High != nil {
		return false
	}
	lo, ok := km.ConstInt(sl.Low)
	if !ok || int(lo) != len(pattern) {
		return false
	}
	_, path, ok := km.FieldPath(resolve(sl.X))
	return ok && path == "URL.Path"
}

// findLevelFlag: the bool phi that is branched on (possibly negated) and whose web contains both constants.
func findLevelFlag(fn *ssa.Function) *ssa.Phi {
	var cands []*ssa.Phi
	km.Instrs(fn, func(in ssa.Instruction) {
		iff, ok := in.(*ssa.If)
		if !ok {
			return
		}
		v := iff.Cond
		for {
			if u, ok := v.(*ssa.UnOp); ok && u.Op == token.NOT {
				v = u.X
				continue
			}
			break
		}
		phi, ok := v.(*ssa.Phi)
		if !ok {
			return
		}
		hasT, hasF := false, false
		seen := map[*ssa.Phi]bool{}
		var walk func(p *ssa.Phi)
		walk = func(p *ssa.Phi) {
			if seen[p] {
				return
			}
			seen[p] = true
			for _, e := range p.Edges {
				switch x := e.(type) {
				case *ssa.Const:
					if x.Value != nil && x.Value.Kind() == constant.Bool {
						if constant.BoolVal(x.Value) {
							hasT = true
						} else {
							hasF = true
						}
					}
				case *ssa.Phi:
					walk(x)
				case *ssa.BinOp:
					// the flag starts from a test instead of from false ("a second factor is always enough")
					if x.Op == token.EQL || x.Op == token.NEQ {
						hasF = true
					}
				case *ssa.Call:
					// ... or from a test kept in a small predicate
					if b, isB := x.Type().Underlying().(*types.Basic); isB && b.Kind() == types.Bool {
						hasF = true
					}
				}
			}
		}
		walk(phi)
		if hasT && hasF && (len(seen) >= 2 || len(phi.Edges) >= 3) {
			dup := false
			for _, q := range cands {
				if q == phi {
					dup = true
				}
			}
			if !dup {
				cands = append(cands, phi)
			}
		}
	})
	if len(cands) == 1 {
		return cands[0]
	}
	// several boolean flags (a per-iteration "matched" feeding the overall one): the level flag is the one whose
	// test is not inside a loop
	var outside []*ssa.Phi
	for _, p := range cands {
		inLoop := false
		for _, ref := range *p.Referrers() {
			var b *ssa.BasicBlock
			switch x := ref.(type) {
			case *ssa.If:
				b = x.Block()
			case *ssa.UnOp:
				for _, r2 := range *x.Referrers() {
					if iff, ok := r2.(*ssa.If); ok {
						b = iff.Block()
					}
				}
			}
			if b != nil && km.ReachableBlocks(b, nil)[b] && blockInCycle(b) {
				inLoop = true
			}
		}
		if !inLoop {
			outside = append(outside, p)
		}
	}
	if len(outside) == 1 {
		return outside[0]
	}
	return nil
}

// blockInCycle: b can reach itself.
func blockInCycle(b *ssa.BasicBlock) bool {
	seen := map[*ssa.BasicBlock]bool{}
	var stack []*ssa.BasicBlock
	stack = append(stack, b.Succs...)
	for len(stack) > 0 {
		x := stack[len(stack)-1]
		stack = stack[:len(stack)-1]
		if x == b {
			return true
		}
		if seen[x] {
			continue
		}
		seen[x] = true
		stack = append(stack, x.Succs...)
	}
	return false
}

func constNameTables(c *km.Ctx) (protoByVal map[string]string, mainByVal map[int64]string) {
	protoByVal, mainByVal = map[string]string{}, map[int64]string{}
	if pk := c.P.Pkg("lib/webapi/v0/proto"); pk != nil {
		for name, m := range pk.Members {
			if nc, ok := m.(*ssa.NamedConst); ok && strings.HasPrefix(name, "AuthType") && nc.Value.Value.Kind() == constant.String {
				protoByVal[constant.StringVal(nc.Value.Value)] = name
			}
		}
	}
	for name, v := range authTypeConsts(c) {
		if name != "AuthTypeAny" && name != "AuthTypeNone" {
			mainByVal[v] = name
		}
	}
	return
}

// controlling facts of a block: walk up while the block has a single predecessor; collect the edge facts.
func controllingFacts(c *km.Ctx, b *ssa.BasicBlock) []km.Fact {
	var out []km.Fact
	for b != nil && len(b.Preds) == 1 {
		p := b.Preds[0]
		if iff, ok := p.Instrs[len(p.Instrs)-1].(*ssa.If); ok && p.Succs[0] != p.Succs[1] {
			out = append(out, c.F.CondFacts(iff.Cond, p.Succs[0] == b)...)
		}
		b = p
	}
	return out
}

func checkLevelFlag(c *km.Ctx, s *km.Sem, h *ssa.Function, flag *ssa.Phi) {
	checkLevelFlagRec(c, s, h, flag, map[*ssa.Phi]bool{}, nil)
}

// checkLevelFlagRec: visited holds the flags already judged (a flag set from another flag hands its obligation
// on to that flag, which is then judged by the same rule).
func checkLevelFlagRec(c *km.Ctx, s *km.Sem, h *ssa.Function, flag *ssa.Phi, visited map[*ssa.Phi]bool, listParam *ssa.Parameter) {
	if visited[flag] {
		return
	}
	visited[flag] = true
	protoByVal, mainByVal := constNameTables(c)
	if len(protoByVal) < 7 || len(mainByVal) < 9 {
		c.R.AnchorLost("R-C01-2", "AuthType* constant tables (proto strings / main bits)")
		return
	}
	u2fBit := authTypeConsts(c)["AuthTypeU2F"]
	isListed := func(v ssa.Value) bool { // element of Config.Base.AllowedAuthBackendsForCerts
		u, ok := km.Unwrap(v).(*ssa.UnOp)
		if !ok || u.Op != token.MUL {
			return false
		}
		ia, ok := u.X.(*ssa.IndexAddr)
		if !ok {
			return false
		}
		if listParam != nil && km.Unwrap(ia.X) == ssa.Value(listParam) {
			return true
		}
		_, path, ok := km.FieldPath(ia.X)
		return ok && strings.HasSuffix(path, "Base.AllowedAuthBackendsForCerts")
	}
	seen := map[*ssa.Phi]bool{}
	var phis []*ssa.Phi
	var walk func(p *ssa.Phi)
	walk = func(p *ssa.Phi) {
		if seen[p] {
			return
		}
		seen[p] = true
		phis = append(phis, p)
		for _, e := range p.Edges {
			if q, ok := e.(*ssa.Phi); ok {
				walk(q)
			}
		}
	}
	walk(flag)
	sort.Slice(phis, func(i, j int) bool { return phis[i].Block().Index < phis[j].Block().Index })
	nTrue := 0
	for _, p := range phis {
		for i, e := range p.Edges {
			switch x := e.(type) {
			case *ssa.Phi:
				continue
			case *ssa.Const:
				if x.Value == nil || x.Value.Kind() != constant.Bool {
					c.R.Add("R-C01-2", km.FuncName(h), "flag operand (non-bool constant)", posOf(c, p), "flag operands are the constants true/false", km.ValStr(x), false)
					continue
				}
				pred := p.Block().Preds[i]
				if !constant.BoolVal(x.Value) {
					// initial false: must come from before the loop (a block that dominates the flag's test)
					ok := pred.Dominates(flag.Block())
					c.R.Add("R-C01-2", km.FuncName(h), "flag initial value", posOf(c, p), "the only false operand is the initial value, assigned before the method loop", sprintf("false assigned in block %d", pred.Index), ok)
					continue
				}
				nTrue++
				// every way of reaching this assignment (every disjunct of the facts on the edge) must carry one of
				// the three licences; extra conjuncts only make the grant stricter and are of no concern here
				edge := c.F.OnEdge(pred, p.Block())
				var descs []string
				ok := len(edge) > 0
				for _, k := range edge {
					d, good := levelLicence(c, s, k, isListed, protoByVal, mainByVal, u2fBit)
					if !good {
						// set because another flag is set: that flag carries the obligation
						for _, f := range k.List() {
							q, isPhi := f.X.(*ssa.Phi)
							if f.Op == token.ILLEGAL && f.Pol && isPhi && !seen[q] && isBoolFlagPhi(q) {
								for _, qq := range phiWeb(q) {
									if seen[qq] {
										isPhi = false
									}
								}
								if isPhi {
									checkLevelFlagRec(c, s, h, q, visited, listParam)
									d, good = "licensed through flag "+km.ValStr(q), true
								}
							}
						}
					}
					descs = appendUniq(descs, d)
					if !good {
						ok = false
					}
				}
				sort.Strings(descs)
				c.R.Add("R-C01-2", km.FuncName(h), "flag := true", posOf(c, pred.Instrs[len(pred.Instrs)-1]), "on every path to the assignment: listed=='password', or listed==K ∧ level has bit K (same constant name in proto and main), or level has the U2F bit", clipS(strings.Join(descs, " | "), 600), ok)
			default:
				// a computed operand: the flag is the truth of one test, which has to be a licence in itself (the
				// facts of that test being true)
				if cf := c.F.CondFacts(e, true); len(cf) > 0 {
					// judged together with what is known on the way to the assignment (the listed method the
					// surrounding case selected): every such way has to carry a licence once the test is true
					ways := c.F.OnEdge(p.Block().Preds[i], p.Block())
					if len(ways) == 0 {
						ways = km.DNF{c.F.NewConj()}
					}
					var ds []string
					good := true
					for _, w := range ways {
						k := w
						for _, f := range cf {
							k = k.With(f)
						}
						d1, g1 := levelLicence(c, s, k, isListed, protoByVal, mainByVal, u2fBit)
						ds = appendUniq(ds, d1)
						good = good && g1
					}
					sort.Strings(ds)
					d := strings.Join(ds, " | ")
					nTrue++
					c.R.Add("R-C01-2", km.FuncName(h), "flag := test", posOf(c, p), "the test is a licence in itself: listed=='password', or listed==K ∧ level has bit K, or level has the U2F bit", clipS(d, 300), good)
					continue
				}
				c.R.Add("R-C01-2", km.FuncName(h), "flag operand (computed)", posOf(c, p), "flag operands are the constants true/false", km.ValStr(e), false)
			}
		}
	}
	if nTrue == 0 {
		c.R.AnchorLost("R-C01-2", "assignments of true to the level flag")
	}
}

func bitNames(bits []int64, names map[int64]string) []string {
	var out []string
	for _, b := range bits {
		if n, ok := names[b]; ok {
			out = append(out, n)
		} else {
			out = append(out, sprintf("%#x", b))
		}
	}
	return out
}

// levelLicence: does one conjunction of facts license "sufficient"? listed=='password', or listed==K together with
// the level having bit K (same constant name in proto and main), or the level having the U2F bit. Bit tests made
// inside a helper (hasAuthType(k)) are seen through, with the helper's parameter resolved to the argument and the
// argument's constant taken from this conjunction.
func levelLicence(c *km.Ctx, s *km.Sem, k km.Conj, isListed func(ssa.Value) bool, protoByVal map[string]string, mainByVal map[int64]string, u2fBit int64) (string, bool) {
	constOf := func(v ssa.Value) (int64, bool) {
		if kv, ok := km.ConstInt(v); ok {
			return kv, true
		}
		v = km.Unwrap(v)
		for _, g := range k.List() {
			if g.Op == token.EQL && g.X == v {
				if kv, ok := km.ConstInt(g.Y); ok {
					return kv, true
				}
			}
		}
		return 0, false
	}
	var listed []string
	var bits []int64
	var tableTests []*ssa.Lookup
	bitFact := func(f km.Fact, resolve func(ssa.Value) ssa.Value) {
		b, isB := f.X.(*ssa.BinOp)
		if !isB || b.Op != token.AND {
			return
		}
		var kval ssa.Value
		if s.Is(b.X, km.RoleAuthLevel) {
			kval = b.Y
		} else if s.Is(b.Y, km.RoleAuthLevel) {
			kval = b.X
		}
		if kval == nil {
			return
		}
		kv, isK := constOf(resolve(kval))
		if !isK {
			// the required bit looked up in a table keyed by the listed name
			if lk := tableLookupOf(resolve(kval)); lk != nil && f.Op == token.EQL && km.Unwrap(resolve(f.Y)) == km.Unwrap(resolve(kval)) {
				tableTests = append(tableTests, lk)
			}
			return
		}
		if f.Op == token.EQL {
			if y, isY := constOf(resolve(f.Y)); isY && y == kv {
				bits = append(bits, kv)
			}
		} else if f.Op == token.NEQ {
			if y, isY := km.ConstInt(f.Y); isY && y == 0 && kv != 0 && kv&(kv-1) == 0 {
				bits = append(bits, kv)
			}
		}
	}
	ident := func(v ssa.Value) ssa.Value { return km.Unwrap(v) }
	for _, f := range k.List() {
		if f.Op == token.EQL {
			if cs, isC := km.ConstString(f.Y); isC && isListed(f.X) {
				listed = append(listed, cs)
				continue
			}
		}
		bitFact(f, ident)
	}
	// bit tests inside helpers: a collecting proposition that is never true
	s.Holds(k, km.Prim{Name: "collect bit tests", Rel: func(f km.Fact, resolve func(ssa.Value) ssa.Value) bool {
		bitFact(f, resolve)
		return false
	}})
	good := false
	tableNote := ""
	for _, lk := range tableTests {
		// level & table[listed] == table[listed]: a licence when the name is known to the table (comma-ok true, or
		// the looked-up bit is non-zero) and the table maps every method name to the bit of the same constant name
		if !isListed(lk.Index) {
			continue
		}
		present := false
		for _, f := range k.List() {
			ex, isEx := f.X.(*ssa.Extract)
			if lk.CommaOk && isEx && ex.Tuple == ssa.Value(lk) && ex.Index == 1 && f.Op == token.ILLEGAL && f.Pol {
				present = true
			}
			if f.Op == token.NEQ && tableLookupOf(f.X) == lk {
				if z, isZ := km.ConstInt(f.Y); isZ && z == 0 {
					present = true
				}
			}
		}
		okTab, why := levelTableConsistent(c, lk, protoByVal, mainByVal)
		tableNote = sprintf(" table(present=%v consistent=%v %s)", present, okTab, why)
		if present && okTab {
			good = true
		}
	}
	for _, l := range listed {
		if protoByVal[l] == "AuthTypePassword" {
			good = true
		}
		for _, bt := range bits {
			if protoByVal[l] != "" && protoByVal[l] == mainByVal[bt] {
				good = true
			}
		}
	}
	for _, bt := range bits {
		if bt == u2fBit {
			good = true
		}
	}
	sort.Slice(bits, func(i, j int) bool { return bits[i] < bits[j] })
	var ub []int64
	for i, b := range bits {
		if i == 0 || bits[i-1] != b {
			ub = append(ub, b)
		}
	}
	return sprintf("listed=%v bits=%v%s ok=%v", listed, bitNames(ub, mainByVal), tableNote, good), good
}

// tableLookupOf: v is the value (or the value half of a comma-ok pair) of a lookup in a package-level map.
func tableLookupOf(v ssa.Value) *ssa.Lookup {
	v = km.Unwrap(v)
	if ex, ok := v.(*ssa.Extract); ok && ex.Index == 0 {
		v = ex.Tuple
	}
	lk, ok := v.(*ssa.Lookup)
	if !ok {
		return nil
	}
	if u, ok := km.Unwrap(lk.X).(*ssa.UnOp); ok {
		if _, isG := u.X.(*ssa.Global); isG {
			return lk
		}
	}
	return nil
}

// levelTableConsistent: the package-level map the lookup reads is filled only in its package initialiser, with
// constant method names mapped to the non-zero session bit whose constant has the same name (proto.AuthTypeX ->
// AuthTypeX), and nothing else in the module writes to it.
func levelTableConsistent(c *km.Ctx, lk *ssa.Lookup, protoByVal map[string]string, mainByVal map[int64]string) (bool, string) {
	g := km.Unwrap(lk.X).(*ssa.UnOp).X.(*ssa.Global)
	if g.Pkg == nil {
		return false, "no package"
	}
	initFn := g.Pkg.Func("init")
	if initFn == nil {
		return false, "no initialiser"
	}
	var m ssa.Value
	stores := 0
	for _, fn := range c.P.AllFuncs {
		km.Instrs(fn, func(in ssa.Instruction) {
			if st, ok := in.(*ssa.Store); ok && st.Addr == ssa.Value(g) {
				stores++
				if fn == initFn {
					m = km.Unwrap(st.Val)
				}
			}
		})
	}
	if m == nil || stores != 1 {
		return false, sprintf("assigned %d times", stores)
	}
	n := 0
	bad := ""
	for _, fn := range c.P.AllFuncs {
		km.Instrs(fn, func(in ssa.Instruction) {
			mu, ok := in.(*ssa.MapUpdate)
			if !ok {
				return
			}
			mm := km.Unwrap(mu.Map)
			fromG := false
			if u, isU := mm.(*ssa.UnOp); isU && u.X == ssa.Value(g) {
				fromG = true
			}
			if mm != m && !fromG {
				return
			}
			if fn != initFn {
				bad = "written in " + km.FuncName(fn)
				return
			}
			ks, ok1 := km.ConstString(mu.Key)
			v, ok2 := km.ConstInt(mu.Value)
			if !ok1 || !ok2 || v == 0 || protoByVal[ks] == "" || protoByVal[ks] != mainByVal[v] {
				bad = sprintf("entry %q -> %v", ks, km.ValStr(mu.Value))
				return
			}
			n++
		})
	}
	// builtin delete on the table
	for _, fn := range c.P.AllFuncs {
		for _, ci := range km.CallsIn(fn) {
			if km.CalleeFull(ci.Common()) == "builtin:delete" {
				if u, isU := km.Unwrap(ci.Common().Args[0]).(*ssa.UnOp); isU && u.X == ssa.Value(g) {
					bad = "entries deleted in " + km.FuncName(fn)
				}
			}
		}
	}
	if bad != "" {
		return false, bad
	}
	return n > 0, sprintf("%d entries", n)
}

// findLevelDecision: when the level test lives in a helper, the call in the handler whose boolean result decides
// (a keymasterd function given the session's level - as receiver or argument - and the configured list).
func findLevelDecision(c *km.Ctx, s *km.Sem, h *ssa.Function) *ssa.Call {
	var found *ssa.Call
	for _, ci := range km.CallsIn(h) {
		cl, ok := ci.(*ssa.Call)
		if !ok {
			continue
		}
		g := km.StaticCallee(cl.Common())
		if g == nil || g.Blocks == nil || g.Pkg == nil || !pkgIsKMD(g.Pkg) {
			continue
		}
		res := g.Signature.Results()
		if res.Len() != 1 || (res.At(0).Type().String() != "bool" && !isErrorType(res.At(0).Type())) {
			continue
		}
		hasLevel, hasList := false, false
		for _, a := range km.CallArgs(cl.Common()) {
			if s.Is(a, km.RoleAuthInfo) || s.Is(a, km.RoleAuthLevel) {
				hasLevel = true
			}
			if mentionsField(a, "AllowedAuthBackendsForCerts") {
				hasList = true
			}
		}
		if !hasList {
			// the helper reads the configured list itself
			km.Instrs(g, func(in ssa.Instruction) {
				if u, ok := in.(*ssa.UnOp); ok && mentionsField(u, "AllowedAuthBackendsForCerts") {
					hasList = true
				}
			})
		}
		if hasLevel && hasList {
			found = cl
		}
	}
	return found
}

// checkLevelDecision judges a decision helper: every path on which it can return true carries a licence.
func checkLevelDecision(c *km.Ctx, s *km.Sem, call *ssa.Call) {
	protoByVal, mainByVal := constNameTables(c)
	if len(protoByVal) < 7 || len(mainByVal) < 9 {
		c.R.AnchorLost("R-C01-2", "AuthType* constant tables (proto strings / main bits)")
		return
	}
	u2fBit := authTypeConsts(c)["AuthTypeU2F"]
	d := km.StaticCallee(call.Common())
	// the configured list inside the helper: the parameter the handler binds to the configuration field
	var listParam *ssa.Parameter
	for i, a := range km.CallArgs(call.Common()) {
		if mentionsField(a, "AllowedAuthBackendsForCerts") && i < len(d.Params) {
			listParam = d.Params[i]
		}
	}
	isListed := func(v ssa.Value) bool {
		u, ok := km.Unwrap(v).(*ssa.UnOp)
		if !ok || u.Op != token.MUL {
			return false
		}
		ia, ok := u.X.(*ssa.IndexAddr)
		if !ok {
			return false
		}
		if listParam != nil && km.Unwrap(ia.X) == ssa.Value(listParam) {
			return true
		}
		_, path, ok := km.FieldPath(ia.X)
		return ok && strings.HasSuffix(path, "Base.AllowedAuthBackendsForCerts")
	}
	n := 0
	isErr := isErrorType(d.Signature.Results().At(0).Type())
	for _, rc := range s.RetCases(d) {
		v := km.Unwrap(rc.Results[0])
		// the helper keeps the flag inside and hands it back: the flag is judged assignment by assignment
		if phi, isPhi := v.(*ssa.Phi); isPhi && !isErr && isBoolFlagPhi(phi) {
			before := len(c.R.Obls)
			checkLevelFlagRec(c, s, d, phi, map[*ssa.Phi]bool{}, listParam)
			n += len(c.R.Obls) - before
			continue
		}
		var descs []string
		ok, nTrue := true, 0
		if isErr && km.Nilness(rc.Results[0]) > 0 {
			continue // a refusal
		}
		for _, k := range rc.State {
			kk, mayBeTrue := k, true
			if !isErr {
				kk, mayBeTrue = s.TrueFacts(k, v)
			} else if !km.IsNilConst(v) {
				// an error of unknown nilness handed on: a refusal only where this path knows it to be non-nil
				for _, f := range k.List() {
					if f.Op == token.NEQ && km.IsNilConst(f.Y) && km.Unwrap(f.X) == v {
						mayBeTrue = false
					}
				}
			}
			if !mayBeTrue {
				continue
			}
			nTrue++
			ds, good := levelLicence(c, s, kk, isListed, protoByVal, mainByVal, u2fBit)
			descs = appendUniq(descs, ds)
			if !good {
				ok = false
			}
		}
		if nTrue == 0 {
			continue
		}
		n++
		sort.Strings(descs)
		c.R.Add("R-C01-2", km.FuncName(d), "sufficient := true", posOf(c, rc.Ret), "on every path on which the decision is true: listed=='password', or listed==K ∧ level has bit K (same constant name in proto and main), or level has the U2F bit", clipS(strings.Join(descs, " | "), 600), ok)
	}
	// the only other results are the constant false (a refusal needs no licence)
	if n == 0 {
		c.R.AnchorLost("R-C01-2", "a return of "+km.NameOf(d)+" that can be true")
	}
}

// phiWeb: p and the phis it merges, transitively.
func phiWeb(p *ssa.Phi) []*ssa.Phi {
	seen := map[*ssa.Phi]bool{}
	var out []*ssa.Phi
	var walk func(q *ssa.Phi)
	walk = func(q *ssa.Phi) {
		if seen[q] {
			return
		}
		seen[q] = true
		out = append(out, q)
		for _, e := range q.Edges {
			if x, ok := e.(*ssa.Phi); ok {
				walk(x)
			}
		}
	}
	walk(p)
	return out
}

// isBoolFlagPhi: a boolean phi whose web merges only the constants true and false.
func isBoolFlagPhi(p *ssa.Phi) bool {
	for _, q := range phiWeb(p) {
		for _, e := range q.Edges {
			switch x := e.(type) {
			case *ssa.Phi:
			case *ssa.Const:
				if x.Value == nil || x.Value.Kind() != constant.Bool {
					return false
				}
			default:
				return false
			}
		}
	}
	return true
}

// checkAnyMask: AuthTypeAny, the mask the endpoints that take "any credential" hand to checkAuth, contains every
// single-credential constant. A mask spelled out from the names and missing one refuses sessions of that kind.
func checkAnyMask(c *km.Ctx, rule string) {
	consts := authTypeConsts(c)
	anyV, has := consts["AuthTypeAny"]
	if !has {
		c.R.AnchorLost(rule, "constant AuthTypeAny")
		return
	}
	var missing []string
	for n, b := range consts {
		if n == "AuthTypeAny" || n == "AuthTypeNone" || b == 0 {
			continue
		}
		if anyV&b != b {
			missing = append(missing, n)
		}
	}
	sort.Strings(missing)
	c.R.Add(rule, "cmd/keymasterd", "AuthTypeAny", "cmd/keymasterd/app.go", "AuthTypeAny & K == K for every credential constant K", sprintf("value=%#x missing=%v", anyV, missing), len(missing) == 0)
}

// checkConfigListsNotRewritten: the operator's lists (the acceptable methods among them) stay what the
// configuration file said for the life of the process: no code appends into a re-slice of one (list[:0], list[:n] -
// the classic in-place filter), directly or through a helper that is handed the list, and none stores into an
// element. Such a write changes what every later request is judged against.
func checkConfigListsNotRewritten(c *km.Ctx, rule string) {
	isConfigList := func(v ssa.Value) bool {
		_, path, ok := km.FieldPath(km.Unwrap(v))
		return ok && strings.Contains(path, "Config.")
	}
	var fromConfig func(v ssa.Value, d int) (bool, string)
	fromConfig = func(v ssa.Value, d int) (bool, string) {
		v = km.Unwrap(v)
		if isConfigList(v) {
			return true, km.ValStr(v)
		}
		p, isP := v.(*ssa.Parameter)
		if !isP || d > 2 {
			return false, ""
		}
		g := p.Parent()
		idx := -1
		for i, q := range g.Params {
			if q == p {
				idx = i
			}
		}
		for _, cs := range c.G.Callers[g] {
			ci, ok := cs.Instr.(ssa.CallInstruction)
			if !ok || idx < 0 || idx >= len(ci.Common().Args) {
				continue
			}
			if is, what := fromConfig(ci.Common().Args[idx], d+1); is {
				return true, what + " (handed in at " + posOf(c, cs.Instr) + ")"
			}
		}
		return false, ""
	}
	nAppend, bad := 0, ""
	for _, fn := range c.P.AllFuncs {
		if fn.Pkg == nil || !pkgIsKMD(fn.Pkg) {
			continue
		}
		km.Instrs(fn, func(in ssa.Instruction) {
			switch x := in.(type) {
			case *ssa.Call:
				b, isB := x.Common().Value.(*ssa.Builtin)
				if !isB || b.Name() != "append" {
					return
				}
				nAppend++
				if sl, isSl := km.Unwrap(x.Common().Args[0]).(*ssa.Slice); isSl {
					if is, what := fromConfig(sl.X, 0); is {
						bad = "append into a re-slice of " + clipS(what, 120) + " at " + posOf(c, in)
					}
				}
				// ... also when the re-slice was kept in a variable that the loop appends to
				if ph, isPh := km.Unwrap(x.Common().Args[0]).(*ssa.Phi); isPh {
					for _, e := range ph.Edges {
						if sl, isSl := km.Unwrap(e).(*ssa.Slice); isSl {
							if is, what := fromConfig(sl.X, 0); is {
								bad = "append into a re-slice of " + clipS(what, 120) + " at " + posOf(c, in)
							}
						}
					}
				}
			case *ssa.Store:
				if ia, isIA := x.Addr.(*ssa.IndexAddr); isIA {
					if is, what := fromConfig(ia.X, 0); is {
						if _, isStr := x.Val.Type().Underlying().(*types.Basic); isStr {
							bad = "store into an element of " + clipS(what, 120) + " at " + posOf(c, in)
						}
					}
				}
			}
		})
	}
	if nAppend == 0 {
		c.R.AnchorLost(rule, "append calls in cmd/keymasterd")
		return
	}
	found := sprintf("%d append sites examined; none writes into a configured list", nAppend)
	if bad != "" {
		found = bad
	}
	c.R.Add(rule, "cmd/keymasterd", "configured lists are not rewritten at run time", "-", "no append into a re-slice of a configuration list and no store into one of its elements", found, bad == "")
}
