package rules

import (
	"go/constant"
	"go/token"
	"go/types"
	"reflect"
	"sort"
	"strings"

	"kmcheck/internal/km"

	"golang.org/x/tools/go/ssa"
)

func init() { km.Register("C04", checkC04) }

const (
	jwtPkg  = "github.com/go-jose/go-jose/v4/jwt"
	josePkg = "github.com/go-jose/go-jose/v4"
)

// fieldLoadOf: v is a load of field `field` of a value whose (pointer-stripped) named type is typ ("" = any).
func fieldLoadOf(v ssa.Value, typ, field string) bool {
	x, f, ok := km.FieldOfLoad(km.Unwrap(v))
	if !ok || f != field {
		return false
	}
	return typ == "" || km.NamedTypeOf(x.Type()) == typ
}

func isNowUnix(v ssa.Value) bool {
	return isNowUnixR(v, func(x ssa.Value) ssa.Value { return km.Unwrap(x) })
}

// isNowUnixR: time.Now().Unix(), where the time value may be a parameter the caller bound to time.Now(), and the
// whole epoch value may be a local/parameter the caller bound to time.Now().Unix().
func isNowUnixR(v ssa.Value, resolve func(ssa.Value) ssa.Value) bool {
	v = resolve(v)
	cl, ok := km.Unwrap(v).(*ssa.Call)
	if !ok || km.CalleeFull(cl.Common()) != "(time.Time).Unix" {
		return false
	}
	in, ok := km.Unwrap(resolve(cl.Common().Args[0])).(*ssa.Call)
	return ok && km.CalleeFull(in.Common()) == "time.Now"
}

// primNotExpiredEpoch: <typ>.Expiration >= now (as produced by the reject branch `Expiration < now`)
func primNotExpiredEpoch(typ string) km.Prim {
	return km.Prim{Name: "exp >= now", Rel: func(f km.Fact, resolve func(ssa.Value) ssa.Value) bool {
		switch f.Op {
		case token.GEQ, token.GTR:
			return fieldLoadOf(resolve(f.X), typ, "Expiration") && isNowUnixR(f.Y, resolve)
		case token.LEQ, token.LSS:
			return fieldLoadOf(resolve(f.Y), typ, "Expiration") && isNowUnixR(f.X, resolve)
		}
		return false
	}}
}

// primNotExpiredTime: ¬ExpiresAt.Before(now) / time.Until(ExpiresAt) >= 0 / ExpiresAt.After(now)
func primNotExpiredTime() km.Prim {
	return km.Prim{Name: "ExpiresAt not passed", Direct: func(f km.Fact) bool {
		if f.Op == token.ILLEGAL {
			cl, ok := f.X.(*ssa.Call)
			if !ok {
				return false
			}
			n := km.CalleeFull(cl.Common())
			a := cl.Common().Args
			if n == "(time.Time).Before" && !f.Pol && mentionsField(a[0], "ExpiresAt") {
				return true
			}
			if n == "(time.Time).After" && f.Pol && mentionsField(a[0], "ExpiresAt") {
				return true
			}
			return false
		}
		if f.Op == token.GEQ || f.Op == token.GTR {
			if cl, ok := f.X.(*ssa.Call); ok && km.CalleeFull(cl.Common()) == "time.Until" && mentionsField(cl.Common().Args[0], "ExpiresAt") {
				i, ok := km.ConstInt(f.Y)
				return ok && i == 0
			}
		}
		return false
	}}
}

// c04CurrentType: the claims type whose obligations checkC04 is generating (read by properties that borrow the
// obligations of one token kind).
var c04CurrentType string

type claimsConsumer struct {
	fn    *ssa.Function
	call  *ssa.Call
	typ   string // named type of the claims struct
	alloc ssa.Value
}

func checkC04(c *km.Ctx) {
	r := c.R
	s := km.NewSem(c)
	r.Explain = "Static analysis of /repo: every consumer of a signed artefact is a call state.JWTClaims(tok, &T). Who-may-call rules ensure verification is never skipped and only published keymaster keys and their asymmetric algorithms are accepted; for each consumer the success paths must be dominated by the kind discriminator test (constant per kind; (json key, constant) pairs cross-checked against every producer so that no producer of another kind can satisfy it), by issuer/audience/not-before tests where the property requires them, and the signed expiry must be compared with the clock before any point where the token is honoured. Decides code shape on all paths; cryptographic unforgeability is go-jose's."
	r.NotDecided = []string{"cryptographic strength / parser robustness of go-jose", "byte-level corruption handling"}
	r.Assume = []string{"go-jose verifies signatures with the supplied keys and refuses algorithms outside the supplied list", "go/types + go/ssa model the source faithfully"}

	r.Rule("R-C04-1", "verification is never skipped: no unverified-claims API is called, Claims() is called only inside JWTClaims with published keymaster keys, every token is parsed with the keymaster verifier algorithm list, which contains only asymmetric algorithms", 6)
	r.Rule("R-C04-2", "each consumer honours a token only after comparing its kind discriminator with its own constant; no producer of another kind emits a token that satisfies it", 5)
	r.Rule("R-C04-3", "session, CLI and storage consumers require issuer == this server, audience[0] == this server and not-before <= now; the access-token consumer requires the issuer", 2)
	r.Rule("R-C04-4", "the signed expiry is compared with the clock on every path from verification to a point where the token is honoured", 5)

	// ---------- R-C04-1
	nClaims, nUnsafe, nControl := 0, 0, 0
	jwtClaims := c.MustFunc("R-C04-1", "cmd/keymasterd", "(*RuntimeState).JWTClaims")
	for _, fn := range c.P.AllFuncs {
		if fn.Pkg == nil || !strings.HasPrefix(fn.Pkg.Pkg.Path(), km.ModPath) {
			continue
		}
		clientSide := strings.Contains(fn.Pkg.Pkg.Path(), "/lib/client") || fn.Pkg.Pkg.Path() == km.ModPath+"/cmd/keymaster"
		for _, ci := range km.CallsIn(fn) {
			n := km.CalleeFull(ci.Common())
			if clientSide {
				// the CLI peeks into its own token without keys; it honours nothing. Counted as the positive
				// control of the matcher (the call resolves), not as a violation.
				if strings.Contains(n, "UnsafeClaimsWithoutVerification") {
					nControl++
				}
				continue
			}
			switch {
			case strings.Contains(n, "UnsafeClaimsWithoutVerification") || strings.Contains(n, "UnsafePayloadWithoutVerification"):
				nUnsafe++
				r.Add("R-C04-1", km.FuncName(fn), "unverified claims API", posOf(c, ci), "never called", n, false)
			case n == "(*"+jwtPkg+".JSONWebToken).Claims" || n == "(*"+josePkg+".JSONWebSignature).Verify":
				nClaims++
				ok := fn == jwtClaims
				keyOK := false
				if ok {
					// key argument: element of state.KeymasterPublicKeys
					k := km.Unwrap(km.CallArgs(ci.Common())[1])
					if u, isU := k.(*ssa.UnOp); isU {
						if ia, isIA := u.X.(*ssa.IndexAddr); isIA && mentionsField(ia.X, "KeymasterPublicKeys") {
							keyOK = true
						}
					}
				}
				r.Add("R-C04-1", km.FuncName(fn), "signature verification call", posOf(c, ci), "Claims() only inside JWTClaims, keyed with an element of state.KeymasterPublicKeys", sprintf("in JWTClaims=%v key from KeymasterPublicKeys=%v", ok, keyOK), ok && keyOK)
			}
		}
	}
	if nClaims == 0 {
		r.AnchorLost("R-C04-1", "(*jwt.JSONWebToken).Claims call (positive control for the who-may-call matcher)")
	}
	r.Extra["unverified_claims_calls_server"] = nUnsafe
	r.Extra["unverified_claims_calls_client_side_positive_control"] = nControl
	// JWTClaims returns nil only when some key verified
	if jwtClaims != nil {
		for _, rc := range s.RetCases(jwtClaims) {
			if !km.IsNilConst(rc.Results[0]) {
				continue
			}
			okk := rc.State.All(func(k km.Conj) bool {
				for _, f := range k.List() {
					if f.Op == token.EQL && km.IsNilConst(f.Y) {
						if cl, ok := f.X.(*ssa.Call); ok && km.CalleeFull(cl.Common()) == "(*"+jwtPkg+".JSONWebToken).Claims" {
							return true
						}
					}
				}
				return false
			})
			r.Add("R-C04-1", km.FuncName(jwtClaims), "JWTClaims success", posOf(c, rc.Ret), "nil is returned only after Claims() verified with one of the keys", clipS(rc.State.String(), 200), okk)
		}
	}
	// every ParseSigned uses the verifier list; every JWTClaims token comes from ParseSigned
	verList := RS + "getJoseKeymastedVerifierList"
	listOK := primErrNil("verifier list ok", verList, 1)
	var consumers []claimsConsumer
	type verifyingDecoder struct {
		fn    *ssa.Function
		claim *ssa.Call
		dest  *ssa.Parameter
	}
	var decoders []verifyingDecoder
	for _, fn := range c.P.AllFuncs {
		if fn.Pkg == nil || !pkgIsKMD(fn.Pkg) {
			continue
		}
		for _, ci := range km.CallsIn(fn) {
			cl, isCall := ci.(*ssa.Call)
			if !isCall {
				continue
			}
			switch km.CalleeFull(cl.Common()) {
			case jwtPkg + ".ParseSigned":
				algs := km.Unwrap(cl.Common().Args[1])
				lc, idx := callRes(algs)
				fromList := lc != nil && idx == 0 && km.CalleeFull(lc.Common()) == verList
				guarded := c.F.At(cl).All(func(k km.Conj) bool { return s.Holds(k, listOK) })
				r.Add("R-C04-1", km.FuncName(fn), "ParseSigned algorithm list", posOf(c, cl), "algorithms = getJoseKeymastedVerifierList() (err == nil)", sprintf("from list=%v guarded=%v", fromList, guarded), fromList && guarded)
			case RS + "JWTClaims":
				args := km.CallArgs(cl.Common())
				tok := km.Unwrap(args[1])
				pc, idx := callRes(tok)
				fromParse := pc != nil && idx == 0 && km.CalleeFull(pc.Common()) == jwtPkg+".ParseSigned"
				parsedOK := fromParse && c.F.At(cl).All(func(k km.Conj) bool { return s.Holds(k, primErrNilCall("parse ok", pc, 1)) })
				r.Add("R-C04-1", km.FuncName(fn), "JWTClaims token operand", posOf(c, cl), "the token verified is the result of ParseSigned (err == nil) with the verifier list", sprintf("from ParseSigned=%v guarded=%v", fromParse, parsedOK), fromParse && parsedOK)
				// the destination struct
				if sl, ok := km.Unwrap(args[2]).(*ssa.Slice); ok {
					if dest := sliceSingleElem(sl); dest != nil {
						consumers = append(consumers, claimsConsumer{fn, cl, km.NamedTypeOf(dest.Type()), dest})
					}
				} else if dp, isP := km.Unwrap(args[2]).(*ssa.Parameter); isP && dp.Parent() == fn {
					// a verifying decoder: parses, verifies into the destination its caller names, and hands the
					// verdict back; its callers are the consumers
					decoders = append(decoders, verifyingDecoder{fn, cl, dp})
				}
			}
		}
	}
	for _, d := range decoders {
		// the decoder reports success only after its JWTClaims call verified
		res := d.fn.Signature.Results()
		ei := res.Len() - 1
		if ei < 0 || !isErrorType(res.At(ei).Type()) {
			r.Add("R-C04-1", km.FuncName(d.fn), "verifying decoder reports its verdict", c.P.Pos(d.fn.Pos()), "an error result", "none", false)
			continue
		}
		okV := primErrNilCall("claims verified", d.claim, 0)
		for _, rc := range s.RetCases(d.fn) {
			if !km.IsNilConst(rc.Results[ei]) {
				continue
			}
			good := rc.State.All(func(k km.Conj) bool { return s.Holds(k, okV) })
			r.Add("R-C04-1", km.FuncName(d.fn), "verifying decoder success", posOf(c, rc.Ret), "nil is returned only after JWTClaims verified into the caller's destination", clipS(rc.State.String(), 200), good)
		}
		pi := -1
		for i, q := range d.fn.Params {
			if q == d.dest {
				pi = i
			}
		}
		for _, cs := range c.G.Callers[d.fn] {
			cl, isCall := cs.Instr.(*ssa.Call)
			if !isCall {
				continue
			}
			a := km.CallArgs(cl.Common())
			if pi < 0 || pi >= len(a) {
				continue
			}
			if sl, ok := km.Unwrap(a[pi]).(*ssa.Slice); ok {
				if dest := sliceSingleElem(sl); dest != nil {
					consumers = append(consumers, claimsConsumer{cs.Caller, cl, km.NamedTypeOf(dest.Type()), dest})
				}
			}
		}
	}
	checkVerifierAlgos(c, s)

	sort.Slice(consumers, func(i, j int) bool { return posOf(c, consumers[i].call) < posOf(c, consumers[j].call) })
	if len(consumers) < 3 {
		r.AnchorLost("R-C04-2", sprintf("JWTClaims consumers (found %d, expected at least 3)", len(consumers)))
		return
	}

	// ---------- producers: every struct passed to (*jwt.Builder).Claims
	type producer struct {
		fn     *ssa.Function
		typ    string
		consts map[string]string // json key -> constant stored (for string fields with constant stores)
		keys   map[string]bool   // all json keys of the struct
		pos    string
	}
	var producers []producer
	for _, fn := range c.P.AllFuncs {
		if fn.Pkg == nil || !pkgIsKMD(fn.Pkg) {
			continue
		}
		for _, ci := range km.CallsIn(fn) {
			if !strings.HasSuffix(km.CalleeFull(ci.Common()), "jwt.Builder).Claims") {
				continue
			}
			args := km.CallArgs(ci.Common())
			v := km.Unwrap(args[len(args)-1])
			st := structOf(v.Type())
			if st == nil {
				continue
			}
			p := producer{fn: fn, typ: km.NamedTypeOf(v.Type()), consts: map[string]string{}, keys: jsonKeys(st), pos: posOf(c, ci)}
			// constant stores into the struct cell the value was loaded from (following whole-struct copies of
			// composite literals), and constants established by equality facts at the Claims call
			if u, ok := v.(*ssa.UnOp); ok {
				collectConstFieldStores(u.X, st, p.consts, 0)
				stt := c.F.At(ci)
				if len(stt) > 0 {
					// a field constant holds if every disjunct establishes field == const with the same const, here or
					// inside a validation helper the struct was handed to (parameters resolved to this frame)
					type fc struct{ key, val string }
					var cands []fc
					seenC := map[fc]bool{}
					eqPrim := func(want *fc) km.Prim {
						return km.Prim{Name: "claims field == constant", Rel: func(f km.Fact, resolve func(ssa.Value) ssa.Value) bool {
							if f.Op != token.EQL {
								return false
							}
							for _, pair := range [][2]ssa.Value{{f.X, f.Y}, {f.Y, f.X}} {
								base, fld, ok := km.FieldOfLoad(km.Unwrap(resolve(pair[0])))
								if !ok {
									continue
								}
								if rb := resolve(base); rb != u.X {
									// the struct may be the one a parsing helper validated and handed back by value
									if !cellIsResultOf(u.X, rb) || fieldStoredIn(u.X, fld) {
										continue
									}
								}
								cs, ok := km.ConstString(resolve(pair[1]))
								if !ok {
									continue
								}
								got := fc{jsonKeyByName(v.Type(), fld), cs}
								if want == nil {
									if !seenC[got] {
										seenC[got] = true
										cands = append(cands, got)
									}
									continue
								}
								if got == *want {
									return true
								}
							}
							return false
						}}
					}
					for _, k := range stt {
						s.Holds(k, eqPrim(nil)) // collects candidates; never true
					}
					for i := range cands {
						w := cands[i]
						if stt.All(func(k km.Conj) bool { return s.Holds(k, eqPrim(&w)) }) {
							if _, has := p.consts[w.key]; !has {
								p.consts[w.key] = w.val
							}
						}
					}
				}
			}
			producers = append(producers, p)
		}
	}
	if len(producers) < 3 {
		r.AnchorLost("R-C04-2", sprintf("token producers (found %d, expected at least 3)", len(producers)))
	}

	// ---------- per consumer
	type kind struct {
		typ, key, val string
	}
	var kinds []kind
	for _, cons := range consumers {
		fn := cons.fn
		c04CurrentType = cons.typ
		st := structOf(cons.alloc.Type())
		if st == nil {
			continue
		}
		claimsOK := primErrNilCall("claims verified", cons.call, 0)
		// honour points of this consumer
		honour := honourPoints(c, s, cons.fn, cons.call)
		if len(honour) == 0 {
			r.Add("R-C04-2", km.FuncName(fn), "consumer of "+short(cons.typ), posOf(c, cons.call), "at least one honour point (success return / minting / response) follows verification", "none found", false)
			continue
		}
		// discriminator: a string field with json key type/token_type compared with a constant (or a parameter bound to constants)
		discKey, discVals := "", []string{}
		discPrim := km.Prim{Name: "kind discriminator == constant", Rel: func(f km.Fact, resolve func(ssa.Value) ssa.Value) bool {
			if f.Op != token.EQL {
				return false
			}
			for _, pair := range [][2]ssa.Value{{f.X, f.Y}, {f.Y, f.X}} {
				base, fld, ok := km.FieldOfLoad(km.Unwrap(resolve(pair[0])))
				if !ok || km.NamedTypeOf(base.Type()) != cons.typ {
					continue
				}
				jk := jsonKeyByName(cons.alloc.Type(), fld)
				if jk != "type" && jk != "token_type" {
					continue
				}
				// the wanted kind, seen from the consumer's frame when the comparison sits in a helper
				want := resolve(pair[1])
				if cs, ok := km.ConstString(want); ok {
					discKey = jk
					discVals = appendUniq(discVals, cs)
					return true
				}
				if p, ok := km.Unwrap(want).(*ssa.Parameter); ok {
					vals, all := paramConstStrings(c, p, 0)
					if all && len(vals) > 0 {
						discKey = jk
						for _, v := range vals {
							discVals = appendUniq(discVals, v)
						}
						return true
					}
				}
			}
			return false
		}}
		needIssuer := cons.typ == KMD+".authInfoJWT" || cons.typ == KMD+".storageStringDataJWT" || cons.typ == KMD+".bearerAccessToken"
		needAudNbf := cons.typ == KMD+".authInfoJWT" || cons.typ == KMD+".storageStringDataJWT"
		issuerPrim := km.Prim{Name: "iss == idpGetIssuer()", Rel: func(f km.Fact, resolve func(ssa.Value) ssa.Value) bool {
			if f.Op != token.EQL {
				return false
			}
			isIss := func(v ssa.Value) bool { return isIssuerValue(c, v, 0) }
			return (fieldLoadOf(resolve(f.X), cons.typ, "Issuer") && isIss(resolve(f.Y))) || (fieldLoadOf(resolve(f.Y), cons.typ, "Issuer") && isIss(resolve(f.X)))
		}}
		audLen := km.Prim{Name: "len(aud) >= 1", Rel: func(f km.Fact, resolve func(ssa.Value) ssa.Value) bool {
			cl, ok := f.X.(*ssa.Call)
			if !ok {
				return false
			}
			if b, ok := cl.Common().Value.(*ssa.Builtin); !ok || b.Name() != "len" || !fieldLoadOf(resolve(cl.Common().Args[0]), cons.typ, "Audience") {
				return false
			}
			i, ok := km.ConstInt(f.Y)
			return ok && ((f.Op == token.GEQ && i == 1) || (f.Op == token.GTR && i == 0))
		}}
		aud0 := km.Prim{Name: "aud[0] == idpGetIssuer()", Rel: func(f km.Fact, resolve func(ssa.Value) ssa.Value) bool {
			if f.Op != token.EQL {
				return false
			}
			isAud0 := func(v ssa.Value) bool {
				u, ok := km.Unwrap(v).(*ssa.UnOp)
				if !ok {
					return false
				}
				ia, ok := u.X.(*ssa.IndexAddr)
				if !ok {
					return false
				}
				i, ok := km.ConstInt(ia.Index)
				return ok && i == 0 && fieldLoadOf(resolve(ia.X), cons.typ, "Audience")
			}
			isIss := func(v ssa.Value) bool { return isIssuerValue(c, v, 0) }
			return (isAud0(f.X) && isIss(resolve(f.Y))) || (isAud0(f.Y) && isIss(resolve(f.X)))
		}}
		nbf := km.Prim{Name: "nbf <= now", Rel: func(f km.Fact, resolve func(ssa.Value) ssa.Value) bool {
			switch f.Op {
			case token.LEQ:
				return fieldLoadOf(resolve(f.X), cons.typ, "NotBefore") && isNowUnixR(f.Y, resolve)
			case token.GEQ:
				return fieldLoadOf(resolve(f.Y), cons.typ, "NotBefore") && isNowUnixR(f.X, resolve)
			}
			return false
		}}
		for _, hp := range honour {
			stt := c.F.At(hp.in)
			holdsAll := func(p km.Prim) bool { return stt.All(func(k km.Conj) bool { return s.Holds(k, p) }) }
			okKind := holdsAll(claimsOK) && holdsAll(discPrim)
			r.Add("R-C04-2", km.FuncName(fn), "kind test before "+hp.what, posOf(c, hp.in), "claims verified ∧ discriminator of "+short(cons.typ)+" == its constant", sprintf("ok=%v key=%s vals=%v", okKind, discKey, discVals), okKind)
			if needIssuer {
				var missing []string
				ps := []km.Prim{issuerPrim}
				if needAudNbf {
					ps = append(ps, audLen, aud0, nbf)
				}
				for _, p := range ps {
					if !holdsAll(p) {
						missing = append(missing, p.Name)
					}
				}
				r.Add("R-C04-3", km.FuncName(fn), "issuer/audience/nbf before "+hp.what, posOf(c, hp.in), "iss == this server"+map[bool]string{true: " ∧ len(aud)>=1 ∧ aud[0] == this server ∧ nbf <= now", false: ""}[needAudNbf], sprintf("missing=%v", missing), len(missing) == 0)
			}
		}
		for _, v := range discVals {
			kinds = append(kinds, kind{cons.typ, discKey, v})
		}
	}
	// cross-check kinds against producers
	seenKind := map[kind]bool{}
	for _, k := range kinds {
		if seenKind[k] {
			continue
		}
		seenKind[k] = true
		c04CurrentType = k.typ
		intended := 0
		for _, p := range producers {
			val, hasConst := p.consts[k.key]
			switch {
			case p.typ == k.typ && hasConst && val == k.val:
				intended++
			case p.keys[k.key] && (!hasConst || val == k.val):
				// a different producer can emit this (key, value): kinds are interchangeable
				r.Add("R-C04-2", km.FuncName(p.fn), "producer of "+short(p.typ)+" vs consumer kind "+k.key+"="+k.val, p.pos, "no producer of another kind emits a token carrying "+k.key+"="+k.val, sprintf("struct has key %q; stored constant=%q (const=%v)", k.key, val, hasConst), false)
			}
		}
		r.Add("R-C04-2", short(k.typ), "producer exists for kind "+k.key+"="+k.val, "-", "the kind's own producer writes exactly the constant its consumer checks", sprintf("%d producer(s)", intended), intended >= 1)
	}

	c04CurrentType = KMD + ".authInfoJWT"
	checkNoSideEffectOnRefusal(c, s)
	c04CurrentType = ""
	// ---------- R-C04-4
	checkExpiry(c, s, consumers)
	c04CurrentType = ""

	// a signed storage record is honoured only for the user it was signed for: C07's obligation on GetSigned
	// (record verified ∧ subject == requested user on every path that returns a record), borrowed here because it
	// is the purpose-binding of that token kind
	if r.Remap == nil {
		r.Remap = func(rule, fn, construct string) (string, bool) {
			if rule == "R-C07-3" && construct == "signed record returned" {
				return "R-C04-2", true
			}
			return "", false
		}
		saveExplain, saveND, saveAs := r.Explain, r.NotDecided, r.Assume
		checkC07(c)
		r.Explain, r.NotDecided, r.Assume = saveExplain, saveND, saveAs
		// likewise a CLI web-auth token is honoured only in the session of the user it names (C05's obligation on
		// the document handler: the token's verified subject is compared with the session's user, in one
		// representation, before anything is minted)
		r.Remap = func(rule, fn, construct string) (string, bool) {
			if rule == "R-C05-3" && construct == "CLI session for the token's own user" {
				return "R-C04-2", true
			}
			return "", false
		}
		checkC05(c)
		r.Explain, r.NotDecided, r.Assume = saveExplain, saveND, saveAs
		r.Remap = nil
	}
}

// cellIsResultOf: the local cell (or value) `target` is assigned exactly once, from a call to the module function
// that owns the cell or value `inner`, and every return of that function hands back either `inner` or a zero value -
// so what the function established about inner's fields on its success path holds for target's fields after the call.
func cellIsResultOf(target, inner ssa.Value) bool {
	var owner *ssa.Function
	switch x := inner.(type) {
	case *ssa.Alloc:
		owner = x.Parent()
	case ssa.Instruction:
		owner = x.Parent()
	}
	if owner == nil {
		return false
	}
	cl, idx := callRes(km.CellOrigin(target))
	if cl == nil {
		return false
	}
	g := km.StaticCallee(cl.Common())
	if g == nil || g != owner {
		return false
	}
	innerO := km.CellOrigin(inner)
	loads := 0
	for _, b := range g.Blocks {
		ret, ok := b.Instrs[len(b.Instrs)-1].(*ssa.Return)
		if !ok {
			continue
		}
		rv := km.ReturnValues(ret)
		if idx >= len(rv) {
			return false
		}
		v := km.Unwrap(rv[idx])
		if _, isC := v.(*ssa.Const); isC {
			continue
		}
		if u, isU := v.(*ssa.UnOp); isU && u.Op == token.MUL && u.X == inner {
			loads++
			continue
		}
		if v == inner || v == innerO || km.CellOrigin(v) == innerO {
			loads++
			continue
		}
		return false
	}
	return loads > 0
}

// fieldStoredIn: some instruction writes field `field` of the struct cell addr directly.
func fieldStoredIn(addr ssa.Value, field string) bool {
	refs := addr.Referrers()
	if refs == nil {
		return false
	}
	for _, ref := range *refs {
		if fa, ok := ref.(*ssa.FieldAddr); ok && fa.X == addr && fieldNameOf(fa) == field {
			for _, r2 := range *fa.Referrers() {
				if st, ok := r2.(*ssa.Store); ok && st.Addr == ssa.Value(fa) {
					return true
				}
			}
		}
	}
	return false
}

type honourPoint struct {
	in   ssa.Instruction
	what string
}

// honourPoints of a consumer function: success returns (error result nil, for functions returning an error),
// minting calls, identity lookups and response writes that happen after the claims were verified.
func honourPoints(c *km.Ctx, s *km.Sem, fn *ssa.Function, call *ssa.Call) []honourPoint {
	var out []honourPoint
	res := fn.Signature.Results()
	if res.Len() > 0 && types.Identical(res.At(res.Len()-1).Type(), types.Universe.Lookup("error").Type()) {
		for _, rc := range s.RetCases(fn) {
			last := rc.Results[len(rc.Results)-1]
			if !km.IsNilConst(last) {
				// a serialiser's error passed through is still a success path (re-mint)
				if cl, _ := callRes(km.Unwrap(last)); cl == nil || !strings.HasSuffix(km.CalleeFull(cl.Common()), "Serialize") {
					continue
				}
			}
			if km.InstrDominates(call, rc.Ret) || call.Block().Dominates(rc.Ret.Block()) {
				out = append(out, honourPoint{rc.Ret, "success return"})
				continue
			}
			// a success return that no verification of this function dominates (an answer remembered from an
			// earlier call, a shortcut): it is judged like the others and fails for want of the verified claims
			verified := false
			for _, ci := range km.CallsIn(fn) {
				if km.CalleeFull(ci.Common()) == RS+"JWTClaims" && (km.InstrDominates(ci, rc.Ret) || ci.Block().Dominates(rc.Ret.Block())) {
					verified = true
				}
			}
			// (a return that hands back nothing - "not found": zero values and a nil error - honours nothing)
			empty := true
			for _, rv := range rc.Results[:len(rc.Results)-1] {
				if !isZeroValue(rv) {
					empty = false
				}
			}
			if !verified && !empty {
				out = append(out, honourPoint{rc.Ret, "success return without verification"})
			}
		}
		return out
	}
	// handlers: minting, identity use, body writes
	for _, ci := range km.CallsIn(fn) {
		if !km.InstrDominates(call, ci) {
			continue
		}
		n := km.CalleeFull(ci.Common())
		switch {
		case strings.HasSuffix(n, "jwt.Builder).Serialize"):
			out = append(out, honourPoint{ci, "token minting"})
		case n == RS+"getUserAttributes":
			out = append(out, honourPoint{ci, "user attribute lookup"})
		case n == "encoding/json.Marshal":
			out = append(out, honourPoint{ci, "response body"})
		}
	}
	return out
}

// collectConstFieldStores records constant string stores into fields of the struct cell `addr`, following
// whole-struct copies (`*addr = *complit`).
func collectConstFieldStores(addr ssa.Value, st *types.Struct, out map[string]string, depth int) {
	if depth > 3 {
		return
	}
	refs := addr.Referrers()
	if refs == nil {
		return
	}
	for _, ref := range *refs {
		switch x := ref.(type) {
		case *ssa.FieldAddr:
			if x.X != addr {
				continue
			}
			for _, r2 := range *x.Referrers() {
				if sto, ok := r2.(*ssa.Store); ok {
					if cs, ok := km.ConstString(sto.Val); ok {
						out[jsonKeyOfField(st, x.Field)] = cs
					}
				}
			}
		case *ssa.Store:
			if x.Addr != addr {
				continue
			}
			if u, ok := km.Unwrap(x.Val).(*ssa.UnOp); ok && u.Op == token.MUL {
				collectConstFieldStores(u.X, st, out, depth+1)
			}
		}
	}
}

func sliceSingleElem(sl *ssa.Slice) ssa.Value {
	// variadic `dest ...interface{}`: new [1]interface{}; element 0 := make interface <- *T (alloc)
	a, ok := sl.X.(*ssa.Alloc)
	if !ok {
		return nil
	}
	for _, ref := range *a.Referrers() {
		if ia, ok := ref.(*ssa.IndexAddr); ok {
			for _, r2 := range *ia.Referrers() {
				if st, ok := r2.(*ssa.Store); ok {
					if mi, ok := st.Val.(*ssa.MakeInterface); ok {
						return mi.X
					}
					return st.Val
				}
			}
		}
	}
	return nil
}

func structOf(t types.Type) *types.Struct {
	if p, ok := t.Underlying().(*types.Pointer); ok {
		t = p.Elem()
	}
	st, _ := t.Underlying().(*types.Struct)
	return st
}

func jsonKeyOfField(st *types.Struct, i int) string {
	tag := reflect.StructTag(st.Tag(i)).Get("json")
	if tag == "" {
		return st.Field(i).Name()
	}
	return strings.Split(tag, ",")[0]
}

func jsonKeyByName(t types.Type, name string) string {
	st := structOf(t)
	if st == nil {
		return ""
	}
	for i := 0; i < st.NumFields(); i++ {
		if km.RecordedField(t, st.Field(i).Name()) == name {
			return jsonKeyOfField(st, i)
		}
	}
	return ""
}

func jsonKeys(st *types.Struct) map[string]bool {
	m := map[string]bool{}
	for i := 0; i < st.NumFields(); i++ {
		m[jsonKeyOfField(st, i)] = true
	}
	return m
}

func appendUniq(l []string, s string) []string {
	for _, x := range l {
		if x == s {
			return l
		}
	}
	return append(l, s)
}

// paramConstStrings: the constant strings passed for parameter p at all call sites (all=false if any is not constant).
func paramConstStrings(c *km.Ctx, p *ssa.Parameter, depth int) ([]string, bool) {
	if depth > 3 {
		return nil, false
	}
	fn := p.Parent()
	idx := -1
	for i, q := range fn.Params {
		if q == p {
			idx = i
		}
	}
	var out []string
	sites := c.G.Callers[fn]
	if idx < 0 || len(sites) == 0 {
		return nil, false
	}
	for _, cs := range sites {
		ci, ok := cs.Instr.(ssa.CallInstruction)
		if !ok {
			return nil, false
		}
		a := km.CallArgs(ci.Common())
		if cst, ok := km.ConstString(a[idx]); ok {
			out = appendUniq(out, cst)
			continue
		}
		// handed on from the caller's own parameter
		q, isParam := km.Unwrap(a[idx]).(*ssa.Parameter)
		if !isParam {
			return nil, false
		}
		more, all := paramConstStrings(c, q, depth+1)
		if !all {
			return nil, false
		}
		for _, m := range more {
			out = appendUniq(out, m)
		}
	}
	sort.Strings(out)
	return out, true
}

func checkVerifierAlgos(c *km.Ctx, s *km.Sem) {
	r := c.R
	allowed := map[string]bool{"EdDSA": true, "ES256": true, "ES384": true, "ES512": true, "RS256": true, "RS384": true, "RS512": true, "PS256": true, "PS384": true, "PS512": true}
	if fn := c.MustFunc("R-C04-1", "cmd/keymasterd", "publicToPreferedJoseSigAlgo"); fn != nil {
		for _, rc := range s.RetCases(fn) {
			if !km.IsNilConst(rc.Results[1]) {
				continue
			}
			alg, ok := km.ConstString(rc.Results[0])
			r.Add("R-C04-1", km.FuncName(fn), "algorithm returned without error", posOf(c, rc.Ret), "a constant asymmetric signature algorithm (never none / HS*)", alg, ok && allowed[alg])
		}
	}
	if fn := c.MustFunc("R-C04-1", "cmd/keymasterd", "(*RuntimeState).getJoseKeymastedVerifierList"); fn != nil {
		// the set's keys come only from publicToPreferedJoseSigAlgo over KeymasterPublicKeys, under err == nil
		n := 0
		km.Instrs(fn, func(in ssa.Instruction) {
			// a member of the set: the key of a map update, or the element appended to the list
			var member ssa.Value
			switch x := in.(type) {
			case *ssa.MapUpdate:
				member = x.Key
			case *ssa.Call:
				if b, isB := x.Common().Value.(*ssa.Builtin); isB && b.Name() == "append" && strings.HasSuffix(km.NamedTypeOf(x.Type().Underlying().(*types.Slice).Elem()), "SignatureAlgorithm") {
					member = appendedSingle(x)
					if member == nil {
						n++
						r.Add("R-C04-1", km.FuncName(fn), "verifier algorithm set member", posOf(c, in), "algorithms are derived only from the published keymaster keys (err == nil)", "append of several elements", false)
						return
					}
				}
			}
			if member == nil {
				return
			}
			n++
			mu := struct{ Key ssa.Value }{member}
			cl, idx := callRes(km.Unwrap(mu.Key))
			good := cl != nil && idx == 0 && km.CalleeFull(cl.Common()) == KMD+".publicToPreferedJoseSigAlgo"
			if good {
				good = c.F.At(in).All(func(k km.Conj) bool { return s.Holds(k, primErrNilCall("algo ok", cl, 1)) })
				// its argument is an element of KeymasterPublicKeys
				arg := km.Unwrap(cl.Common().Args[0])
				if u, isU := arg.(*ssa.UnOp); isU {
					if ia, isIA := u.X.(*ssa.IndexAddr); !isIA || !mentionsField(ia.X, "KeymasterPublicKeys") {
						good = false
					}
				} else {
					good = false
				}
			}
			r.Add("R-C04-1", km.FuncName(fn), "verifier algorithm set member", posOf(c, in), "algorithms are derived only from the published keymaster keys (err == nil)", km.ValStr(mu.Key), good)
		})
		if n == 0 {
			r.AnchorLost("R-C04-1", "algorithm set construction in getJoseKeymastedVerifierList")
		}
		checkVerifierListFresh(c, s, "R-C04-1")
	}
	checkRegisteredClaimNames(c, "R-C04-3")
}

// checkRegisteredClaimNames: the claim structures of the daemon carry the registered claims under their
// registered names. The comparisons R-C04-3 / R-C04-4 look at Go fields; a field decoded from a misspelt key
// stays zero for every token that was not written through the same misspelling (a token of an older version, a
// token minted by hand with the shared key), and a zero not-before or expiry passes the comparison.
func checkRegisteredClaimNames(c *km.Ctx, rule string) {
	pk := c.P.Pkg("cmd/keymasterd")
	if pk == nil {
		return
	}
	want := map[string]string{"Issuer": "iss", "Subject": "sub", "Audience": "aud", "Expiration": "exp", "NotBefore": "nbf", "IssuedAt": "iat"}
	registered := map[string]bool{}
	for _, k := range want {
		registered[k] = true
	}
	var names []string
	for n := range pk.Members {
		names = append(names, n)
	}
	sort.Strings(names)
	n := 0
	for _, name := range names {
		tm, ok := pk.Members[name].(*ssa.Type)
		if !ok {
			continue
		}
		st := structOf(tm.Type())
		if st == nil {
			continue
		}
		nReg, nNamed := 0, 0
		for i := 0; i < st.NumFields(); i++ {
			if registered[jsonKeyOfField(st, i)] {
				nReg++
			}
			if _, is := want[km.RecordedField(tm.Type(), st.Field(i).Name())]; is {
				nNamed++
			}
		}
		if nReg < 3 && nNamed < 3 {
			continue // not a claim set
		}
		var bad []string
		for i := 0; i < st.NumFields(); i++ {
			fn := km.RecordedField(tm.Type(), st.Field(i).Name())
			if w, is := want[fn]; is && jsonKeyOfField(st, i) != w {
				bad = append(bad, fn+" is read from \""+jsonKeyOfField(st, i)+"\" (registered name \""+w+"\")")
			}
		}
		n++
		c.R.Add(rule, "cmd/keymasterd."+km.NamedTypeOf(tm.Type())[strings.LastIndex(km.NamedTypeOf(tm.Type()), ".")+1:], "claim names of "+name, c.P.Pos(tm.Pos()), "iss / sub / aud / exp / nbf / iat carry the registered names", strings.Join(bad, "; "), len(bad) == 0)
	}
	if n == 0 {
		c.R.AnchorLost(rule, "claim structures of cmd/keymasterd")
	}
}

// checkVerifierListFresh: the verifier list is computed from the keys published at the time of the call; the set
// of published keys grows when the server is unsealed, so a list remembered from before would make the server
// refuse the tokens it signs afterwards.
func checkVerifierListFresh(c *km.Ctx, s *km.Sem, rule string) {
	fn := c.MustFunc(rule, "cmd/keymasterd", "(*RuntimeState).getJoseKeymastedVerifierList")
	if fn == nil {
		return
	}
	for _, rc := range s.RetCases(fn) {
		if len(rc.Results) != 2 || !km.IsNilConst(rc.Results[1]) {
			continue
		}
		v := km.Unwrap(rc.Results[0])
		stale := ""
		var walk func(v ssa.Value, depth int)
		walk = func(v ssa.Value, depth int) {
			v = km.Unwrap(v)
			if depth > 4 || stale != "" {
				return
			}
			if _, path, ok := km.FieldPath(v); ok {
				stale = "returns the stored field " + path
				return
			}
			if phi, ok := v.(*ssa.Phi); ok {
				for _, e := range phi.Edges {
					walk(e, depth+1)
				}
			}
		}
		walk(v, 0)
		// a list stored into a field and handed out later is the same thing
		c.R.Add(rule, km.FuncName(fn), "verifier list computed at call time", posOf(c, rc.Ret), "the returned list is built in this call from the currently published keys, not read back from a field", stale, stale == "")
	}
}

func checkExpiry(c *km.Ctx, s *km.Sem, consumers []claimsConsumer) {
	r := c.R
	notExpTime := primNotExpiredTime()
	// a consumer that only parses and validates, handing the claims struct back to its callers, is honoured where
	// they use it: each of its call sites takes its place
	var expanded []claimsConsumer
	for _, cons := range consumers {
		res := cons.fn.Signature.Results()
		if res.Len() == 0 || km.NamedTypeOf(res.At(0).Type()) != cons.typ {
			expanded = append(expanded, cons)
			continue
		}
		n := 0
		for _, cs := range c.G.Callers[cons.fn] {
			cl, ok := cs.Instr.(*ssa.Call)
			if !ok {
				continue
			}
			var cell ssa.Value
			for _, ref := range *cl.Referrers() {
				if ex, ok := ref.(*ssa.Extract); ok && ex.Index == 0 {
					for _, r2 := range *ex.Referrers() {
						if st, ok := r2.(*ssa.Store); ok && st.Val == ssa.Value(ex) {
							cell = st.Addr
						}
					}
				}
			}
			expanded = append(expanded, claimsConsumer{cs.Caller, cl, cons.typ, cell})
			n++
		}
		if n == 0 {
			r.AnchorLost("R-C04-4", "callers of the claims-returning consumer "+km.FuncName(cons.fn))
		}
	}
	sort.SliceStable(expanded, func(i, j int) bool { return posOf(c, expanded[i].call) < posOf(c, expanded[j].call) })
	remints := func(fn *ssa.Function, typ string) bool {
		for _, ci := range km.CallsIn(fn) {
			if !strings.HasSuffix(km.CalleeFull(ci.Common()), "jwt.Builder).Claims") {
				continue
			}
			a := km.CallArgs(ci.Common())
			if km.NamedTypeOf(km.Unwrap(a[len(a)-1]).Type()) == typ {
				return true
			}
		}
		return false
	}
	for _, cons := range expanded {
		fn := cons.fn
		c04CurrentType = cons.typ
		switch cons.typ {
		case KMD + ".authInfoJWT":
			if remints(fn, cons.typ) {
				// re-mint with the same exp: not an honour point; require that Expiration is not rewritten
				rewritten := false
				km.Instrs(fn, func(in ssa.Instruction) {
					if st, ok := in.(*ssa.Store); ok {
						if fa, ok := st.Addr.(*ssa.FieldAddr); ok && fieldNameOf(fa) == "Expiration" {
							rewritten = true
						}
					}
				})
				r.Add("R-C04-4", km.FuncName(fn), "re-signed cookie keeps its expiry", c.P.Pos(fn.Pos()), "the re-minting function never writes the exp claim (every later use is checked by checkAuth)", sprintf("exp rewritten=%v", rewritten), !rewritten)
				continue
			}
			// getAuthInfoFromJWT exports ExpiresAt = time.Unix(claims.Expiration, 0)
			exported := false
			km.Instrs(fn, func(in ssa.Instruction) {
				if st, ok := in.(*ssa.Store); ok {
					if fa, ok := st.Addr.(*ssa.FieldAddr); ok && fieldNameOf(fa) == "ExpiresAt" {
						if cl, ok := km.Unwrap(st.Val).(*ssa.Call); ok && km.CalleeFull(cl.Common()) == "time.Unix" && fieldLoadOf(cl.Common().Args[0], cons.typ, "Expiration") {
							exported = true
						}
					}
				}
			})
			r.Add("R-C04-4", km.FuncName(fn), "signed expiry exported to callers", c.P.Pos(fn.Pos()), "authInfo.ExpiresAt = time.Unix(claims.exp, 0)", sprintf("%v", exported), exported)
			// every user of the exported info tests it before honouring
			users := authInfoUsers(c, fn)
			for _, u := range users {
				displayOnly := km.NameOf(u.fn) == "writeFailureResponse" || km.NameOf(u.fn) == "logoutHandler"
				if !displayOnly && !c.P.IsRecorded(u.fn) {
					// a piece of one of the two cut out into a function new to the tree
					callers := c.G.Callers[u.fn]
					displayOnly = len(callers) > 0
					for _, cs := range callers {
						if n := km.NameOf(cs.Caller); n != "writeFailureResponse" && n != "logoutHandler" {
							displayOnly = false
						}
					}
				}
				switch {
				case displayOnly:
					r.Add("R-C04-4", km.FuncName(u.fn), "display-only use of a session token", posOf(c, u.call), "result used only to choose a page / a display name (no honour point)", "tabled", true)
					continue
				}
				hps := infoHonourPoints(c, s, u.fn, u.call)
				if len(hps) == 0 {
					r.Add("R-C04-4", km.FuncName(u.fn), "use of a verified session/CLI token", posOf(c, u.call), "honour points identified", "none found: new consumer must be reviewed", false)
				}
				for _, hp := range hps {
					st := c.F.At(hp.in)
					ok := st.All(func(k km.Conj) bool { return s.Holds(k, notExpTime) })
					r.Add("R-C04-4", km.FuncName(u.fn), "expiry before "+hp.what, posOf(c, hp.in), "ExpiresAt compared with the clock (not passed)", clipS(st.String(), 200), ok)
				}
			}
		default:
			p := primNotExpiredEpoch(cons.typ)
			for _, hp := range honourPoints(c, s, fn, cons.call) {
				st := c.F.At(hp.in)
				ok := st.All(func(k km.Conj) bool { return s.Holds(k, p) })
				r.Add("R-C04-4", km.FuncName(fn), "expiry of "+short(cons.typ)+" before "+hp.what, posOf(c, hp.in), "claims.exp >= now", clipS(st.String(), 200), ok)
			}
		}
	}
}

type infoUser struct {
	fn   *ssa.Function
	call *ssa.Call
}

// authInfoUsers: call sites of getAuthInfoFromJWT and of its thin wrapper getAuthInfoFromAuthJWT outside these two.
func authInfoUsers(c *km.Ctx, get *ssa.Function) []infoUser {
	var out []infoUser
	seen := map[*ssa.Function]bool{}
	var walk func(f *ssa.Function)
	walk = func(f *ssa.Function) {
		if seen[f] {
			return
		}
		seen[f] = true
		for _, cs := range c.G.Callers[f] {
			cl, ok := cs.Instr.(*ssa.Call)
			if !ok {
				continue
			}
			if km.NameOf(cs.Caller) == "getAuthInfoFromAuthJWT" || returnsResultOf(cs.Caller, cl) {
				walk(cs.Caller)
				continue
			}
			// a reading stage new to the tree that hands the info (and a verdict) to the handler it was cut out
			// of: the handler is the user
			if res := cs.Caller.Signature.Results(); !c.P.IsRecorded(cs.Caller) && handsBackInfo(cs.Caller, cl) && !(res.Len() == 2 && km.NamedTypeOf(res.At(0).Type()) == KMD+".authInfo" && isErrorType(res.At(1).Type())) {
				walk(cs.Caller)
				continue
			}
			out = append(out, infoUser{cs.Caller, cl})
		}
	}
	walk(get)
	sort.Slice(out, func(i, j int) bool { return posOf(c, out[i].call) < posOf(c, out[j].call) })
	return out
}

func infoHonourPoints(c *km.Ctx, s *km.Sem, fn *ssa.Function, call *ssa.Call) []honourPoint {
	var out []honourPoint
	res := fn.Signature.Results()
	if res.Len() == 2 && km.NamedTypeOf(res.At(0).Type()) == KMD+".authInfo" {
		// checkAuth: the success return that hands out this info
		for _, rc := range s.RetCases(fn) {
			if !km.IsNilConst(rc.Results[1]) {
				continue
			}
			if a, ok := km.Unwrap(rc.Results[0]).(*ssa.Alloc); ok && allocStoresWhole(a, km.CalleeFull(call.Common())) {
				out = append(out, honourPoint{rc.Ret, "admitting the session"})
			}
		}
		return out
	}
	for _, ci := range km.CallsIn(fn) {
		if !km.InstrDominates(call, ci) {
			continue
		}
		n := km.CalleeFull(ci.Common())
		switch {
		case n == RS+"genNewSerializedAuthJWT":
			out = append(out, honourPoint{ci, "minting a session from the token"})
		case ci.Common().IsInvoke() && ci.Common().Method.Name() == "Write" && km.NamedTypeOf(ci.Common().Value.Type()) == "net/http.ResponseWriter":
			out = append(out, honourPoint{ci, "answering OK"})
		}
	}
	return out
}

// returnsResultOf: fn is a thin wrapper around call: every return of fn that is not a zero value hands back the
// call's first result as fn's first result.
func returnsResultOf(fn *ssa.Function, call *ssa.Call) bool {
	// thin: straight-line code (a function that tests the info before handing it on is a user, not a wrapper)
	nb := 0
	for _, b := range fn.Blocks {
		if fn.Recover == nil || b != fn.Recover {
			nb++
		}
	}
	if nb != 1 {
		return false
	}
	n := 0
	for _, b := range fn.Blocks {
		ret, ok := b.Instrs[len(b.Instrs)-1].(*ssa.Return)
		if !ok {
			continue
		}
		rv := km.ReturnValues(ret)
		if len(rv) == 0 {
			return false
		}
		v := km.CellOrigin(km.Unwrap(rv[0]))
		if cl, idx := callRes(v); cl == call && idx == 0 {
			n++
			continue
		}
		if _, isC := v.(*ssa.Const); isC {
			continue
		}
		return false
	}
	return n > 0
}

// isIssuerValue: v is state.idpGetIssuer(), or a parameter every caller binds to it.
func isIssuerValue(c *km.Ctx, v ssa.Value, depth int) bool {
	v = km.CellOrigin(km.Unwrap(v))
	if cl, ok := v.(*ssa.Call); ok {
		return km.CalleeFull(cl.Common()) == RS+"idpGetIssuer"
	}
	p, ok := v.(*ssa.Parameter)
	if !ok || depth > 3 {
		return false
	}
	fn := p.Parent()
	idx := -1
	for i, q := range fn.Params {
		if q == p {
			idx = i
		}
	}
	sites := c.G.Callers[fn]
	if idx < 0 || len(sites) == 0 || len(c.G.AddrTaken[fn]) > 0 {
		return false
	}
	for _, cs := range sites {
		ci, isCI := cs.Instr.(ssa.CallInstruction)
		if !isCI {
			return false
		}
		a := km.CallArgs(ci.Common())
		if idx >= len(a) || !isIssuerValue(c, a[idx], depth+1) {
			return false
		}
	}
	return true
}

// checkNoSideEffectOnRefusal: "rejected without side effects" for the session-level upgrade: the function that
// re-signs the cookie writes to the response (Set-Cookie, directly or through a cookie-writing helper) only on
// paths on which the re-signing of the presented cookie succeeded. A cookie written first and the error looked at
// afterwards blanks the browser's session when the presented cookie was refused.
func checkNoSideEffectOnRefusal(c *km.Ctx, s *km.Sem) {
	r := c.R
	upd := c.MustFunc("R-C04-2", "cmd/keymasterd", "(*RuntimeState).updateAuthCookieAuthlevel")
	if upd == nil {
		return
	}
	resignOK := primErrNil("re-signing succeeded", RS+"updateAuthJWTWithNewAuthLevel", 1)
	writesCookie := func(g *ssa.Function) bool {
		if g == nil || g.Blocks == nil {
			return false
		}
		for _, ci := range km.CallsIn(g) {
			if km.CalleeFull(ci.Common()) == "net/http.SetCookie" {
				return true
			}
		}
		return false
	}
	n := 0
	for _, ci := range km.CallsIn(upd) {
		name := km.CalleeFull(ci.Common())
		isWrite := name == "net/http.SetCookie" || (strings.HasSuffix(name, "Header).Set") || strings.HasSuffix(name, "Header).Add"))
		if !isWrite {
			if g := km.StaticCallee(ci.Common()); g != nil && c.InModule(g) && writesCookie(g) {
				isWrite = true
			}
		}
		if !isWrite {
			continue
		}
		n++
		st := c.F.At(ci)
		ok := len(st) > 0 && st.All(func(k km.Conj) bool { return s.Holds(k, resignOK) })
		r.Add("R-C04-2", km.FuncName(upd), "cookie written only after the presented one was accepted", posOf(c, ci), "Set-Cookie (directly or through a helper) only on paths where updateAuthJWTWithNewAuthLevel returned no error", clipS(st.String(), 200), ok)
	}
	if n == 0 {
		r.AnchorLost("R-C04-2", "cookie write in updateAuthCookieAuthlevel")
	}
}

// isZeroValue: v is a constant zero (false, 0, "", nil) - or an untouched zero cell of a named result.
func isZeroValue(v ssa.Value) bool {
	cst, ok := km.Unwrap(v).(*ssa.Const)
	if !ok {
		return false
	}
	if cst.Value == nil {
		return true
	}
	switch cst.Value.Kind() {
	case constant.Bool:
		return !constant.BoolVal(cst.Value)
	case constant.String:
		return constant.StringVal(cst.Value) == ""
	case constant.Int, constant.Float:
		return constant.Sign(cst.Value) == 0
	}
	return false
}

// handsBackInfo: one of fn's results is the info the call produced (fn reads and checks the token for its caller).
func handsBackInfo(fn *ssa.Function, call *ssa.Call) bool {
	for _, b := range fn.Blocks {
		ret, ok := b.Instrs[len(b.Instrs)-1].(*ssa.Return)
		if !ok {
			continue
		}
		for _, rv := range km.ReturnValues(ret) {
			if cl, idx := callRes(km.CellOrigin(km.Unwrap(rv))); cl == call && idx == 0 {
				return true
			}
		}
	}
	return false
}
