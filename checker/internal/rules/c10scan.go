package rules

import (
	"go/types"
	"strings"

	"kmcheck/internal/km"

	"golang.org/x/tools/go/ssa"
)

// riskSite is a construct that can panic at run time on malformed input.
type riskSite struct {
	fn   *ssa.Function
	in   ssa.Instruction
	kind string // index | slice | assert | deref | panic
	expr string
}

// scanRisks lists the constructs in fn that can panic: non-constant or slice indexing, slicing, single-result
// type assertions, explicit panics. Range-loop element accesses (index produced by the range over the same
// operand) and constant indexes into arrays are not listed.
func scanRisks(fn *ssa.Function) []riskSite {
	var out []riskSite
	km.Instrs(fn, func(in ssa.Instruction) {
		switch x := in.(type) {
		case *ssa.IndexAddr:
			if isRangeElem(x.X, x.Index) {
				return
			}
			if arr := arrayLen(x.X.Type()); arr >= 0 {
				if i, ok := km.ConstInt(x.Index); ok && i >= 0 && i < arr {
					return
				}
			}
			out = append(out, riskSite{fn, in, "index", km.ValStr(x.X) + "[" + km.ValStr(x.Index) + "]"})
		case *ssa.Index:
			if arr := arrayLen(x.X.Type()); arr >= 0 {
				if i, ok := km.ConstInt(x.Index); ok && i >= 0 && i < arr {
					return
				}
			}
			if _, isStr := x.X.Type().Underlying().(*types.Basic); isStr {
				out = append(out, riskSite{fn, in, "index", km.ValStr(x.X) + "[" + km.ValStr(x.Index) + "]"})
				return
			}
			out = append(out, riskSite{fn, in, "index", km.ValStr(x.X) + "[" + km.ValStr(x.Index) + "]"})
		case *ssa.Slice:
			if x.Low == nil && x.High == nil {
				return // s[:] of an array pointer or slice never panics (nil array pointer aside)
			}
			if arr := arrayLen(x.X.Type()); arr >= 0 {
				lo, okl := int64(0), true
				if x.Low != nil {
					lo, okl = km.ConstInt(x.Low)
				}
				hi, okh := arr, true
				if x.High != nil {
					hi, okh = km.ConstInt(x.High)
				}
				if okl && okh && 0 <= lo && lo <= hi && hi <= arr {
					return
				}
			}
			out = append(out, riskSite{fn, in, "slice", km.ValStr(x.X) + "[" + optVal(x.Low) + ":" + optVal(x.High) + "]"})
		case *ssa.TypeAssert:
			if !x.CommaOk {
				out = append(out, riskSite{fn, in, "assert", km.ValStr(x.X) + ".(" + x.AssertedType.String() + ")"})
			}
		case *ssa.Panic:
			out = append(out, riskSite{fn, in, "panic", km.ValStr(x.X)})
		case *ssa.Call:
			// library calls that index their argument without a length test of their own
			if _, _, ok := libMinLen(x); ok {
				out = append(out, riskSite{fn, in, "libcall", km.ValStr(x)})
			}
		}
	})
	return out
}

// libMinLen: call is a standard-library function that panics when its byte-slice operand is shorter than n
// (encoding/binary's fixed-width readers and writers); returns the operand and n.
func libMinLen(call *ssa.Call) (ssa.Value, int64, bool) {
	name := km.CalleeFull(call.Common())
	var n int64
	switch {
	case !strings.HasPrefix(name, "(encoding/binary.bigEndian).") && !strings.HasPrefix(name, "(encoding/binary.littleEndian)."):
		return nil, 0, false
	case strings.HasSuffix(name, "Uint16"):
		n = 2
	case strings.HasSuffix(name, "Uint32"):
		n = 4
	case strings.HasSuffix(name, "Uint64"):
		n = 8
	default:
		return nil, 0, false
	}
	args := call.Common().Args
	if len(args) < 2 {
		return nil, 0, false
	}
	return args[1], n, true
}

func optVal(v ssa.Value) string {
	if v == nil {
		return ""
	}
	return km.ValStr(v)
}

func arrayLen(t types.Type) int64 {
	if p, ok := t.Underlying().(*types.Pointer); ok {
		t = p.Elem()
	}
	if a, ok := t.Underlying().(*types.Array); ok {
		return a.Len()
	}
	return -1
}

// isRangeElem: idx is the induction variable of a range loop over x (rangeindex phi + 1 compared with len(x)).
func isRangeElem(x ssa.Value, idx ssa.Value) bool {
	b, ok := idx.(*ssa.BinOp)
	if !ok {
		return false
	}
	phi, ok := b.X.(*ssa.Phi)
	if !ok || phi.Comment != "rangeindex" {
		return false
	}
	// the loop bound: some referrer of b is `b < len(x')` with x' the same operand
	for _, ref := range *b.Referrers() {
		cmp, ok := ref.(*ssa.BinOp)
		if !ok {
			continue
		}
		if l, ok := cmp.Y.(*ssa.Call); ok {
			if bi, ok := l.Common().Value.(*ssa.Builtin); ok && bi.Name() == "len" && sameOperand(l.Common().Args[0], x) {
				return true
			}
		}
	}
	return false
}

func sameOperand(a, b ssa.Value) bool {
	if a == b {
		return true
	}
	return km.ValStr(a) == km.ValStr(b)
}

func init() {
	km.DumpHook = func(p *km.Prog, what string) bool {
		if what != "risks" {
			return false
		}
		for _, fn := range p.AllFuncs {
			if fn.Pkg == nil {
				continue
			}
			pp := fn.Pkg.Pkg.Path()
			if pp != certgenPkg && pp != KMD && pp != km.ModPath+"/lib/server/aws_identity_cert" {
				continue
			}
			for _, rs := range scanRisks(fn) {
				println(km.FuncName(fn), rs.kind, rs.expr, p.InstrPos(rs.in))
			}
		}
		return true
	}
}
