package rules

import (
	"fmt"
	"go/token"
	"go/types"
	"regexp"
	"sort"
	"strings"

	"kmcheck/internal/km"

	"golang.org/x/tools/go/ssa"
)

const (
	KMD = km.KMD
	RS  = "(*" + KMD + ".RuntimeState)."
)

// Protected sinks: resolved callee full name -> class.
var protectedSinks = map[string]string{
	RS + "LoadUserProfile":                                        "profile-read",
	RS + "SaveUserProfile":                                        "profile-write",
	RS + "DeleteUserProfile":                                      "profile-write",
	RS + "GetUsers":                                               "profile-read",
	RS + "UpsertSigned":                                           "signed-store",
	RS + "DeleteSigned":                                           "signed-store",
	RS + "genNewSerializedAuthJWT":                                "mint-session",
	RS + "updateAuthJWTWithNewAuthLevel":                          "mint-session",
	RS + "generateAuthJWT":                                        "mint-cli-token",
	RS + "sendBootstrapOtpEmail":                                  "email",
	km.ModPath + "/lib/certgen.GenSSHCertFileString":              "sign-cert",
	km.ModPath + "/lib/certgen.GenUserX509Cert":                   "sign-cert",
	km.ModPath + "/lib/certgen.GenIPRestrictedX509Cert":           "sign-cert",
	"crypto/x509.CreateCertificate":                               "sign-cert",
	"(*golang.org/x/crypto/ssh.Certificate).SignCert":             "sign-cert",
	"(*github.com/go-jose/go-jose/v4/jwt.Builder).Serialize":      "mint-token",
	"iface:(github.com/go-jose/go-jose/v4/jwt.Builder).Serialize": "mint-token",
	"(*" + km.ModPath + "/lib/vip.Client).StartUserVIPPush":       "2fa-start",
	"(*" + km.ModPath + "/lib/authenticators/okta.PasswordAuthenticator).ValidateUserPush": "2fa-start",
}

// stores into these RuntimeState map fields are second-factor transaction starts
var transactionMaps = map[string]bool{"localAuthData": true, "vipPushCookie": true}

type sinkSite struct {
	in    ssa.Instruction
	name  string
	class string
}

// sinksIn lists the protected sinks inside fn (calls by resolved callee, and stores into transaction maps).
func sinksIn(c *km.Ctx, fn *ssa.Function) []sinkSite {
	var out []sinkSite
	km.Instrs(fn, func(in ssa.Instruction) {
		if ci, ok := in.(ssa.CallInstruction); ok {
			n := km.CalleeFull(ci.Common())
			if cl, ok := protectedSinks[n]; ok {
				out = append(out, sinkSite{in, short(n), cl})
			}
		}
		if mu, ok := in.(*ssa.MapUpdate); ok {
			if x, f, ok := km.FieldOfLoad(mu.Map); ok && transactionMaps[f] && km.NamedTypeOf(x.Type()) == KMD+".RuntimeState" {
				out = append(out, sinkSite{in, "store:" + f, "2fa-start"})
			}
		}
	})
	return out
}

func short(n string) string { return strings.ReplaceAll(n, km.ModPath+"/", "") }

// reachableFrom computes the module functions reachable from root (static calls, closures, and interface calls
// resolved by CHA inside the module).
func reachableFrom(c *km.Ctx, stop map[*ssa.Function]bool, roots ...*ssa.Function) map[*ssa.Function]bool {
	return c.P.Reachable(c.G, roots, func(cc *ssa.CallCommon) []*ssa.Function { return c.P.ImplementorsOf(cc) }, stop)
}

func sortedFuncs(m map[*ssa.Function]bool) []*ssa.Function {
	var out []*ssa.Function
	for f := range m {
		out = append(out, f)
	}
	sort.Slice(out, func(i, j int) bool { return out[i].String() < out[j].String() })
	return out
}

// primSite builds a SitePred from prims that must all hold.
func allPrims(s *km.Sem, ps ...km.Prim) km.SitePred {
	return func(st km.DNF, at ssa.Instruction) bool {
		return st.All(func(k km.Conj) bool {
			for _, p := range ps {
				if !s.Holds(k, p) {
					return false
				}
			}
			return true
		})
	}
}

func rootSet(fs []*ssa.Function) map[*ssa.Function]bool {
	m := map[*ssa.Function]bool{}
	for _, f := range fs {
		m[f] = true
	}
	return m
}

// errNilOf: fact "result #idx of a call to callee is nil".
func primErrNil(name, callee string, idx int) km.Prim {
	return km.Prim{Name: name, Direct: func(f km.Fact) bool {
		if f.Op != token.EQL || !km.IsNilConst(f.Y) {
			return false
		}
		c, i := callRes(f.X)
		return c != nil && i == idx && km.CalleeFull(c.Common()) == callee
	}}
}

func callRes(v ssa.Value) (*ssa.Call, int) {
	switch x := v.(type) {
	case *ssa.Call:
		return x, 0
	case *ssa.Extract:
		if c, ok := x.Tuple.(*ssa.Call); ok {
			return c, x.Index
		}
	}
	return nil, 0
}

func posOf(c *km.Ctx, in ssa.Instruction) string { return c.P.InstrPos(in) }

func sprintf(f string, a ...any) string { return fmt.Sprintf(f, a...) }

// membership recognises a fact that says "elem is a member of list" in one of the idioms in use:
// slices.Contains(list, elem) is true; slices.Index(list, elem) >= 0 (or != -1, > -1); the comma-ok of a map
// lookup m[elem]. (Equality with a ranged-over element is handled by the callers, which know the list field.)
func membership(f km.Fact) (list, elem ssa.Value, ok bool) {
	if l, e, isM := memberCall(f, true); isM {
		return l, e, true
	}
	cl, idx := callRes(f.X)
	if cl != nil && idx == 0 {
		name := km.CalleeFull(cl.Common())
		if i := strings.Index(name, "["); i > 0 {
			name = name[:i]
		}
		args := cl.Common().Args
		switch name {
		case "slices.Contains":
			if f.Op == token.ILLEGAL && f.Pol && len(args) == 2 {
				return km.Unwrap(args[0]), km.Unwrap(args[1]), true
			}
		case "slices.Index":
			if k, isK := km.ConstInt(f.Y); isK && len(args) == 2 {
				if (f.Op == token.GEQ && k == 0) || (f.Op == token.NEQ && k == -1) || (f.Op == token.GTR && k == -1) {
					return km.Unwrap(args[0]), km.Unwrap(args[1]), true
				}
			}
		}
	}
	if f.Op == token.ILLEGAL && f.Pol {
		if ex, isEx := f.X.(*ssa.Extract); isEx && ex.Index == 1 {
			if lk, isLk := ex.Tuple.(*ssa.Lookup); isLk && lk.CommaOk {
				return km.Unwrap(lk.X), km.Unwrap(lk.Index), true
			}
		}
	}
	return nil, nil, false
}

// isConfigList: v is (a load of) the configuration slice Base.<field>
func isConfigList(v ssa.Value, field string) bool {
	_, path, ok := km.FieldPath(km.Unwrap(v))
	return ok && strings.HasSuffix(path, "Base."+field)
}

// nonMembership recognises a fact that says "elem is not a member of list": slices.Contains(list, elem) is false,
// slices.Index(list, elem) < 0 (or == -1), or the comma-ok of a map lookup is false.
func nonMembership(f km.Fact) (list, elem ssa.Value, ok bool) {
	if l, e, isM := memberCall(f, false); isM {
		return l, e, true
	}
	cl, idx := callRes(f.X)
	if cl != nil && idx == 0 {
		name := km.CalleeFull(cl.Common())
		if i := strings.Index(name, "["); i > 0 {
			name = name[:i]
		}
		args := cl.Common().Args
		switch name {
		case "slices.Contains":
			if f.Op == token.ILLEGAL && !f.Pol && len(args) == 2 {
				return km.Unwrap(args[0]), km.Unwrap(args[1]), true
			}
		case "slices.Index":
			if k, isK := km.ConstInt(f.Y); isK && len(args) == 2 {
				if (f.Op == token.LSS && k == 0) || (f.Op == token.EQL && k == -1) || (f.Op == token.LEQ && k == -1) {
					return km.Unwrap(args[0]), km.Unwrap(args[1]), true
				}
			}
		}
	}
	if f.Op == token.ILLEGAL && !f.Pol {
		if ex, isEx := f.X.(*ssa.Extract); isEx && ex.Index == 1 {
			if lk, isLk := ex.Tuple.(*ssa.Lookup); isLk && lk.CommaOk {
				return km.Unwrap(lk.X), km.Unwrap(lk.Index), true
			}
		}
	}
	return nil, nil, false
}

var reInsert = regexp.MustCompile(`(?is)^\s*insert\s+(or\s+replace\s+)?into\s+(\w+)\s*\(([^)]*)\)`)
var reConflict = regexp.MustCompile(`(?is)on\s+conflict\s*\(([^)]*)\)\s*do\s+update\s+set\s+(.*)$`)

// checkUpsertStatements: every constant SQL statement of keymasterd that inserts into `table` replaces the whole
// row (insert or replace) or, on conflict, updates every payload column from the new values; a plain insert or
// an update list that leaves a payload column out keeps the old content under the new acknowledgement.
func checkUpsertStatements(c *km.Ctx, rule, table string, payload []string, min int) {
	n := 0
	seen := map[string]bool{}
	for _, fn := range c.P.AllFuncs {
		if fn.Pkg == nil || !pkgIsKMD(fn.Pkg) {
			continue
		}
		km.Instrs(fn, func(in ssa.Instruction) {
			for _, op := range in.Operands(nil) {
				if op == nil || *op == nil {
					continue
				}
				cs, ok := km.ConstString(*op)
				if !ok {
					continue
				}
				m := reInsert.FindStringSubmatch(cs)
				if m == nil || !strings.EqualFold(m[2], table) || seen[cs] {
					continue
				}
				seen[cs] = true
				n++
				var cols []string
				for _, col := range strings.Split(m[3], ",") {
					cols = append(cols, strings.ToLower(strings.TrimSpace(col)))
				}
				okStmt, found := true, "insert or replace: the whole row is rewritten"
				if m[1] == "" {
					cm := reConflict.FindStringSubmatch(cs)
					if cm == nil {
						okStmt, found = false, "plain insert without a conflict clause"
					} else {
						set := map[string]bool{}
						for _, asg := range strings.Split(cm[2], ",") {
							parts := strings.SplitN(asg, "=", 2)
							if len(parts) == 2 {
								l := strings.ToLower(strings.TrimSpace(parts[0]))
								rhs := strings.ToLower(strings.TrimSpace(parts[1]))
								if rhs == "excluded."+l {
									set[l] = true
								}
							}
						}
						var missing []string
						for _, pc := range payload {
							if !set[pc] {
								missing = append(missing, pc)
							}
						}
						found = sprintf("on conflict updates %d columns; payload columns not refreshed from the new row: %v", len(set), missing)
						okStmt = len(missing) == 0
					}
				}
				for _, pc := range payload {
					has := false
					for _, col := range cols {
						if col == pc {
							has = true
						}
					}
					if !has {
						okStmt, found = false, "payload column "+pc+" is not inserted"
					}
				}
				c.R.Add(rule, km.FuncName(fn), "upsert statement for "+table+" #"+sprintf("%d", n), posOf(c, in), "insert or replace, or on conflict every payload column ("+strings.Join(payload, ", ")+") = excluded.<column>", found, okStmt)
			}
		})
	}
	if n < min {
		c.R.AnchorLost(rule, sprintf("constant insert statements for %s (found %d, expected >= %d)", table, n, min))
	}
}

// tstore is a field store of a template, with the stored value expressed in the frame of the function that uses
// the template (a constructor's parameter is replaced by the argument it was given).
type tstore struct {
	At  *ssa.Store
	Val ssa.Value
}

// templateStores: the field stores of struct type typ that make up the template fn fills in: those in fn itself,
// and those in a constructor helper of fn (a module function returning the template type `ctor`) whose result
// fn keeps as its template.
func templateStores(c *km.Ctx, fn *ssa.Function, typ, ctor string) map[string][]tstore {
	out := map[string][]tstore{}
	for f, ss := range storesByField(fn, typ) {
		for _, st := range ss {
			out[f] = append(out[f], tstore{st, st.Val})
		}
	}
	for _, ci := range km.CallsIn(fn) {
		g := km.StaticCallee(ci.Common())
		if g == nil || g.Blocks == nil || !c.InModule(g) || g == fn {
			continue
		}
		res := g.Signature.Results()
		if res.Len() < 1 || km.NamedTypeOf(res.At(0).Type()) != ctor {
			continue
		}
		args := km.CallArgs(ci.Common())
		for f, ss := range storesByField(g, typ) {
			for _, st := range ss {
				v := km.Unwrap(st.Val)
				if p, ok := v.(*ssa.Parameter); ok {
					for i, q := range g.Params {
						if q == p && i < len(args) {
							v = km.Unwrap(args[i])
						}
					}
				}
				out[f] = append(out[f], tstore{st, v})
			}
		}
	}
	return out
}

// isErrorType: t is the predeclared error interface.
func isErrorType(t types.Type) bool {
	return types.Identical(t, types.Universe.Lookup("error").Type())
}

// evalString folds a string expression built at initialisation from constants: literals, concatenation, a
// package-level string variable assigned once, and strings.Join over a slice literal (local or package-level,
// assigned once) of such strings.
func evalString(c *km.Ctx, v ssa.Value, depth int) (string, bool) {
	if depth > 6 {
		return "", false
	}
	if s, ok := km.ConstString(v); ok {
		return s, true
	}
	switch x := km.Unwrap(v).(type) {
	case *ssa.BinOp:
		if x.Op != token.ADD {
			return "", false
		}
		a, ok1 := evalString(c, x.X, depth+1)
		b, ok2 := evalString(c, x.Y, depth+1)
		return a + b, ok1 && ok2
	case *ssa.UnOp:
		if g, ok := x.X.(*ssa.Global); ok && x.Op == token.MUL {
			if st := singleStoreTo(c, g); st != nil {
				return evalString(c, st.Val, depth+1)
			}
		}
	case *ssa.Call:
		if km.CalleeFull(x.Common()) == "strings.Join" {
			elems, ok := evalStringSlice(c, x.Common().Args[0], depth+1)
			sep, ok2 := evalString(c, x.Common().Args[1], depth+1)
			if ok && ok2 {
				return strings.Join(elems, sep), true
			}
		}
	}
	return "", false
}

// singleStoreTo: the only store into package-level variable g anywhere in the module (nil if none or several).
func singleStoreTo(c *km.Ctx, g *ssa.Global) *ssa.Store {
	var found *ssa.Store
	n := 0
	for _, fn := range c.P.AllFuncs {
		if fn.Pkg != g.Pkg {
			continue
		}
		km.Instrs(fn, func(in ssa.Instruction) {
			if st, ok := in.(*ssa.Store); ok && st.Addr == ssa.Value(g) {
				found = st
				n++
			}
		})
	}
	if n != 1 {
		return nil
	}
	return found
}

// evalStringSlice: the elements of a []string built as a composite literal of foldable strings.
func evalStringSlice(c *km.Ctx, v ssa.Value, depth int) ([]string, bool) {
	if depth > 6 {
		return nil, false
	}
	v = km.Unwrap(v)
	if u, ok := v.(*ssa.UnOp); ok && u.Op == token.MUL {
		if g, ok := u.X.(*ssa.Global); ok {
			// the slice variable must not be written element-wise or re-assigned anywhere
			st := singleStoreTo(c, g)
			if st == nil {
				return nil, false
			}
			for _, fn := range c.P.AllFuncs {
				bad := false
				km.Instrs(fn, func(in ssa.Instruction) {
					if ia, ok := in.(*ssa.IndexAddr); ok {
						if l, ok := km.Unwrap(ia.X).(*ssa.UnOp); ok && l.X == ssa.Value(g) {
							for _, ref := range *ia.Referrers() {
								if _, isSt := ref.(*ssa.Store); isSt {
									bad = true
								}
							}
						}
					}
				})
				if bad {
					return nil, false
				}
			}
			return evalStringSlice(c, st.Val, depth+1)
		}
	}
	sl, ok := v.(*ssa.Slice)
	if !ok {
		return nil, false
	}
	arr, ok := sl.X.(*ssa.Alloc)
	if !ok {
		return nil, false
	}
	at, ok := arr.Type().Underlying().(*types.Pointer).Elem().Underlying().(*types.Array)
	if !ok {
		return nil, false
	}
	out := make([]string, at.Len())
	set := make([]bool, at.Len())
	for _, ref := range *arr.Referrers() {
		ia, ok := ref.(*ssa.IndexAddr)
		if !ok {
			continue
		}
		i, ok := km.ConstInt(ia.Index)
		if !ok || i < 0 || i >= at.Len() {
			return nil, false
		}
		for _, r2 := range *ia.Referrers() {
			if st, ok := r2.(*ssa.Store); ok && st.Addr == ssa.Value(ia) {
				s, ok := evalString(c, st.Val, depth+1)
				if !ok || set[i] {
					return nil, false
				}
				out[i], set[i] = s, true
			}
		}
	}
	for _, b := range set {
		if !b {
			return nil, false
		}
	}
	return out, true
}

// memberPred describes a module function that is a membership predicate: it returns true exactly when its
// parameter elemIdx equals an element of list (a value of the predicate's own frame: a field of its receiver, a
// parameter, a package-level variable).
type memberPred struct {
	list    ssa.Value
	elemIdx int
	ok      bool
}

var memberPredMemo = map[*ssa.Function]memberPred{}

// memberPredicate recognises `return slices.Contains(list, p)` and the hand-written loop
// `for _, e := range list { if e == p { return true } }; return false` - with nothing else: every `return true` is
// reached only through the match, every `return false` only through the exhaustion of the loop (no early return,
// no break), so that a false result means "compared with every element".
func memberPredicate(g *ssa.Function) memberPred {
	if mp, ok := memberPredMemo[g]; ok {
		return mp
	}
	mp := memberPred{}
	defer func() { memberPredMemo[g] = mp }()
	if g == nil || g.Blocks == nil {
		return mp
	}
	res := g.Signature.Results()
	if res.Len() != 1 || res.At(0).Type().String() != "bool" {
		return mp
	}
	paramIdx := func(v ssa.Value) int {
		v = km.CellOrigin(km.Unwrap(v))
		for i, p := range g.Params {
			if ssa.Value(p) == v {
				return i
			}
		}
		return -1
	}
	var rets []*ssa.Return
	for _, b := range g.Blocks {
		if r, ok := b.Instrs[len(b.Instrs)-1].(*ssa.Return); ok {
			rets = append(rets, r)
		}
	}
	// library form
	if len(rets) == 1 {
		if cl, ok := km.Unwrap(km.ReturnValues(rets[0])[0]).(*ssa.Call); ok {
			name := km.CalleeFull(cl.Common())
			if i := strings.Index(name, "["); i > 0 {
				name = name[:i]
			}
			if name == "slices.Contains" && len(cl.Common().Args) == 2 {
				if pi := paramIdx(cl.Common().Args[1]); pi >= 0 {
					mp = memberPred{km.Unwrap(cl.Common().Args[0]), pi, true}
				}
			}
		}
		return mp
	}
	// loop form
	var match *ssa.If
	var list ssa.Value
	elem := -1
	km.Instrs(g, func(in ssa.Instruction) {
		iff, ok := in.(*ssa.If)
		if !ok {
			return
		}
		b, ok := iff.Cond.(*ssa.BinOp)
		if !ok || b.Op != token.EQL {
			return
		}
		for _, pair := range [][2]ssa.Value{{b.X, b.Y}, {b.Y, b.X}} {
			pi := paramIdx(pair[0])
			u, isU := km.Unwrap(pair[1]).(*ssa.UnOp)
			if pi < 0 || !isU || u.Op != token.MUL {
				continue
			}
			ia, isIA := u.X.(*ssa.IndexAddr)
			if !isIA {
				continue
			}
			if match != nil {
				elem = -2 // more than one comparison: not the simple shape
				return
			}
			match, list, elem = iff, km.Unwrap(ia.X), pi
		}
	})
	if match == nil || elem < 0 {
		return mp
	}
	reach := func(from *ssa.BasicBlock, forbidFrom, forbidTo *ssa.BasicBlock) map[*ssa.BasicBlock]bool {
		seen := map[*ssa.BasicBlock]bool{from: true}
		stack := []*ssa.BasicBlock{from}
		for len(stack) > 0 {
			x := stack[len(stack)-1]
			stack = stack[:len(stack)-1]
			for _, s := range x.Succs {
				if x == forbidFrom && s == forbidTo {
					continue
				}
				if !seen[s] {
					seen[s] = true
					stack = append(stack, s)
				}
			}
		}
		return seen
	}
	mb := match.Block()
	tEdge := mb.Succs[0]
	// the loop: blocks that reach the comparison and are reached from it
	fromMatch := reach(mb, nil, nil)
	cycle := map[*ssa.BasicBlock]bool{}
	for _, b := range g.Blocks {
		if fromMatch[b] && reach(b, nil, nil)[mb] {
			cycle[b] = true
		}
	}
	if !cycle[mb] {
		return mp // the comparison is not inside a loop
	}
	type edge struct{ u, v *ssa.BasicBlock }
	var exits []edge
	for b := range cycle {
		for _, s := range b.Succs {
			if !cycle[s] {
				exits = append(exits, edge{b, s})
			}
		}
	}
	var done *edge
	for i := range exits {
		e := exits[i]
		if e.u == mb && e.v == tEdge {
			continue
		}
		if done != nil {
			return mp // a second way out of the loop (break, early return)
		}
		done = &exits[i]
	}
	if done == nil || cycle[tEdge] {
		return mp
	}
	entry := g.Blocks[0]
	withoutMatch := reach(entry, mb, tEdge)
	withoutDone := reach(entry, done.u, done.v)
	for _, r := range rets {
		cst, isC := km.Unwrap(km.ReturnValues(r)[0]).(*ssa.Const)
		if !isC || cst.Value == nil {
			return mp
		}
		if km.ValStr(cst) == "true" {
			if withoutMatch[r.Block()] {
				return mp // true without a match
			}
		} else {
			if withoutDone[r.Block()] || reach(tEdge, nil, nil)[r.Block()] {
				return mp // false without having compared every element, or after a match
			}
		}
	}
	mp = memberPred{list, elem, true}
	return mp
}

// memberCall: f says that a membership predicate of the module returned pol for (list, elem).
func memberCall(f km.Fact, pol bool) (list, elem ssa.Value, ok bool) {
	if f.Op != token.ILLEGAL || f.Pol != pol {
		return nil, nil, false
	}
	cl, idx := callRes(f.X)
	if cl == nil || idx != 0 {
		return nil, nil, false
	}
	g := km.StaticCallee(cl.Common())
	if g == nil || g.Blocks == nil {
		return nil, nil, false
	}
	mp := memberPredicate(g)
	args := km.CallArgs(cl.Common())
	if !mp.ok || mp.elemIdx >= len(args) {
		return nil, nil, false
	}
	return mp.list, km.Unwrap(args[mp.elemIdx]), true
}

// intersectPredicate recognises a module function g(a, b) bool that can return true only when an element of its
// parameter i equals an element of its parameter j: slices.ContainsFunc(a, func(e) bool { return
// slices.Contains(b, e) }) (or a closure that is itself a membership predicate over b), or hand-written nested
// loops whose every `return true` is under such an equality. Only the "true implies a common element" direction
// is established.
func intersectPredicate(c *km.Ctx, s *km.Sem, g *ssa.Function) (int, int, bool) {
	if g == nil || g.Blocks == nil {
		return 0, 0, false
	}
	res := g.Signature.Results()
	if res.Len() != 1 || res.At(0).Type().String() != "bool" {
		return 0, 0, false
	}
	pidx := func(v ssa.Value) int {
		v = km.CellOrigin(km.Unwrap(v))
		for i, p := range g.Params {
			if ssa.Value(p) == v {
				return i
			}
		}
		return -1
	}
	rcs := s.RetCases(g)
	if len(rcs) == 1 {
		if cl, ok := km.Unwrap(rcs[0].Results[0]).(*ssa.Call); ok {
			name := km.CalleeFull(cl.Common())
			if i := strings.Index(name, "["); i > 0 {
				name = name[:i]
			}
			if name == "slices.ContainsFunc" && len(cl.Common().Args) == 2 {
				a := pidx(cl.Common().Args[0])
				if mc, isMC := km.Unwrap(cl.Common().Args[1]).(*ssa.MakeClosure); isMC && a >= 0 {
					h := mc.Fn.(*ssa.Function)
					mp := memberPredicate(h)
					if mp.ok && mp.elemIdx == 0 {
						// the list the closure searches: one of its captured variables, bound to a parameter of g
						lv := km.Unwrap(mp.list)
						if u, isU := lv.(*ssa.UnOp); isU {
							lv = u.X
						}
						for fi, fv := range h.FreeVars {
							if ssa.Value(fv) == lv && fi < len(mc.Bindings) {
								b := mc.Bindings[fi]
								// captured by reference: the cell holding the parameter
								if al, isA := b.(*ssa.Alloc); isA {
									if j := pidx(al); j >= 0 {
										return a, j, true
									}
								}
								if j := pidx(b); j >= 0 {
									return a, j, true
								}
							}
						}
					}
				}
			}
		}
	}
	// nested loops: every accepting return carries element(param i) == element(param j)
	elemOf := func(v ssa.Value) int {
		u, ok := km.Unwrap(v).(*ssa.UnOp)
		if !ok || u.Op != token.MUL {
			return -1
		}
		ia, ok := u.X.(*ssa.IndexAddr)
		if !ok {
			return -1
		}
		return pidx(ia.X)
	}
	ri, rj, nTrue := -1, -1, 0
	for _, rc := range rcs {
		cst, isC := km.Unwrap(rc.Results[0]).(*ssa.Const)
		if !isC {
			return 0, 0, false
		}
		if km.ValStr(cst) != "true" {
			continue
		}
		nTrue++
		okAll := len(rc.State) > 0 && rc.State.All(func(k km.Conj) bool {
			for _, f := range k.List() {
				if f.Op != token.EQL || f.Y == nil {
					continue
				}
				i, j := elemOf(f.X), elemOf(f.Y)
				if i >= 0 && j >= 0 && i != j {
					if i > j {
						i, j = j, i
					}
					if ri < 0 || (ri == i && rj == j) {
						ri, rj = i, j
						return true
					}
				}
			}
			return false
		})
		if !okAll {
			return 0, 0, false
		}
	}
	if nTrue == 0 || ri < 0 {
		return 0, 0, false
	}
	return ri, rj, true
}

// globalTableEntries: the entries of a package-level map that is assigned exactly once, in its package initialiser,
// filled only there, and neither written nor emptied anywhere else in the module.
func globalTableEntries(c *km.Ctx, g *ssa.Global) ([]*ssa.MapUpdate, bool) {
	if g == nil || g.Pkg == nil {
		return nil, false
	}
	st := singleStoreTo(c, g)
	initFn := g.Pkg.Func("init")
	if st == nil || initFn == nil || st.Parent() != initFn {
		return nil, false
	}
	m := km.Unwrap(st.Val)
	var out []*ssa.MapUpdate
	good := true
	for _, fn := range c.P.AllFuncs {
		km.Instrs(fn, func(in ssa.Instruction) {
			switch x := in.(type) {
			case *ssa.MapUpdate:
				mm := km.Unwrap(x.Map)
				fromG := false
				if l, isU := mm.(*ssa.UnOp); isU && l.X == ssa.Value(g) {
					fromG = true
				}
				if mm != m && !fromG {
					return
				}
				if fn != initFn {
					good = false
					return
				}
				out = append(out, x)
			case ssa.CallInstruction:
				n := km.CalleeFull(x.Common())
				if n == "builtin:delete" || n == "builtin:clear" || strings.HasPrefix(n, "maps.") {
					for _, a := range x.Common().Args {
						if l, isU := km.Unwrap(a).(*ssa.UnOp); isU && l.X == ssa.Value(g) {
							good = false
						}
					}
				}
			}
		})
	}
	return out, good && len(out) > 0
}

// pkgIsKMD: the package is cmd/keymasterd - or a package that is new to the module (absent from the recorded
// tree), into which part of the daemon may have been moved; scans that range over "the daemon's functions" then
// still see the moved part.
func pkgIsKMD(p *ssa.Package) bool {
	if p == nil {
		return false
	}
	path := p.Pkg.Path()
	return path == KMD || km.IsNewModulePackage(path)
}

// callsWithNewHelpers: the calls made by fn and by the helpers it calls that are new to the tree (a piece of fn
// moved out), to the given depth.
func callsWithNewHelpers(c *km.Ctx, fn *ssa.Function, depth int) []ssa.CallInstruction {
	var out []ssa.CallInstruction
	seen := map[*ssa.Function]bool{}
	var rec func(f *ssa.Function, d int)
	rec = func(f *ssa.Function, d int) {
		if seen[f] {
			return
		}
		seen[f] = true
		for _, ci := range km.CallsIn(f) {
			out = append(out, ci)
			if d <= 0 {
				continue
			}
			if g := km.StaticCallee(ci.Common()); g != nil && len(g.Blocks) > 0 && c.InModule(g) && !c.P.IsRecorded(g) {
				rec(g, d-1)
			}
		}
	}
	rec(fn, depth)
	return out
}

// instrsWithNewHelpers: the instructions of fn and of the helpers it calls that are new to the tree.
func instrsWithNewHelpers(c *km.Ctx, fn *ssa.Function, depth int, f func(ssa.Instruction)) {
	seen := map[*ssa.Function]bool{}
	var rec func(g *ssa.Function, d int)
	rec = func(g *ssa.Function, d int) {
		if seen[g] {
			return
		}
		seen[g] = true
		km.Instrs(g, f)
		if d <= 0 {
			return
		}
		for _, ci := range km.CallsIn(g) {
			if h := km.StaticCallee(ci.Common()); h != nil && len(h.Blocks) > 0 && c.InModule(h) && !c.P.IsRecorded(h) {
				rec(h, d-1)
			}
		}
	}
	rec(fn, depth)
}

// checkConfigKeys: the configuration values a property depends on are still read from the YAML keys that existing
// configuration files use (km.ConfigKeyDrift); prefixes are dotted YAML key paths from the top of the file.
func checkConfigKeys(c *km.Ctx, rule, what string, prefixes ...string) {
	n, diffs := km.ConfigKeyDrift(c.P, prefixes)
	if n == 0 {
		c.R.AnchorLost(rule, "recorded configuration keys of "+what)
		return
	}
	c.R.Add(rule, "cmd/keymasterd", "configuration keys of "+what, "cmd/keymasterd/config.go", "each value is read from the key existing configuration files use (an unknown key is ignored and the value stays zero)", sprintf("%d keys compared; %s", n, strings.Join(diffs, "; ")), len(diffs) == 0)
}

// callsWithNewHelpersFuncs: fn and the helpers it calls that are new to the tree, to the given depth.
func callsWithNewHelpersFuncs(c *km.Ctx, fn *ssa.Function, depth int) []*ssa.Function {
	seen := map[*ssa.Function]bool{}
	var out []*ssa.Function
	var rec func(f *ssa.Function, d int)
	rec = func(f *ssa.Function, d int) {
		if seen[f] {
			return
		}
		seen[f] = true
		out = append(out, f)
		if d <= 0 {
			return
		}
		for _, ci := range km.CallsIn(f) {
			if g := km.StaticCallee(ci.Common()); g != nil && len(g.Blocks) > 0 && c.InModule(g) && !c.P.IsRecorded(g) {
				rec(g, d-1)
			}
		}
	}
	rec(fn, depth)
	return out
}

// localSliceElems: v is an element read from a slice that is built in the same function by appending single
// elements to an empty slice; returns the appended elements (known=false when the slice has any other origin).
func localSliceElems(v ssa.Value) (elems []ssa.Value, known bool) {
	u, ok := km.Unwrap(v).(*ssa.UnOp)
	if !ok || u.Op != token.MUL {
		return nil, false
	}
	ia, ok := u.X.(*ssa.IndexAddr)
	if !ok {
		return nil, false
	}
	return sliceAppendedElems(ia.X)
}

// sliceAppendedElems: the slice value is built in its function by appending single elements to an empty slice;
// returns the appended elements (known=false when the slice has any other origin).
func sliceAppendedElems(sv ssa.Value) (elems []ssa.Value, known bool) {
	ia := struct{ X ssa.Value }{sv}
	seen := map[ssa.Value]bool{}
	known = true
	var walk func(s ssa.Value, d int)
	walk = func(s ssa.Value, d int) {
		s = km.Unwrap(s)
		if seen[s] || !known {
			return
		}
		seen[s] = true
		if d > 10 {
			known = false
			return
		}
		switch x := s.(type) {
		case *ssa.Phi:
			for _, e := range x.Edges {
				walk(e, d+1)
			}
		case *ssa.MakeSlice:
		case *ssa.Const:
			if !km.IsNilConst(x) {
				known = false
			}
		case *ssa.Slice:
			walk(x.X, d+1)
		case *ssa.Alloc:
			// a slice literal: the array behind it is filled element by element and only sliced
			if _, isArr := x.Type().(*types.Pointer).Elem().Underlying().(*types.Array); !isArr {
				known = false
				return
			}
			for _, ref := range *x.Referrers() {
				switch y := ref.(type) {
				case *ssa.Slice, *ssa.DebugRef:
				case *ssa.IndexAddr:
					for _, r2 := range *y.Referrers() {
						if st, isSt := r2.(*ssa.Store); isSt && st.Addr == ssa.Value(y) {
							elems = append(elems, st.Val)
						} else if _, isDbg := r2.(*ssa.DebugRef); !isDbg {
							known = false
						}
					}
				default:
					known = false
				}
			}
		case *ssa.Call:
			b, isB := x.Common().Value.(*ssa.Builtin)
			if !isB || b.Name() != "append" {
				known = false
				return
			}
			e := appendedSingle(x)
			if e == nil {
				known = false
				return
			}
			elems = append(elems, e)
			walk(x.Common().Args[0], d+1)
		default:
			known = false
		}
	}
	walk(ia.X, 0)
	return elems, known
}

// globalArrayStrings: the constant strings of a package-level array of strings that is filled in its package
// initialiser and written nowhere else.
func globalArrayStrings(c *km.Ctx, g *ssa.Global) ([]string, bool) {
	at, ok := g.Type().(*types.Pointer).Elem().Underlying().(*types.Array)
	if !ok || g.Pkg == nil {
		return nil, false
	}
	initFn := g.Pkg.Func("init")
	out := make([]string, at.Len())
	set := make([]bool, at.Len())
	good := true
	for _, fn := range c.P.AllFuncs {
		km.Instrs(fn, func(in ssa.Instruction) {
			switch x := in.(type) {
			case *ssa.IndexAddr:
				if x.X != ssa.Value(g) {
					return
				}
				for _, ref := range *x.Referrers() {
					st, isSt := ref.(*ssa.Store)
					if !isSt || st.Addr != ssa.Value(x) {
						continue
					}
					i, isC := km.ConstInt(x.Index)
					sv, isS := evalString(c, st.Val, 0)
					if fn != initFn || !isC || !isS || i < 0 || i >= at.Len() || set[i] {
						good = false
						continue
					}
					out[i], set[i] = sv, true
				}
			case *ssa.Store:
				if x.Addr != ssa.Value(g) {
					return
				}
				// the whole array assigned once from a composite literal in the initialiser
				u, isU := x.Val.(*ssa.UnOp)
				lit, isA := (*ssa.Alloc)(nil), false
				if isU && u.Op == token.MUL {
					lit, isA = u.X.(*ssa.Alloc)
				}
				if fn != initFn || !isA {
					good = false
					return
				}
				for _, ref := range *lit.Referrers() {
					ia, isIA := ref.(*ssa.IndexAddr)
					if !isIA {
						continue
					}
					for _, r2 := range *ia.Referrers() {
						st, isSt := r2.(*ssa.Store)
						if !isSt || st.Addr != ssa.Value(ia) {
							continue
						}
						i, isC := km.ConstInt(ia.Index)
						sv, isS := evalString(c, st.Val, 0)
						if !isC || !isS || i < 0 || i >= at.Len() || set[i] {
							good = false
							continue
						}
						out[i], set[i] = sv, true
					}
				}
			}
		})
	}
	for _, b := range set {
		if !b {
			good = false
		}
	}
	return out, good
}

// errorAborts: the error result (#errIdx) of call is fatal to its function: from the edge on which it is known to
// be non-nil, every return that can be reached reports a non-nil error (no continuing with the next item, no
// falling through to a normal return). Returns a description of the first escape found ("" when there is none)
// and whether a test of that error was found at all.
func errorAborts(c *km.Ctx, call *ssa.Call, errIdx int) (escape string, tested bool) {
	fn := call.Parent()
	res := fn.Signature.Results()
	if res.Len() == 0 || !isErrorType(res.At(res.Len()-1).Type()) {
		return "the function reports no error", false
	}
	var errVal ssa.Value
	if call.Common().Signature().Results().Len() == 1 {
		errVal = call
	} else {
		for _, ref := range *call.Referrers() {
			if ex, ok := ref.(*ssa.Extract); ok && ex.Index == errIdx {
				errVal = ex
			}
		}
	}
	if errVal == nil {
		return "the error result is dropped", false
	}
	for _, ref := range *errVal.Referrers() {
		b, ok := ref.(*ssa.BinOp)
		if !ok || (b.Op != token.NEQ && b.Op != token.EQL) || !(km.IsNilConst(b.Y) || km.IsNilConst(b.X)) {
			continue
		}
		for _, r2 := range *b.Referrers() {
			iff, ok := r2.(*ssa.If)
			if !ok {
				continue
			}
			tested = true
			failing := iff.Block().Succs[0]
			if b.Op == token.EQL {
				failing = iff.Block().Succs[1]
			}
			for blk := range km.ReachableBlocks(failing, nil) {
				ret, ok := blk.Instrs[len(blk.Instrs)-1].(*ssa.Return)
				if !ok {
					continue
				}
				rv := km.ReturnValues(ret)
				if len(rv) == 0 || km.IsNilConst(rv[len(rv)-1]) {
					return "a return without an error at " + posOf(c, ret) + " is reachable after the failure", true
				}
			}
		}
	}
	if !tested {
		return "the error is never tested", false
	}
	return "", true
}

// checkErrorAborts adds one obligation per call of callee in fn.
func checkErrorAborts(c *km.Ctx, rule string, fn *ssa.Function, callee string, errIdx int, what string) int {
	n := 0
	for _, f := range callsWithNewHelpersFuncs(c, fn, 1) {
		for _, ci := range km.CallsIn(f) {
			cl, ok := ci.(*ssa.Call)
			if !ok || km.CalleeFull(cl.Common()) != callee {
				continue
			}
			n++
			esc, _ := errorAborts(c, cl, errIdx)
			c.R.Add(rule, km.FuncName(f), what, posOf(c, cl), "a failure aborts: every return reachable after it reports an error", esc, esc == "")
		}
	}
	return n
}

// loopLeftEarly: some range loop of fn can be left before its range is exhausted without reporting an error - by a
// break (the loop's exit block has a predecessor other than the loop header) or by a return of a nil error from
// inside the loop. Returns a description of the first such exit ("" when there is none).
func loopLeftEarly(c *km.Ctx, fn *ssa.Function) string {
	res := fn.Signature.Results()
	hasErr := res.Len() > 0 && isErrorType(res.At(res.Len()-1).Type())
	for _, b := range fn.Blocks {
		if b.Comment != "rangeindex.loop" && b.Comment != "rangeiter.loop" && b.Comment != "rangechan.loop" {
			continue
		}
		iff, ok := b.Instrs[len(b.Instrs)-1].(*ssa.If)
		if !ok || len(b.Succs) != 2 {
			continue
		}
		_ = iff
		body, done := b.Succs[0], b.Succs[1]
		for _, p := range done.Preds {
			if p != b {
				return "the loop at " + posOf(c, b.Instrs[len(b.Instrs)-1]) + " is left by a break from " + posOf(c, p.Instrs[len(p.Instrs)-1])
			}
		}
		// returns inside the loop body: blocks reachable from the body without passing the header
		inLoop := km.ReachableBlocks(body, map[*ssa.BasicBlock]bool{b: true, done: true})
		for blk := range inLoop {
			ret, isRet := blk.Instrs[len(blk.Instrs)-1].(*ssa.Return)
			if !isRet {
				continue
			}
			rv := km.ReturnValues(ret)
			if !hasErr || len(rv) == 0 || km.IsNilConst(rv[len(rv)-1]) {
				return "a return without an error inside the loop at " + posOf(c, ret)
			}
		}
	}
	return ""
}

// compiledPattern: v is a *regexp.Regexp; the result is the string value it was compiled from. Accepted sources:
// regexp.Compile / regexp.MustCompile directly, or a module helper of one string parameter each of whose
// non-nil results is the compilation of that parameter or the entry a package-level cache (sync.Map or map)
// holds under that parameter - where every store into that cache, anywhere in the module, files the compilation
// of a string under that very string.
func compiledPattern(c *km.Ctx, v ssa.Value, depth int) (ssa.Value, bool) {
	v = km.Unwrap(v)
	if ta, ok := v.(*ssa.TypeAssert); ok {
		v = km.Unwrap(ta.X)
	}
	cl, idx := callRes(v)
	if cl == nil || idx != 0 || depth > 2 {
		return nil, false
	}
	switch km.CalleeFull(cl.Common()) {
	case "regexp.Compile", "regexp.MustCompile":
		return km.Unwrap(cl.Common().Args[0]), true
	}
	h := km.StaticCallee(cl.Common())
	if h == nil || h.Pkg == nil || !strings.HasPrefix(h.Pkg.Pkg.Path(), km.ModPath) || len(h.Params) != 1 || len(h.Blocks) == 0 || len(cl.Common().Args) != 1 {
		return nil, false
	}
	par := ssa.Value(h.Params[0])
	if b, ok := par.Type().Underlying().(*types.Basic); !ok || b.Kind() != types.String {
		return nil, false
	}
	good, nRes := true, 0
	var caches []*ssa.Global
	var fromResult func(r ssa.Value, seen map[ssa.Value]bool) bool
	fromResult = func(r ssa.Value, seen map[ssa.Value]bool) bool {
		r = km.Unwrap(r)
		if seen[r] {
			return true
		}
		seen[r] = true
		if km.IsNilConst(r) {
			return true
		}
		if ph, ok := r.(*ssa.Phi); ok {
			for _, e := range ph.Edges {
				if !fromResult(e, seen) {
					return false
				}
			}
			return true
		}
		if ex, ok := r.(*ssa.Extract); ok {
			if ta, isTA := ex.Tuple.(*ssa.TypeAssert); isTA && ex.Index == 0 {
				r = ta
			}
		}
		if ta, ok := r.(*ssa.TypeAssert); ok {
			x := km.Unwrap(ta.X)
			// sync.Map: Load(key) of a package-level map
			if lc, li := callRes(x); lc != nil && li == 0 && km.CalleeFull(lc.Common()) == "(*sync.Map).Load" {
				if g, isG := lc.Common().Args[0].(*ssa.Global); isG && km.Unwrap(lc.Common().Args[1]) == par {
					caches = append(caches, g)
					return true
				}
			}
			return false
		}
		// plain map: cache[key]
		lk, isLk := r.(*ssa.Lookup)
		if ex, ok := r.(*ssa.Extract); ok && ex.Index == 0 {
			lk, isLk = ex.Tuple.(*ssa.Lookup)
		}
		if isLk {
			if u, isU := lk.X.(*ssa.UnOp); isU && u.Op == token.MUL && km.Unwrap(lk.Index) == par {
				if g, isG := u.X.(*ssa.Global); isG {
					caches = append(caches, g)
					return true
				}
			}
			return false
		}
		nRes++
		p, ok := compiledPattern(c, r, depth+1)
		return ok && p == par
	}
	km.Instrs(h, func(in ssa.Instruction) {
		if ret, ok := in.(*ssa.Return); ok && len(ret.Results) > 0 {
			if !fromResult(ret.Results[0], map[ssa.Value]bool{}) {
				good = false
			}
		}
	})
	if !good || nRes == 0 {
		return nil, false
	}
	for _, g := range caches {
		for _, fn := range c.P.AllFuncs {
			km.Instrs(fn, func(in ssa.Instruction) {
				for _, op := range in.Operands(nil) {
					if op == nil || *op != ssa.Value(g) {
						continue
					}
					switch x := in.(type) {
					case ssa.CallInstruction:
						switch km.CalleeFull(x.Common()) {
						case "(*sync.Map).Load", "(*sync.Map).Delete", "(*sync.Map).Range":
						case "(*sync.Map).Store", "(*sync.Map).LoadOrStore":
							p, ok := compiledPattern(c, x.Common().Args[2], depth+1)
							if !ok || p != km.Unwrap(x.Common().Args[1]) {
								good = false
							}
						default:
							good = false
						}
					case *ssa.UnOp:
						// the map value is loaded: every use of the load is a lookup, a len, or an update that
						// files a compilation under its own pattern
						for _, ref := range *x.Referrers() {
							switch y := ref.(type) {
							case *ssa.Lookup, *ssa.DebugRef:
							case *ssa.MapUpdate:
								p, ok := compiledPattern(c, y.Value, depth+1)
								if !ok || p != km.Unwrap(y.Key) || y.Map != ssa.Value(x) {
									good = false
								}
							case *ssa.Call:
								if n := km.CalleeFull(y.Common()); n != "builtin:len" && n != "builtin:delete" {
									good = false
								}
							default:
								good = false
							}
						}
					case *ssa.Store:
						// (re)initialised with an empty map
						if x.Addr != ssa.Value(g) {
							good = false
						} else if _, isMk := km.Unwrap(x.Val).(*ssa.MakeMap); !isMk {
							good = false
						}
					default:
						good = false
					}
				}
			})
		}
	}
	if !good {
		return nil, false
	}
	return km.Unwrap(cl.Common().Args[0]), true
}

// errorfWraps: the fmt.Errorf call has the given value among its variadic operands.
func errorfWraps(cl *ssa.Call, target ssa.Value) bool {
	a := cl.Common().Args
	if len(a) < 2 {
		return false
	}
	sl, ok := a[len(a)-1].(*ssa.Slice)
	if !ok {
		return false
	}
	al, ok := sl.X.(*ssa.Alloc)
	if !ok {
		return false
	}
	for _, ref := range *al.Referrers() {
		if ia, isIA := ref.(*ssa.IndexAddr); isIA {
			for _, r2 := range *ia.Referrers() {
				if st, isSt := r2.(*ssa.Store); isSt && st.Addr == ssa.Value(ia) && km.Unwrap(st.Val) == target {
					return true
				}
			}
		}
	}
	return false
}

// variadicVals: the operands of a variadic call, read back from the slice the compiler built for them (nil when the
// slice has another origin or is empty).
func variadicVals(v ssa.Value) []ssa.Value {
	sl, ok := v.(*ssa.Slice)
	if !ok {
		return nil
	}
	al, ok := sl.X.(*ssa.Alloc)
	if !ok {
		return nil
	}
	var out []ssa.Value
	for _, ref := range *al.Referrers() {
		if ia, isIA := ref.(*ssa.IndexAddr); isIA {
			for _, r2 := range *ia.Referrers() {
				if st, isSt := r2.(*ssa.Store); isSt && st.Addr == ssa.Value(ia) {
					out = append(out, km.Unwrap(st.Val))
				}
			}
		}
	}
	return out
}
