package rules

import (
	"go/token"
	"go/types"
	"sort"
	"strings"

	"kmcheck/internal/km"

	"golang.org/x/tools/go/ssa"
)

func init() { km.Register("C10", checkC10) }

// Functions whose bodies handle attacker-supplied keys, certificates, extensions and tokens (R-C10-4 scope),
// besides every function of lib/certgen and lib/server/aws_identity_cert.
var decoderScope = []string{
	"(*RuntimeState).getUsernameIfKeymasterSigned", "(*RuntimeState).getUsernameIfIPRestricted", "(*RuntimeState).checkAuth",
	"(*RuntimeState).getAuthInfoFromJWT", "(*RuntimeState).updateAuthJWTWithNewAuthLevel", "(*RuntimeState).getStorageDataFromStorageStringDataJWT",
	"(*RuntimeState).JWTClaims", "sealEncodeData", "decodeOpenData", "(*RuntimeState).idpOpenIDCValidCodeVerifier", "getValidSSHPublicKey",
	"(*RuntimeState).postAuthSSHCertHandler", "(*RuntimeState).postAuthX509CertHandler", "(*RuntimeState).parseRoleCertGenParams",
	"(*RuntimeState).parseRefreshRoleCertGenParams", "(*RuntimeState).generateRoleCert", "(*RuntimeState).idpOpenIDCTokenHandler",
	"(*RuntimeState).idpOpenIDCUserinfoHandler", "(*RuntimeState).certGenHandler", "(*RuntimeState).deserializeKeysetIntoPlaintextKey",
	"publicToPreferedJoseSigAlgo", "getKeyFingerprint",
}

// Reviewed constructs that can only panic if an invariant established elsewhere is broken; keyed by
// function name + expression (never by line).
var reviewedRisks = map[string]string{
	"getUsernameIfIPRestricted|VerifiedChains[0]":                                                                                    "called by checkAuth only under len(r.TLS.VerifiedChains) > 0 (checked: R-C10-4 caller guard)",
	"getUsernameIfIPRestricted|VerifiedChains[0][0]":                                                                                 "a verified chain always contains the leaf certificate (crypto/tls contract)",
	"getUsernameIfKeymasterSigned|VerifiedChains[(φrangeindex + 1)][0]":                                                              "guarded by len(chain) < 2 => continue (range element re-indexed)",
	"getUsernameIfKeymasterSigned|VerifiedChains[(φrangeindex + 1)][1]":                                                              "guarded by len(chain) < 2 => continue (range element re-indexed)",
	"parseRefreshRoleCertGenParams|r.TLS.VerifiedChains[0][0]":                                                                       "a verified chain always contains the leaf certificate (crypto/tls contract)",
	"sealEncodeData|nonce[:iface:(crypto/cipher.AEAD).NonceSize()]":                                                                  "nonce is the server-generated 43-character token id (genRandomString), longer than the 12-byte GCM nonce",
	"decodeOpenData|nonce[:iface:(crypto/cipher.AEAD).NonceSize()]":                                                                  "nonce is the jti of a code this server minted (43 characters): reached only after the code's protected key decrypted, which fails for every other signed token",
	"roleCommonName|roleArn.Resource[5:]":                                                                                            "callers verified HasPrefix(Resource, \"role/\") (makeCertificateTemplate) before calling",
	"getSignerX509CAForPublic|state.caCertDer[(builtin:len(state.caCertDer) - 1)]":                                                   "caCertDer is non-empty once unsealed (loader appends before storing the signer; C09)",
	"idpOpenIDCUserinfoHandler|(*cmd/keymasterd.RuntimeState).getUserAttributes(state, t104.Username, slicelit[:])#0[\"mail\"]#0[0]": "directory attribute lists returned by the LDAP library are non-empty when present",
}

// takesDecodable: the helper receives bytes, text, a token or a certificate - something it may index or slice
func takesDecodable(g *ssa.Function) bool {
	for _, p := range g.Params {
		t := p.Type().String()
		if strings.Contains(t, "[]byte") || t == "string" || strings.Contains(t, "x509.Certificate") || strings.Contains(t, "jwt.") || strings.Contains(t, "CodeToken") || strings.Contains(t, "JWT") {
			return true
		}
	}
	return false
}

// reviewedRisksNeed: the dominating fact some reviewed entries depend on.
var reviewedRisksNeed = map[string]struct {
	what, callee string
	idx          int
}{
	// a signed token that is not an authorization code has no jti and no protected key: the keyset decryption
	// fails first, so the nonce is sliced only for codes this server minted
	"decodeOpenData|nonce[:iface:(crypto/cipher.AEAD).NonceSize()]": {"protected key of the code decrypted (err == nil)", RS + "deserializeKeysetIntoPlaintextKey", 1},
}

func checkC10(c *km.Ctx) {
	r := c.R
	s := km.NewSem(c)
	r.Explain = "Static analysis of /repo: on each of the six issuing paths the key that reaches the signing call is the value that was passed to ValidatePublicKeyStrength on a dominating ok ∧ err==nil edge; the strength function's accepting returns are dominated by the false edges of its size/exponent/curve comparisons with constants at least as strict as the property's; weak-key exits answer with a 4xx constant; and in the decoder functions every construct that can panic (indexing, slicing, unchecked type assertion, explicit panic, use of a possibly-nil PEM block) is either dominated by a recognised length/nil guard or listed in a reviewed table keyed by function and expression. Decides structure; panics inside third-party parsers are out of reach."
	r.NotDecided = []string{"panics inside crypto/x509, x/crypto/ssh, go-jose, encoding/asn1 (fuzzing is not replaced)", "numerical key sizes of concrete keys"}
	r.Assume = []string{"go/types + go/ssa model the source faithfully", "crypto/tls hands out non-empty verified chains", "net/url.Values entries are non-empty when present"}

	r.Rule("R-C10-1", "every issuing path signs only a key value that passed ValidatePublicKeyStrength (ok ∧ err == nil) on a dominating edge", 3)
	r.Rule("R-C10-2", "ValidatePublicKeyStrength accepts RSA only with Size() >= 256 bytes and E >= 65537, ECDSA only with curve bit size > 224 (threshold <= 256), Ed25519; everything else is false", 2)
	r.Rule("R-C10-3", "weak / unknown / malformed keys are refused with a client-error (4xx) status constant on every issuing path", 3)
	r.Rule("R-C10-4", "decoder functions contain no unguarded panicking construct: every index / slice / type assertion / explicit panic / PEM-block dereference is guarded by a dominating length or nil test, or is in the reviewed table", 15)

	validate := certgenPkg + ".ValidatePublicKeyStrength"
	// validatedHere: value v was passed to ValidatePublicKeyStrength whose (true, nil) result holds at `at`
	var validatedUnder func(k km.Conj, fn *ssa.Function, v ssa.Value, depth int) bool
	validatedUnder = func(k km.Conj, fn *ssa.Function, v ssa.Value, depth int) bool {
		v = km.Unwrap(v)
		// ValidatePublicKeyStrength(v) returned (true, nil) on this path - called here, or inside a wrapper the
		// value was handed to (CheckPublicKeyStrength(v) == nil)
		isValidateOf := func(f km.Fact, resolve func(ssa.Value) ssa.Value, idx int) bool {
			cl, i := callRes(f.X)
			return cl != nil && i == idx && km.CalleeFull(cl.Common()) == validate && resolve(cl.Common().Args[0]) == v
		}
		okTrue := km.Prim{Name: "strong", Rel: func(f km.Fact, resolve func(ssa.Value) ssa.Value) bool {
			return f.Op == token.ILLEGAL && f.Pol && isValidateOf(f, resolve, 0)
		}}
		errNil := km.Prim{Name: "validate err==nil", Rel: func(f km.Fact, resolve func(ssa.Value) ssa.Value) bool {
			return f.Op == token.EQL && km.IsNilConst(f.Y) && isValidateOf(f, resolve, 1)
		}}
		if s.Holds(k, okTrue) && s.Holds(k, errNil) {
			return true
		}
		// the value came out of a helper: every return of the helper compatible with what is known here must
		// have validated the value it hands back
		if depth < 3 {
			if cases, isCall := s.ResultCases(k, v); isCall && len(cases) > 0 {
				for _, rc := range cases {
					kk := k
					for _, f := range rc.K.List() {
						kk = kk.With(f)
					}
					if !validatedUnder(kk, rc.Fn, rc.Val, depth+1) {
						return false
					}
				}
				return true
			}
		}
		return false
	}
	validatedAt := func(at ssa.Instruction, v ssa.Value) bool {
		st := c.F.At(at)
		return len(st) > 0 && st.All(func(k km.Conj) bool { return validatedUnder(k, at.Parent(), v, 0) })
	}
	// 1. SSH
	if fn := c.MustFunc("R-C10-1", "cmd/keymasterd", "getValidSSHPublicKey"); fn != nil {
		n := 0
		for _, rc := range s.RetCases(fn) {
			if km.IsNilConst(rc.Results[0]) {
				continue
			}
			n++
			// returned key = ParseAuthorizedKey([]byte(param))#0 ; validated value = that key's CryptoPublicKey()
			pc, idx := callRes(km.Unwrap(rc.Results[0]))
			parsed := pc != nil && idx == 0 && km.CalleeFull(pc.Common()) == "golang.org/x/crypto/ssh.ParseAuthorizedKey"
			if parsed {
				cv, ok := km.Unwrap(pc.Common().Args[0]).(*ssa.Convert)
				parsed = ok && km.Unwrap(cv.X) == ssa.Value(km.ParamAt(fn, 0))
			}
			strong := false
			for _, ci := range km.CallsIn(fn) {
				cl, ok := ci.(*ssa.Call)
				if !ok || km.CalleeFull(cl.Common()) != validate {
					continue
				}
				// argument: (typeassert(parsedKey)).CryptoPublicKey()
				arg := km.Unwrap(cl.Common().Args[0])
				if inv, ok := arg.(*ssa.Call); ok && inv.Common().IsInvoke() && inv.Common().Method.Name() == "CryptoPublicKey" {
					base := inv.Common().Value
					if ex, ok := base.(*ssa.Extract); ok {
						if ta, ok := ex.Tuple.(*ssa.TypeAssert); ok {
							base = ta.X
						}
					}
					if ta, ok := base.(*ssa.TypeAssert); ok {
						base = ta.X
					}
					if km.Unwrap(base) == km.Unwrap(rc.Results[0]) {
						okTrue := km.Prim{Name: "strong", Direct: func(f km.Fact) bool {
							c2, i2 := callRes(f.X)
							return f.Op == token.ILLEGAL && f.Pol && c2 == cl && i2 == 0
						}}
						strong = rc.State.All(func(k km.Conj) bool { return s.Holds(k, okTrue) && s.Holds(k, primErrNilCall("err nil", cl, 1)) })
					}
				}
			}
			r.Add("R-C10-1", km.FuncName(fn), "ssh: key accepted", posOf(c, rc.Ret), "the returned key is the parse of the submitted string and its crypto key passed the strength test", sprintf("parsed-from-param=%v strong=%v", parsed, strong), parsed && strong)
		}
		if n == 0 {
			r.AnchorLost("R-C10-1", "accepting return of getValidSSHPublicKey")
		}
	}
	if fn := c.MustFunc("R-C10-1", "cmd/keymasterd", "(*RuntimeState).postAuthSSHCertHandler"); fn != nil {
		for _, ci := range km.CallsIn(fn) {
			if km.CalleeFull(ci.Common()) != certgenPkg+".GenSSHCertFileString" {
				continue
			}
			keyStr := km.Unwrap(ci.Common().Args[1])
			ok := false
			for _, c2 := range km.CallsIn(fn) {
				cl, isC := c2.(*ssa.Call)
				if isC && km.CalleeFull(cl.Common()) == KMD+".getValidSSHPublicKey" && km.Unwrap(cl.Common().Args[0]) == keyStr {
					st := c.F.At(ci)
					ok = st.All(func(k km.Conj) bool {
						return s.Holds(k, primErrNilCall("userErr nil", cl, 1)) && s.Holds(k, primErrNilCall("err nil", cl, 2))
					})
				}
			}
			r.Add("R-C10-1", km.FuncName(fn), "ssh: sign validated key string", posOf(c, ci), "GenSSHCertFileString receives the string that getValidSSHPublicKey accepted (userErr == nil ∧ err == nil)", sprintf("%v", ok), ok)
		}
	}
	// 2. X.509 / kubernetes
	if fn := c.MustFunc("R-C10-1", "cmd/keymasterd", "(*RuntimeState).postAuthX509CertHandler"); fn != nil {
		for _, ci := range km.CallsIn(fn) {
			if km.CalleeFull(ci.Common()) == certgenPkg+".GenUserX509Cert" {
				ok := validatedAt(ci, ci.Common().Args[1])
				r.Add("R-C10-1", km.FuncName(fn), "x509: sign validated key", posOf(c, ci), "GenUserX509Cert receives the key value that passed the strength test", sprintf("%v", ok), ok)
			}
		}
	}
	// 3+4. automation / refresh: every store of UserPub
	for _, name := range []string{"(*RuntimeState).parseRoleCertGenParams", "(*RuntimeState).parseRefreshRoleCertGenParams"} {
		fn := c.MustFunc("R-C10-1", "cmd/keymasterd", name)
		if fn == nil {
			continue
		}
		sts := storesByField(fn, KMD+".roleRequestingCertGenParams")["UserPub"]
		if len(sts) == 0 {
			r.AnchorLost("R-C10-1", "UserPub store in "+name)
		}
		for _, st := range sts {
			ok := validatedAt(st, st.Val)
			r.Add("R-C10-1", km.FuncName(fn), "automation: key to be certified", posOf(c, st), "params.UserPub is the key value that passed the strength test", km.ValStr(st.Val), ok)
		}
	}
	if fn := c.MustFunc("R-C10-1", "cmd/keymasterd", "(*RuntimeState).withParamsGenerateRoleRequestingCert"); fn != nil {
		for _, ci := range km.CallsIn(fn) {
			if km.CalleeFull(ci.Common()) == certgenPkg+".GenIPRestrictedX509Cert" {
				ok := fieldLoadOf(ci.Common().Args[1], KMD+".roleRequestingCertGenParams", "UserPub")
				r.Add("R-C10-1", km.FuncName(fn), "automation: sign params.UserPub", posOf(c, ci), "the issuer certifies params.UserPub", km.ValStr(ci.Common().Args[1]), ok)
			}
		}
	}
	// 5. cloud role
	if fn := c.MustFunc("R-C10-1", "cmd/keymasterd", "(*RuntimeState).generateRoleCert"); fn != nil {
		for _, ci := range km.CallsIn(fn) {
			if km.CalleeFull(ci.Common()) == "crypto/x509.CreateCertificate" {
				ok := validatedAt(ci, ci.Common().Args[3])
				r.Add("R-C10-1", km.FuncName(fn), "cloud role: sign validated key", posOf(c, ci), "CreateCertificate receives the key value that passed the strength test", sprintf("%v", ok), ok)
			}
		}
	}

	checkStrengthThresholds(c, s)
	checkWeakKeyStatus(c, s)
	checkDecoderPanics(c, s)
}

func checkStrengthThresholds(c *km.Ctx, s *km.Sem) {
	r := c.R
	fn := c.MustFunc("R-C10-2", "lib/certgen", "ValidatePublicKeyStrength")
	if fn == nil {
		return
	}
	accepted := map[string]bool{}
	// a fact together with the frame it was found in: the parameters of a helper bound to the arguments of its call
	type factEnv struct {
		f   km.Fact
		env map[*ssa.Parameter]*km.Sym
	}
	constOf := func(fe factEnv) (int64, bool) {
		if kv, ok := km.ConstInt(fe.f.Y); ok {
			return kv, true
		}
		if fe.f.Y == nil {
			return 0, false
		}
		// a threshold kept in a (never written) package-level policy value handed down to the helper
		return km.SymOfEnv(fe.f.Y, fe.env).ConstInt()
	}
	judge := func(fs []factEnv) (string, bool) {
		typ := ""
		for _, fe := range fs {
			f := fe.f
			if f.Op == token.ILLEGAL && f.Pol {
				if ex, ok := f.X.(*ssa.Extract); ok && ex.Index == 1 {
					if ta, ok := ex.Tuple.(*ssa.TypeAssert); ok {
						typ = types.TypeString(ta.AssertedType, nil)
					}
				}
			}
		}
		switch typ {
		case "*crypto/rsa.PublicKey":
			size, exp := false, false
			for _, fe := range fs {
				f := fe.f
				if f.Op != token.GEQ && f.Op != token.GTR {
					continue
				}
				kv, isC := constOf(fe)
				if !isC {
					continue
				}
				if f.Op == token.GTR {
					kv++
				}
				if cl, ok := f.X.(*ssa.Call); ok && km.CalleeFull(cl.Common()) == "(*crypto/rsa.PublicKey).Size" && kv >= 256 {
					size = true
				}
				if cl, ok := f.X.(*ssa.Call); ok && strings.HasSuffix(km.CalleeFull(cl.Common()), ".BitLen") && kv >= 2048 {
					size = true
				}
				if mentionsField(f.X, "E") && kv >= 65537 {
					exp = true
				}
			}
			return "rsa", size && exp
		case "*crypto/ecdsa.PublicKey":
			for _, fe := range fs {
				f := fe.f
				if f.Op != token.GEQ && f.Op != token.GTR {
					continue
				}
				kv, isC := constOf(fe)
				if !isC {
					continue
				}
				if f.Op == token.GTR {
					kv++
				}
				if mentionsField(f.X, "BitSize") && kv > 224 && kv <= 256 {
					return "ecdsa", true
				}
			}
			return "ecdsa", false
		case "crypto/ed25519.PublicKey", "*crypto/ed25519.PublicKey":
			return "ed25519", true
		}
		return "other(" + typ + ")", false
	}
	// trueCases: the ways boolean v can be true under k, each as the list of facts that then hold; a verdict handed
	// up from a helper of the module is followed into the helper's returns (to depth 3)
	var trueCases func(k km.Conj, v ssa.Value, env map[*ssa.Parameter]*km.Sym, depth int) [][]factEnv
	trueCases = func(k km.Conj, v ssa.Value, env map[*ssa.Parameter]*km.Sym, depth int) [][]factEnv {
		v = km.Unwrap(v)
		kk, may := s.TrueFacts(k, v)
		if !may {
			return nil
		}
		var base []factEnv
		for _, f := range kk.List() {
			base = append(base, factEnv{f, env})
		}
		hc, hi := callRes(v)
		if hc == nil || hi != 0 || depth >= 3 {
			return [][]factEnv{base}
		}
		h := km.StaticCallee(hc.Common())
		if h == nil || len(h.Blocks) == 0 || !c.InModule(h) || h.Signature.Results().Len() != 1 {
			return [][]factEnv{base}
		}
		args := km.CallArgs(hc.Common())
		env2 := map[*ssa.Parameter]*km.Sym{}
		for i, q := range h.Params {
			if i < len(args) && args[i] != nil {
				env2[q] = km.SymOfEnv(args[i], env)
			}
		}
		var out [][]factEnv
		for _, rc2 := range s.RetCases(h) {
			for _, d2 := range rc2.State {
				for _, sub := range trueCases(d2, rc2.Results[0], env2, depth+1) {
					out = append(out, append(append([]factEnv{}, base...), sub...))
				}
			}
		}
		return out
	}
	for _, rc := range s.RetCases(fn) {
		v := km.Unwrap(rc.Results[0])
		nAcc := 0
		okAll := true
		var kinds []string
		for _, k := range rc.State {
			// the facts under which this return yields true (a refusal path is of no concern)
			for _, fs := range trueCases(k, v, nil, 0) {
				nAcc++
				kind, good := judge(fs)
				kinds = appendUniq(kinds, kind)
				if good {
					accepted[kind] = true
				} else {
					okAll = false
				}
			}
		}
		if nAcc == 0 {
			continue
		}
		sort.Strings(kinds)
		r.Add("R-C10-2", km.FuncName(fn), "accepting return", posOf(c, rc.Ret), "RSA: Size() >= 256 ∧ E >= 65537; ECDSA: 224 < threshold <= 256 on BitSize; Ed25519; nothing else", sprintf("verdict %s accepts %v", km.ValStr(v), kinds), okAll)
	}
	for _, kind := range []string{"rsa", "ecdsa", "ed25519"} {
		r.Add("R-C10-2", km.FuncName(fn), "strong "+kind+" keys are accepted", c.P.Pos(fn.Pos()), "some return accepts this key family under its thresholds", sprintf("%v", accepted[kind]), accepted[kind])
	}
}

// checkWeakKeyStatus: the response written on the weak/invalid-key edge carries a 4xx constant.
func checkWeakKeyStatus(c *km.Ctx, s *km.Sem) {
	r := c.R
	type site struct {
		rel, fn string
		// a fact that characterises the refusal edge
		isRefusal func(f km.Fact) bool
		what      string
	}
	notStrong := func(f km.Fact) bool {
		cl, idx := callRes(f.X)
		if f.Op == token.ILLEGAL && !f.Pol && cl != nil && idx == 0 && km.CalleeFull(cl.Common()) == certgenPkg+".ValidatePublicKeyStrength" {
			return true
		}
		// errors.Is(err, <weak-key sentinel of lib/certgen>) is true
		if f.Op == token.ILLEGAL && f.Pol && cl != nil && km.CalleeFull(cl.Common()) == "errors.Is" {
			if u, ok := km.Unwrap(cl.Common().Args[1]).(*ssa.UnOp); ok {
				if g, ok := u.X.(*ssa.Global); ok && g.Pkg != nil && g.Pkg.Pkg.Path() == certgenPkg && strings.Contains(strings.ToLower(g.Name()), "weak") {
					return true
				}
			}
		}
		return false
	}
	userErrOf := func(callee string, idx int) func(f km.Fact) bool {
		return func(f km.Fact) bool {
			cl, i := callRes(f.X)
			return f.Op == token.NEQ && km.IsNilConst(f.Y) && cl != nil && i == idx && km.CalleeFull(cl.Common()) == callee
		}
	}
	isConv := func(fn *ssa.Function) bool {
		res := fn.Signature.Results()
		return res.Len() == 3 && types.TypeString(res.At(1).Type(), nil) == "error" && types.TypeString(res.At(2).Type(), nil) == "error"
	}
	// a weak key seen here, or reported as a user error by a key-validating helper of the (value, userErr, err) kind
	genericRefusal := func(f km.Fact) bool {
		if notStrong(f) {
			return true
		}
		cl, i := callRes(f.X)
		if f.Op == token.NEQ && km.IsNilConst(f.Y) && cl != nil && i == 1 {
			if g := km.StaticCallee(cl.Common()); g != nil && g.Blocks != nil && g.Pkg != nil && pkgIsKMD(g.Pkg) && isConv(g) && reachesValidate(c, g) {
				return true
			}
		}
		return false
	}
	_ = userErrOf
	for _, st := range []site{
		{"cmd/keymasterd", "(*RuntimeState).postAuthSSHCertHandler", genericRefusal, "ssh"},
		{"cmd/keymasterd", "(*RuntimeState).postAuthX509CertHandler", genericRefusal, "x509"},
		{"cmd/keymasterd", "(*RuntimeState).roleRequetingCertGenHandler", genericRefusal, "automation"},
		{"cmd/keymasterd", "(*RuntimeState).refreshRoleRequestingCertGenHandler", genericRefusal, "automation refresh"},
		{"lib/server/aws_identity_cert", "(*Issuer).requestHandler", notStrong, "cloud role"},
	} {
		fn := c.MustFunc("R-C10-3", st.rel, st.fn)
		if fn == nil {
			continue
		}
		n := 0
		// the refusal may be written by a stage of the handler that is new to the tree ("each stage reports its
		// own failure")
		for _, ci := range callsWithNewHelpers(c, fn, 2) {
			code, ok := statusOfFailureCall(ci)
			if !ok {
				continue
			}
			stt := c.F.At(ci)
			if len(stt) == 0 {
				continue
			}
			onRefusal := stt.All(func(k km.Conj) bool {
				for _, f := range k.List() {
					if st.isRefusal(f) {
						return true
					}
				}
				return false
			})
			if !onRefusal {
				continue
			}
			n++
			r.Add("R-C10-3", km.FuncName(fn), st.what+": refusal status", posOf(c, ci), "a 4xx status constant", sprintf("%d", code), code >= 400 && code <= 499)
		}
		if n == 0 {
			r.Add("R-C10-3", km.FuncName(fn), st.what+": refusal status", c.P.Pos(fn.Pos()), "a failure response on the weak-key edge", "no failure response found on that edge", false)
		}
	}
	// functions that follow the (value, userError, internalError) convention classify a weak key - found by
	// themselves or reported as a user error by a helper of the same convention - as a user error
	isConvention := func(fn *ssa.Function) bool {
		res := fn.Signature.Results()
		if res.Len() != 3 {
			return false
		}
		return types.TypeString(res.At(1).Type(), nil) == "error" && types.TypeString(res.At(2).Type(), nil) == "error"
	}
	n := 0
	for _, fn := range c.P.AllFuncs {
		if fn.Pkg == nil || !pkgIsKMD(fn.Pkg) || !isConvention(fn) || fn.Blocks == nil {
			continue
		}
		refusal := func(f km.Fact) bool {
			if notStrong(f) {
				return true
			}
			cl, i := callRes(f.X)
			if f.Op == token.NEQ && km.IsNilConst(f.Y) && cl != nil && i == 1 {
				if g := km.StaticCallee(cl.Common()); g != nil && g.Pkg != nil && pkgIsKMD(g.Pkg) && isConvention(g) && reachesValidate(c, g) {
					return true
				}
			}
			return false
		}
		for _, rc := range s.RetCases(fn) {
			on := len(rc.State) > 0 && rc.State.All(func(k km.Conj) bool {
				for _, f := range k.List() {
					if refusal(f) {
						return true
					}
				}
				return false
			})
			if !on {
				// a key that does not decode is the client's mistake as well (answered 4xx, not 5xx)
				decoders := map[string]int{"(*encoding/base64.Encoding).DecodeString": 1, "crypto/x509.ParsePKIXPublicKey": 1, "golang.org/x/crypto/ssh.ParseAuthorizedKey": 4, "golang.org/x/crypto/ssh.ParsePublicKey": 1}
				malformed := len(rc.State) > 0 && rc.State.All(func(k km.Conj) bool {
					for _, f := range k.List() {
						if f.Op != token.NEQ || !km.IsNilConst(f.Y) {
							continue
						}
						if cl, i := callRes(f.X); cl != nil {
							if want, is := decoders[km.CalleeFull(cl.Common())]; is && want == i {
								return true
							}
						}
					}
					return false
				})
				if malformed {
					ok := km.IsNilConst(rc.Results[0]) && !km.IsNilConst(rc.Results[1]) && km.IsNilConst(rc.Results[2])
					r.Add("R-C10-3", km.FuncName(fn), "malformed key is a user error", posOf(c, rc.Ret), "(nil, userError, nil)", sprintf("%v", ok), ok)
				}
				continue
			}
			n++
			ok := km.IsNilConst(rc.Results[0]) && !km.IsNilConst(rc.Results[1]) && km.IsNilConst(rc.Results[2])
			r.Add("R-C10-3", km.FuncName(fn), "weak key is a user error", posOf(c, rc.Ret), "(nil, userError, nil)", sprintf("%v", ok), ok)
		}
	}
	if n < 2 {
		r.Add("R-C10-3", "cmd/keymasterd", "weak key is a user error", "", "returns on the weak-key edge of the request parsers", sprintf("found %d, expected at least 2", n), false)
	}
}

// reachesValidate: fn (or a function it calls in the module) calls ValidatePublicKeyStrength
func reachesValidate(c *km.Ctx, fn *ssa.Function) bool {
	for f := range reachableFrom(c, nil, fn) {
		for _, ci := range km.CallsIn(f) {
			if km.CalleeFull(ci.Common()) == certgenPkg+".ValidatePublicKeyStrength" {
				return true
			}
		}
	}
	return false
}

// statusOfFailureCall: writeFailureResponse(w, r, code, msg) / FailureWriter(w, r, msg, code) / http.Error(w, msg, code)
func statusOfFailureCall(ci ssa.CallInstruction) (int64, bool) {
	n := km.CalleeFull(ci.Common())
	a := km.CallArgs(ci.Common())
	switch {
	case n == RS+"writeFailureResponse" && len(a) == 5:
		return km.ConstInt(a[3])
	case n == "net/http.Error" && len(a) == 3:
		return km.ConstInt(a[2])
	case n == "" && !ci.Common().IsInvoke():
		if _, fld, ok := km.FieldPath(ci.Common().Value); ok && strings.HasSuffix(fld, "FailureWriter") && len(a) == 4 {
			return km.ConstInt(a[3])
		}
	}
	return 0, false
}

// foundIndexOf: idx is slices.Index / slices.IndexFunc (…) of the same slice and every path knows it is >= 0
func foundIndexOf(st km.DNF, idx, base ssa.Value) bool {
	cl, ok := km.Unwrap(idx).(*ssa.Call)
	if !ok {
		return false
	}
	name := km.CalleeFull(cl.Common())
	if i := strings.Index(name, "["); i > 0 {
		name = name[:i]
	}
	if name != "slices.Index" && name != "slices.IndexFunc" || len(cl.Common().Args) < 1 || !sameOperand(cl.Common().Args[0], base) {
		return false
	}
	return len(st) > 0 && st.All(func(k km.Conj) bool {
		for _, f := range k.List() {
			if f.X != ssa.Value(cl) {
				continue
			}
			if y, isC := km.ConstInt(f.Y); isC && ((f.Op == token.GEQ && y == 0) || (f.Op == token.GTR && y == -1) || (f.Op == token.NEQ && y == -1)) {
				return true
			}
		}
		return false
	})
}

func lenAtLeast(k km.Conj, operand ssa.Value, n int64) bool {
	for _, f := range k.List() {
		var lenSide, other ssa.Value
		op := f.Op
		if cl, ok := f.X.(*ssa.Call); ok {
			if bi, ok := cl.Common().Value.(*ssa.Builtin); ok && bi.Name() == "len" && sameOperand(cl.Common().Args[0], operand) {
				lenSide, other = f.X, f.Y
			}
		}
		if lenSide == nil && f.Y != nil {
			if cl, ok := f.Y.(*ssa.Call); ok {
				if bi, ok := cl.Common().Value.(*ssa.Builtin); ok && bi.Name() == "len" && sameOperand(cl.Common().Args[0], operand) {
					lenSide, other = f.Y, f.X
					switch op {
					case token.LSS:
						op = token.GTR
					case token.LEQ:
						op = token.GEQ
					case token.GTR:
						op = token.LSS
					case token.GEQ:
						op = token.LEQ
					}
				}
			}
		}
		if lenSide == nil {
			continue
		}
		kv, ok := km.ConstInt(other)
		if !ok {
			continue
		}
		switch op {
		case token.GEQ:
			if kv >= n {
				return true
			}
		case token.GTR:
			if kv+1 >= n {
				return true
			}
		case token.EQL:
			if kv >= n {
				return true
			}
		case token.NEQ:
			if kv == 0 && n <= 1 {
				return true
			}
		}
	}
	return false
}

// outputSide: functions of the scanned packages that build the server's own output from values that were
// already parsed and typed (net.IPNet, the server's own asn1.Marshal result, ...). They decode no key,
// certificate or token, so the "malformed input never panics" clause does not range over them.
var outputSide = map[string]string{
	"encodeIpAddressChoice":                "encodes a net.IPNet (4- or 16-byte IP with a 32-bit mask, checked at its top) into the address extension",
	"changePrintableStringToGeneralString": "patches the server's own asn1.Marshal output of a fixed-shape structure",
	"genSANExtension":                      "builds the Kerberos SAN from the server's own marshalled structure",
}

func checkDecoderPanics(c *km.Ctx, s *km.Sem) {
	r := c.R
	scope := map[*ssa.Function]bool{}
	for _, fn := range c.P.AllFuncs {
		if fn.Pkg == nil {
			continue
		}
		pp := fn.Pkg.Pkg.Path()
		if pp == certgenPkg || pp == km.ModPath+"/lib/server/aws_identity_cert" {
			top := fn
			for top.Parent() != nil {
				top = top.Parent()
			}
			if _, out := outputSide[km.NameOf(top)]; out {
				continue
			}
			scope[fn] = true
		}
	}
	isRoute := map[*ssa.Function]bool{}
	for _, rt := range c.Routes {
		if rt.Handler != nil {
			isRoute[rt.Handler] = true
		}
	}
	listed := map[*ssa.Function]bool{}
	for _, n := range decoderScope {
		if fn := c.P.Func("cmd/keymasterd", n); fn != nil {
			listed[fn] = true
		}
	}
	for _, n := range decoderScope {
		fn := c.P.Func("cmd/keymasterd", n)
		if fn == nil {
			// a listed decoder that was renamed or merged away: its code is scanned through whoever calls it now
			continue
		}
		scope[fn] = true
		for _, a := range fn.AnonFuncs {
			scope[a] = true
		}
		// helpers the decoders were split into (same package, not route handlers, not listed themselves)
		for _, ci := range km.CallsIn(fn) {
			g := km.StaticCallee(ci.Common())
			if g == nil || g.Blocks == nil || g.Pkg == nil || !pkgIsKMD(g.Pkg) || isRoute[g] || listed[g] || scope[g] {
				continue
			}
			if !takesDecodable(g) {
				continue
			}
			scope[g] = true
			for _, c2 := range km.CallsIn(g) {
				if g2 := km.StaticCallee(c2.Common()); g2 != nil && g2.Blocks != nil && g2.Pkg != nil && pkgIsKMD(g2.Pkg) && !isRoute[g2] && !listed[g2] && takesDecodable(g2) {
					scope[g2] = true
				}
			}
		}
	}
	nListed := 0
	for fn := range listed {
		if scope[fn] {
			nListed++
		}
	}
	if nListed < len(decoderScope)/2 {
		r.AnchorLost("R-C10-4", sprintf("decoder entry points (found %d of %d)", nListed, len(decoderScope)))
	}
	// route prefix justification
	patternOf := map[*ssa.Function]string{}
	for _, rt := range c.Routes {
		if rt.Handler != nil {
			if _, dup := patternOf[rt.Handler]; dup {
				patternOf[rt.Handler] = "" // several patterns: no single prefix
			} else {
				patternOf[rt.Handler] = rt.Pattern
			}
		}
	}
	for _, fn := range sortedFuncs(scope) {
		for _, rs := range scanRisks(fn) {
			st := c.F.At(rs.in)
			if st == nil {
				continue // unreachable
			}
			guarded, how := false, ""
			switch x := rs.in.(type) {
			case *ssa.IndexAddr, *ssa.Index:
				var base, idx ssa.Value
				if ia, ok := x.(*ssa.IndexAddr); ok {
					base, idx = ia.X, ia.Index
				} else {
					base, idx = x.(*ssa.Index).X, x.(*ssa.Index).Index
				}
				if k, isC := km.ConstInt(idx); isC {
					if st.All(func(kk km.Conj) bool { return lenAtLeast(kk, base, k+1) }) {
						guarded, how = true, "len guard"
					}
					if isStr, _ := isStringIndex0(base, idx); !guarded && isStr && st.All(func(kk km.Conj) bool { return nonEmptyString(kk, base) }) {
						guarded, how = true, "s[0] under s != \"\""
					}
					if !guarded && k == 0 && isSplitResult(base) {
						guarded, how = true, "strings.Split returns at least one element"
					}
					if !guarded && k == 0 && isFormLookupUnderOk(st, base) {
						guarded, how = true, "url.Values entry present (ok) => non-empty"
					}
				} else if idxBelowLen(st, idx, base) {
					guarded, how = true, "index < len guard"
				} else if k, isLast := lenMinusConst(idx, base); isLast && k >= 1 && st.All(func(kk km.Conj) bool { return lenAtLeast(kk, base, k) }) {
					guarded, how = true, "x[len(x)-k] under len(x) >= k"
				} else if other, isGap := lenGapMinusOne(idx, base); isGap && st.All(func(kk km.Conj) bool { return strictlyLongerBySuffix(kk, base, other) }) {
					guarded, how = true, "a[len(a)-len(b)-1] where b is a proper suffix/prefix of a"
				} else if isStr, _ := isStringIndex0(base, idx); isStr && st.All(func(kk km.Conj) bool { return nonEmptyString(kk, base) }) {
					guarded, how = true, "s[0] under s != \"\""
				} else if foundIndexOf(st, idx, base) {
					guarded, how = true, "index returned by slices.Index/IndexFunc over the same slice, tested >= 0"
				} else if km.NameOf(fn) == "decodeIPV4AddressChoice" {
					continue // judged by the dedicated bounded-copy obligations below
				}
			case *ssa.Slice:
				if x.Low != nil && x.High == nil {
					if lo, isC := km.ConstInt(x.Low); isC {
						if p := patternOf[fn]; p != "" && int(lo) == len(p) && strings.HasSuffix(p, "/") {
							if _, path, ok := km.FieldPath(x.X); ok && path == "URL.Path" {
								guarded, how = true, "handler registered only under the slash-terminated pattern of that length"
							}
						}
						if !guarded {
							// a helper handed the request path by handlers registered under such a pattern
							if pp, isP := km.Unwrap(x.X).(*ssa.Parameter); isP && len(c.G.Callers[fn]) > 0 && len(c.G.AddrTaken[fn]) == 0 {
								all := true
								for _, cs := range c.G.Callers[fn] {
									ci, isCI := cs.Instr.(ssa.CallInstruction)
									if !isCI {
										all = false
										break
									}
									args := km.CallArgs(ci.Common())
									ai := -1
									for i, q := range fn.Params {
										if q == pp {
											ai = i
										}
									}
									pat := patternOf[cs.Caller]
									_, path, okP := km.FieldPath(km.Unwrap(args[ai]))
									if ai < 0 || !okP || path != "URL.Path" || pat == "" || int(lo) != len(pat) || !strings.HasSuffix(pat, "/") {
										all = false
										break
									}
								}
								if all {
									guarded, how = true, "the path of handlers registered only under the slash-terminated pattern of that length"
								}
							}
						}
						if !guarded && st.All(func(kk km.Conj) bool { return lenAtLeast(kk, x.X, lo) }) {
							guarded, how = true, "len guard"
						}
					}
				}
				if x.High != nil {
					if hi, isC := km.ConstInt(x.High); isC && st.All(func(kk km.Conj) bool { return lenAtLeast(kk, x.X, hi) }) {
						guarded, how = true, "len guard"
					}
					// symbolic bound: len(base) >= E (or E <= len(base)) with E the same expression as the bound
					if !guarded && x.Low == nil {
						want := km.ValStr(x.High)
						if st.All(func(kk km.Conj) bool {
							for _, f := range kk.List() {
								var lenSide, other ssa.Value
								switch f.Op {
								case token.GEQ, token.GTR:
									lenSide, other = f.X, f.Y
								case token.LEQ, token.LSS:
									lenSide, other = f.Y, f.X
								default:
									continue
								}
								cl, ok := lenSide.(*ssa.Call)
								if !ok || other == nil {
									continue
								}
								if bi, ok := cl.Common().Value.(*ssa.Builtin); !ok || bi.Name() != "len" || !sameOperand(cl.Common().Args[0], x.X) {
									continue
								}
								if km.ValStr(other) == want {
									return true
								}
							}
							return false
						}) {
							guarded, how = true, "len(base) >= the same bound expression"
						}
					}
				}
			case *ssa.Call:
				if operand, n, ok := libMinLen(x); ok && st.All(func(kk km.Conj) bool { return lenAtLeast(kk, operand, n) }) {
					guarded, how = true, "len guard"
				}
			case *ssa.Panic:
				if cs, ok := km.ConstString(x.X); ok && cs == "blocking select matched no case" {
					guarded, how = true, "compiler-generated"
				}
			case *ssa.TypeAssert:
				if km.NamedTypeOf(x.AssertedType) == km.ModPath+"/lib/instrumentedwriter.LoggingWriter" {
					guarded, how = true, "every service handler is wrapped by NewLoggingHandler"
				}
			}
			kexpr := rs.expr
			if i := strings.Index(kexpr, ".TLS.VerifiedChains["); i >= 0 && isPlainIdentS(kexpr[:i]) && km.NameOf(fn) == "getUsernameIfIPRestricted" {
				// the chains read from the request inside instead of handed in: the same construct, and the
				// caller guard below is then required on the request's chains
				kexpr = kexpr[i+len(".TLS."):]
			}
			key := km.NameOf(fn) + "|" + kexpr
			if fn.Parent() != nil {
				key = km.NameOf(fn.Parent()) + "$|" + kexpr
			}
			if !guarded {
				if reason, ok := reviewedRisks[key]; ok {
					guarded, how = true, "reviewed: "+reason
					// some table entries hold only under a fact their reason names; that fact is then required at the
					// site, or at every call of the enclosing function
					if need, has := reviewedRisksNeed[key]; has {
						pr := primErrNil(need.what, need.callee, need.idx)
						if ok2, _ := s.HoldsOnAllPaths(rs.in, allPrims(s, pr), map[*ssa.Function]bool{}, 3); !ok2 {
							guarded, how = false, "reviewed entry needs \""+need.what+"\" on every path to the site, which no longer holds"
						}
					}
				}
			}
			found := how
			if !guarded {
				found = "no dominating length/nil guard recognised and not in the reviewed table; state " + clipS(st.String(), 200)
			}
			r.Add("R-C10-4", km.FuncName(fn), rs.kind+" "+clipS(rs.expr, 120), posOf(c, rs.in), "guarded or reviewed", found, guarded)
		}
		// PEM block dereference
		km.Instrs(fn, func(in ssa.Instruction) {
			fa, ok := in.(*ssa.FieldAddr)
			if !ok {
				return
			}
			pc, idx := callRes(km.Unwrap(fa.X))
			if pc == nil || idx != 0 || km.CalleeFull(pc.Common()) != "encoding/pem.Decode" {
				return
			}
			st := c.F.At(in)
			ok2 := st.All(func(k km.Conj) bool {
				for _, f := range k.List() {
					if f.Op == token.NEQ && km.IsNilConst(f.Y) && km.Unwrap(f.X) == km.Unwrap(fa.X) {
						return true
					}
				}
				return false
			})
			r.Add("R-C10-4", km.FuncName(fn), "deref of pem.Decode block", posOf(c, in), "block != nil on every path to the field access", sprintf("%v", ok2), ok2)
		})
	}
	// caller guard for getUsernameIfIPRestricted's VerifiedChains[0]
	if fn := c.P.Func("cmd/keymasterd", "(*RuntimeState).getUsernameIfIPRestricted"); fn != nil {
		for _, cs := range c.G.Callers[fn] {
			st := c.F.At(cs.Instr)
			a := km.CallArgs(cs.Instr.(ssa.CallInstruction).Common())
			gone := len(a) <= 1 || a[1] == nil || km.IsNilConst(a[1])
			ok := !gone && st.All(func(k km.Conj) bool { return lenAtLeast(k, a[1], 1) })
			if !ok {
				// the call may sit in a helper of checkAuth that is itself only called under the guard: the guard on
				// the request's verified chains is then required on every path into the helper (the same when the
				// chains are no longer handed in but read from the request inside)
				isReq := gone
				if !isReq {
					_, path, isFP := km.FieldPath(km.Unwrap(a[1]))
					isReq = isFP && strings.HasSuffix(path, "TLS.VerifiedChains")
				}
				if isReq {
					chains := km.Prim{Name: "len(r.TLS.VerifiedChains) >= 1", Rel: func(f km.Fact, _ func(ssa.Value) ssa.Value) bool {
						cl, isCall := f.X.(*ssa.Call)
						if !isCall {
							return false
						}
						if b, isB := cl.Common().Value.(*ssa.Builtin); !isB || b.Name() != "len" {
							return false
						}
						root, p2, ok2 := km.FieldPath(km.Unwrap(cl.Common().Args[0]))
						if !ok2 || !strings.HasSuffix(p2, "TLS.VerifiedChains") || km.NamedTypeOf(root.Type()) != "net/http.Request" {
							return false
						}
						i, isC := km.ConstInt(f.Y)
						return isC && ((f.Op == token.GTR && i >= 0) || (f.Op == token.GEQ && i >= 1) || (f.Op == token.NEQ && i == 0))
					}}
					ok, _ = s.HoldsOnAllPaths(cs.Instr, allPrims(s, chains), map[*ssa.Function]bool{}, 3)
				}
			}
			r.Add("R-C10-4", km.FuncName(cs.Caller), "caller guard: non-empty VerifiedChains", posOf(c, cs.Instr), "len(VerifiedChains) >= 1 at every call of getUsernameIfIPRestricted", sprintf("%v", ok), ok)
		}
	}
	checkIPv4Decoder(c, s, "R-C10-4")
	checkUploadUsedAfterTest(c, s, "R-C10-4")
}

func isSplitResult(v ssa.Value) bool {
	cl, ok := km.Unwrap(v).(*ssa.Call)
	if !ok {
		return false
	}
	n := km.CalleeFull(cl.Common())
	return n == "strings.Split" || n == "strings.SplitN"
}

func isFormLookupUnderOk(st km.DNF, base ssa.Value) bool {
	ex, ok := km.Unwrap(base).(*ssa.Extract)
	if !ok || ex.Index != 0 {
		return false
	}
	lk, ok := ex.Tuple.(*ssa.Lookup)
	if !ok || !lk.CommaOk || km.NamedTypeOf(lk.X.Type()) != "net/url.Values" {
		return false
	}
	return st.All(func(k km.Conj) bool {
		for _, f := range k.List() {
			if f.Op == token.ILLEGAL && f.Pol {
				if e2, ok := f.X.(*ssa.Extract); ok && e2.Index == 1 && e2.Tuple == ex.Tuple {
					return true
				}
			}
		}
		return false
	})
}

func idxBelowLen(st km.DNF, idx, base ssa.Value) bool {
	// an array (or pointer to one): the length is a constant of the type
	arrLen := int64(-1)
	bt := base.Type().Underlying()
	if pt, isP := bt.(*types.Pointer); isP {
		bt = pt.Elem().Underlying()
	}
	if at, isA := bt.(*types.Array); isA {
		arrLen = at.Len()
	}
	return st.All(func(k km.Conj) bool {
		for _, f := range k.List() {
			if arrLen >= 0 && f.Op == token.LSS && km.Unwrap(f.X) == km.Unwrap(idx) {
				if n, isC := km.ConstInt(f.Y); isC && n <= arrLen && isWholeRangeIndex(idx) {
					return true
				}
			}
			if f.Op == token.LSS && km.Unwrap(f.X) == km.Unwrap(idx) {
				if cl, ok := f.Y.(*ssa.Call); ok {
					if bi, ok := cl.Common().Value.(*ssa.Builtin); ok && bi.Name() == "len" && sameOperand(cl.Common().Args[0], base) {
						return true
					}
				}
			}
		}
		return false
	})
}

// checkIPv4Decoder: the bounded-decode obligations of decodeIPV4AddressChoice (shared by C10 and C11):
// every array/slice index in the copy loop is dominated by BitLength <= 8*len(array), len(Bytes) >=
// ceil(BitLength/8) and the loop test i*8 < BitLength.
func checkIPv4Decoder(c *km.Ctx, s *km.Sem, rule string) {
	fn := c.MustFunc(rule, "lib/certgen", "decodeIPV4AddressChoice")
	if fn == nil {
		return
	}
	n := 0
	km.Instrs(fn, func(in ssa.Instruction) {
		ia, ok := in.(*ssa.IndexAddr)
		if !ok {
			return
		}
		if _, isC := km.ConstInt(ia.Index); isC {
			return
		}
		n++
		st := c.F.At(in)
		arr := arrayLen(ia.X.Type())
		ok2 := st.All(func(k km.Conj) bool {
			k = s.SaturateBool(k) // the guard may have been split over named booleans
			capOK, lenOK, loopOK := false, false, false
			for _, f := range k.List() {
				// BitLength <= 8*N
				if (f.Op == token.LEQ || f.Op == token.LSS) && mentionsField(f.X, "BitLength") {
					if kv, isC := km.ConstInt(f.Y); isC {
						if f.Op == token.LSS {
							kv--
						}
						if arr < 0 || kv <= 8*arr {
							capOK = true
						}
						if arr < 0 && kv <= 32 {
							capOK = true
						}
					}
				}
				// len(Bytes) >= (BitLength+7)/8
				if f.Op == token.GEQ {
					if cl, ok := f.X.(*ssa.Call); ok {
						if bi, ok := cl.Common().Value.(*ssa.Builtin); ok && bi.Name() == "len" && mentionsField(cl.Common().Args[0], "Bytes") {
							if d, ok := f.Y.(*ssa.BinOp); ok && d.Op == token.QUO {
								if kv, isC := km.ConstInt(d.Y); isC && kv == 8 {
									if add, ok := d.X.(*ssa.BinOp); ok && add.Op == token.ADD && mentionsField(add.X, "BitLength") {
										if k7, isC := km.ConstInt(add.Y); isC && k7 == 7 {
											lenOK = true
										}
									}
								}
							}
						}
					}
				}
				// i*8 < BitLength
				if f.Op == token.LSS && mentionsField(f.Y, "BitLength") {
					if m, ok := f.X.(*ssa.BinOp); ok && m.Op == token.MUL && km.Unwrap(m.X) == km.Unwrap(ia.Index) {
						if kv, isC := km.ConstInt(m.Y); isC && kv == 8 {
							loopOK = true
						}
					}
				}
			}
			if arr >= 0 {
				return capOK && loopOK
			}
			return lenOK && loopOK
		})
		what := "array"
		if arr < 0 {
			what = "slice"
		}
		c.R.Add(rule, km.FuncName(fn), "bounded copy into/from "+what+" "+clipS(km.ValStr(ia.X), 60), posOf(c, in), "i*8 < BitLength ∧ BitLength <= 8*len(array) (array) / len(Bytes) >= ceil(BitLength/8) (slice)", clipS(st.String(), 300), ok2)
	})
	if n == 0 {
		// a copy()-based decoder has no indexed loop: require the same caps at the copy call
		hasCopy := false
		for _, ci := range km.CallsIn(fn) {
			if b, ok := ci.Common().Value.(*ssa.Builtin); ok && b.Name() == "copy" {
				hasCopy = true
			}
		}
		c.R.Add(rule, km.FuncName(fn), "bounded copy (copy builtin form)", c.P.Pos(fn.Pos()), "the decoder moves bytes either by a bounded indexed loop or by the copy builtin (which cannot overrun)", sprintf("copy builtin used=%v", hasCopy), hasCopy)
	}
}

func isPlainIdentS(s string) bool {
	if s == "" {
		return false
	}
	for i := 0; i < len(s); i++ {
		ch := s[i]
		if !(ch == '_' || (ch >= 'a' && ch <= 'z') || (ch >= 'A' && ch <= 'Z') || (i > 0 && ch >= '0' && ch <= '9')) {
			return false
		}
	}
	return true
}

// lenMinusConst: idx is len(base) - k for a constant k.
func lenMinusConst(idx, base ssa.Value) (int64, bool) {
	b, ok := km.Unwrap(idx).(*ssa.BinOp)
	if !ok || b.Op != token.SUB {
		return 0, false
	}
	k, isC := km.ConstInt(b.Y)
	cl, isCall := km.Unwrap(b.X).(*ssa.Call)
	if !isC || !isCall {
		return 0, false
	}
	bi, isB := cl.Common().Value.(*ssa.Builtin)
	if !isB || bi.Name() != "len" || !sameOperand(cl.Common().Args[0], base) {
		return 0, false
	}
	return k, true
}

// isStringIndex0: s[0] on a string.
func isStringIndex0(base, idx ssa.Value) (bool, ssa.Value) {
	if k, isC := km.ConstInt(idx); !isC || k != 0 {
		return false, nil
	}
	if bt, ok := base.Type().Underlying().(*types.Basic); !ok || bt.Kind() != types.String {
		return false, nil
	}
	return true, base
}

// nonEmptyString: conjunction k says s != "".
func nonEmptyString(k km.Conj, s ssa.Value) bool {
	for _, f := range k.List() {
		if f.Op != token.NEQ || f.X == nil || f.Y == nil {
			continue
		}
		if cs, ok := km.ConstString(f.Y); ok && cs == "" && sameOperand(f.X, s) {
			return true
		}
		if cs, ok := km.ConstString(f.X); ok && cs == "" && sameOperand(f.Y, s) {
			return true
		}
	}
	return lenAtLeast(k, s, 1)
}

// lenGapMinusOne: idx is len(base) - len(other) - 1; returns other.
func lenGapMinusOne(idx, base ssa.Value) (ssa.Value, bool) {
	b, ok := km.Unwrap(idx).(*ssa.BinOp)
	if !ok || b.Op != token.SUB {
		return nil, false
	}
	if k, isC := km.ConstInt(b.Y); !isC || k != 1 {
		return nil, false
	}
	d, ok := km.Unwrap(b.X).(*ssa.BinOp)
	if !ok || d.Op != token.SUB {
		return nil, false
	}
	lenOf := func(v ssa.Value) ssa.Value {
		cl, isCall := km.Unwrap(v).(*ssa.Call)
		if !isCall {
			return nil
		}
		if bi, isB := cl.Common().Value.(*ssa.Builtin); !isB || bi.Name() != "len" {
			return nil
		}
		return cl.Common().Args[0]
	}
	a, o := lenOf(d.X), lenOf(d.Y)
	if a == nil || o == nil || !sameOperand(a, base) {
		return nil, false
	}
	return o, true
}

// strictlyLongerBySuffix: k says other is a suffix (or prefix) of base and base != other, so len(base) > len(other).
func strictlyLongerBySuffix(k km.Conj, base, other ssa.Value) bool {
	affix, differ := false, false
	for _, f := range k.List() {
		if f.Op == token.ILLEGAL && f.Pol {
			if cl, ok := f.X.(*ssa.Call); ok {
				if n := km.CalleeFull(cl.Common()); (n == "strings.HasSuffix" || n == "strings.HasPrefix") && sameOperand(cl.Common().Args[0], base) && sameOperand(cl.Common().Args[1], other) {
					affix = true
				}
			}
		}
		if f.Op == token.NEQ && f.X != nil && f.Y != nil && ((sameOperand(f.X, base) && sameOperand(f.Y, other)) || (sameOperand(f.Y, base) && sameOperand(f.X, other))) {
			differ = true
		}
	}
	return affix && differ
}

// checkUploadUsedAfterTest: the uploaded key file is nil when the request carries no such part; every use of it - a
// deferred Close included, which evaluates the method value at the defer statement - comes after the test of the
// error FormFile returned with it.
func checkUploadUsedAfterTest(c *km.Ctx, s *km.Sem, rule string) {
	n := 0
	for _, fn := range c.P.AllFuncs {
		if fn.Pkg == nil || !pkgIsKMD(fn.Pkg) {
			continue
		}
		for _, ci := range km.CallsIn(fn) {
			cl, ok := ci.(*ssa.Call)
			if !ok || km.CalleeFull(cl.Common()) != "(*net/http.Request).FormFile" {
				continue
			}
			var file ssa.Value
			for _, ref := range *cl.Referrers() {
				if ex, isEx := ref.(*ssa.Extract); isEx && ex.Index == 0 {
					file = ex
				}
			}
			if file == nil {
				continue
			}
			errNil := primErrNilCall("upload present", cl, 2)
			for _, ref := range *file.Referrers() {
				in, isIn := ref.(ssa.Instruction)
				if !isIn {
					continue
				}
				if _, isDbg := ref.(*ssa.DebugRef); isDbg {
					continue
				}
				n++
				st := c.F.At(in)
				ok := len(st) > 0 && st.All(func(k km.Conj) bool { return s.Holds(k, errNil) })
				c.R.Add(rule, km.FuncName(fn), "use of the uploaded file", posOf(c, in), "FormFile's error was tested (err == nil) on every path to the use", sprintf("%v", ok), ok)
			}
		}
	}
	if n == 0 {
		c.R.AnchorLost(rule, "uses of the FormFile result in cmd/keymasterd")
	}
}
