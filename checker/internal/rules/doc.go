// Package rules holds the repository-specific rules, one file per property.
package rules
