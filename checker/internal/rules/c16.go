package rules

import (
	"go/token"
	"sort"
	"strings"

	"kmcheck/internal/km"

	"golang.org/x/tools/go/ssa"
)

func init() { km.Register("C16", checkC16) }

// Guard map: struct type -> field -> mutex term (as printed by the lockset analysis). Inferred from the majority
// of accesses on the pinned tree, confirmed by reading, frozen here.
var guardMap = map[string]map[string]string{
	KMD + ".RuntimeState": {
		"localAuthData":      stateMutex,
		"vipPushCookie":      stateMutex,
		"pendingOauth2":      stateMutex,
		"totpLocalRateLimit": totpMutexDeclared,
	},
	km.ModPath + "/keymasterd/eventnotifier.EventNotifier": {
		"transmitChannels": km.ModPath + "/keymasterd/eventnotifier.EventNotifier.mutex",
	},
	km.ModPath + "/keymasterd/admincache.Cache": {
		"data": km.ModPath + "/keymasterd/admincache.Cache.mu",
	},
	km.ModPath + "/lib/authenticators/okta.PasswordAuthenticator": {
		"recentAuth": km.ModPath + "/lib/authenticators/okta.PasswordAuthenticator.mutex",
	},
}

// Single-threaded initialisation: functions that touch guarded fields before any goroutine that can reach the
// field exists (constructors, configuration loading).
var initExempt = map[string]string{
	"loadVerifyConfigFile":   "builds the RuntimeState before any listener or background goroutine is started",
	"newEventNotifier":       "constructor: the value is not yet shared",
	"newForTesting":          "constructor: the value is not yet shared",
	"newAuthenticator":       "constructor: the value is not yet shared",
	"newPublicAuthenticator": "constructor: the value is not yet shared",
}

// start-up writers of the signer family (before the service listener exists)
var signerStartup = map[string]string{
	"tryLoadAndVerifySigners": "plaintext start-up path, runs inside loadVerifyConfigFile before main starts any listener",
	"loadVerifyConfigFile":    "start-up",
}

func guardedFieldOf(v ssa.Value) (typ, field, mu string, ok bool) {
	base, f, isF := km.FieldOfLoad(km.Unwrap(v))
	if !isF {
		// address form (FieldAddr used directly, e.g. as the operand of a store)
		if fa, isFA := km.Unwrap(v).(*ssa.FieldAddr); isFA {
			t := km.NamedTypeOf(fa.X.Type())
			if m, has := guardMap[t]; has {
				fn := fieldNameOf(fa)
				if mu, has := m[fn]; has {
					return t, fn, mu, true
				}
			}
		}
		return "", "", "", false
	}
	t := km.NamedTypeOf(base.Type())
	if m, has := guardMap[t]; has {
		if mu, has := m[f]; has {
			return t, f, mu, true
		}
	}
	return "", "", "", false
}

type access struct {
	in    ssa.Instruction
	kind  string
	typ   string
	field string
	mu    string
}

func guardedAccesses(fn *ssa.Function) []access {
	var out []access
	km.Instrs(fn, func(in ssa.Instruction) {
		switch x := in.(type) {
		case *ssa.Lookup:
			if t, f, mu, ok := guardedFieldOf(x.X); ok {
				out = append(out, access{in, "read", t, f, mu})
			}
		case *ssa.MapUpdate:
			if t, f, mu, ok := guardedFieldOf(x.Map); ok {
				out = append(out, access{in, "write", t, f, mu})
			}
		case *ssa.Range:
			if t, f, mu, ok := guardedFieldOf(x.X); ok {
				out = append(out, access{in, "range", t, f, mu})
			}
		case *ssa.Call:
			if b, ok := x.Common().Value.(*ssa.Builtin); ok && (b.Name() == "delete" || b.Name() == "len") && len(x.Common().Args) > 0 {
				if t, f, mu, ok := guardedFieldOf(x.Common().Args[0]); ok {
					k := "read"
					if b.Name() == "delete" {
						k = "write"
					}
					out = append(out, access{in, k, t, f, mu})
				}
			}
		case *ssa.Store:
			if fa, ok := x.Addr.(*ssa.FieldAddr); ok {
				t := km.NamedTypeOf(fa.X.Type())
				if m, has := guardMap[t]; has {
					if mu, has := m[fieldNameOf(fa)]; has {
						out = append(out, access{in, "assign", t, fieldNameOf(fa), mu})
					}
				}
			}
		}
	})
	return out
}

func checkC16(c *km.Ctx) {
	r := c.R
	s := km.NewSem(c)
	ls := km.NewLockSets()
	r.Explain = "Static analysis of /repo: a must-lockset analysis (Lock adds, Unlock removes, deferred Unlock holds to the return; entry locksets from callers) checks that every access to a guarded map (guard table frozen in the checker) happens under its mutex outside single-threaded initialisation; the signer family is written only under the state mutex or at start-up, read under the mutex (or after the locked nil test) on the admin port, and service-port reads are ordered after the write by main's receive from the ready channel before the service listener starts; one-time challenge records are looked up and consumed in one critical section; every profile load-modify-save sequence is reported unless it is serialised by a lock or a transaction (none is today: known findings, one per site). Decides lock structure, not schedules."
	r.NotDecided = []string{"schedules themselves and the race detector's dynamic view", "several servers sharing one database"}
	r.Assume = []string{"sync.Mutex provides mutual exclusion", "go/types + go/ssa model the source faithfully", "a goroutine started after a channel receive observes writes that happened before the matching send"}

	r.Rule("R-C16-1", "every access to a guarded map field holds its mutex (locally or at every caller), outside the listed single-threaded initialisation", 14)
	r.Rule("R-C16-2", "signer family: writes under the state mutex or at start-up; admin-port reads under the mutex or after the locked sealed test; the service listener starts only after the receive from SignerIsReady", 6)
	r.Rule("R-C16-3", "check-then-consume of one-time challenge records is one critical section (lookup and delete under one uninterrupted hold of the mutex)", 1)
	r.Rule("R-C16-4", "every profile load-modify-save is serialised (per-user/global profile lock, or one database transaction that also read it)", 5)

	// ---------- R-C16-1
	var fns []*ssa.Function
	for _, fn := range c.P.AllFuncs {
		if fn.Pkg != nil && strings.HasPrefix(fn.Pkg.Pkg.Path(), km.ModPath) && !strings.Contains(fn.Pkg.Pkg.Path(), "/lib/client") {
			fns = append(fns, fn)
		}
	}
	// The mutex that guards a field is the one most accesses hold (the table's entry is the tie-break and the
	// fallback): a renamed mutex field keeps the rule, an access under a different lock or none does not pass.
	votes := map[string]map[string]int{}
	for _, fn := range fns {
		name := km.NameOf(fn)
		if fn.Parent() != nil {
			name = fn.Parent().Name()
		}
		if _, exempt := initExempt[name]; exempt {
			continue
		}
		for _, a := range guardedAccesses(fn) {
			key := a.typ + "." + a.field
			if votes[key] == nil {
				votes[key] = map[string]int{}
			}
			for _, m := range ls.HeldAt(a.in) {
				votes[key][m]++
			}
		}
	}
	guardOf := func(a access) string {
		best, bestN := a.mu, votes[a.typ+"."+a.field][a.mu]
		var names []string
		for m := range votes[a.typ+"."+a.field] {
			names = append(names, m)
		}
		sort.Strings(names)
		for _, m := range names {
			if n := votes[a.typ+"."+a.field][m]; n > bestN {
				best, bestN = m, n
			}
		}
		return best
	}
	for _, fn := range fns {
		acc := guardedAccesses(fn)
		if len(acc) == 0 {
			continue
		}
		name := km.NameOf(fn)
		if fn.Parent() != nil {
			name = fn.Parent().Name()
		}
		held := ls.Held(fn)
		for _, a := range acc {
			a.mu = guardOf(a)
			h, reachable := held[a.in]
			if !reachable {
				continue
			}
			if reason, ok := initExempt[name]; ok {
				r.Add("R-C16-1", km.FuncName(fn), a.kind+" "+a.field+" (initialisation)", posOf(c, a.in), "single-threaded initialisation", reason, true)
				continue
			}
			ok := h[a.mu]
			found := "mutex held"
			if !ok {
				// held at every caller?
				ok = heldAtAllCallers(c, ls, fn, a.mu, 2)
				found = "mutex held at every caller"
				if !ok {
					found = "accessed without " + short(a.mu) + " (held here: " + strings.Join(ls.HeldAt(a.in), ",") + ")"
				}
			}
			r.Add("R-C16-1", km.FuncName(fn), a.kind+" "+a.field, posOf(c, a.in), short(a.mu)+" held", found, ok)
		}
	}

	// ---------- R-C16-2 signer family
	adminRoots := []*ssa.Function{}
	for _, rt := range c.Routes {
		if rt.Mux == "default" && rt.Handler != nil && strings.Contains(km.FuncFull(rt.Handler), KMD) {
			adminRoots = append(adminRoots, rt.Handler)
		}
	}
	// The log filter (admin port, /logs) also evaluates credentials while the server may still be sealed; its
	// lock-free reads of the published keys are reported as an observation only: the property speaks of session
	// and challenge state, and the unsealing handlers below are the ones that interact with the signer write.
	if lf := c.P.Func("cmd/keymasterd", "(*logFilterType).ServeHTTP"); lf != nil {
		n := 0
		for fn := range reachableFrom(c, nil, lf) {
			km.Instrs(fn, func(in ssa.Instruction) {
				if u, ok := in.(*ssa.UnOp); ok && u.Op == token.MUL {
					if fa, ok := u.X.(*ssa.FieldAddr); ok && km.NamedTypeOf(fa.X.Type()) == KMD+".RuntimeState" && signerFields[fieldNameOf(fa)] {
						if !ls.Holds(in, stateMutex) {
							n++
						}
					}
				}
			})
		}
		r.Notef("observation (not an obligation): %d lock-free reads of the signer family are reachable from the admin-port log filter, which is served while the server may still be sealed", n)
	}
	// writeFailureResponse answers plainly (no cookie evaluation) when the request did not arrive on the service
	// port, which is the case for every admin-port request: it is a stop node for admin-port reachability.
	adminStop := map[*ssa.Function]bool{}
	if wf := c.P.Func("cmd/keymasterd", "(*RuntimeState).writeFailureResponse"); wf != nil {
		adminStop[wf] = true
	}
	adminReach := reachableFrom(c, adminStop, adminRoots...)
	for f := range adminStop {
		delete(adminReach, f)
	}
	prUnsealed := s.PrimUnsealed()
	for _, fn := range fns {
		if !pkgIsKMD(fn.Pkg) {
			continue
		}
		name := km.NameOf(fn)
		held := ls.Held(fn)
		km.Instrs(fn, func(in ssa.Instruction) {
			// writes
			if st, ok := in.(*ssa.Store); ok {
				if fa, ok := st.Addr.(*ssa.FieldAddr); ok && km.NamedTypeOf(fa.X.Type()) == KMD+".RuntimeState" && signerFields[fieldNameOf(fa)] {
					if h, reachable := held[in]; reachable {
						okW := h[stateMutex] || heldAtAllCallersOrStartup(c, ls, fn, stateMutex, 3)
						how := "under the state mutex (here or at every non-start-up caller)"
						if !okW {
							how = "written without the state mutex outside start-up"
						}
						r.Add("R-C16-2", km.FuncName(fn), "write "+fieldNameOf(fa), posOf(c, in), "state mutex held, or start-up code before any listener", how, okW)
					}
				}
			}
			// admin-port reads
			if u, ok := in.(*ssa.UnOp); ok && u.Op == token.MUL && adminReach[fn] {
				if fa, ok := u.X.(*ssa.FieldAddr); ok && km.NamedTypeOf(fa.X.Type()) == KMD+".RuntimeState" && signerFields[fieldNameOf(fa)] {
					h, reachable := held[in]
					if !reachable {
						return
					}
					if _, isStartup := signerStartup[name]; isStartup {
						return
					}
					okR := h[stateMutex]
					how := "under the state mutex"
					if !okR {
						// dominated by the locked sealed test, or only reachable from service roots as well (ordered by start-up)
						st := c.F.At(in)
						if st.All(func(k km.Conj) bool { return s.Holds(k, prUnsealed) }) {
							okR, how = true, "after the locked sealed test"
						} else if okU, _ := s.HoldsOnPathsWithin(in, allPrims(s, prUnsealed), rootSet(adminRoots), adminReach, 4); okU {
							okR, how = true, "after the locked sealed test (in a caller)"
						} else if heldAtAllCallersOrStartup(c, ls, fn, stateMutex, 3) {
							okR, how = true, "state mutex held at every caller (or start-up)"
						} else {
							how = "read on the admin port (served while sealed) without the mutex and without a dominating sealed test"
						}
					}
					r.Add("R-C16-2", km.FuncName(fn), "admin-port read of "+fieldNameOf(fa), posOf(c, in), "state mutex held, or dominated by the locked sealed test", how, okR)
				}
			}
		})
	}
	// service listener after the ready receive
	if mainFn := c.P.Func("cmd/keymasterd", "main"); mainFn != nil {
		var recv ssa.Instruction
		var serviceListen ssa.Instruction
		km.Instrs(mainFn, func(in ssa.Instruction) {
			if u, ok := in.(*ssa.UnOp); ok && u.Op == token.ARROW && mentionsField(u.X, "SignerIsReady") {
				recv = in
			}
			if cl, ok := in.(*ssa.Call); ok && km.CalleeFull(cl.Common()) == "(*net/http.Server).ListenAndServeTLS" {
				serviceListen = in // the one in main itself (the admin listener is in a goroutine closure)
			}
		})
		ok := recv != nil && serviceListen != nil && km.InstrDominates(recv, serviceListen)
		r.Add("R-C16-2", km.FuncName(mainFn), "service listener ordered after unsealing", c.P.Pos(mainFn.Pos()), "main receives from SignerIsReady before it calls the service ListenAndServeTLS (lock-free service reads of the signer are ordered after the write)", sprintf("receive found=%v listen found=%v dominated=%v", recv != nil, serviceListen != nil, ok), ok)
	}

	// the unsealing transition is one critical section (shared with C09)
	if unseal := c.MustFunc("R-C16-2", "cmd/keymasterd", "(*RuntimeState).unsealCA"); unseal != nil {
		checkUnsealLock(c, ls, unseal, "R-C16-2")
	}
	// the TOTP spacing gate is one critical section (shared with C14): it is what makes two simultaneous
	// presentations of one code pass at most once
	checkTotpGateAtomic(c, ls, "R-C16-3")

	// ---------- R-C16-3
	checkChallengeAtomic(c, ls, "R-C16-3")
	// a TOTP code is honoured at most once only while the spacing window is real: C14's obligations on the window
	// (a constant of at least two seconds, tested and stamped in one critical section) are borrowed
	r.Remap = func(rule, fn, construct string) (string, bool) {
		if rule == "R-C14-3" {
			return "R-C16-3", true
		}
		return "", false
	}
	saveExplain, saveND, saveAs := r.Explain, r.NotDecided, r.Assume
	checkC14(c)
	r.Explain, r.NotDecided, r.Assume = saveExplain, saveND, saveAs
	r.Remap = nil

	// ---------- R-C16-4
	load, save := RS+"LoadUserProfile", RS+"SaveUserProfile"
	var sites []string
	for _, fn := range fns {
		if !pkgIsKMD(fn.Pkg) {
			continue
		}
		var loads []*ssa.Call
		var saves []ssa.CallInstruction
		for _, ci := range km.CallsIn(fn) {
			switch km.CalleeFull(ci.Common()) {
			case load:
				if cl, ok := ci.(*ssa.Call); ok {
					loads = append(loads, cl)
				}
			case save:
				saves = append(saves, ci)
			}
		}
		for _, sv := range saves {
			prof := km.Unwrap(km.CallArgs(sv.Common())[2])
			var origin *ssa.Call
			if ex, ok := prof.(*ssa.Extract); ok {
				if cl, ok := ex.Tuple.(*ssa.Call); ok && km.CalleeFull(cl.Common()) == load {
					origin = cl
				}
			}
			isParamRMW := false
			if origin == nil {
				// the profile is a parameter (or a local copy of one): the caller loaded it
				switch x := prof.(type) {
				case *ssa.Parameter:
					isParamRMW = true
				case *ssa.Alloc:
					for _, ref := range *x.Referrers() {
						if st, ok := ref.(*ssa.Store); ok && st.Addr == ssa.Value(x) {
							if u, ok := km.Unwrap(st.Val).(*ssa.UnOp); ok {
								if _, ok := u.X.(*ssa.Parameter); ok {
									isParamRMW = true
								}
							}
						}
					}
				case *ssa.FreeVar:
					isParamRMW = true
				}
				if !isParamRMW {
					continue // fresh profile (e.g. test helpers): not a read-modify-write
				}
			}
			// serialised? a lock whose name mentions "profile", held from the load to the save
			held := ls.Held(fn)
			serial := false
			for mu := range held[sv] {
				if strings.Contains(strings.ToLower(mu), "profile") {
					if origin == nil || held[origin][mu] {
						serial = true
					}
				}
			}
			sites = append(sites, km.NameOf(fn))
			r.Add("R-C16-4", km.FuncName(fn), "load-modify-save of a user profile", posOf(c, sv), "serialised by a per-user/global profile lock held from the load to the save, or done in one database transaction", map[bool]string{true: "serialised", false: "unserialised: a concurrent request on the same user between the load and the save is overwritten / both are honoured"}[serial], serial)
		}
		_ = loads
	}
	sort.Strings(sites)
	r.Extra["profile_rmw_sites"] = sites
}

func heldAtAllCallers(c *km.Ctx, ls *km.LockSets, fn *ssa.Function, mu string, depth int) bool {
	callers := c.G.Callers[fn]
	if len(callers) == 0 || depth == 0 {
		return false
	}
	for _, cs := range callers {
		if _, isGo := cs.Instr.(*ssa.Go); isGo {
			return false
		}
		if ls.Holds(cs.Instr, mu) {
			continue
		}
		if _, isMC := cs.Instr.(*ssa.MakeClosure); isMC {
			return false
		}
		if !heldAtAllCallers(c, ls, cs.Caller, mu, depth-1) {
			return false
		}
	}
	return true
}

func heldAtAllCallersOrStartup(c *km.Ctx, ls *km.LockSets, fn *ssa.Function, mu string, depth int) bool {
	if _, ok := signerStartup[km.NameOf(fn)]; ok {
		return true
	}
	callers := c.G.Callers[fn]
	if len(callers) == 0 || depth == 0 {
		return false
	}
	for _, cs := range callers {
		if _, ok := signerStartup[cs.Caller.Name()]; ok {
			continue
		}
		if ls.Holds(cs.Instr, mu) {
			continue
		}
		if !heldAtAllCallersOrStartup(c, ls, cs.Caller, mu, depth-1) {
			return false
		}
	}
	return true
}

// checkUnsealLock: the sealed test, the signer load, the publication and the ready signal of unsealCA form one
// critical section: each of load / ready-send holds the state mutex and is preceded, within the same
// uninterrupted hold, by a read of state.Signer that was found nil. (Decryption may happen outside the lock.)
func checkUnsealLock(c *km.Ctx, ls *km.LockSets, unseal *ssa.Function, rule string) {
	const stateMu = KMD + ".RuntimeState.Mutex"
	held := ls.Held(unseal)
	var effects []ssa.Instruction
	km.Instrs(unseal, func(in ssa.Instruction) {
		if cl, ok := in.(*ssa.Call); ok && km.CalleeFull(cl.Common()) == RS+"loadSignersFromPemData" {
			effects = append(effects, in)
		}
		if sd, ok := in.(*ssa.Send); ok && mentionsField(sd.Chan, "SignerIsReady") {
			effects = append(effects, in)
		}
	})
	if len(effects) < 2 {
		c.R.AnchorLost(rule, "signer load and ready-send in unsealCA")
		return
	}
	// explicit (non-deferred) unlocks of the state mutex
	var unlocks []ssa.Instruction
	km.Instrs(unseal, func(in ssa.Instruction) {
		if cl, ok := in.(*ssa.Call); ok && km.CalleeFull(cl.Common()) == "(*sync.Mutex).Unlock" && mentionsField(cl.Common().Args[0], "Mutex") {
			unlocks = append(unlocks, in)
		}
	})
	between := func(a, u, b ssa.Instruction) bool { // u may execute after a and before b
		ra := km.ReachableBlocks(a.Block(), nil)
		ru := km.ReachableBlocks(u.Block(), nil)
		return (ra[u.Block()] || a.Block() == u.Block()) && (ru[b.Block()] || u.Block() == b.Block())
	}
	for _, e := range effects {
		what := "signer load"
		if _, isSend := e.(*ssa.Send); isSend {
			what = "ready-send"
		}
		ok := held[e][stateMu]
		found := "state mutex held; Signer == nil was read under the same hold"
		if !ok {
			found = "the state mutex is not held here"
		} else {
			st := c.F.At(e)
			ok = len(st) > 0 && st.All(func(k km.Conj) bool {
				for _, f := range k.List() {
					if f.Op != token.EQL || !km.IsNilConst(f.Y) || !isSignerLoadV(f.X) {
						continue
					}
					rd, isInstr := km.Unwrap(f.X).(ssa.Instruction)
					if !isInstr || rd.Parent() != unseal || !held[rd][stateMu] || !km.InstrDominates(rd, e) {
						continue
					}
					released := false
					for _, u := range unlocks {
						if between(rd, u, e) {
							released = true
						}
					}
					if !released {
						return true
					}
				}
				return false
			})
			if !ok {
				found = "no read of state.Signer found nil under the same uninterrupted hold of the mutex: another injection can complete in between"
			}
		}
		c.R.Add(rule, km.FuncName(unseal), "sealed test and "+what+" in one critical section", posOf(c, e), "state mutex held, and within the same hold state.Signer was read and found nil", found, ok)
	}
}

// checkTotpGateAtomic: in validateUserTOTP the lookup of the per-user rate record, the spacing test and the update
// of lastCheckTime happen under one uninterrupted hold of the TOTP mutex.
func checkTotpGateAtomic(c *km.Ctx, ls *km.LockSets, rule string) {
	vt := c.MustFunc(rule, "cmd/keymasterd", "(*RuntimeState).validateUserTOTP")
	if vt == nil {
		return
	}
	gate := findTotpGate(c, vt)
	if gate == nil {
		c.R.AnchorLost(rule, "lookup / update of totpLocalRateLimit in validateUserTOTP or a helper it calls")
		return
	}
	held := ls.Held(gate.fn)
	lookup, firstUpdate := gate.lookup, gate.firstUpdate
	totpMutex := gateMutex(ls, gate)
	allHeld := held[lookup][totpMutex] && held[firstUpdate][totpMutex] && lookup.Block().Dominates(firstUpdate.Block())
	for b := range blocksBetween(lookup.Block(), firstUpdate.Block()) {
		for _, in := range b.Instrs {
			if h, ok := held[in]; ok && !h[totpMutex] {
				if (b == lookup.Block() && !km.InstrDominates(lookup, in)) || (b == firstUpdate.Block() && !km.InstrDominates(in, firstUpdate)) {
					continue
				}
				allHeld = false
			}
		}
	}
	c.R.Add(rule, km.FuncName(gate.fn), "TOTP gate: read-test-update is one critical section", posOf(c, lookup), "totpLocalTateLimitMutex held continuously from the lookup of the per-user record to the update of lastCheckTime", sprintf("%v", allHeld), allHeld)
}

// checkChallengeAtomic: lookup and delete of a pending hardware-token challenge are one critical section (shared by
// C16 and C05: it is what makes a challenge single-use under concurrent presentation).
func checkChallengeAtomic(c *km.Ctx, ls *km.LockSets, rule string) {
	r := c.R
	for _, hn := range []string{"(*RuntimeState).u2fSignResponse", "(*RuntimeState).webauthnAuthFinish"} {
		fn := c.MustFunc(rule, "cmd/keymasterd", hn)
		if fn == nil {
			continue
		}
		cc := findChallengeConsume(c, fn)
		if cc == nil {
			r.Add(rule, km.FuncName(fn), "challenge lookup + consume", c.P.Pos(fn.Pos()), "lookup and delete of the challenge record, here or in a helper", "none found", false)
			continue
		}
		held := ls.Held(cc.fn)
		var lookup, del ssa.Instruction = cc.lookup, cc.del
		one := held[lookup][stateMutex] && held[del][stateMutex]
		for b := range blocksBetween(lookup.Block(), del.Block()) {
			for _, in := range b.Instrs {
				if h, ok := held[in]; ok && !h[stateMutex] {
					if (b == lookup.Block() && !km.InstrDominates(lookup, in)) || (b == del.Block() && !km.InstrDominates(in, del)) {
						continue
					}
					one = false
				}
			}
		}
		if one && cc.call != nil && !cc.dominatesIn(cc.call) {
			// the helper that looks the record up hands it back on a path on which it has not deleted it: the
			// consumption then happens later, in another critical section
			one = false
		}
		r.Add(rule, km.FuncName(fn), "challenge lookup + consume", posOf(c, lookup), "lookup and delete under one uninterrupted hold of the state mutex (a challenge presented twice at once is honoured at most once)", sprintf("%v", one), one)
	}

}
