package rules

import (
	"go/constant"
	"go/token"
	"go/types"
	"sort"
	"strings"

	"kmcheck/internal/km"

	"golang.org/x/tools/go/ssa"
)

func init() { km.Register("C09", checkC09) }

const stateMutex = KMD + ".RuntimeState.Mutex"

var signerFields = map[string]bool{"Signer": true, "Ed25519Signer": true, "caCertDer": true, "selfRoleCaCertDer": true, "KeymasterPublicKeys": true}

// functions allowed to write the signer family of RuntimeState (reviewed)
var signerWriters = map[string]string{
	"loadSignersFromPemData":         "the one place that installs the decrypted/plaintext signers and their CA certificates",
	"signerPublicKeyToKeymasterKeys": "publishes the public halves of the installed signers",
	"loadVerifyConfigFile":           "start-up: loads additional published keys from the configured file before any listener exists",
	"tryLoadAndVerifySigners":        "start-up helper (reads only; listed for completeness)",
}

// routes that use the signer but have no sealed gate of their own; accepted only in the weaker fail-closed shape
var noGateRoutes = map[string]string{
	"idpOpenIDCTokenHandler":    "first use of the signer is state.Signer.Public() on the (nil when sealed) interface, before any signing",
	"oauth2RedirectPathHandler": "mints only through genNewSerializedAuthJWT, whose first statement is state.Signer.Public()",
}

func checkC09(c *km.Ctx) {
	r := c.R
	s := km.NewSem(c)
	ls := km.NewLockSets()
	r.Explain = "Static analysis of /repo: (1) who may write the signer family of RuntimeState and that the signer itself is the last store of the loader with no error exit after it; (2) unsealCA holds the state mutex from its first instruction to every return, refuses when a signer is present before any decryption, loads only after successful decryption, sends on the ready channel only after a successful load and only when it found the server sealed; the ready channel is buffered and has exactly the two known senders; (3) the injection handler calls unsealCA only with a verified client chain; (4) every service route from which signing/minting is reachable passes the sealed gate first (two routes in the weaker fail-closed shape, tabled); (5) readiness answers 200 only on the unsealed edge; (6) every signer load is followed by publication of the public keys, whose per-signer 'already known' flag is reset for each signer. Decides structure on all paths; interleavings only through lock and single-store structure."
	r.NotDecided = []string{"interleavings as executions", "strength of the PGP container", "what a client can observe of a nil-interface panic beyond 'nothing signed'"}
	r.Assume = []string{"go/types + go/ssa model the source faithfully", "sync.Mutex provides mutual exclusion", "calling a method on a nil crypto.Signer interface panics before anything is signed"}

	r.Rule("R-C09-1", "the signer family of RuntimeState is written only by the reviewed writers; in the loader the store of Signer is the last state write and no error return follows it", 3)
	r.Rule("R-C09-2", "unsealCA: mutex held from entry to every return; already-unsealed test before decryption; load after successful decryption; ready-send only after successful load of a previously sealed server; channel buffered with two known senders; passphrase prompt fails fast on its second call; the posted passphrase reaches every decryption byte for byte", 4)
	r.Rule("R-C09-3", "the injection handler reaches unsealCA only with r.TLS != nil and at least one verified chain", 1)
	r.Rule("R-C09-4", "every signing/minting sink reachable from a service route is dominated by the sealed gate (or, for the two tabled routes, by a method call on the signer interface)", 7)
	r.Rule("R-C09-5", "readyz answers 200 only on the unsealed edge", 1)
	r.Rule("R-C09-6", "every successful signer load is followed by publication of the public keys before success is reported; publication considers every installed signer independently, the list it walks holds every signer field, and the key-set endpoint skips none of the published keys", 2)

	// ---------------- R-C09-1
	type wsite struct {
		fn    *ssa.Function
		in    ssa.Instruction
		field string
	}
	var writes []wsite
	for _, fn := range c.P.AllFuncs {
		if fn.Pkg == nil || !pkgIsKMD(fn.Pkg) {
			continue
		}
		km.Instrs(fn, func(in ssa.Instruction) {
			st, ok := in.(*ssa.Store)
			if !ok {
				return
			}
			fa, ok := st.Addr.(*ssa.FieldAddr)
			if !ok || km.NamedTypeOf(fa.X.Type()) != KMD+".RuntimeState" {
				return
			}
			f := fieldNameOf(fa)
			if signerFields[f] {
				writes = append(writes, wsite{fn, in, f})
			}
		})
	}
	sort.Slice(writes, func(i, j int) bool { return posOf(c, writes[i].in) < posOf(c, writes[j].in) })
	for _, w := range writes {
		name := km.NameOf(w.fn)
		if w.fn.Parent() != nil {
			name = km.NameOf(w.fn.Parent())
		}
		reason, ok := signerWriters[name]
		r.Add("R-C09-1", km.FuncName(w.fn), "write RuntimeState."+w.field, posOf(c, w.in), "signer family written only by reviewed writers", name+": "+reason, ok)
	}
	loader := c.MustFunc("R-C09-1", "cmd/keymasterd", "(*RuntimeState).loadSignersFromPemData")
	if loader != nil {
		var signerStore *ssa.Store
		km.Instrs(loader, func(in ssa.Instruction) {
			if st, ok := in.(*ssa.Store); ok {
				if fa, ok := st.Addr.(*ssa.FieldAddr); ok && fieldNameOf(fa) == "Signer" && km.NamedTypeOf(fa.X.Type()) == KMD+".RuntimeState" {
					signerStore = st
				}
			}
		})
		if signerStore == nil {
			r.AnchorLost("R-C09-1", "store of RuntimeState.Signer in loadSignersFromPemData")
		} else {
			// after the store: no other RuntimeState store, no call that can fail, only `return nil`
			after := false
			ok := true
			why := "Signer stored last; only `return nil` follows"
			reach := km.ReachableBlocks(signerStore.Block(), nil)
			for _, b := range loader.Blocks {
				if !reach[b] {
					continue
				}
				for _, in := range b.Instrs {
					if in == ssa.Instruction(signerStore) {
						after = true
						continue
					}
					if b == signerStore.Block() && !after {
						continue
					}
					switch x := in.(type) {
					case *ssa.Store:
						if fa, ok2 := x.Addr.(*ssa.FieldAddr); ok2 && km.NamedTypeOf(fa.X.Type()) == KMD+".RuntimeState" {
							ok, why = false, "another RuntimeState field is written after Signer at "+posOf(c, in)
						}
					case *ssa.Return:
						if !km.IsNilConst(x.Results[0]) {
							ok, why = false, "an error return follows the store of Signer at "+posOf(c, in)
						}
					}
				}
				after = after || b != signerStore.Block()
			}
			r.Add("R-C09-1", km.FuncName(loader), "Signer is the last store", posOf(c, signerStore), "no state write and no error exit after the server becomes unsealed", why, ok)
		}
	}

	// ---------------- R-C09-2
	unseal := c.MustFunc("R-C09-2", "cmd/keymasterd", "(*RuntimeState).unsealCA")
	if unseal != nil && loader != nil {
		checkUnsealLock(c, ls, unseal, "R-C09-2")
		held := ls.Held(unseal)

		sealedSeen := km.Prim{Name: "Signer==nil seen", Direct: func(f km.Fact) bool {
			return f.Op == token.EQL && km.IsNilConst(f.Y) && isSignerLoadV(f.X)
		}}
		decryptName := KMD + ".pgpDecryptFileData"
		var decrypts []*ssa.Call
		var loadCall *ssa.Call
		var sends []*ssa.Send
		km.Instrs(unseal, func(in ssa.Instruction) {
			if cl, ok := in.(*ssa.Call); ok {
				switch km.CalleeFull(cl.Common()) {
				case decryptName:
					decrypts = append(decrypts, cl)
				case RS + "loadSignersFromPemData":
					loadCall = cl
				}
			}
			if sd, ok := in.(*ssa.Send); ok && mentionsField(sd.Chan, "SignerIsReady") {
				sends = append(sends, sd)
			}
		})
		decErrIdx := 1
		if len(decrypts) == 0 {
			// the decryption of the key files moved, whole, into a helper new to the tree that hands the
			// plaintexts back with an error: inside it a failed decryption aborts, and its call takes the place
			// of the decryption in what follows
			for _, ci := range km.CallsIn(unseal) {
				cl, isCall := ci.(*ssa.Call)
				g := km.StaticCallee(ci.Common())
				if !isCall || g == nil || len(g.Blocks) == 0 || !c.InModule(g) || c.P.IsRecorded(g) {
					continue
				}
				res := g.Signature.Results()
				if res.Len() < 2 || !isErrorType(res.At(res.Len()-1).Type()) {
					continue
				}
				if n := checkErrorAborts(c, "R-C09-2", g, decryptName, 1, "key file that does not decrypt"); n > 0 {
					// on success the first result is the first decryption's output
					first := true
					for _, rc := range s.RetCases(g) {
						if !km.IsNilConst(rc.Results[len(rc.Results)-1]) {
							continue
						}
						if dc, di := callRes(km.CellOrigin(km.Unwrap(rc.Results[0]))); dc == nil || di != 0 || km.CalleeFull(dc.Common()) != decryptName {
							first = false
						}
					}
					r.Add("R-C09-2", km.FuncName(g), "plaintext handed back", c.P.Pos(g.Pos()), "on success the first result is the output of the decryption of the primary key file", sprintf("%v", first), first)
					decrypts = append(decrypts, cl)
					decErrIdx = res.Len() - 1
					break
				}
			}
		}
		if len(decrypts) == 0 || loadCall == nil || len(sends) == 0 {
			r.AnchorLost("R-C09-2", "decrypt / load / ready-send sequence in unsealCA")
		} else {
			for _, d := range decrypts {
				// failure edge cannot reach the load
				okFail := true
				for _, ref := range *d.Referrers() {
					ex, isEx := ref.(*ssa.Extract)
					if !isEx || ex.Index != decErrIdx {
						continue
					}
					for _, ref2 := range *ex.Referrers() {
						if b, isB := ref2.(*ssa.BinOp); isB && b.Op == token.NEQ {
							for _, ref3 := range *b.Referrers() {
								if iff, isIf := ref3.(*ssa.If); isIf {
									if km.ReachableBlocks(iff.Block().Succs[0], nil)[loadCall.Block()] {
										okFail = false
									}
								}
							}
						}
					}
				}
				r.Add("R-C09-2", km.FuncName(unseal), "failed decryption cannot reach the load", posOf(c, d), "the err != nil edge of the decryption never reaches loadSignersFromPemData", sprintf("%v", okFail), okFail)
			}
			firstOK := primErrNilCall("first decrypt ok", decrypts[0], decErrIdx)
			okLoad := c.F.At(loadCall).All(func(k km.Conj) bool { return s.Holds(k, firstOK) }) && held[loadCall][stateMutex]
			// the plaintext handed to the loader is the decryption result
			cl0, idx0 := callRes(localFieldValue(km.Unwrap(loadCall.Common().Args[1])))
			okArg := cl0 == decrypts[0] && idx0 == 0
			r.Add("R-C09-2", km.FuncName(unseal), "load after successful decryption", posOf(c, loadCall), "loader called under the mutex with the output of a decryption that returned no error", sprintf("fact=%v arg-is-decrypt-output=%v", okLoad, okArg), okLoad && okArg)
			loadOK := primErrNilCall("load ok", loadCall, 0)
			for _, sd := range sends {
				st := c.F.At(sd)
				okS := st.All(func(k km.Conj) bool { return s.Holds(k, loadOK) && s.Holds(k, sealedSeen) })
				r.Add("R-C09-2", km.FuncName(unseal), "ready-send", posOf(c, sd), "send on SignerIsReady only after a successful load of a server that was found sealed", clipS(st.String(), 300), okS)
			}
		}
		// senders and channel capacity
		nSend, nMake := 0, 0
		for _, fn := range c.P.AllFuncs {
			if fn.Pkg == nil || !pkgIsKMD(fn.Pkg) {
				continue
			}
			km.Instrs(fn, func(in ssa.Instruction) {
				if sd, ok := in.(*ssa.Send); ok && mentionsField(sd.Chan, "SignerIsReady") {
					nSend++
					okS := fn == unseal || km.NameOf(fn) == "tryLoadAndVerifySigners"
					r.Add("R-C09-2", km.FuncName(fn), "who may send on SignerIsReady", posOf(c, in), "only unsealCA and the plaintext start-up path", km.NameOf(fn), okS)
				}
				if st, ok := in.(*ssa.Store); ok {
					if fa, ok := st.Addr.(*ssa.FieldAddr); ok && fieldNameOf(fa) == "SignerIsReady" {
						if mk, ok := km.Unwrap(st.Val).(*ssa.MakeChan); ok {
							nMake++
							sz, okc := km.ConstInt(mk.Size)
							r.Add("R-C09-2", km.FuncName(fn), "SignerIsReady capacity", posOf(c, in), "buffered (capacity >= 1) so that the unsealing request never blocks while holding the mutex", sprintf("%d", sz), okc && sz >= 1)
						}
					}
				}
			})
		}
		if nSend < 2 || nMake < 1 {
			r.AnchorLost("R-C09-2", sprintf("SignerIsReady senders (%d) / creation (%d)", nSend, nMake))
		}
		// passphrase prompt fails fast
		if pg := c.MustFunc("R-C09-2", "cmd/keymasterd", "pgpDecryptFileData"); pg != nil && len(pg.AnonFuncs) == 1 {
			prompt := pg.AnonFuncs[0]
			ok := false
			desc := "no return of the passphrase found"
			for _, rc := range s.RetCases(prompt) {
				if km.IsNilConst(rc.Results[0]) {
					continue
				}
				// returning the passphrase: `failed` was false and has been set true before
				flagFalse := rc.State.All(func(k km.Conj) bool {
					for _, f := range k.List() {
						if f.Op == token.ILLEGAL && !f.Pol {
							if u, ok := f.X.(*ssa.UnOp); ok && u.Op == token.MUL {
								if _, ok := u.X.(*ssa.FreeVar); ok {
									return true
								}
							}
						}
					}
					return false
				})
				setTrue := false
				for _, in := range rc.Ret.Block().Instrs {
					if st, ok := in.(*ssa.Store); ok {
						if _, ok := st.Addr.(*ssa.FreeVar); ok {
							if cst, ok := st.Val.(*ssa.Const); ok && cst.Value != nil && cst.Value.Kind() == constant.Bool && constant.BoolVal(cst.Value) {
								setTrue = true
							}
						}
					}
				}
				ok = flagFalse && setTrue
				desc = sprintf("flag false on entry=%v set true before returning=%v", flagFalse, setTrue)
			}
			r.Add("R-C09-2", km.FuncName(pg), "prompt fails fast on the second call", c.P.Pos(prompt.Pos()), "the passphrase is handed out once; a wrong passphrase ends the attempt instead of looping", desc, ok)
		} else if pg != nil {
			r.AnchorLost("R-C09-2", "prompt closure of pgpDecryptFileData")
		}
		checkPassphraseUnchanged(c, unseal)
	}

	// ---------------- R-C09-7 the generated sealed key is complete
	r.Rule("R-C09-7", "the sealed key file written by the configuration generator is complete: the armor encoder is closed (flushed) before its buffer is written out, so that the passphrase it was sealed with unseals it", 1)
	if gen := c.MustFunc("R-C09-7", "cmd/keymasterd", "generateArmoredEncryptedCAPrivateKey"); gen != nil {
		var enc *ssa.Call
		for _, ci := range km.CallsIn(gen) {
			if cl, ok := ci.(*ssa.Call); ok && strings.HasSuffix(km.CalleeFull(cl.Common()), "openpgp/armor.Encode") {
				enc = cl
			}
		}
		if enc == nil {
			r.AnchorLost("R-C09-7", "armor.Encode in generateArmoredEncryptedCAPrivateKey")
		} else {
			buf := km.Unwrap(enc.Common().Args[0])
			if mi, ok := buf.(*ssa.MakeInterface); ok {
				buf = km.Unwrap(mi.X)
			}
			var w ssa.Value
			for _, ref := range *enc.Referrers() {
				if ex, ok := ref.(*ssa.Extract); ok && ex.Index == 0 {
					w = ex
				}
			}
			var closes []ssa.Instruction
			for _, ci := range km.CallsIn(gen) {
				if _, isDefer := ci.(*ssa.Defer); isDefer {
					continue
				}
				if ci.Common().IsInvoke() && ci.Common().Method.Name() == "Close" && km.Unwrap(ci.Common().Value) == w {
					closes = append(closes, ci)
				}
			}
			n := 0
			for _, ci := range km.CallsIn(gen) {
				if km.CalleeFull(ci.Common()) != "(*bytes.Buffer).Bytes" || km.Unwrap(ci.Common().Args[0]) != buf {
					continue
				}
				n++
				ok := false
				for _, cl := range closes {
					if km.InstrDominates(cl, ci) {
						ok = true
					}
				}
				r.Add("R-C09-7", km.FuncName(gen), "armor encoder closed before its buffer is read", posOf(c, ci), "a (non-deferred) Close of the armor writer dominates every read of the buffer it writes to", sprintf("%v", ok), ok)
			}
			if n == 0 {
				r.AnchorLost("R-C09-7", "read of the armor buffer in generateArmoredEncryptedCAPrivateKey")
			}
		}
	}

	// ---------------- R-C09-3
	if inj := c.MustFunc("R-C09-3", "cmd/keymasterd", "(*RuntimeState).secretInjectorHandler"); inj != nil && unseal != nil {
		tls := km.Prim{Name: "r.TLS != nil", Direct: func(f km.Fact) bool {
			x, fld, ok := km.FieldOfLoad(f.X)
			return f.Op == token.NEQ && km.IsNilConst(f.Y) && ok && fld == "TLS" && km.NamedTypeOf(x.Type()) == "net/http.Request"
		}}
		chains := km.Prim{Name: "len(VerifiedChains) >= 1", Direct: func(f km.Fact) bool {
			cl, ok := f.X.(*ssa.Call)
			if !ok {
				return false
			}
			if b, ok := cl.Common().Value.(*ssa.Builtin); !ok || b.Name() != "len" || !mentionsField(cl.Common().Args[0], "VerifiedChains") {
				return false
			}
			i, ok := km.ConstInt(f.Y)
			return ok && ((f.Op == token.GEQ && i >= 1) || (f.Op == token.GTR && i >= 0) || (f.Op == token.NEQ && i == 0))
		}}
		n := 0
		for _, ci := range km.CallsIn(inj) {
			if km.StaticCallee(ci.Common()) == unseal {
				n++
				st := c.F.At(ci)
				ok := st.All(func(k km.Conj) bool { return s.Holds(k, tls) && s.Holds(k, chains) })
				r.Add("R-C09-3", km.FuncName(inj), "unsealCA from the injection handler", posOf(c, ci), "TLS present ∧ at least one verified client chain", clipS(st.String(), 300), ok)
			}
		}
		if n == 0 {
			r.AnchorLost("R-C09-3", "unsealCA call in secretInjectorHandler")
		}
		// who may call unsealCA
		for _, cs := range c.G.Callers[unseal] {
			ok := cs.Caller == inj || km.NameOf(cs.Caller) == "tryAwsUnseal"
			r.Add("R-C09-2", km.FuncName(cs.Caller), "who may call unsealCA", posOf(c, cs.Instr), "only the injection handler and the AWS auto-unseal loop", km.NameOf(cs.Caller), ok)
		}
	}

	// ---------------- R-C09-4
	checkAuth := c.P.Func("cmd/keymasterd", "(*RuntimeState).checkAuth")
	checkUserPassword := c.P.Func("cmd/keymasterd", "checkUserPassword")
	stop := map[*ssa.Function]bool{checkAuth: true, checkUserPassword: true}
	prUnsealed := s.PrimUnsealed()
	seen := map[string]bool{}
	for _, rt := range c.Routes {
		if rt.Mux != "service" || rt.Handler == nil || !strings.Contains(km.FuncFull(rt.Handler), KMD) {
			continue
		}
		h := rt.Handler
		reach := reachableFrom(c, stop, h)
		roots := map[*ssa.Function]bool{h: true}
		for _, fn := range sortedFuncs(reach) {
			for _, sk := range sinksIn(c, fn) {
				if !primitiveSigning[sk.name] {
					continue
				}
				key := km.NameOf(h) + "|" + posOf(c, sk.in)
				if seen[key] {
					continue
				}
				seen[key] = true
				ok, why := s.HoldsOnPathsWithin(sk.in, allPrims(s, prUnsealed), roots, reach, 6)
				req := "sealed gate passed (Signer seen non-nil) before " + sk.name
				found := "dominated by the sealed gate"
				if !ok {
					if reason, tabled := noGateRoutes[km.NameOf(h)]; tabled {
						// weaker shape: an invoke of Public() on state.Signer dominates the sink in its own function or a caller
						ok2, why2 := s.HoldsOnPathsWithinInstr(sk.in, func(at ssa.Instruction) bool { return signerMethodDominates(at) }, roots, reach, 6)
						ok = ok2
						req = "tabled route without an entry gate (" + reason + "): a method call on the signer interface dominates the sink"
						found = "fail-closed by nil-interface call"
						if !ok2 {
							found = why2
						}
					} else {
						found = why
					}
				}
				r.Add("R-C09-4", km.FuncName(fn), "route "+km.NameOf(h)+" -> "+sk.name, posOf(c, sk.in), req, clipS(found, 500), ok)
			}
		}
	}

	if aws := c.MustFunc("R-C09-4", "cmd/keymasterd", "(*RuntimeState).requestAwsRoleCertificateHandler"); aws != nil {
		n := 0
		for _, ci := range km.CallsIn(aws) {
			if strings.HasSuffix(km.CalleeFull(ci.Common()), "aws_identity_cert.Issuer).RequestHandler") {
				n++
				st := c.F.At(ci)
				ok := st.All(func(k km.Conj) bool { return s.Holds(k, prUnsealed) })
				r.Add("R-C09-4", km.FuncName(aws), "route requestAwsRoleCertificateHandler -> Issuer.RequestHandler (dynamic generator)", posOf(c, ci), "sealed gate passed before the issuer (which signs through an injected generator) runs", clipS(st.String(), 200), ok)
			}
		}
		if n == 0 {
			r.AnchorLost("R-C09-4", "Issuer.RequestHandler call in requestAwsRoleCertificateHandler")
		}
	}

	// ---------------- R-C09-5
	if rz := c.MustFunc("R-C09-5", "cmd/keymasterd", "(*RuntimeState).readyzHandler"); rz != nil {
		n := 0
		for _, ci := range km.CallsIn(rz) {
			if ci.Common().IsInvoke() && ci.Common().Method.Name() == "WriteHeader" {
				code, ok := km.ConstInt(ci.Common().Args[0])
				if !ok || code != 200 {
					continue
				}
				n++
				st := c.F.At(ci)
				okU := st.All(func(k km.Conj) bool { return s.Holds(k, prUnsealed) })
				r.Add("R-C09-5", km.FuncName(rz), "answer 200", posOf(c, ci), "200 only on the unsealed edge", clipS(st.String(), 200), okU)
			}
		}
		if n == 0 {
			r.AnchorLost("R-C09-5", "WriteHeader(200) in readyzHandler")
		}
	}

	// ---------------- R-C09-6
	checkPublishedPEMPlain(c, "R-C09-6")
	checkPublishedJWK(c, "R-C09-6")
	pub := c.MustFunc("R-C09-6", "cmd/keymasterd", "(*RuntimeState).signerPublicKeyToKeymasterKeys")
	if loader != nil && pub != nil {
		for _, cs := range c.G.Callers[loader] {
			fn := cs.Caller
			lc, ok := cs.Instr.(*ssa.Call)
			if !ok {
				continue
			}
			loadOK := primErrNilCall("load ok", lc, 0)
			published := false
			for _, ci := range km.CallsIn(fn) {
				if km.StaticCallee(ci.Common()) == pub && km.InstrDominates(lc, ci) {
					if c.F.At(ci).All(func(k km.Conj) bool { return s.Holds(k, loadOK) }) {
						// and it precedes every success return / ready-send
						published = true
						km.Instrs(fn, func(in ssa.Instruction) {
							if sd, ok := in.(*ssa.Send); ok && mentionsField(sd.Chan, "SignerIsReady") && !km.InstrDominates(ci, sd) {
								published = false
							}
						})
					}
				}
			}
			r.Add("R-C09-6", km.FuncName(fn), "publish after load", posOf(c, cs.Instr), "signerPublicKeyToKeymasterKeys runs after every successful load and before readiness is signalled", sprintf("%v", published), published)
		}
		checkPublishLoop(c, pub)
	}
}

// primitive signing operations (the wrappers around them are judged through these)
var primitiveSigning = map[string]bool{
	"crypto/x509.CreateCertificate":                               true,
	"(*golang.org/x/crypto/ssh.Certificate).SignCert":             true,
	"(*github.com/go-jose/go-jose/v4/jwt.Builder).Serialize":      true,
	"iface:(github.com/go-jose/go-jose/v4/jwt.Builder).Serialize": true,
}

func isSignerLoadV(v ssa.Value) bool {
	x, f, ok := km.FieldOfLoad(v)
	return ok && f == "Signer" && km.NamedTypeOf(x.Type()) == KMD+".RuntimeState"
}

func primErrNilCall(name string, call *ssa.Call, idx int) km.Prim {
	return km.Prim{Name: name, Direct: func(f km.Fact) bool {
		if f.Op != token.EQL || !km.IsNilConst(f.Y) {
			return false
		}
		cl, i := callRes(f.X)
		return cl == call && i == idx
	}}
}

// signerMethodDominates: in the function of `at`, an interface method call on a load of state.Signer dominates `at`.
func signerMethodDominates(at ssa.Instruction) bool {
	fn := at.Parent()
	for _, ci := range km.CallsIn(fn) {
		cc := ci.Common()
		if cc.IsInvoke() && isSignerLoadV(cc.Value) && km.InstrDominates(ci, at) {
			return true
		}
	}
	return false
}

// checkPublishLoop: in the publication routine every installed signer is looked at on its own: an iteration of
// the per-signer loop ends (goes on to the next signer) only after the signer's public key was appended or was
// found among the published keys, and the loop is left early only by an error return.
func checkPublishLoop(c *km.Ctx, pub *ssa.Function) {
	var fpCall *ssa.Call // getKeyFingerprint(signer.Public()) of the per-signer loop
	for _, ci := range km.CallsIn(pub) {
		if cl, ok := ci.(*ssa.Call); ok && km.CalleeFull(cl.Common()) == KMD+".getKeyFingerprint" {
			if inner, ok := km.Unwrap(cl.Common().Args[0]).(*ssa.Call); ok && inner.Common().IsInvoke() && inner.Common().Method.Name() == "Public" {
				fpCall = cl
			}
		}
	}
	if fpCall == nil {
		c.R.AnchorLost("R-C09-6", "getKeyFingerprint(signer.Public()) in signerPublicKeyToKeymasterKeys")
		return
	}
	signerPub := km.Unwrap(fpCall.Common().Args[0])
	var signerFP ssa.Value
	for _, ref := range *fpCall.Referrers() {
		if ex, ok := ref.(*ssa.Extract); ok && ex.Index == 0 {
			signerFP = ex
		}
	}
	// the per-signer loop: innermost loop header that dominates the fingerprint call and is reachable from it
	var header *ssa.BasicBlock
	for b := fpCall.Block(); b != nil; b = b.Idom() {
		if km.ReachableBlocks(fpCall.Block(), nil)[b] && b != fpCall.Block() && b.Dominates(fpCall.Block()) {
			isHeader := false
			for _, p := range b.Preds {
				if b.Dominates(p) {
					isHeader = true
				}
			}
			if isHeader {
				header = b
				break
			}
		}
	}
	if header == nil || signerFP == nil {
		c.R.AnchorLost("R-C09-6", "per-signer loop around the fingerprint computation in signerPublicKeyToKeymasterKeys")
		return
	}
	// loop body: blocks dominated by the header that can reach it again
	inLoop := map[*ssa.BasicBlock]bool{}
	for _, b := range pub.Blocks {
		if header.Dominates(b) && km.ReachableBlocks(b, nil)[header] {
			inLoop[b] = true
		}
	}
	// (1) leaving the loop from inside an iteration: only by a return that reports an error
	okExit, exitDesc := true, "iterations are left only towards the next signer or by an error return"
	for b := range inLoop {
		if b == header || !fpCall.Block().Dominates(b) {
			continue
		}
		for _, sc := range b.Succs {
			if inLoop[sc] {
				continue
			}
			// must lead to an error return without coming back
			for ob := range km.ReachableBlocks(sc, nil) {
				if ret, ok := ob.Instrs[len(ob.Instrs)-1].(*ssa.Return); ok {
					res := km.ReturnValues(ret)
					if len(res) == 0 || km.IsNilConst(res[len(res)-1]) {
						okExit, exitDesc = false, "the loop is left at "+posOf(c, b.Instrs[len(b.Instrs)-1])+" towards a successful return: the remaining signers are not examined"
					}
				}
			}
		}
	}
	c.R.Add("R-C09-6", km.FuncName(pub), "every signer is examined", posOf(c, fpCall), "the per-signer loop is left early only by an error return", exitDesc, okExit)
	// (1b) the loop runs over every signer the server holds: the list it ranges over is put together here and
	// has each crypto.Signer field of the runtime state among its elements (a signer left out of the list signs
	// certificates nobody can verify from the published keys)
	{
		var want []string
		if rs := c.P.Pkg("cmd/keymasterd"); rs != nil {
			cur := km.CurrentTypeName(KMD + ".RuntimeState")
			if tn, ok := rs.Pkg.Scope().Lookup(cur[strings.LastIndex(cur, ".")+1:]).(*types.TypeName); ok {
				if st, ok := tn.Type().Underlying().(*types.Struct); ok {
					for i := 0; i < st.NumFields(); i++ {
						if st.Field(i).Type().String() == "crypto.Signer" {
							want = append(want, st.Field(i).Name())
						}
					}
				}
			}
		}
		if len(want) < 2 {
			c.R.AnchorLost("R-C09-6", "crypto.Signer fields of RuntimeState (Signer, Ed25519Signer)")
		}
		recv := km.Unwrap(fpCall.Common().Args[0]).(*ssa.Call).Common().Value
		// the element sets the list can have: one when it is built in place, one per return when a helper of the
		// runtime state builds it
		var sets [][]ssa.Value
		known := true
		if elems, k := localSliceElems(recv); k {
			sets = append(sets, elems)
		} else {
			known = false
			if u, isU := km.Unwrap(recv).(*ssa.UnOp); isU {
				if ia, isIA := u.X.(*ssa.IndexAddr); isIA {
					if hc, isC := km.Unwrap(ia.X).(*ssa.Call); isC {
						if g := km.StaticCallee(hc.Common()); g != nil && len(g.Blocks) > 0 && c.InModule(g) {
							known = true
							km.Instrs(g, func(in ssa.Instruction) {
								if ret, isRet := in.(*ssa.Return); isRet && len(ret.Results) > 0 {
									elems, k := sliceAppendedElems(ret.Results[0])
									if !k {
										known = false
									}
									sets = append(sets, elems)
								}
							})
						}
					}
				}
			}
		}
		missingSet := map[string]bool{}
		for _, elems := range sets {
			have := map[string]bool{}
			for _, e := range elems {
				if x, f, ok := km.FieldOfLoad(km.Unwrap(e)); ok && km.NamedTypeOf(x.Type()) == KMD+".RuntimeState" {
					have[f] = true
				}
			}
			for _, f := range want {
				if !have[f] {
					missingSet[f] = true
				}
			}
		}
		var missing []string
		for _, f := range want {
			if missingSet[f] || len(sets) == 0 {
				missing = append(missing, f)
			}
		}
		c.R.Add("R-C09-6", km.FuncName(pub), "every held signer is in the list", posOf(c, fpCall), "the list the publication loop ranges over is built here and contains every crypto.Signer field of the runtime state", sprintf("list known=%v missing=%v", known, missing), known && len(missing) == 0)
	}
	// (2) must pass: append of this signer's key, or an edge that establishes "already published"
	appendBlocks := map[*ssa.BasicBlock]bool{}
	staleBase := ""
	km.Instrs(pub, func(in ssa.Instruction) {
		st, ok := in.(*ssa.Store)
		if !ok {
			return
		}
		fa, ok := st.Addr.(*ssa.FieldAddr)
		if !ok || fieldNameOf(fa) != "KeymasterPublicKeys" {
			return
		}
		// value: append(<published keys>, signer.Public())
		if cl, ok := km.Unwrap(st.Val).(*ssa.Call); ok {
			if b, ok := cl.Common().Value.(*ssa.Builtin); ok && b.Name() == "append" && len(cl.Common().Args) == 2 {
				if mentionsField(cl.Common().Args[0], "KeymasterPublicKeys") && sliceHoldsOnly(cl.Common().Args[1], signerPub) {
					// appended to the list as it is now: a copy of the field taken before the loop does not hold
					// the key the previous iteration appended, which the store then drops
					base := km.Unwrap(cl.Common().Args[0])
					if ld, isLd := base.(*ssa.UnOp); isLd && !inLoop[ld.Block()] {
						staleBase = "the list appended to at " + posOf(c, in) + " was read before the loop (" + posOf(c, ld) + "): keys appended by earlier iterations are lost"
					} else {
						appendBlocks[in.Block()] = true
					}
				}
			}
		}
	})
	// "known" edges
	type edge struct{ from, to *ssa.BasicBlock }
	known := map[edge]bool{}
	var fpKeyed func(m ssa.Value) bool
	fpKeyed = func(m ssa.Value) bool { // a set whose keys are all fingerprints
		mk, ok := km.Unwrap(m).(*ssa.MakeMap)
		if !ok {
			// built by a constructor helper: every map it hands back is such a set
			cl, idx := callRes(km.CellOrigin(km.Unwrap(m)))
			if cl == nil {
				return false
			}
			g := km.StaticCallee(cl.Common())
			if g == nil || g.Blocks == nil || g == pub {
				return false
			}
			n := 0
			for _, b := range g.Blocks {
				ret, isRet := b.Instrs[len(b.Instrs)-1].(*ssa.Return)
				if !isRet {
					continue
				}
				rv := km.ReturnValues(ret)
				if idx >= len(rv) {
					return false
				}
				v := km.Unwrap(rv[idx])
				if km.IsNilConst(v) {
					continue
				}
				if _, isMk := v.(*ssa.MakeMap); !isMk || !fpKeyed(v) {
					return false
				}
				n++
			}
			return n > 0
		}
		n := 0
		for _, ref := range *mk.Referrers() {
			if mu, ok := ref.(*ssa.MapUpdate); ok {
				n++
				cl, idx := callRes(km.Unwrap(mu.Key))
				if cl == nil || idx != 0 || km.CalleeFull(cl.Common()) != KMD+".getKeyFingerprint" {
					return false
				}
			}
		}
		return n > 0
	}
	for b := range inLoop {
		iff, ok := b.Instrs[len(b.Instrs)-1].(*ssa.If)
		if !ok {
			continue
		}
		for _, pol := range []bool{true, false} {
			to := b.Succs[0]
			if !pol {
				to = b.Succs[1]
			}
			for _, f := range c.F.CondFacts(iff.Cond, pol) {
				if list, elem, isM := membership(f); isM && elem == signerFP {
					if fpKeyed(list) || mentionsField(list, "KeymasterPublicKeys") {
						known[edge{b, to}] = true
					} else if elems, okL := sliceAppendedElems(list); okL && len(elems) > 0 {
						// a local list of the fingerprints of the published keys (kept up to date as keys are added)
						allFP := true
						for _, e := range elems {
							if cl, idx := callRes(km.Unwrap(e)); cl == nil || idx != 0 || km.CalleeFull(cl.Common()) != KMD+".getKeyFingerprint" {
								allFP = false
							}
						}
						if allFP {
							known[edge{b, to}] = true
						}
					}
				}
				// found flag: a boolean web that is true only under signerFP == <fingerprint> and false-initialised in this iteration
				if f.Op == token.ILLEGAL && f.Pol {
					if phi, isPhi := f.X.(*ssa.Phi); isPhi && foundFlagOK(c, phi, fpCall, signerFP) {
						known[edge{b, to}] = true
					}
				}
			}
		}
	}
	// search: from the block after the fingerprint call to a back edge, avoiding append blocks and known edges
	bad := ""
	seen := map[*ssa.BasicBlock]bool{}
	var dfs func(b *ssa.BasicBlock)
	dfs = func(b *ssa.BasicBlock) {
		if seen[b] || appendBlocks[b] || bad != "" {
			return
		}
		seen[b] = true
		for _, sc := range b.Succs {
			if known[edge{b, sc}] {
				continue
			}
			if sc == header {
				bad = "an iteration can end at " + posOf(c, b.Instrs[len(b.Instrs)-1]) + " without the signer's key having been appended or found among the published keys"
				return
			}
			if inLoop[sc] {
				dfs(sc)
			}
		}
	}
	dfs(fpCall.Block())
	found := sprintf("append sites=%d, already-published edges=%d", len(appendBlocks), len(known))
	if staleBase != "" {
		bad = staleBase
	}
	if bad != "" {
		found = bad + " (" + found + ")"
	}
	c.R.Add("R-C09-6", km.FuncName(pub), "each signer is published unless already known", posOf(c, fpCall), "every path of an iteration appends signer.Public() to the published keys or passes an edge on which this signer's fingerprint was found among them", found, bad == "" && len(appendBlocks) > 0)
}

// sliceHoldsOnly: v is the one-element varargs slice holding x
func sliceHoldsOnly(v ssa.Value, x ssa.Value) bool {
	sl, ok := km.Unwrap(v).(*ssa.Slice)
	if !ok {
		return false
	}
	el := sliceSingleElem(sl)
	if el == nil {
		return false
	}
	e := km.Unwrap(el)
	if e == x {
		return true
	}
	// the same method invoked again on the same receiver (signer.Public() written twice)
	a, ok1 := e.(*ssa.Call)
	b, ok2 := x.(*ssa.Call)
	if ok1 && ok2 && a.Common().IsInvoke() && b.Common().IsInvoke() && a.Common().Method == b.Common().Method && km.Unwrap(a.Common().Value) == km.Unwrap(b.Common().Value) {
		return true
	}
	return false
}

// foundFlagOK: the boolean web is set true only under signerFP == <some fingerprint> and its false
// initialisation lies inside the iteration (after the fingerprint call), so a match for one signer cannot
// suppress the publication of the next.
func foundFlagOK(c *km.Ctx, flag *ssa.Phi, fpCall *ssa.Call, signerFP ssa.Value) bool {
	ok := true
	nTrue := 0
	seen := map[*ssa.Phi]bool{}
	var walk func(p *ssa.Phi)
	walk = func(p *ssa.Phi) {
		if seen[p] {
			return
		}
		seen[p] = true
		for i, e := range p.Edges {
			switch x := e.(type) {
			case *ssa.Phi:
				walk(x)
			case *ssa.Const:
				if x.Value == nil || x.Value.Kind() != constant.Bool {
					ok = false
					continue
				}
				pred := p.Block().Preds[i]
				if !constant.BoolVal(x.Value) {
					if !fpCall.Block().Dominates(pred) {
						ok = false
					}
					continue
				}
				nTrue++
				matched := false
				for _, f := range controllingFacts(c, pred) {
					if f.Op == token.EQL && (f.X == signerFP || f.Y == signerFP) {
						other := f.Y
						if f.Y == signerFP {
							other = f.X
						}
						if cl, idx := callRes(km.Unwrap(other)); cl != nil && idx == 0 && km.CalleeFull(cl.Common()) == KMD+".getKeyFingerprint" {
							matched = true
						}
					}
				}
				if !matched {
					ok = false
				}
			default:
				ok = false
			}
		}
	}
	walk(flag)
	return ok && nTrue > 0
}

// checkPublishedPEMPlain: the certificates the daemon hands out in PEM form are plain blocks. A block with headers
// is skipped by the certificate loaders (crypto/x509's AppendCertsFromPEM, OpenSSL): a published CA bundle made of
// such blocks contains, for its consumers, no CA at all.
func checkPublishedPEMPlain(c *km.Ctx, rule string) {
	n := 0
	for _, fn := range c.P.AllFuncs {
		if !c.InModule(fn) {
			continue
		}
		for _, ci := range km.CallsIn(fn) {
			name := km.CalleeFull(ci.Common())
			idx := -1
			switch name {
			case "encoding/pem.Encode":
				idx = 1
			case "encoding/pem.EncodeToMemory":
				idx = 0
			}
			if idx < 0 || idx >= len(ci.Common().Args) {
				continue
			}
			blk, ok := km.Unwrap(ci.Common().Args[idx]).(*ssa.Alloc)
			if !ok {
				continue // a block built elsewhere (the key writers of the configuration generator)
			}
			typ, hdr := "", ""
			for _, ref := range *blk.Referrers() {
				fa, ok := ref.(*ssa.FieldAddr)
				if !ok {
					continue
				}
				for _, r2 := range *fa.Referrers() {
					st, ok := r2.(*ssa.Store)
					if !ok || st.Addr != ssa.Value(fa) {
						continue
					}
					switch fieldNameOf(fa) {
					case "Type":
						typ, _ = evalString(c, st.Val, 0)
					case "Headers":
						if !km.IsNilConst(st.Val) {
							hdr = posOf(c, st)
						}
					}
				}
			}
			if typ != "CERTIFICATE" {
				continue
			}
			n++
			c.R.Add(rule, km.FuncName(fn), "certificate PEM block", posOf(c, ci), "Type CERTIFICATE and no headers (loaders skip blocks that carry headers)", "headers set at "+hdr, hdr == "")
			// the CA bundle the server publishes holds every CA certificate it has (a user certificate signed under
			// the second CA verifies against the published bundle too): the block's bytes are the element of a loop
			// over all of caCertDer, never one picked by a constant index
			for _, ref := range *blk.Referrers() {
				fa, ok := ref.(*ssa.FieldAddr)
				if !ok || fieldNameOf(fa) != "Bytes" {
					continue
				}
				for _, r2 := range *fa.Referrers() {
					st, ok := r2.(*ssa.Store)
					if !ok || st.Addr != ssa.Value(fa) {
						continue
					}
					u, isU := km.Unwrap(st.Val).(*ssa.UnOp)
					if !isU || u.Op != token.MUL {
						continue
					}
					ia, isIA := u.X.(*ssa.IndexAddr)
					if !isIA || !mentionsField(ia.X, "caCertDer") || km.NameOf(fn) != "publicPathHandler" {
						continue
					}
					_, constIdx := km.ConstInt(ia.Index)
					c.R.Add(rule, km.FuncName(fn), "published CA bundle", posOf(c, ci), "every certificate of caCertDer is encoded (a loop over all of it)", "index "+km.ValStr(ia.Index), !constIdx && isWholeRangeIndex(ia.Index))
				}
			}
		}
	}
	if n == 0 {
		c.R.AnchorLost(rule, "CERTIFICATE blocks encoded by the module")
	}
}

// checkPassphraseUnchanged: "only the correct passphrase unseals": the bytes the decryption is attempted with are
// the bytes that were submitted - the request's form value converted to bytes, handed through unsealCA and the
// decryption routine to the prompt callback without being trimmed, folded or otherwise rewritten (any such step
// makes a set of wrong passphrases work).
func checkPassphraseUnchanged(c *km.Ctx, unseal *ssa.Function) {
	r := c.R
	pg := c.P.Func("cmd/keymasterd", "pgpDecryptFileData")
	if pg == nil {
		return
	}
	pwPg, pwUn := km.ParamAt(pg, 1), km.ParamAt(unseal, 1)
	if pwPg == nil || pwUn == nil {
		r.AnchorLost("R-C09-2", "passphrase parameters of pgpDecryptFileData / unsealCA")
		return
	}
	isParamOf := func(v ssa.Value, p *ssa.Parameter) bool {
		v = km.Unwrap(v)
		if o := km.CellOrigin(v); o != nil {
			v = km.Unwrap(o)
		}
		return v == ssa.Value(p)
	}
	// (1) the prompt hands out the routine's parameter
	if len(pg.AnonFuncs) == 1 {
		prompt := pg.AnonFuncs[0]
		var mc *ssa.MakeClosure
		km.Instrs(pg, func(in ssa.Instruction) {
			if m, ok := in.(*ssa.MakeClosure); ok && m.Fn == ssa.Value(prompt) {
				mc = m
			}
		})
		n, good, desc := 0, true, ""
		km.Instrs(prompt, func(in ssa.Instruction) {
			switch x := in.(type) {
			case *ssa.Store:
				if _, isFV := x.Addr.(*ssa.FreeVar); isFV && x.Val.Type().String() == "[]byte" {
					good, desc = false, "the passphrase variable is rewritten in the prompt at "+posOf(c, in)
				}
			case *ssa.Return:
				if len(x.Results) == 0 || km.IsNilConst(x.Results[0]) {
					return
				}
				n++
				u, ok := km.Unwrap(x.Results[0]).(*ssa.UnOp)
				fv, isFV := (*ssa.FreeVar)(nil), false
				if ok {
					fv, isFV = u.X.(*ssa.FreeVar)
				}
				bound := false
				if isFV && mc != nil {
					for i, f := range prompt.FreeVars {
						if f == fv && i < len(mc.Bindings) {
							if cell, isA := mc.Bindings[i].(*ssa.Alloc); isA {
								bound = isParamOf(cell, pwPg)
							}
						}
					}
				}
				if !bound {
					good, desc = false, "the prompt returns "+clipS(km.ValStr(x.Results[0]), 80)
				}
			}
		})
		if desc == "" {
			desc = sprintf("%d return(s) of the parameter itself", n)
		}
		r.Add("R-C09-2", km.FuncName(pg), "the prompt hands out the passphrase it was given", c.P.Pos(prompt.Pos()), "the callback returns the routine's passphrase parameter, unmodified", desc, n > 0 && good)
	}
	// (2) unsealCA hands its parameter to each decryption
	nDec := 0
	for _, f := range callsWithNewHelpersFuncs(c, unseal, 2) {
		for _, ci := range km.CallsIn(f) {
			if km.StaticCallee(ci.Common()) != pg {
				continue
			}
			nDec++
			a := km.CallArgs(ci.Common())
			ok := false
			switch {
			case f == unseal:
				ok = isParamOf(a[1], pwUn)
			default:
				// a helper new to the tree: its own parameter, which unsealCA fills with the passphrase
				if hp, isP := km.Unwrap(a[1]).(*ssa.Parameter); isP {
					ok = true
					idx := -1
					for i, q := range f.Params {
						if q == hp {
							idx = i
						}
					}
					for _, cs := range c.G.Callers[f] {
						ca := cs.Instr.(ssa.CallInstruction).Common().Args
						if cs.Caller != unseal || idx < 0 || idx >= len(ca) || !isParamOf(ca[idx], pwUn) {
							ok = false
						}
					}
				}
			}
			r.Add("R-C09-2", km.FuncName(f), "decryption attempted with the submitted passphrase", posOf(c, ci), "pgpDecryptFileData(file, <unsealCA's passphrase parameter, as received>)", clipS(km.ValStr(a[1]), 100), ok)
		}
	}
	if nDec == 0 {
		r.AnchorLost("R-C09-2", "calls of pgpDecryptFileData from unsealCA")
	}
	// (3) the request handler passes the form value as it came
	if h := c.P.Func("cmd/keymasterd", "(*RuntimeState).secretInjectorHandler"); h != nil {
		n := 0
		for _, cs := range c.G.Callers[unseal] {
			if cs.Caller != h {
				continue
			}
			n++
			a := km.CallArgs(cs.Instr.(ssa.CallInstruction).Common())
			v := km.Unwrap(a[1])
			if cv, isCv := v.(*ssa.Convert); isCv {
				v = km.Unwrap(cv.X)
			}
			ok := derivesFromFormValue(v, "ssh_ca_password", 0)
			if u, isU := v.(*ssa.UnOp); isU && u.Op == token.MUL {
				// r.Form["ssh_ca_password"][0]
				if ia, isIA := u.X.(*ssa.IndexAddr); isIA {
					base := km.Unwrap(ia.X)
					if ex, isEx := base.(*ssa.Extract); isEx {
						base = ex.Tuple
					}
					if lk, isLk := base.(*ssa.Lookup); isLk {
						k, isK := km.ConstString(lk.Index)
						i0, isI := km.ConstInt(ia.Index)
						ok = isK && k == "ssh_ca_password" && isI && i0 == 0
					}
				}
			}
			r.Add("R-C09-2", km.FuncName(h), "the handler passes the posted passphrase as it came", posOf(c, cs.Instr), "unsealCA([]byte(<form value ssh_ca_password>), …)", clipS(km.ValStr(a[1]), 100), ok)
		}
		if n == 0 {
			r.AnchorLost("R-C09-2", "call of unsealCA in secretInjectorHandler")
		}
	}
}

// localFieldValue: v reads a field of a local record that is assigned exactly once in the function: the value that
// was assigned (v itself otherwise).
func localFieldValue(v ssa.Value) ssa.Value {
	u, ok := v.(*ssa.UnOp)
	if !ok || u.Op != token.MUL {
		return v
	}
	fa, ok := u.X.(*ssa.FieldAddr)
	if !ok {
		return v
	}
	al, ok := fa.X.(*ssa.Alloc)
	if !ok {
		return v
	}
	var val ssa.Value
	n := 0
	for _, ref := range *al.Referrers() {
		f2, isFA := ref.(*ssa.FieldAddr)
		if !isFA {
			if _, isDbg := ref.(*ssa.DebugRef); !isDbg {
				return v // the record escapes or is assigned whole
			}
			continue
		}
		if f2.Field != fa.Field {
			continue
		}
		for _, r2 := range *f2.Referrers() {
			if st, isSt := r2.(*ssa.Store); isSt && st.Addr == ssa.Value(f2) {
				val, n = km.Unwrap(st.Val), n+1
			}
		}
	}
	if n == 1 {
		return val
	}
	return v
}
