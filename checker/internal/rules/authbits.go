package rules

import (
	"go/token"
	"strings"

	"kmcheck/internal/km"

	"golang.org/x/tools/go/ssa"
)

// checkAuthBits decides what "admitted" means inside checkAuth (R-C01-3 / R-C06-5): each success return is
// classified by the credential branch it belongs to and must be dominated by that branch's verifier facts; each
// store of a credential bit or user name into the returned authInfo must be control-dependent on its verifier.
func checkAuthBits(c *km.Ctx, s *km.Sem, checkAuth *ssa.Function, rule string) {
	consts := authTypeConsts(c)
	bitPassword, bitX509, bitIP := consts["AuthTypePassword"], consts["AuthTypeKeymasterX509"], consts["AuthTypeIPCertificate"]
	if bitPassword == 0 || bitX509 == 0 || bitIP == 0 {
		c.R.AnchorLost(rule, "AuthTypePassword/AuthTypeKeymasterX509/AuthTypeIPCertificate constants")
		return
	}
	reqParam := paramNamed(checkAuth, 3) // requiredAuthType
	if reqParam == nil {
		c.R.AnchorLost(rule, "requiredAuthType parameter of checkAuth")
		return
	}

	errNilOf := func(callee string, idx int) km.Prim { return primErrNil(callee, callee, idx) }
	kmSigned := RS + "getUsernameIfKeymasterSigned"
	ipRestr := RS + "getUsernameIfIPRestricted"
	jwtInfo := RS + "getAuthInfoFromAuthJWT"

	nonEmptyResult := func(callee string, idx int) km.Prim {
		return km.Prim{Name: "nonempty " + callee, Direct: func(f km.Fact) bool {
			if f.Op != token.NEQ {
				return false
			}
			if cs, ok := km.ConstString(f.Y); !ok || cs != "" {
				return false
			}
			cl, i := callRes(f.X)
			return cl != nil && i == idx && km.CalleeFull(cl.Common()) == callee
		}}
	}
	// (required & mask) != 0 with mask containing bit
	maskTest := func(bit int64, exact bool) km.Prim {
		return km.Prim{Name: "required&bit!=0", Direct: func(f km.Fact) bool {
			if f.Op != token.NEQ {
				return false
			}
			if i, ok := km.ConstInt(f.Y); !ok || i != 0 {
				return false
			}
			b, ok := f.X.(*ssa.BinOp)
			if !ok || b.Op != token.AND {
				return false
			}
			var k ssa.Value
			if km.Unwrap(b.X) == reqParam {
				k = b.Y
			} else if km.Unwrap(b.Y) == reqParam {
				k = b.X
			} else {
				return false
			}
			m, ok := km.ConstInt(k)
			if !ok {
				return false
			}
			if exact {
				return m == bit
			}
			return m&bit != 0 && m&^(bitX509|bitIP) == 0
		}}
	}
	limiter := primErrNil("LimiterOK", RS+"checkPasswordAttemptLimit", 0)
	passwordOK := km.Prim{Name: "PasswordOK", Direct: func(f km.Fact) bool {
		if f.Op != token.ILLEGAL || !f.Pol {
			return false
		}
		cl, idx := callRes(f.X)
		return cl != nil && idx == 0 && km.CalleeFull(cl.Common()) == KMD+".checkUserPassword"
	}}
	passwordErrNil := errNilOf(KMD+".checkUserPassword", 1)
	tlsPresent := km.Prim{Name: "r.TLS!=nil", Direct: func(f km.Fact) bool {
		if f.Op != token.NEQ || !km.IsNilConst(f.Y) {
			return false
		}
		x, fld, ok := km.FieldOfLoad(f.X)
		return ok && fld == "TLS" && km.NamedTypeOf(x.Type()) == "net/http.Request"
	}}
	chainsPresent := km.Prim{Name: "len(VerifiedChains)>0", Direct: func(f km.Fact) bool {
		if f.Op != token.GTR && f.Op != token.GEQ && f.Op != token.NEQ {
			return false
		}
		i, ok := km.ConstInt(f.Y)
		if !ok || !((f.Op == token.GTR && i == 0) || (f.Op == token.GEQ && i == 1) || (f.Op == token.NEQ && i == 0)) {
			return false
		}
		cl, ok := f.X.(*ssa.Call)
		if !ok {
			return false
		}
		if bi, ok := cl.Common().Value.(*ssa.Builtin); !ok || bi.Name() != "len" {
			return false
		}
		return mentionsField(cl.Common().Args[0], "VerifiedChains")
	}}
	notExpired := km.Prim{Name: "¬ExpiresAt.Before(now)", Direct: func(f km.Fact) bool {
		if f.Op != token.ILLEGAL || f.Pol {
			return false
		}
		cl, ok := f.X.(*ssa.Call)
		if !ok || km.CalleeFull(cl.Common()) != "(time.Time).Before" {
			return false
		}
		a := cl.Common().Args
		if !mentionsField(a[0], "ExpiresAt") {
			return false
		}
		nc, ok := km.Unwrap(a[1]).(*ssa.Call)
		return ok && km.CalleeFull(nc.Common()) == "time.Now"
	}}
	levelAccepted := km.Prim{Name: "(AuthType&required)!=0", Direct: func(f km.Fact) bool {
		if f.Op != token.NEQ {
			return false
		}
		if i, ok := km.ConstInt(f.Y); !ok || i != 0 {
			return false
		}
		b, ok := f.X.(*ssa.BinOp)
		if !ok || b.Op != token.AND {
			return false
		}
		return (km.Unwrap(b.X) == reqParam && mentionsField(b.Y, "AuthType")) || (km.Unwrap(b.Y) == reqParam && mentionsField(b.X, "AuthType"))
	}}
	userNonEmpty := km.Prim{Name: "authData.Username!=\"\"", Direct: func(f km.Fact) bool {
		if f.Op != token.NEQ {
			return false
		}
		if cs, ok := km.ConstString(f.Y); !ok || cs != "" {
			return false
		}
		return mentionsField(f.X, "Username")
	}}

	need := func(in ssa.Instruction, construct string, ps ...km.Prim) {
		st := c.F.At(in)
		var missing []string
		var names []string
		for _, p := range ps {
			names = append(names, p.Name)
			if !st.All(func(k km.Conj) bool { return s.Holds(k, p) }) {
				missing = append(missing, p.Name)
			}
		}
		found := "all verifier facts dominate"
		if len(missing) > 0 {
			found = "not dominated by: " + strings.Join(missing, ", ") + "; state " + clipS(st.String(), 300)
		}
		c.R.Add(rule, km.FuncName(checkAuth), construct, posOf(c, in), strings.Join(names, " ∧ "), found, len(missing) == 0)
	}

	// --- stores into authInfo fields
	nBits := 0
	km.Instrs(checkAuth, func(in ssa.Instruction) {
		st, ok := in.(*ssa.Store)
		if !ok {
			return
		}
		fa, ok := st.Addr.(*ssa.FieldAddr)
		if !ok || km.NamedTypeOf(fa.X.Type()) != KMD+".authInfo" {
			return
		}
		field := fieldNameOf(fa)
		switch field {
		case "AuthType":
			bits, plain := orConstBits(st.Val, fa)
			if !plain {
				c.R.Add(rule, km.FuncName(checkAuth), "store authInfo.AuthType (unrecognised value)", posOf(c, in), "AuthType is built only by OR-ing credential constants", km.ValStr(st.Val), false)
				return
			}
			if bits&^(bitPassword|bitX509|bitIP) != 0 {
				c.R.Add(rule, km.FuncName(checkAuth), "store authInfo.AuthType (foreign bit)", posOf(c, in), "checkAuth itself grants only password / keymaster-certificate / IP-certificate", sprintf("%#x", bits), false)
				return
			}
			if bits&bitX509 != 0 {
				nBits++
				need(in, "grant AuthTypeKeymasterX509", errNilOf(kmSigned, 2), nonEmptyResult(kmSigned, 0), tlsPresent, chainsPresent, maskTest(bitX509, false))
			}
			if bits&bitIP != 0 {
				nBits++
				need(in, "grant AuthTypeIPCertificate", errNilOf(ipRestr, 2), errNilOf(ipRestr, 3), tlsPresent, chainsPresent, maskTest(bitIP, true))
			}
			if bits&bitPassword != 0 {
				nBits++
				need(in, "grant AuthTypePassword", limiter, passwordOK, passwordErrNil, maskTest(bitPassword, true))
			}
		case "Username":
			v := km.Unwrap(st.Val)
			cl, idx := callRes(v)
			switch {
			case cl != nil && km.CalleeFull(cl.Common()) == kmSigned && idx == 0:
				need(in, "set Username from keymaster certificate", errNilOf(kmSigned, 2), nonEmptyResult(kmSigned, 0))
			case cl != nil && km.CalleeFull(cl.Common()) == ipRestr && idx == 0:
				need(in, "set Username from IP certificate", errNilOf(ipRestr, 2), errNilOf(ipRestr, 3))
			case cl != nil && km.CalleeFull(cl.Common()) == RS+"reprocessUsername":
				need(in, "set Username from basic-auth", limiter, passwordOK)
				// and the password was checked for this same value
				okSame := false
				km.Instrs(checkAuth, func(i2 ssa.Instruction) {
					if c2, ok := i2.(*ssa.Call); ok && km.CalleeFull(c2.Common()) == KMD+".checkUserPassword" && km.Unwrap(c2.Common().Args[0]) == v {
						okSame = true
					}
				})
				c.R.Add(rule, km.FuncName(checkAuth), "basic-auth user is the one whose password was checked", posOf(c, in), "checkUserPassword(user,…) and authInfo.Username use the same normalised value", sprintf("same value=%v", okSame), okSame)
			default:
				c.R.Add(rule, km.FuncName(checkAuth), "set Username (unrecognised source)", posOf(c, in), "user name comes from a verifier result", km.ValStr(st.Val), false)
			}
		}
	})
	if nBits < 2 {
		c.R.AnchorLost(rule, sprintf("credential-bit grants in checkAuth (found %d, expected at least 2)", nBits))
	}

	checkIPRestrictedHelper(c, s, rule)

	// --- success returns
	for _, rc := range s.RetCases(checkAuth) {
		if len(rc.Results) != 2 || !km.IsNilConst(rc.Results[1]) {
			continue
		}
		v := km.Unwrap(rc.Results[0])
		a, isAlloc := v.(*ssa.Alloc)
		switch {
		case isAlloc && allocStoresWhole(a, jwtInfo):
			need(rc.Ret, "success return (session cookie)", errNilOf(jwtInfo, 1), notExpired, levelAccepted)
		case isAlloc && allocHasFieldStoreOf(a, "AuthType", bitPassword):
			need(rc.Ret, "success return (basic auth)", limiter, passwordOK, passwordErrNil, maskTest(bitPassword, true))
		case isAlloc:
			need(rc.Ret, "success return (client certificate)", tlsPresent, chainsPresent, userNonEmpty, maskTest(bitX509, false))
		default:
			c.R.Add(rule, km.FuncName(checkAuth), "success return (unrecognised credential branch)", posOf(c, rc.Ret), "every success return belongs to the certificate, basic-auth or cookie branch", km.ValStr(v), false)
		}
	}
}

func paramNamed(fn *ssa.Function, idx int) *ssa.Parameter {
	if idx < len(fn.Params) {
		return fn.Params[idx]
	}
	return nil
}

func fieldNameOf(fa *ssa.FieldAddr) string {
	s := km.ValStr(fa)
	if i := strings.LastIndex(s, "."); i >= 0 {
		return s[i+1:]
	}
	return s
}

// orConstBits: v is K, or (load of the same field) | K [| K2 ...]; returns the OR of the constants.
func orConstBits(v ssa.Value, fa *ssa.FieldAddr) (int64, bool) {
	v = km.Unwrap(v)
	if i, ok := km.ConstInt(v); ok {
		return i, true
	}
	if b, ok := v.(*ssa.BinOp); ok && b.Op == token.OR {
		l, okl := orConstBits(b.X, fa)
		r, okr := orConstBits(b.Y, fa)
		return l | r, okl && okr
	}
	if u, ok := v.(*ssa.UnOp); ok && u.Op == token.MUL {
		if f2, ok := u.X.(*ssa.FieldAddr); ok && f2.X == fa.X && f2.Field == fa.Field {
			return 0, true
		}
	}
	return 0, false
}

// allocStoresWhole: the alloc cell is initialised by storing result #0 of a call to callee.
func allocStoresWhole(a *ssa.Alloc, callee string) bool {
	for _, ref := range *a.Referrers() {
		if st, ok := ref.(*ssa.Store); ok && st.Addr == a {
			cl, idx := callRes(km.Unwrap(st.Val))
			if cl != nil && idx == 0 && km.CalleeFull(cl.Common()) == callee {
				return true
			}
		}
	}
	return false
}

func allocHasFieldStoreOf(a *ssa.Alloc, field string, val int64) bool {
	for _, ref := range *a.Referrers() {
		fa, ok := ref.(*ssa.FieldAddr)
		if !ok || fieldNameOf(fa) != field {
			continue
		}
		for _, r2 := range *fa.Referrers() {
			if st, ok := r2.(*ssa.Store); ok {
				if i, ok := km.ConstInt(st.Val); ok && i == val {
					return true
				}
			}
		}
	}
	return false
}

// checkIPRestrictedHelper: the IP-certificate helper admits a client only when the TCP peer address (not a
// header) lies in the certificate's netblocks and the name is a configured automation identity.
func checkIPRestrictedHelper(c *km.Ctx, s *km.Sem, rule string) {
	fn := c.MustFunc(rule, "cmd/keymasterd", "(*RuntimeState).getUsernameIfIPRestricted")
	if fn == nil {
		return
	}
	verify := certgenPkg + ".VerifyIPRestrictedX509CertIP"
	n := 0
	for _, ci := range km.CallsIn(fn) {
		if km.CalleeFull(ci.Common()) != verify {
			continue
		}
		n++
		addr := km.Unwrap(ci.Common().Args[1])
		x, path, ok := km.FieldPath(addr)
		good := ok && path == "RemoteAddr" && km.NamedTypeOf(x.Type()) == "net/http.Request"
		c.R.Add(rule, km.FuncName(fn), "peer address given to VerifyIPRestrictedX509CertIP", posOf(c, ci), "the address checked against the netblocks is the TCP peer address r.RemoteAddr (never a client-supplied header)", km.ValStr(addr), good)
		// the certificate is the verified leaf
		cert := km.Unwrap(ci.Common().Args[0])
		okCert := isVerifiedLeaf(cert)
		c.R.Add(rule, km.FuncName(fn), "certificate given to VerifyIPRestrictedX509CertIP", posOf(c, ci), "the certificate checked is VerifiedChains[0][0]", km.ValStr(cert), okCert)
	}
	if n == 0 {
		c.R.AnchorLost(rule, "call of VerifyIPRestrictedX509CertIP in getUsernameIfIPRestricted")
		return
	}
	validIP := km.Prim{Name: "validIP", Direct: func(f km.Fact) bool {
		cl, idx := callRes(f.X)
		return f.Op == token.ILLEGAL && f.Pol && cl != nil && idx == 0 && km.CalleeFull(cl.Common()) == verify
	}}
	verifyErrNil := primErrNil("verify err==nil", verify, 1)
	autoOK := km.Prim{Name: "isAutomationUser", Direct: func(f km.Fact) bool {
		cl, idx := callRes(f.X)
		return f.Op == token.ILLEGAL && f.Pol && cl != nil && idx == 0 && km.CalleeFull(cl.Common()) == RS+"isAutomationUser"
	}}
	autoErrNil := primErrNil("isAutomationUser err==nil", RS+"isAutomationUser", 1)
	for _, rc := range s.RetCases(fn) {
		if len(rc.Results) != 4 || !km.IsNilConst(rc.Results[2]) || !km.IsNilConst(rc.Results[3]) {
			continue
		}
		var missing []string
		for _, p := range []km.Prim{validIP, verifyErrNil, autoOK, autoErrNil} {
			if !rc.State.All(func(k km.Conj) bool { return s.Holds(k, p) }) {
				missing = append(missing, p.Name)
			}
		}
		c.R.Add(rule, km.FuncName(fn), "success return of the IP-certificate helper", posOf(c, rc.Ret), "peer inside the certificate's netblocks ∧ no decode error ∧ name is an automation identity", sprintf("missing=%v", missing), len(missing) == 0)
	}
}

// isVerifiedLeaf: v is VerifiedChains[0][0] (load of IndexAddr(load of IndexAddr(param/field VerifiedChains,0),0))
func isVerifiedLeaf(v ssa.Value) bool {
	u, ok := v.(*ssa.UnOp)
	if !ok || u.Op != token.MUL {
		return false
	}
	ia, ok := u.X.(*ssa.IndexAddr)
	if !ok {
		return false
	}
	if i, ok := km.ConstInt(ia.Index); !ok || i != 0 {
		return false
	}
	u2, ok := ia.X.(*ssa.UnOp)
	if !ok || u2.Op != token.MUL {
		return false
	}
	ia2, ok := u2.X.(*ssa.IndexAddr)
	if !ok {
		return false
	}
	if i, ok := km.ConstInt(ia2.Index); !ok || i != 0 {
		return false
	}
	switch x := ia2.X.(type) {
	case *ssa.Parameter:
		return strings.Contains(x.Name(), "Chains") || strings.Contains(x.Type().String(), "x509.Certificate")
	default:
		return mentionsField(ia2.X, "VerifiedChains")
	}
}
