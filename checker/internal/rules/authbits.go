package rules

import (
	"go/token"
	"sort"
	"strings"

	"kmcheck/internal/km"

	"golang.org/x/tools/go/ssa"
)

// checkAuthBits decides what "admitted" means inside checkAuth (R-C01-3 / R-C06-5): each success return is
// classified by the credential branch it belongs to and must be dominated by that branch's verifier facts; each
// store of a credential bit or user name into the returned authInfo must be control-dependent on its verifier.
func checkAuthBits(c *km.Ctx, s *km.Sem, checkAuth *ssa.Function, rule string) {
	consts := authTypeConsts(c)
	bitPassword, bitX509, bitIP := consts["AuthTypePassword"], consts["AuthTypeKeymasterX509"], consts["AuthTypeIPCertificate"]
	if bitPassword == 0 || bitX509 == 0 || bitIP == 0 {
		c.R.AnchorLost(rule, "AuthTypePassword/AuthTypeKeymasterX509/AuthTypeIPCertificate constants")
		return
	}
	reqParam := paramNamed(checkAuth, 3) // requiredAuthType
	if reqParam == nil {
		c.R.AnchorLost(rule, "requiredAuthType parameter of checkAuth")
		return
	}

	errNilOf := func(callee string, idx int) km.Prim { return primErrNil(callee, callee, idx) }
	kmSigned := RS + "getUsernameIfKeymasterSigned"
	ipRestr := RS + "getUsernameIfIPRestricted"
	jwtInfo := RS + "getAuthInfoFromAuthJWT"
	// checkAuth may be split into branch helpers (checkBasicAuth, checkAuthCookie, checkAuthTLSCerts, ...): the
	// family is checkAuth plus the keymasterd functions it reaches that hand back an *authInfo, the verifiers and
	// the failure writer excluded
	famStop := map[*ssa.Function]bool{}
	for _, n := range []string{"(*RuntimeState).getUsernameIfKeymasterSigned", "(*RuntimeState).getUsernameIfIPRestricted", "(*RuntimeState).getAuthInfoFromAuthJWT", "(*RuntimeState).getAuthInfoFromJWT", "checkUserPassword", "(*RuntimeState).writeFailureResponse", "(*RuntimeState).checkPasswordAttemptLimit"} {
		if f := c.P.Func("cmd/keymasterd", n); f != nil {
			famStop[f] = true
		}
	}
	fam := map[*ssa.Function]bool{checkAuth: true}
	for f := range reachableFrom(c, famStop, checkAuth) {
		if famStop[f] || f.Pkg == nil || !pkgIsKMD(f.Pkg) {
			continue
		}
		res := f.Signature.Results()
		for i := 0; i < res.Len(); i++ {
			if km.NamedTypeOf(res.At(i).Type()) == KMD+".authInfo" {
				fam[f] = true
			}
		}
		// a stage cut out of checkAuth into a function new to the tree (working on a request-scoped record)
		if !c.P.IsRecorded(f) && f.Parent() == nil {
			fam[f] = true
		}
	}
	roots := map[*ssa.Function]bool{checkAuth: true}
	// "the IP-certificate verifier accepted": every error it reports is nil - its error results, or, when it hands
	// back one struct, the error-typed fields of that struct (tested directly or inside a method of the struct)
	var ipAccepted []km.Prim
	if ipFn := c.P.Func("cmd/keymasterd", "(*RuntimeState).getUsernameIfIPRestricted"); ipFn != nil {
		res := ipFn.Signature.Results()
		if st := structOf(res.At(0).Type()); res.Len() == 1 && st != nil {
			for i := 0; i < st.NumFields(); i++ {
				if !isErrorType(st.Field(i).Type()) {
					continue
				}
				fld := km.RecordedField(res.At(0).Type(), st.Field(i).Name())
				ipAccepted = append(ipAccepted, km.Prim{Name: ipRestr + " result." + fld + " == nil", Rel: func(f km.Fact, resolve func(ssa.Value) ssa.Value) bool {
					if f.Op != token.EQL || !km.IsNilConst(f.Y) {
						return false
					}
					base, fl, ok := km.FieldOfLoad(km.Unwrap(f.X))
					if !ok || fl != fld {
						return false
					}
					cl, _ := callRes(km.CellOrigin(resolve(base)))
					return cl != nil && km.CalleeFull(cl.Common()) == ipRestr
				}})
			}
		} else {
			for i := 0; i < res.Len(); i++ {
				if isErrorType(res.At(i).Type()) {
					ipAccepted = append(ipAccepted, errNilOf(ipRestr, i))
				}
			}
		}
	}
	if len(ipAccepted) == 0 {
		c.R.AnchorLost(rule, "error results of getUsernameIfIPRestricted")
		return
	}
	// the required-mask value: checkAuth's parameter, or a helper parameter every family caller binds to it
	var isReq func(v ssa.Value, depth int) bool
	isReq = func(v ssa.Value, depth int) bool {
		v = km.Unwrap(v)
		if v == ssa.Value(reqParam) {
			return true
		}
		// a field of a request-scoped record new to the tree: every store into that field is the mask
		if base, fld, isF := km.FieldOfLoad(v); isF && depth <= 3 {
			if tn := km.NamedTypeOf(base.Type()); tn != "" && km.IsNewNamedType(tn) {
				n := 0
				okAll := true
				for f := range fam {
					km.Instrs(f, func(in ssa.Instruction) {
						st, isSt := in.(*ssa.Store)
						if !isSt {
							return
						}
						fa, isFA := st.Addr.(*ssa.FieldAddr)
						if !isFA || km.NamedTypeOf(fa.X.Type()) != tn || fieldNameOf(fa) != fld {
							return
						}
						n++
						if !isReq(st.Val, depth+1) {
							okAll = false
						}
					})
				}
				return n > 0 && okAll
			}
		}
		p, ok := v.(*ssa.Parameter)
		if !ok || depth > 3 || !fam[p.Parent()] || p.Parent() == checkAuth {
			return false
		}
		idx := -1
		for i, q := range p.Parent().Params {
			if q == p {
				idx = i
			}
		}
		n := 0
		for _, cs := range c.G.Callers[p.Parent()] {
			if !fam[cs.Caller] {
				continue
			}
			ci, ok := cs.Instr.(ssa.CallInstruction)
			if !ok {
				return false
			}
			a := km.CallArgs(ci.Common())
			if idx < 0 || idx >= len(a) || !isReq(a[idx], depth+1) {
				return false
			}
			n++
		}
		return n > 0
	}

	nonEmptyResult := func(callee string, idx int) km.Prim {
		return km.Prim{Name: "nonempty " + callee, Direct: func(f km.Fact) bool {
			if f.Op != token.NEQ {
				return false
			}
			if cs, ok := km.ConstString(f.Y); !ok || cs != "" {
				return false
			}
			cl, i := callRes(f.X)
			return cl != nil && i == idx && km.CalleeFull(cl.Common()) == callee
		}}
	}
	// (required & mask) != 0 with mask containing bit
	maskTest := func(bit int64, exact bool) km.Prim {
		return km.Prim{Name: "required&bit!=0", Direct: func(f km.Fact) bool {
			if f.Op != token.NEQ {
				return false
			}
			if i, ok := km.ConstInt(f.Y); !ok || i != 0 {
				return false
			}
			b, ok := f.X.(*ssa.BinOp)
			if !ok || b.Op != token.AND {
				return false
			}
			var k ssa.Value
			if isReq(b.X, 0) {
				k = b.Y
			} else if isReq(b.Y, 0) {
				k = b.X
			} else {
				return false
			}
			m, ok := km.ConstInt(k)
			if !ok {
				return false
			}
			if exact {
				return m == bit
			}
			return m&bit != 0 && m&^(bitX509|bitIP) == 0
		}}
	}
	limiter := primErrNil("LimiterOK", RS+"checkPasswordAttemptLimit", 0)
	passwordOK := km.Prim{Name: "PasswordOK", Direct: func(f km.Fact) bool {
		if f.Op != token.ILLEGAL || !f.Pol {
			return false
		}
		cl, idx := callRes(f.X)
		return cl != nil && idx == 0 && km.CalleeFull(cl.Common()) == KMD+".checkUserPassword"
	}}
	passwordErrNil := errNilOf(KMD+".checkUserPassword", 1)
	tlsPresent := km.Prim{Name: "r.TLS!=nil", Direct: func(f km.Fact) bool {
		if f.Op != token.NEQ || !km.IsNilConst(f.Y) {
			return false
		}
		x, fld, ok := km.FieldOfLoad(f.X)
		return ok && fld == "TLS" && km.NamedTypeOf(x.Type()) == "net/http.Request"
	}}
	chainsPresent := km.Prim{Name: "len(VerifiedChains)>0", Direct: func(f km.Fact) bool {
		if f.Op != token.GTR && f.Op != token.GEQ && f.Op != token.NEQ {
			return false
		}
		i, ok := km.ConstInt(f.Y)
		if !ok || !((f.Op == token.GTR && i == 0) || (f.Op == token.GEQ && i == 1) || (f.Op == token.NEQ && i == 0)) {
			return false
		}
		cl, ok := f.X.(*ssa.Call)
		if !ok {
			return false
		}
		if bi, ok := cl.Common().Value.(*ssa.Builtin); !ok || bi.Name() != "len" {
			return false
		}
		return mentionsField(cl.Common().Args[0], "VerifiedChains")
	}}
	notExpired := km.Prim{Name: "¬ExpiresAt.Before(now)", Rel: func(f km.Fact, resolve func(ssa.Value) ssa.Value) bool {
		isNow := func(v ssa.Value) bool {
			nc, ok := km.Unwrap(resolve(v)).(*ssa.Call)
			return ok && km.CalleeFull(nc.Common()) == "time.Now"
		}
		if f.Op == token.ILLEGAL {
			cl, ok := f.X.(*ssa.Call)
			if !ok {
				return false
			}
			a := cl.Common().Args
			switch km.CalleeFull(cl.Common()) {
			case "(time.Time).Before": // ¬ExpiresAt.Before(now)
				return !f.Pol && mentionsField(a[0], "ExpiresAt") && isNow(a[1])
			case "(time.Time).After": // ExpiresAt.After(now)
				return f.Pol && mentionsField(a[0], "ExpiresAt") && isNow(a[1])
			}
			return false
		}
		// time.Until(ExpiresAt) >= 0
		if f.Op == token.GEQ || f.Op == token.GTR {
			if cl, ok := f.X.(*ssa.Call); ok && km.CalleeFull(cl.Common()) == "time.Until" && mentionsField(cl.Common().Args[0], "ExpiresAt") {
				i, ok := km.ConstInt(f.Y)
				return ok && i == 0
			}
		}
		return false
	}}
	levelAccepted := km.Prim{Name: "(AuthType&required)!=0", Direct: func(f km.Fact) bool {
		if f.Op != token.NEQ {
			return false
		}
		if i, ok := km.ConstInt(f.Y); !ok || i != 0 {
			return false
		}
		b, ok := f.X.(*ssa.BinOp)
		if !ok || b.Op != token.AND {
			return false
		}
		return (isReq(b.X, 0) && mentionsField(b.Y, "AuthType")) || (isReq(b.Y, 0) && mentionsField(b.X, "AuthType"))
	}}
	userNonEmpty := km.Prim{Name: "authData.Username!=\"\"", Direct: func(f km.Fact) bool {
		if f.Op != token.NEQ {
			return false
		}
		if cs, ok := km.ConstString(f.Y); !ok || cs != "" {
			return false
		}
		return mentionsField(f.X, "Username")
	}}

	need := func(in ssa.Instruction, construct string, ps ...km.Prim) {
		st := c.F.At(in)
		var missing []string
		var names []string
		for _, p := range ps {
			names = append(names, p.Name)
			// locally, or - inside a branch helper - at every call of the helper from the family
			if ok, _ := s.HoldsOnPathsWithin(in, allPrims(s, p), roots, fam, 4); !ok {
				missing = append(missing, p.Name)
			}
		}
		found := "all verifier facts dominate"
		if len(missing) > 0 {
			found = "not dominated by: " + strings.Join(missing, ", ") + "; state " + clipS(st.String(), 300)
		}
		c.R.Add(rule, km.FuncName(in.Parent()), construct, posOf(c, in), strings.Join(names, " ∧ "), found, len(missing) == 0)
	}
	// needK: the same for one conjunction of facts (a leaf reached through helper returns)
	missingIn := func(k km.Conj, ps ...km.Prim) []string {
		var missing []string
		for _, p := range ps {
			if !s.Holds(k, p) {
				missing = append(missing, p.Name)
			}
		}
		return missing
	}
	famFns := sortedFuncs(fam)

	// --- stores into authInfo fields
	nBits := 0
	for _, ffn := range famFns {
		ffn := ffn
		km.Instrs(ffn, func(in ssa.Instruction) {
			st, ok := in.(*ssa.Store)
			if !ok {
				return
			}
			fa, ok := st.Addr.(*ssa.FieldAddr)
			if !ok || km.NamedTypeOf(fa.X.Type()) != KMD+".authInfo" {
				return
			}
			field := fieldNameOf(fa)
			switch field {
			case "AuthType":
				bits, plain := orConstBits(st.Val, fa)
				if !plain {
					c.R.Add(rule, km.FuncName(ffn), "store authInfo.AuthType (unrecognised value)", posOf(c, in), "AuthType is built only by OR-ing credential constants", km.ValStr(st.Val), false)
					return
				}
				if bits&^(bitPassword|bitX509|bitIP) != 0 {
					c.R.Add(rule, km.FuncName(ffn), "store authInfo.AuthType (foreign bit)", posOf(c, in), "checkAuth itself grants only password / keymaster-certificate / IP-certificate", sprintf("%#x", bits), false)
					return
				}
				if bits&bitX509 != 0 {
					nBits++
					need(in, "grant AuthTypeKeymasterX509", errNilOf(kmSigned, 2), nonEmptyResult(kmSigned, 0), tlsPresent, chainsPresent, maskTest(bitX509, false))
				}
				if bits&bitIP != 0 {
					nBits++
					need(in, "grant AuthTypeIPCertificate", append(append([]km.Prim{}, ipAccepted...), tlsPresent, chainsPresent, maskTest(bitIP, true))...)
				}
				if bits&bitPassword != 0 {
					nBits++
					need(in, "grant AuthTypePassword", limiter, passwordOK, passwordErrNil, maskTest(bitPassword, true))
				}
			case "Username":
				// where the stored name comes from, followed through helpers that return the normalised name
				stopAt := func(cl *ssa.Call) bool {
					n := km.CalleeFull(cl.Common())
					return n == kmSigned || n == ipRestr || n == RS+"reprocessUsername"
				}
				kinds := map[string]bool{}
				okAll := true
				var problems []string
				for _, k := range c.F.At(in) {
					for _, lf := range s.Leaves(k, ffn, nil, st.Val, stopAt, 3) {
						cl, idx := callRes(lf.Val)
						if cl == nil {
							// a field of the struct a verifier handed back
							if base, _, isF := km.FieldOfLoad(km.Unwrap(lf.Val)); isF {
								if c2, _ := callRes(km.CellOrigin(base)); c2 != nil && km.CalleeFull(c2.Common()) == ipRestr && fieldCarriesUserName(c2, lf.Val) {
									cl, idx = c2, 0
								}
							}
						}
						switch {
						case cl != nil && km.CalleeFull(cl.Common()) == kmSigned && idx == 0:
							kinds["keymaster certificate"] = true
						case cl != nil && km.CalleeFull(cl.Common()) == ipRestr && idx == 0:
							kinds["IP certificate"] = true
						case cl != nil && km.CalleeFull(cl.Common()) == RS+"reprocessUsername":
							kinds["basic-auth"] = true
							// the password was checked for this same value, in the frame that produced it
							okSame := false
							km.Instrs(lf.Fn, func(i2 ssa.Instruction) {
								if c2, ok := i2.(*ssa.Call); ok && km.CalleeFull(c2.Common()) == KMD+".checkUserPassword" && km.Unwrap(c2.Common().Args[0]) == lf.Val {
									okSame = true
								}
							})
							if !okSame {
								okAll = false
								problems = appendUniq(problems, "checkUserPassword was not called with the value stored as Username")
							}
							if lf.Fn != ffn {
								// produced by a helper: the helper's facts carry the limiter and the verdict
								if m := missingIn(lf.K, limiter, passwordOK); len(m) > 0 {
									okAll = false
									problems = appendUniq(problems, "not dominated by: "+strings.Join(m, ", "))
								}
							}
						default:
							okAll = false
							problems = appendUniq(problems, "unrecognised source "+km.ValStr(lf.Val))
						}
					}
				}
				switch {
				case kinds["keymaster certificate"] && len(kinds) == 1:
					need(in, "set Username from keymaster certificate", errNilOf(kmSigned, 2), nonEmptyResult(kmSigned, 0))
				case kinds["IP certificate"] && len(kinds) == 1:
					need(in, "set Username from IP certificate", ipAccepted...)
				case kinds["basic-auth"] && len(kinds) == 1:
					need(in, "set Username from basic-auth", limiter, passwordOK)
					c.R.Add(rule, km.FuncName(ffn), "basic-auth user is the one whose password was checked", posOf(c, in), "checkUserPassword(user,…) and authInfo.Username use the same normalised value", sprintf("%v", problems), okAll)
				default:
					c.R.Add(rule, km.FuncName(ffn), "set Username (unrecognised source)", posOf(c, in), "user name comes from one verifier's result", sprintf("sources=%v %v", kinds, problems), false)
				}
			}
		})
	}
	if nBits < 2 {
		c.R.AnchorLost(rule, sprintf("credential-bit grants in checkAuth (found %d, expected at least 2)", nBits))
	}

	checkIPRestrictedHelper(c, s, rule)

	// --- success returns (followed through the branch helpers)
	classify := func(lf km.Leaf) (string, []km.Prim) {
		a, isAlloc := lf.Val.(*ssa.Alloc)
		switch {
		case isAlloc && allocStoresWhole(a, jwtInfo):
			return "session cookie", []km.Prim{errNilOf(jwtInfo, 1), notExpired, levelAccepted}
		case isAlloc && allocHasFieldStoreOf(a, "AuthType", bitPassword):
			return "basic auth", []km.Prim{limiter, passwordOK, passwordErrNil, maskTest(bitPassword, true)}
		case isAlloc:
			return "client certificate", []km.Prim{tlsPresent, chainsPresent, userNonEmpty, maskTest(bitX509, false)}
		}
		return "unrecognised credential branch", nil
	}
	for _, rc := range s.RetCases(checkAuth) {
		if len(rc.Results) != 2 || !km.IsNilConst(rc.Results[1]) {
			continue
		}
		byKind := map[string][]string{}
		for _, k := range rc.State {
			for _, lf := range s.Leaves(k, checkAuth, rc.Ret, rc.Results[0], nil, 3) {
				kind, ps := classify(lf)
				if ps == nil {
					byKind[kind] = appendUniq(byKind[kind], km.ValStr(lf.Val))
					continue
				}
				if _, seen := byKind[kind]; !seen {
					byKind[kind] = nil
				}
				for _, p := range ps {
					if s.Holds(lf.K, p) {
						continue
					}
					// a fact established in checkAuth before the helper was called is in the union already; a
					// mask test made by checkAuth around the call likewise
					byKind[kind] = appendUniq(byKind[kind], p.Name)
				}
			}
		}
		var kinds []string
		for kd := range byKind {
			kinds = append(kinds, kd)
		}
		sort.Strings(kinds)
		for _, kd := range kinds {
			missing := byKind[kd]
			sort.Strings(missing)
			if kd == "unrecognised credential branch" {
				c.R.Add(rule, km.FuncName(checkAuth), "success return (unrecognised credential branch)", posOf(c, rc.Ret), "every success return belongs to the certificate, basic-auth or cookie branch", strings.Join(missing, ", "), false)
				continue
			}
			found := "all verifier facts dominate"
			if len(missing) > 0 {
				found = "not dominated by: " + strings.Join(missing, ", ")
			}
			c.R.Add(rule, km.FuncName(checkAuth), "success return ("+kd+")", posOf(c, rc.Ret), "the verifier facts of the "+kd+" branch", found, len(missing) == 0)
		}
	}
}

func paramNamed(fn *ssa.Function, idx int) *ssa.Parameter {
	if idx < len(fn.Params) {
		return fn.Params[idx]
	}
	return nil
}

func fieldNameOf(fa *ssa.FieldAddr) string {
	s := km.ValStr(fa)
	if i := strings.LastIndex(s, "."); i >= 0 {
		return s[i+1:]
	}
	return s
}

// orConstBits: v is K, or (load of the same field) | K [| K2 ...]; returns the OR of the constants.
func orConstBits(v ssa.Value, fa *ssa.FieldAddr) (int64, bool) {
	v = km.Unwrap(v)
	if i, ok := km.ConstInt(v); ok {
		return i, true
	}
	if b, ok := v.(*ssa.BinOp); ok && b.Op == token.OR {
		l, okl := orConstBits(b.X, fa)
		r, okr := orConstBits(b.Y, fa)
		return l | r, okl && okr
	}
	if u, ok := v.(*ssa.UnOp); ok && u.Op == token.MUL {
		if f2, ok := u.X.(*ssa.FieldAddr); ok && f2.Field == fa.Field && (f2.X == fa.X || sameFieldAddrBase(f2.X, fa.X, 0)) {
			return 0, true
		}
	}
	return 0, false
}

// allocStoresWhole: the alloc cell is initialised by storing result #0 of a call to callee.
func allocStoresWhole(a *ssa.Alloc, callee string) bool {
	for _, ref := range *a.Referrers() {
		if st, ok := ref.(*ssa.Store); ok && st.Addr == a {
			cl, idx := callRes(km.Unwrap(st.Val))
			if cl != nil && idx == 0 && km.CalleeFull(cl.Common()) == callee {
				return true
			}
		}
	}
	return false
}

func allocHasFieldStoreOf(a *ssa.Alloc, field string, val int64) bool {
	for _, ref := range *a.Referrers() {
		fa, ok := ref.(*ssa.FieldAddr)
		if !ok || fieldNameOf(fa) != field {
			continue
		}
		for _, r2 := range *fa.Referrers() {
			if st, ok := r2.(*ssa.Store); ok {
				if i, ok := km.ConstInt(st.Val); ok && i == val {
					return true
				}
			}
		}
	}
	return false
}

// checkIPRestrictedHelper: the IP-certificate helper admits a client only when the TCP peer address (not a
// header) lies in the certificate's netblocks and the name is a configured automation identity.
func checkIPRestrictedHelper(c *km.Ctx, s *km.Sem, rule string) {
	fn := c.MustFunc(rule, "cmd/keymasterd", "(*RuntimeState).getUsernameIfIPRestricted")
	if fn == nil {
		return
	}
	verify := certgenPkg + ".VerifyIPRestrictedX509CertIP"
	n := 0
	// the call may sit in a small helper of the IP-certificate function: the helper's parameters are then the
	// arguments the IP-certificate function passes
	type site struct {
		ci      ssa.CallInstruction
		in      *ssa.Function
		through ssa.CallInstruction // the call in fn that leads to `in` (nil when in == fn)
	}
	var sites []site
	for _, ci := range km.CallsIn(fn) {
		if km.CalleeFull(ci.Common()) == verify {
			sites = append(sites, site{ci, fn, nil})
			continue
		}
		if g := km.StaticCallee(ci.Common()); g != nil && g.Blocks != nil && c.InModule(g) && g != fn {
			for _, c2 := range km.CallsIn(g) {
				if km.CalleeFull(c2.Common()) == verify {
					sites = append(sites, site{c2, g, ci})
				}
			}
		}
	}
	for _, st := range sites {
		ci := st.ci
		n++
		inFn := func(v ssa.Value) ssa.Value {
			v = km.Unwrap(v)
			if p, isP := v.(*ssa.Parameter); isP && st.through != nil {
				args := km.CallArgs(st.through.Common())
				for i, q := range st.in.Params {
					if q == p && i < len(args) {
						return km.Unwrap(args[i])
					}
				}
			}
			return v
		}
		addr := inFn(ci.Common().Args[1])
		isPeer := func(v ssa.Value) bool {
			x, path, ok := km.FieldPath(km.Unwrap(v))
			return ok && path == "RemoteAddr" && km.NamedTypeOf(x.Type()) == "net/http.Request"
		}
		good := isPeer(addr)
		found := km.ValStr(addr)
		if p, isP := addr.(*ssa.Parameter); isP && p.Parent() == fn && !good {
			// the address handed in by the callers of the IP-certificate function: every one of them passes the
			// peer address of its request
			idx := -1
			for i, q := range fn.Params {
				if q == p {
					idx = i
				}
			}
			callers := c.G.Callers[fn]
			good = idx >= 0 && len(callers) > 0
			found = "parameter " + p.Name() + ":"
			for _, cs := range callers {
				cc := cs.Instr.(ssa.CallInstruction).Common()
				if cc.IsInvoke() || idx >= len(cc.Args) || km.StaticCallee(cc) != fn {
					good = false
					found += " (unresolved call in " + km.FuncName(cs.Caller) + ")"
					continue
				}
				found += " " + km.ValStr(cc.Args[idx]) + " in " + km.FuncName(cs.Caller)
				if !isPeer(cc.Args[idx]) {
					good = false
				}
			}
		}
		c.R.Add(rule, km.FuncName(fn), "peer address given to VerifyIPRestrictedX509CertIP", posOf(c, ci), "the address checked against the netblocks is the TCP peer address r.RemoteAddr (never a client-supplied header)", clipS(found, 200), good)
		// the certificate is the verified leaf
		cert := inFn(ci.Common().Args[0])
		okCert := isVerifiedLeaf(cert)
		c.R.Add(rule, km.FuncName(fn), "certificate given to VerifyIPRestrictedX509CertIP", posOf(c, ci), "the certificate checked is VerifiedChains[0][0]", km.ValStr(cert), okCert)
	}
	if n == 0 {
		c.R.AnchorLost(rule, "call of VerifyIPRestrictedX509CertIP in getUsernameIfIPRestricted")
		return
	}
	validIP := km.Prim{Name: "validIP", Direct: func(f km.Fact) bool {
		cl, idx := callRes(f.X)
		return f.Op == token.ILLEGAL && f.Pol && cl != nil && idx == 0 && km.CalleeFull(cl.Common()) == verify
	}}
	verifyErrNil := primErrNil("verify err==nil", verify, 1)
	autoOK := km.Prim{Name: "isAutomationUser", Direct: func(f km.Fact) bool {
		cl, idx := callRes(f.X)
		return f.Op == token.ILLEGAL && f.Pol && cl != nil && idx == 0 && km.CalleeFull(cl.Common()) == RS+"isAutomationUser"
	}}
	autoErrNil := primErrNil("isAutomationUser err==nil", RS+"isAutomationUser", 1)
	nAcc := 0
	for _, rc := range s.RetCases(fn) {
		// an accepting return reports no error: nil in every error result, or - for a result struct - no error
		// stored into any of its error fields
		accepting := true
		if len(rc.Results) == 1 {
			sy := km.SymOf(rc.Results[0])
			if sy == nil || sy.Op != "struct" {
				c.R.Add(rule, km.FuncName(fn), "result of the IP-certificate helper", posOf(c, rc.Ret), "a struct literal (or the classic result tuple)", km.ValStr(rc.Results[0]), false)
				continue
			}
			st := structOf(rc.Results[0].Type())
			for i := 0; st != nil && i < st.NumFields(); i++ {
				if isErrorType(st.Field(i).Type()) {
					if f, has := sy.Fields[st.Field(i).Name()]; has && !(f.Op == "const" && km.IsNilConst(f.Val)) {
						accepting = false
					}
				}
			}
		} else {
			for i, v := range rc.Results {
				if isErrorType(fn.Signature.Results().At(i).Type()) && !km.IsNilConst(v) {
					accepting = false
				}
			}
		}
		if !accepting {
			continue
		}
		nAcc++
		var missing []string
		for _, p := range []km.Prim{validIP, verifyErrNil, autoOK, autoErrNil} {
			if !rc.State.All(func(k km.Conj) bool { return s.Holds(k, p) }) {
				missing = append(missing, p.Name)
			}
		}
		c.R.Add(rule, km.FuncName(fn), "success return of the IP-certificate helper", posOf(c, rc.Ret), "peer inside the certificate's netblocks ∧ no decode error ∧ name is an automation identity", sprintf("missing=%v", missing), len(missing) == 0)
	}
	if nAcc == 0 {
		c.R.AnchorLost(rule, "accepting return of getUsernameIfIPRestricted")
	}
	// the revocation verdict the function acts on is the revocation check's own: the check is called here, and
	// what is tested are its results (a wrapper that stops waiting and answers "could not check" turns a slow
	// responder into an admission)
	nRev := 0
	for _, ci := range km.CallsIn(fn) {
		if km.CalleeFull(ci.Common()) == "github.com/cloudflare/cfssl/revoke.VerifyCertificateError" {
			nRev++
		}
	}
	c.R.Add(rule, km.FuncName(fn), "revocation check", c.P.Pos(fn.Pos()), "revoke.VerifyCertificateError is called by the IP-certificate function itself and its verdict is the one tested", sprintf("direct calls=%d", nRev), nRev > 0)
}

// isVerifiedLeaf: v is VerifiedChains[0][0] (load of IndexAddr(load of IndexAddr(param/field VerifiedChains,0),0))
func isVerifiedLeaf(v ssa.Value) bool {
	u, ok := v.(*ssa.UnOp)
	if !ok || u.Op != token.MUL {
		return false
	}
	ia, ok := u.X.(*ssa.IndexAddr)
	if !ok {
		return false
	}
	if i, ok := km.ConstInt(ia.Index); !ok || i != 0 {
		return false
	}
	u2, ok := ia.X.(*ssa.UnOp)
	if !ok || u2.Op != token.MUL {
		return false
	}
	ia2, ok := u2.X.(*ssa.IndexAddr)
	if !ok {
		return false
	}
	if i, ok := km.ConstInt(ia2.Index); !ok || i != 0 {
		return false
	}
	switch x := ia2.X.(type) {
	case *ssa.Parameter:
		return strings.Contains(x.Name(), "Chains") || strings.Contains(x.Type().String(), "x509.Certificate")
	default:
		return mentionsField(ia2.X, "VerifiedChains")
	}
}

// fieldCarriesUserName: v reads a string field of the struct call returns, and every return of the callee that
// stores that field stores the certificate's subject common name (the verified client name) or nothing.
func fieldCarriesUserName(call *ssa.Call, v ssa.Value) bool {
	_, fld, ok := km.FieldOfLoad(km.Unwrap(v))
	g := km.StaticCallee(call.Common())
	if !ok || g == nil || g.Blocks == nil {
		return false
	}
	n := 0
	for _, b := range g.Blocks {
		ret, isRet := b.Instrs[len(b.Instrs)-1].(*ssa.Return)
		if !isRet {
			continue
		}
		rv := km.ReturnValues(ret)[0]
		if cst, isC := km.Unwrap(rv).(*ssa.Const); isC && cst.Value == nil {
			continue // the zero record of a refusing return: no name in it
		}
		sy := km.SymOf(rv)
		if sy == nil || sy.Op != "struct" {
			return false
		}
		f, has := sy.Fields[fld]
		if !has {
			continue
		}
		if f.Op == "field" && f.Name == "CommonName" {
			n++
			continue
		}
		if f.Op == "val" && mentionsField(f.Val, "CommonName") {
			n++
			continue
		}
		return false
	}
	return n > 0
}

// sameFieldAddrBase: two address computations denote the same nested field of the same root (&p.a.b computed twice).
func sameFieldAddrBase(a, b ssa.Value, depth int) bool {
	if a == b {
		return true
	}
	if depth > 4 {
		return false
	}
	fa, ok1 := a.(*ssa.FieldAddr)
	fb, ok2 := b.(*ssa.FieldAddr)
	if ok1 && ok2 {
		return fa.Field == fb.Field && sameFieldAddrBase(fa.X, fb.X, depth+1)
	}
	// a pointer field loaded twice from the same place
	ua, ok1 := a.(*ssa.UnOp)
	ub, ok2 := b.(*ssa.UnOp)
	if ok1 && ok2 && ua.Op == token.MUL && ub.Op == token.MUL {
		return sameFieldAddrBase(ua.X, ub.X, depth+1)
	}
	return false
}
