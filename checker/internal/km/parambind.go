package km

import (
	"sort"
	"strings"

	"golang.org/x/tools/go/ssa"
)

// Parameter bindings. A refactor that turns a method reading its configuration from the receiver into a function
// that is handed the same configuration (lists, a bound method to look something up) does not change what is
// compared with what; the rules, however, recognise the configuration by the field path it is read from. For the
// parameters such a refactor introduces - parameters of functions new to the tree, and parameters of recorded
// functions that the recorded signature does not have - the argument is looked up at every call: when the function
// is only ever called directly and every call passes the same field path from a value of the same type (or the same
// method bound to such a value), the parameter stands for that argument: FieldPath continues through it, and a call
// through it is a call of the bound method.

var paramBind = map[*ssa.Parameter]ssa.Value{}

// BoundParam: the argument every caller passes for p (nil when there is no such single argument).
func BoundParam(p *ssa.Parameter) ssa.Value { return paramBind[p] }

func bindKey(v ssa.Value, depth int) string {
	v = Unwrap(v)
	switch x := v.(type) {
	case *ssa.MakeClosure:
		f, ok := x.Fn.(*ssa.Function)
		if !ok || !strings.HasSuffix(f.Name(), "$bound") || len(x.Bindings) != 1 {
			return ""
		}
		if rp, ok := CellOrigin(Unwrap(x.Bindings[0])).(*ssa.Parameter); ok {
			return "bound:" + f.String() + ":" + NamedTypeOf(rp.Type())
		}
		return ""
	case *ssa.Parameter:
		if depth < 3 {
			if b := paramBind[x]; b != nil {
				return bindKey(b, depth+1)
			}
		}
		return ""
	}
	root, path, ok := fieldPathRaw(v)
	if !ok {
		return ""
	}
	rp, isP := CellOrigin(Unwrap(root)).(*ssa.Parameter) // a captured receiver lives in a cell
	if !isP || NamedTypeOf(rp.Type()) == "" {
		return ""
	}
	return "path:" + NamedTypeOf(rp.Type()) + ":" + path
}

func computeParamBindings(p *Prog) {
	paramBind = map[*ssa.Parameter]ssa.Value{}
	addrTaken := map[*ssa.Function]bool{}
	sites := map[*ssa.Function][][]ssa.Value{}
	for _, fn := range p.AllFuncs {
		for _, b := range fn.Blocks {
			for _, in := range b.Instrs {
				for _, op := range in.Operands(nil) {
					if op == nil || *op == nil {
						continue
					}
					if f, ok := (*op).(*ssa.Function); ok {
						if ci, isCall := in.(ssa.CallInstruction); !isCall || ci.Common().Value != ssa.Value(f) {
							addrTaken[f] = true
						}
					}
				}
				ci, ok := in.(ssa.CallInstruction)
				if !ok || ci.Common().IsInvoke() {
					continue
				}
				if g, ok := ci.Common().Value.(*ssa.Function); ok && g.Blocks != nil {
					sites[g] = append(sites[g], ci.Common().Args)
				}
			}
		}
	}
	var fns []*ssa.Function
	for g := range sites {
		fns = append(fns, g)
	}
	sort.Slice(fns, func(i, j int) bool { return fns[i].String() < fns[j].String() })
	// two rounds: an argument may itself be a bound parameter of the caller
	for round := 0; round < 2; round++ {
		for _, g := range fns {
			if addrTaken[g] || g.Parent() != nil || g.Pkg == nil || !strings.HasPrefix(g.Pkg.Pkg.Path(), ModPath) {
				continue
			}
			eligible := map[int]bool{}
			if _, rec := pinnedByName[recordedString(g.String())]; rec {
				o := recordedOrder(g)
				if o == nil {
					continue
				}
				claimed := map[int]bool{}
				for _, j := range o {
					if j >= 0 {
						claimed[j] = true
					}
				}
				for i := range g.Params {
					if !claimed[i] {
						eligible[i] = true
					}
				}
			} else {
				for i := range g.Params {
					eligible[i] = true
				}
			}
			for i, q := range g.Params {
				if !eligible[i] || paramBind[q] != nil {
					continue
				}
				key, okAll := "", true
				for _, args := range sites[g] {
					if i >= len(args) {
						okAll = false
						break
					}
					k := bindKey(args[i], 0)
					if k == "" || (key != "" && k != key) {
						okAll = false
						break
					}
					key = k
				}
				if okAll && key != "" {
					paramBind[q] = Unwrap(sites[g][0][i])
					RenameNotes = append(RenameNotes, "parameter "+q.Name()+" of "+strings.ReplaceAll(g.String(), ModPath+"/", "")+" stands for "+key[strings.Index(key, ":")+1:]+" at every call")
				}
			}
		}
	}
}

// boundMethodParam: the bound-method closure a function-typed parameter stands for.
func boundMethodParam(v ssa.Value) *ssa.MakeClosure {
	p, ok := v.(*ssa.Parameter)
	if !ok {
		return nil
	}
	b := paramBind[p]
	for i := 0; i < 3 && b != nil; i++ {
		if mc, ok := b.(*ssa.MakeClosure); ok {
			return mc
		}
		if p2, ok := b.(*ssa.Parameter); ok {
			b = paramBind[p2]
			continue
		}
		break
	}
	return nil
}
