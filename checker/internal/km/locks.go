package km

import (
	"sort"
	"strings"

	"golang.org/x/tools/go/ssa"
)

// LockSets: forward must-lockset analysis. A lock is identified by the printed form of the mutex address
// (e.g. "&state.Mutex"); `defer mu.Unlock()` keeps the lock held until the function returns.
type LockSets struct {
	memo map[*ssa.Function]map[ssa.Instruction]map[string]bool
}

func NewLockSets() *LockSets {
	return &LockSets{memo: map[*ssa.Function]map[ssa.Instruction]map[string]bool{}}
}

func lockOp(in ssa.Instruction) (kind string, mu string) {
	ci, ok := in.(ssa.CallInstruction)
	if !ok {
		return "", ""
	}
	name := CalleeFull(ci.Common())
	var op string
	switch name {
	case "(*sync.Mutex).Lock", "(*sync.RWMutex).Lock", "(*sync.RWMutex).RLock":
		op = "lock"
	case "(*sync.Mutex).Unlock", "(*sync.RWMutex).Unlock", "(*sync.RWMutex).RUnlock":
		op = "unlock"
	default:
		return "", ""
	}
	args := CallArgs(ci.Common())
	if len(args) == 0 {
		return "", ""
	}
	term := lockTerm(args[0])
	if _, isDefer := in.(*ssa.Defer); isDefer {
		if op == "unlock" {
			return "defer-unlock", term
		}
		return "", ""
	}
	if _, isGo := in.(*ssa.Go); isGo {
		return "", ""
	}
	return op, term
}

// lockTerm canonicalises the mutex address: field path relative to its base value's type.
func lockTerm(v ssa.Value) string {
	s := ValStr(v)
	s = strings.TrimPrefix(s, "&")
	// strip the base variable name so that the same field of the same receiver type matches across functions
	if fa, ok := v.(*ssa.FieldAddr); ok {
		return NamedTypeOf(fa.X.Type()) + "." + fieldName(fa.X.Type(), fa.Field)
	}
	if u, ok := v.(*ssa.UnOp); ok {
		if g, ok := u.X.(*ssa.Global); ok {
			return "global:" + g.Name()
		}
	}
	return s
}

// Held returns the set of locks that are certainly held just before each instruction of fn.
func (l *LockSets) Held(fn *ssa.Function) map[ssa.Instruction]map[string]bool {
	if m, ok := l.memo[fn]; ok {
		return m
	}
	in := map[*ssa.BasicBlock]map[string]bool{}
	out := map[*ssa.BasicBlock]map[string]bool{}
	res := map[ssa.Instruction]map[string]bool{}
	if len(fn.Blocks) == 0 {
		l.memo[fn] = res
		return res
	}
	order := rpo(fn)
	transfer := func(b *ssa.BasicBlock, start map[string]bool, record bool) map[string]bool {
		cur := map[string]bool{}
		for k := range start {
			cur[k] = true
		}
		for _, ins := range b.Instrs {
			if record {
				cp := make(map[string]bool, len(cur))
				for k := range cur {
					cp[k] = true
				}
				res[ins] = cp
			}
			switch kind, mu := lockOp(ins); kind {
			case "lock":
				cur[mu] = true
			case "unlock":
				delete(cur, mu)
			}
		}
		return cur
	}
	for iter := 0; iter < 30; iter++ {
		changed := false
		for _, b := range order {
			var start map[string]bool
			if b == fn.Blocks[0] {
				start = map[string]bool{}
			} else {
				first := true
				for _, p := range b.Preds {
					o, ok := out[p]
					if !ok {
						continue
					}
					if first {
						start = map[string]bool{}
						for k := range o {
							start[k] = true
						}
						first = false
					} else {
						for k := range start {
							if !o[k] {
								delete(start, k)
							}
						}
					}
				}
				if first {
					continue
				}
			}
			in[b] = start
			o := transfer(b, start, false)
			if !sameSet(out[b], o) || out[b] == nil {
				out[b] = o
				changed = true
			}
		}
		if !changed {
			break
		}
	}
	for _, b := range order {
		if s, ok := in[b]; ok {
			transfer(b, s, true)
		}
	}
	l.memo[fn] = res
	return res
}

func sameSet(a, b map[string]bool) bool {
	if len(a) != len(b) {
		return false
	}
	for k := range a {
		if !b[k] {
			return false
		}
	}
	return true
}

// HeldAt returns the sorted list of locks certainly held at the instruction.
func (l *LockSets) HeldAt(in ssa.Instruction) []string {
	m := l.Held(in.Parent())[in]
	var out []string
	for k := range m {
		out = append(out, k)
	}
	sort.Strings(out)
	return out
}

func (l *LockSets) Holds(in ssa.Instruction, mu string) bool {
	return l.Held(in.Parent())[in][mu]
}
