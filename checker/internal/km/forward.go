package km

import (
	"encoding/json"
	"go/token"
	"go/types"
	"strings"

	"golang.org/x/tools/go/ssa"
)

// A function that is new to the tree and does nothing but hand its parameters (or constants) to one other function
// and return that function's results unchanged is a forwarding wrapper (an adapter put in for testability, a method
// that became a function and kept a thin method, a context-less wrapper around the context form). A call of the
// wrapper is treated as a call of the function it forwards to: StaticCallee, CalleeFull and CallArgs answer for the
// inner call, with the arguments in the inner function's order. Recorded functions are never looked through.

type forwardInfo struct {
	inner *ssa.Function
	// for each argument of the inner call: the index of the wrapper parameter it is (>= 0), or -1 with konst set
	argParam []int
	konst    []ssa.Value
}

var forwardMemo = map[*ssa.Function]*forwardInfo{}

// bodyMovedOut: recorded functions that have become forwarding wrappers around a function new to the tree (their
// old body lives there now): the new function takes over the recorded identity and the wrapper is looked through.
var bodyMovedOut = map[*ssa.Function]bool{}
var recordedFuncNames = map[string]bool{}

func forwardOf(g *ssa.Function) *forwardInfo {
	if g == nil || g.Blocks == nil || len(recordedFuncNames) == 0 {
		return nil
	}
	if fi, ok := forwardMemo[g]; ok {
		return fi
	}
	forwardMemo[g] = nil
	if (recordedFuncNames[recordedString(g.String())] && !bodyMovedOut[g]) || g.Parent() != nil || g.Synthetic != "" {
		return nil
	}
	var call *ssa.Call
	var ret *ssa.Return
	for _, b := range g.Blocks {
		for _, in := range b.Instrs {
			switch x := in.(type) {
			case *ssa.Call:
				if _, isB := x.Common().Value.(*ssa.Builtin); isB {
					return nil
				}
				// a nullary library call whose result is only handed on (context.Background()) is an argument
				if len(x.Common().Args) == 0 && !x.Common().IsInvoke() {
					if f, isF := x.Common().Value.(*ssa.Function); isF && f.Blocks == nil {
						continue
					}
				}
				if call != nil {
					return nil
				}
				call = x
			case *ssa.Return:
				if ret != nil {
					return nil
				}
				ret = x
			case *ssa.Extract, *ssa.DebugRef, *ssa.Alloc, *ssa.UnOp, *ssa.MakeInterface, *ssa.ChangeType, *ssa.ChangeInterface, *ssa.FieldAddr, *ssa.Field:
			case *ssa.If, *ssa.Jump, *ssa.Convert:
				// several blocks only for choosing the function value (below); a conversion of a parameter handed on
			case *ssa.Phi:
				// a function value with a fallback: hook := x.hook; if hook == nil { hook = pkg.Default }
				if _, isSig := x.Type().Underlying().(*types.Signature); !isSig {
					return nil
				}
			case *ssa.BinOp:
				if (x.Op != token.EQL && x.Op != token.NEQ) || !(IsNilConst(x.X) || IsNilConst(x.Y)) {
					return nil
				}
				if _, isSig := x.X.Type().Underlying().(*types.Signature); !isSig {
					return nil
				}
			case *ssa.Store:
				// the spill of a value receiver / parameter into its own cell
				if _, isP := x.Val.(*ssa.Parameter); !isP {
					return nil
				}
				if _, isA := x.Addr.(*ssa.Alloc); !isA {
					return nil
				}
			default:
				return nil
			}
		}
	}
	if call == nil || ret == nil || !(call.Block() == ret.Block() || call.Block().Dominates(ret.Block())) {
		return nil
	}
	inner := StaticCallee(call.Common())
	if inner == nil || inner == g {
		return nil
	}
	// results handed back unchanged and in order
	n := inner.Signature.Results().Len()
	if len(ret.Results) != n {
		return nil
	}
	for i, rv := range ret.Results {
		rv = Unwrap(rv)
		if n == 1 {
			if rv != ssa.Value(call) {
				return nil
			}
			continue
		}
		ex, ok := rv.(*ssa.Extract)
		if !ok || ex.Tuple != ssa.Value(call) || ex.Index != i {
			return nil
		}
	}
	fi := &forwardInfo{inner: inner}
	for _, a := range CallArgs(call.Common()) {
		av := CellOrigin(Unwrap(a))
		if cv, isCv := av.(*ssa.Convert); isCv {
			// string(password): the parameter in another representation
			if _, isP := CellOrigin(Unwrap(cv.X)).(*ssa.Parameter); isP {
				av = CellOrigin(Unwrap(cv.X))
			}
		}
		idx := -1
		for i, p := range g.Params {
			if ssa.Value(p) == av {
				idx = i
			}
		}
		if idx < 0 {
			_, isC := av.(*ssa.Const)
			isF := plainFuncValue(av) != nil
			isPath := false
			if root, _, ok := fieldPathRaw(av); ok {
				// a field of one of the wrapper's parameters (the receiver's configuration handed on)
				// - only towards a function of the module (the body that was moved out), never a library call
				if rp, isP := CellOrigin(Unwrap(root)).(*ssa.Parameter); isP && rp.Parent() == g && inner.Blocks != nil && inner.Pkg != nil && strings.HasPrefix(inner.Pkg.Pkg.Path(), ModPath) {
					isPath = true
				}
			}
			if !isC && !isF && !isPath {
				if cl, isCall := av.(*ssa.Call); !isCall || len(cl.Common().Args) != 0 || cl.Common().IsInvoke() {
					return nil // neither a parameter, a constant, a function nor a nullary call (context.Background())
				}
			}
		}
		fi.argParam = append(fi.argParam, idx)
		fi.konst = append(fi.konst, av)
	}
	forwardMemo[g] = fi
	RenameNotes = append(RenameNotes, "forwarding wrapper "+g.String()+" looked through to "+inner.String())
	return fi
}

func computeRecordedNames() {
	recordedFuncNames = map[string]bool{}
	forwardMemo = map[*ssa.Function]*forwardInfo{}
	var tab []PinnedFunc
	if err := json.Unmarshal(pinnedFuncsJSON, &tab); err != nil {
		return
	}
	for _, pf := range tab {
		recordedFuncNames[pf.Name] = true
	}
}

// adoptMovedBodies: a recorded function that is now nothing but a forward to a function new to the tree has had its
// body moved there (typically with an extra parameter for a dependency): the new function is treated as the
// recorded one, the remaining wrapper as a forwarding wrapper.
func adoptMovedBodies(p *Prog) {
	bodyMovedOut = map[*ssa.Function]bool{}
	for _, f := range namedFuncs(p) {
		name := f.String()
		if !recordedFuncNames[name] || renamed[name] != "" {
			continue
		}
		bodyMovedOut[f] = true
		delete(forwardMemo, f)
		nNotes := len(RenameNotes)
		fi := forwardOf(f)
		RenameNotes = RenameNotes[:nNotes]
		if fi == nil || fi.inner.Pkg != f.Pkg || recordedFuncNames[recordedString(fi.inner.String())] || fi.inner.Blocks == nil {
			delete(bodyMovedOut, f)
			delete(forwardMemo, f)
			continue
		}
		if _, taken := renamed[fi.inner.String()]; taken {
			delete(bodyMovedOut, f)
			delete(forwardMemo, f)
			continue
		}
		renamed[fi.inner.String()] = name
		restored[name] = fi.inner
		delete(recordedOrderMemo, fi.inner)
		RenameNotes = append(RenameNotes, "body of "+name+" moved to "+fi.inner.String()+" (the recorded name now stands for it)")
	}
}
