package km

import (
	"fmt"
	"sort"
	"strings"

	"golang.org/x/tools/go/ssa"
)

// Route is one Handle/HandleFunc registration found in main.main.
type Route struct {
	Pattern  string
	Mux      string        // "service" (the http.NewServeMux() value) or "default" (http.DefaultServeMux)
	Handler  *ssa.Function // resolved entry function for HandleFunc registrations (nil for handler values)
	HandlerV string        // description of the handler value for Handle registrations
	Pos      string
	Cond     string // controlling condition if registered under an if
	Instr    ssa.Instruction
}

// Routes extracts the route table from cmd/keymasterd main.main.
func (p *Prog) Routes() ([]Route, error) {
	mainFn := p.Func("cmd/keymasterd", "main")
	if mainFn == nil {
		return nil, fmt.Errorf("cmd/keymasterd.main not found")
	}
	var routes []Route
	var err error
	Instrs(mainFn, func(in ssa.Instruction) {
		call, ok := in.(*ssa.Call)
		if !ok {
			return
		}
		name := CalleeFull(call.Common())
		var pat, h ssa.Value
		mux := ""
		switch name {
		case "(*net/http.ServeMux).HandleFunc", "(*net/http.ServeMux).Handle":
			args := call.Call.Args
			if c, ok := args[0].(*ssa.Call); ok && CalleeFull(c.Common()) == "net/http.NewServeMux" {
				mux = "service"
			} else {
				err = fmt.Errorf("%s: registration on an unrecognised mux value %s", p.InstrPos(in), ValStr(args[0]))
				return
			}
			pat, h = args[1], args[2]
		case "net/http.HandleFunc", "net/http.Handle":
			mux = "default"
			pat, h = call.Call.Args[0], call.Call.Args[1]
		default:
			return
		}
		ps, ok := ConstString(pat)
		if !ok {
			err = fmt.Errorf("%s: non-constant route pattern", p.InstrPos(in))
			return
		}
		r := Route{Pattern: ps, Mux: mux, Pos: p.InstrPos(in), Instr: in}
		if strings.HasSuffix(name, "HandleFunc") {
			switch hv := h.(type) {
			case *ssa.MakeClosure:
				f := hv.Fn.(*ssa.Function)
				if strings.HasSuffix(f.Name(), "$bound") {
					r.Handler = boundTarget(p, f)
				} else {
					r.Handler = f
				}
			case *ssa.Function:
				r.Handler = hv
			}
			if r.Handler == nil {
				err = fmt.Errorf("%s: unresolvable handler function for %q: %s", p.InstrPos(in), ps, ValStr(h))
				return
			}
		} else {
			r.HandlerV = ValStr(h)
			// resolve a handler value of a module type with a ServeHTTP method
			if mi, ok := h.(*ssa.MakeInterface); ok {
				if fn := p.methodOf(mi.X.Type(), "ServeHTTP"); fn != nil && fn.Blocks != nil {
					r.Handler = fn
				}
			}
		}
		// controlling condition: walk the dominator chain while block has a single predecessor ending in If
		b := in.Block()
		var conds []string
		for b != nil && len(b.Preds) == 1 {
			pr := b.Preds[0]
			if iff, ok := pr.Instrs[len(pr.Instrs)-1].(*ssa.If); ok {
				c := ValStr(iff.Cond)
				if pr.Succs[1] == b {
					c = "!(" + c + ")"
				}
				conds = append(conds, c)
			}
			b = pr
		}
		r.Cond = strings.Join(conds, " && ")
		routes = append(routes, r)
	})
	if err != nil {
		return nil, err
	}
	sort.SliceStable(routes, func(i, j int) bool {
		if routes[i].Mux != routes[j].Mux {
			return routes[i].Mux > routes[j].Mux
		}
		return routes[i].Pattern < routes[j].Pattern
	})
	return routes, nil
}

// ServiceRoots returns the resolved handler functions of all service-mux routes.
func ServiceRoots(routes []Route) []*ssa.Function {
	var out []*ssa.Function
	seen := map[*ssa.Function]bool{}
	for _, r := range routes {
		if r.Mux == "service" && r.Handler != nil && !seen[r.Handler] {
			seen[r.Handler] = true
			out = append(out, r.Handler)
		}
	}
	return out
}
